/-
C07 — a remote transaction is accepted as proof of delivery only if its call data is the compass
encoding of exactly that message and its receipt reports success; a transaction is used at most
once; success effects are applied at most once.

Model: `Model/Attest.lean` (`verifyAgainstTx`, `attest`, `step`, `run`) on top of
`Model/SignBytes.lean` and `Model/Abi.lean`; encoder facts from `Props/Abi.lean`
(`calldata_injective`, `encode_prefix_free`), field-level facts from `Props/C05.lean`.

Reading guide.
* `ExactFor m data` is the specification "`data` is the bridge-contract encoding of the stored
  message `m`"; `Action.mustCarry` is the hand-written list of what that encoding carries — the id
  in it is the QUEUE id of the message (`QMsg.id`), the valset id the one the snapshot effect is
  keyed by.
* The success effects named by the property are EXECUTABLE keeper state (`Chain.liveOn` — snapshot
  listings of the chain, with multiplicity —, `Chain.deployments` / `Chain.activeContract`,
  `Chain.userActive`); §4b proves the per-id frame (`success_effects_frame`), ties that state to the
  history (`keeper_state_provenance`, `live_snapshot_provenance`, `user_deployment_provenance`,
  `bridge_contract_provenance`) and the ghost effect log to it (`applySuccess_live_count`,
  `live_listings_are_the_logged_effects`, `effect_entries_describe_the_state_change`).
* §9 says, per action, what the call data BINDS (`what_the_calldata_binds`) and what it does not
  (`calldata_does_not_bind`): update-valset, compass handover and compass upload encodings carry NO
  message id; twin messages are interchangeable (`calldata_does_not_identify_the_message`, reproduced
  on the implementation by the harness).
* Histories: `run {} ops`.  The two logs `St.accepted` / `St.effects` are NOT trusted: the
  theorems `accepted_log_is_history` / `effect_log_is_history` prove that they are functions of the
  history (an entry ⇔ an accepting attestation step at some point `ops = pre ++ op :: post`), and the
  at-most-once / single-use theorems are stated on the history itself (`Accepts (run {} pre) op id p`).
* External ASSUMPTIONS (named in the statements that need them): `NoCollOn hp evs` — the proof hash
  (sha256) does not collide on the proofs submitted for one message; `QMsg.Wf` / `OpsWf` — the ranges
  of the Go types (uint64 ids and powers, 20-byte addresses, lengths below 2^256); the environment op
  `setChain` (all other keeper activity) is arbitrary; "quorum" is the Libcons tally as it is
  (`quorum_is_the_libcons_tally`; one evidence entry per validator and `snap.total` = sum of shares are
  C04's subject).
-/
import PalomaModel.Model.Attest
import PalomaModel.Props.C05
import PalomaModel.Props.C04

namespace Paloma.Attest
open Paloma.Abi Paloma.SignBytes

/-! ## specification vocabulary -/

/-- `data` is the call data `VerifyAgainstTX` computes for the stored message `m` — with the QUEUE
id `m.id` as message id — under a non-empty prefix of the collected signatures (for a compass
upload: bytecode followed by the constructor input). -/
def ExactFor (m : QMsg) (data : Bytes) : Prop :=
  (isUp m.action = true ∧ data = upData m.action) ∨
  (isUp m.action = false ∧ ∃ d i, m.action.delivered m.id = some d ∧ 1 ≤ i ∧ i ≤ m.sigs.length ∧
      data = calldata d.1 d.2.1 d.2.2 (consensusV m.valset (m.sigs.take i)))

/-- HAND-WRITTEN list of what the property says the call data of the message stored under queue
id `id` must carry after the consensus tuple: the method and, in the order of the compass ABI,
action arguments, fees and fee payer, MESSAGE ID (`id`, the key of `St.accepted` / `Effect.msg`),
deadline, relayer, elected estimate; for an update-valset the new validator set with the snapshot
id `vid` that `Effect.snapshotLive` is keyed by. -/
def Action.mustCarry (a : Action) (id : Nat) : Option (Bytes × List V) :=
  match a with
  | .uv f vid =>
    some (selUpdateValsetD,
      [.seq [words f.validators, words f.powers, .word (castI64 vid)], .word f.relayer, .word f.estimate])
  | .slc f =>
    some (selSubmitLogicCallD,
      [callV (f.contract, f.payload), feeV (feesOrDefault f.fees) f.sender, .word (castI64 id),
       .word f.deadline, .word f.relayer])
  | .usc f _ =>
    some (selDeployContractD,
      [.word f.deployer, .bytes f.bytecode, feeV (feesOrDefault f.fees) f.sender, .word (castI64 id),
       .word f.deadline, .word f.relayer])
  | .ch f _ =>
    some (selCompassUpdateBatchD,
      [.seq (f.calls.map callV), .word f.deadline, .word f.estimate, .word f.relayer])
  | .up _ _ _ => none

/-- one success effect per (message, kind) -/
def Effect.key : Effect → Nat × Nat
  | .snapshotLive m _ => (m, 0)
  | .deploymentRecorded m _ => (m, 1)
  | .activated m _ => (m, 2)
  | .handoverScheduled m _ => (m, 3)
  | .userActive m _ => (m, 4)

/-- the attestation attempt an op of a history makes: message id and the winner of the vote -/
def Op.attempt : Op → Option (Nat × Winner)
  | .attest id w => some (id, w)
  | .attestEv id snap evs => some (id, winnerOf snap evs)
  | _ => none

/-- the op `op`, executed in state `s`, is an ACCEPTING attestation: it presents the transaction
proof `p` for message `id` and the router answers `ok`.  (Defined from the executable `attest`, no
log involved.) -/
def Accepts (s : St) (op : Op) (id : Nat) (p : TxProof) : Prop :=
  op.attempt = some (id, .tx p) ∧ (attest s id (.tx p)).2 = .ok

/-- ranges of the Go values inside a valset and the collected signatures -/
structure ConsWf (vs : GoValset) (sd : List SignData) : Prop where
  nvals : vs.validators.length < W256
  npows : vs.powers.length < W256
  pows : ∀ p ∈ vs.powers, p < U64
  vid : vs.valsetId < U64
  sigs : ∀ s ∈ sd, s.v < W256 ∧ s.r < W256 ∧ s.s < W256

def Action.wf (a : Action) : Bool :=
  match a with
  | .uv f vid => UV.wf f && decide (vid < U64)
  | .slc f => SLC.wf f
  | .usc f _ => USC.wf f
  | .ch f _ => CH.wf f
  | .up _ _ _ => true

/-- ASSUMPTION (Go types): the ranges of the values of a stored message — `uint64` id, valset id,
powers and fees, 20-byte addresses, 32-byte words, byte-string and list lengths below 2^256.
`Props/C05.lean` (`go_uv_wf` … `go_ch_wf`) derives the action part from the Go-level message. -/
structure QMsg.Wf (m : QMsg) : Prop where
  id : m.id < U64
  action : m.action.wf = true
  cons : ConsWf m.valset m.sigs

/-- the same for the inputs of a history -/
def Op.Wf : Op → Prop
  | .enqueue a vs sigs => a.wf = true ∧ ConsWf vs sigs
  | .update m => m.Wf
  | _ => True

def OpsWf (ops : List Op) : Prop := ∀ op ∈ ops, op.Wf

/-- ASSUMPTION (sha256): the proof hash `hp` does not collide on the proofs that were submitted as
evidence for this message — pointwise, on exactly these pre-images. -/
def NoCollOn (hp : ProofV → Nat) (evs : List EvidenceV) : Prop :=
  ∀ a ∈ evs.map (·.2), ∀ b ∈ evs.map (·.2), hp a = hp b → a = b

/-- the validators whose evidence is byte-identical to `P` -/
def groupFor (evs : List EvidenceV) (P : ProofV) : List Nat :=
  (evs.filter fun e => decide (e.2 = P)).map (·.1)

/-- the validators whose evidence has the hash `h` (what the Go map groups) -/
def groupForH (hp : ProofV → Nat) (evs : List EvidenceV) (h : Nat) : List Nat :=
  (evs.filter fun e => hp e.2 == h).map (·.1)

/-- the kind of compass call an action is -/
def Action.kind : Action → Nat
  | .uv _ _ => 0
  | .slc _ => 1
  | .usc _ _ => 2
  | .ch _ _ => 3
  | .up _ _ _ => 4


/-- HAND-WRITTEN argument types of the compass method of each action, after the consensus tuple -/
def Action.abiTys : Action → List Ty
  | .uv _ _ =>   -- update_valset(consensus, (address[],uint256[],uint256), address, uint256)
    [.tuple [.array .address, .array .uint256, .uint256], .address, .uint256]
  | .slc _ =>    -- submit_logic_call(consensus, (address,bytes), (uint256,uint256,uint256,bytes32), uint256, uint256, address)
    [.tuple [.address, .bytes], .tuple [.uint256, .uint256, .uint256, .bytes32], .uint256, .uint256, .address]
  | .usc _ _ =>  -- deploy_contract(consensus, address, bytes, (uint256,uint256,uint256,bytes32), uint256, uint256, address)
    [.address, .bytes, .tuple [.uint256, .uint256, .uint256, .bytes32], .uint256, .uint256, .address]
  | .ch _ _ =>   -- compass_update_batch(consensus, (address,bytes)[], uint256, uint256, address)
    [.array (.tuple [.address, .bytes]), .uint256, .uint256, .address]
  | .up _ _ _ => []

/-- specification, written without the verifier: `data` is the compass call of the message stored
under `m.id` — hand-written selector and content list `Action.mustCarry`, hand-written ABI signature
`Action.abiTys`, consensus of a non-empty prefix of the collected signatures — or, for a compass
upload, the creation input `bytecode ++ constructor input`. -/
def IsBridgeEncoding (m : QMsg) (data : Bytes) : Prop :=
  match m.action with
  | .up bc ctor _ => data = bc ++ ctor
  | a => ∃ sel vals i, a.mustCarry m.id = some (sel, vals) ∧ 1 ≤ i ∧ i ≤ m.sigs.length ∧
      data = sel ++ encodeArgs (consensusTy :: a.abiTys) (consensusV m.valset (m.sigs.take i) :: vals)


/-- ALL byte strings `VerifyAgainstTX` accepts for a stored message: one per non-empty signature
prefix (a compass upload: exactly one) -/
def candidates (m : QMsg) : List Bytes :=
  if isUp m.action then [upData m.action]
  else
    match m.action.delivered m.id with
    | none => []
    | some d =>
      (List.range m.sigs.length).map fun k =>
        calldata d.1 d.2.1 d.2.2 (consensusV m.valset (m.sigs.take (k + 1)))


/-- number of "snapshot `v` live" entries in a list of effects -/
def countLive (v : Nat) (fx : List Effect) : Nat :=
  (fx.filter fun e => match e with | .snapshotLive _ w => w == v | _ => false).length


/-- no environment op in a history -/
def NoEnv (ops : List Op) : Prop := ∀ op ∈ ops, ∀ c, op ≠ .setChain c


/-! ## helper lemmas -/
section Lemmas

theorem tryPrefixes_spec (vs : GoValset) (sigs : List SignData) (sel : Bytes) (tys : List Ty)
    (vals : List V) (data : Bytes) : ∀ n,
    tryPrefixes vs sigs sel tys vals data n = true ↔
      ∃ i, 1 ≤ i ∧ i ≤ n ∧ data = calldata sel tys vals (consensusV vs (sigs.take i))
  | 0 => by
    simp only [tryPrefixes, Bool.false_eq_true, false_iff]
    rintro ⟨i, h1, h2, -⟩
    omega
  | n + 1 => by
    unfold tryPrefixes
    split
    · rename_i h
      simp only [true_iff]
      exact ⟨n + 1, by omega, Nat.le_refl _, h⟩
    · rename_i h
      rw [tryPrefixes_spec vs sigs sel tys vals data n]
      constructor
      · rintro ⟨i, h1, h2, h3⟩
        exact ⟨i, h1, by omega, h3⟩
      · rintro ⟨i, h1, h2, h3⟩
        by_cases hi : i = n + 1
        · subst hi
          exact absurd h3 h
        · exact ⟨i, h1, by omega, h3⟩

theorem verify_ok_exact (m : QMsg) (data : Bytes) (h : verifyAgainstTx m data = .ok) :
    ExactFor m data := by
  unfold verifyAgainstTx at h
  split at h
  · rename_i hu
    split at h
    · rename_i hd
      exact .inl ⟨hu, hd⟩
    · cases h
  · rename_i hu
    split at h
    · cases h
    · rename_i d hd
      split at h
      · rename_i ht
        obtain ⟨i, h1, h2, h3⟩ := (tryPrefixes_spec _ _ _ _ _ _ _).1 ht
        exact .inr ⟨by simpa using hu, d, i, hd, h1, h2, h3⟩
      · cases h

theorem exact_verify_ok (m : QMsg) (data : Bytes) (h : ExactFor m data) :
    verifyAgainstTx m data = .ok := by
  unfold verifyAgainstTx
  rcases h with ⟨hu, hd⟩ | ⟨hu, d, i, hd, h1, h2, h3⟩
  · simp [hu, hd]
  · simp only [hu, Bool.false_eq_true, ↓reduceIte, hd]
    have := (tryPrefixes_spec m.valset m.sigs d.1 d.2.1 d.2.2 data m.sigs.length).2 ⟨i, h1, h2, h3⟩
    simp [this]

theorem findMsg_some {q : List QMsg} {id : Nat} {m : QMsg} (h : findMsg q id = some m) :
    m ∈ q ∧ m.id = id := by
  unfold findMsg at h
  have h1 := List.mem_of_find?_eq_some h
  have h2 := List.find?_some h
  exact ⟨h1, by simpa using h2⟩

theorem removeMsg_sublist (q : List QMsg) (id : Nat) : (removeMsg q id).Sublist q :=
  List.filter_sublist

theorem removeOlderUv_sublist (q : List QMsg) (id : Nat) : (removeOlderUv q id).Sublist q :=
  List.filter_sublist

theorem not_mem_removeMsg (q : List QMsg) (id : Nat) : id ∉ (removeMsg q id).map (·.id) := by
  intro h
  rw [List.mem_map] at h
  obtain ⟨m, hm, e⟩ := h
  unfold removeMsg at hm
  rw [List.mem_filter] at hm
  have : m.id = id := e
  simp [this] at hm

/-- the shape of every outcome of `attest` -/
inductive Outcome (s : St) (id : Nat) (w : Winner) : St × Res → Prop where
  | unchanged (r : Res) (hr : r ≠ .ok ∧ r ≠ .txFailed ∧ r ≠ .notVerified) : Outcome s id w (s, r)
  | errorHandled : Outcome s id w ({ s with queue := removeMsg s.queue id }, .errorHandled)
  | rejected (p : TxProof) (r : Res) (hw : w = .tx p) (hr : r = .txFailed ∨ r = .notVerified) :
      Outcome s id w (commitReject s id p.hash, r)
  | accepted (m : QMsg) (p : TxProof) (ce : Chain × List Effect)
      (hm : findMsg s.queue id = some m) (hw : w = .tx p) (hrc : p.receipt = some 1)
      (hproc : s.processed.contains p.hash = false) (hv : verifyAgainstTx m p.data = .ok)
      (hs : applySuccess s.chain m p = some ce) :
      Outcome s id w
        ({ s with
            queue := removeMsg (if isUv m.action then removeOlderUv s.queue id else s.queue) id
            processed := p.hash :: s.processed
            chain := ce.1
            effects := ce.2 ++ s.effects
            accepted := (id, p.hash) :: s.accepted }, .ok)

theorem attest_outcome (s : St) (id : Nat) (w : Winner) : Outcome s id w (attest s id w) := by
  unfold attest
  split
  · refine .unchanged _ ?_; decide
  · rename_i m hm
    split
    · refine .unchanged _ ?_; decide
    · exact .errorHandled
    · refine .unchanged _ ?_; decide
    · rename_i p
      split
      · refine .unchanged _ ?_; decide
      · rename_i hr0
        split
        · exact .rejected p _ rfl (.inl rfl)
        · rename_i hr1
          split
          · refine .unchanged _ ?_; decide
          · rename_i hpr
            split
            · refine .unchanged _ ?_; decide
            · split
              · exact .rejected p _ rfl (.inr rfl)
              · rename_i hv
                split
                · refine .unchanged _ ?_; decide
                · rename_i ce hs
                  refine .accepted m p ce hm rfl ?_ ?_ hv hs
                  · simpa using hr1
                  · simpa using hpr

theorem setActive_none_or (c : Chain) (cid : Nat) :
    setActive c cid = none ∨ ∃ c', setActive c cid = some c' := by
  cases h : setActive c cid with
  | none => exact .inl rfl
  | some c' => exact .inr ⟨c', rfl⟩

/-- every effect of a successful attestation is tagged with the message, one per kind -/
theorem applySuccess_effects (c : Chain) (m : QMsg) (p : TxProof) (ce : Chain × List Effect)
    (h : applySuccess c m p = some ce) :
    (∀ e ∈ ce.2, e.msg = m.id) ∧ (ce.2.map Effect.key).Nodup := by
  unfold applySuccess at h
  split at h
  · split at h <;> (injection h with h; subst h; simp [Effect.msg, Effect.key])
  · injection h with h; subst h; simp
  · split at h
    · cases h
    · split at h
      · cases h
      · injection h with h; subst h; simp [Effect.msg, Effect.key]
  · split at h
    · cases h
    · injection h with h; subst h; simp [Effect.msg, Effect.key]
  · split at h
    · cases h
    · split at h
      · split at h
        · cases h
        · split at h
          · cases h
          · injection h with h; subst h; simp [Effect.msg, Effect.key]
      · split at h
        · cases h
        · injection h with h; subst h; simp [Effect.msg, Effect.key]

/-! ### invariant over histories -/

structure Inv (s : St) : Prop where
  qNodup : (s.queue.map (·.id)).Nodup
  idBound : ∀ m ∈ s.queue, m.id ≤ s.nextId
  accBound : ∀ a ∈ s.accepted, a.1 ≤ s.nextId
  accGone : ∀ a ∈ s.accepted, a.1 ∉ s.queue.map (·.id)
  accIds : (s.accepted.map (·.1)).Nodup
  accTxs : (s.accepted.map (·.2)).Nodup
  accProcessed : ∀ a ∈ s.accepted, a.2 ∈ s.processed
  fxOwner : ∀ e ∈ s.effects, e.msg ∈ s.accepted.map (·.1)
  fxOnce : (s.effects.map Effect.key).Nodup

theorem inv_init : Inv {} :=
  ⟨by simp, by simp, by simp, by simp, by simp, by simp, by simp, by simp, by simp⟩

theorem key_fst (e : Effect) : e.key.1 = e.msg := by cases e <;> rfl

theorem map_id_sublist {a b : List QMsg} (h : a.Sublist b) :
    (a.map (·.id)).Sublist (b.map (·.id)) := List.Sublist.map _ h

/-- shrinking the queue preserves the invariant -/
theorem inv_shrink (s : St) (q : List QMsg) (hq : q.Sublist s.queue) (hi : Inv s) :
    Inv { s with queue := q } :=
  ⟨(map_id_sublist hq).nodup hi.qNodup, fun m hm => hi.idBound m (hq.subset hm), hi.accBound,
   fun a ha hm => hi.accGone a ha ((map_id_sublist hq).subset hm),
   hi.accIds, hi.accTxs, hi.accProcessed, hi.fxOwner, hi.fxOnce⟩

theorem update_ids (q : List QMsg) (m : QMsg) :
    (q.map fun x => if x.id == m.id then m else x).map (·.id) = q.map (·.id) := by
  induction q with
  | nil => rfl
  | cons x q ih =>
    simp only [List.map_cons, List.cons.injEq]
    refine ⟨?_, ih⟩
    by_cases h : x.id = m.id
    · simp [h]
    · simp [h]

theorem attest_inv (s : St) (id : Nat) (w : Winner) (hi : Inv s) : Inv (attest s id w).1 := by
  have ho := attest_outcome s id w
  generalize attest s id w = r at ho
  cases ho with
  | unchanged r hr => exact hi
  | errorHandled => exact inv_shrink s _ (removeMsg_sublist _ _) hi
  | rejected p r hw hr =>
    have h1 := inv_shrink s _ (removeMsg_sublist s.queue id) hi
    exact ⟨h1.qNodup, h1.idBound, h1.accBound, h1.accGone, h1.accIds, h1.accTxs,
      fun a ha => List.mem_cons_of_mem _ (hi.accProcessed a ha), h1.fxOwner, h1.fxOnce⟩
  | accepted m p ce hm hw hrc hproc hv hs =>
    obtain ⟨hmq, hmid⟩ := findMsg_some hm
    have hsub : (removeMsg (if isUv m.action then removeOlderUv s.queue id else s.queue) id).Sublist s.queue := by
      refine List.Sublist.trans (removeMsg_sublist _ _) ?_
      split
      · exact removeOlderUv_sublist _ _
      · exact List.Sublist.refl _
    have hidq : id ∈ s.queue.map (·.id) := List.mem_map.2 ⟨m, hmq, hmid⟩
    have hidacc : id ∉ s.accepted.map (·.1) := by
      intro h
      rw [List.mem_map] at h
      obtain ⟨a, ha, e⟩ := h
      exact hi.accGone a ha (by rw [e]; exact hidq)
    have hfx := applySuccess_effects _ _ _ _ hs
    have hnp : p.hash ∉ s.processed := by
      intro h
      have : s.processed.contains p.hash = true := by simpa using h
      rw [this] at hproc
      cases hproc
    refine ⟨(map_id_sublist hsub).nodup hi.qNodup, ?_, ?_, ?_, ?_, ?_, ?_, ?_, ?_⟩
    · intro x hx
      exact hi.idBound x (hsub.subset hx)
    · intro a ha
      simp only [List.mem_cons] at ha
      rcases ha with rfl | ha
      · have := hi.idBound m hmq
        simp only
        omega
      · exact hi.accBound a ha
    · intro a ha
      simp only [List.mem_cons] at ha
      rcases ha with rfl | ha
      · exact not_mem_removeMsg _ _
      · intro hx
        exact hi.accGone a ha ((map_id_sublist hsub).subset hx)
    · simp only [List.map_cons, List.nodup_cons]
      exact ⟨hidacc, hi.accIds⟩
    · simp only [List.map_cons, List.nodup_cons]
      refine ⟨?_, hi.accTxs⟩
      intro h
      rw [List.mem_map] at h
      obtain ⟨a, ha, e⟩ := h
      exact hnp (by rw [← e]; exact hi.accProcessed a ha)
    · intro a ha
      simp only [List.mem_cons] at ha ⊢
      rcases ha with rfl | ha
      · exact .inl rfl
      · exact .inr (hi.accProcessed a ha)
    · intro e he
      simp only [List.mem_append] at he
      simp only [List.map_cons, List.mem_cons]
      rcases he with he | he
      · exact .inl ((hfx.1 e he).trans hmid)
      · exact .inr (hi.fxOwner e he)
    · simp only [List.map_append]
      rw [List.nodup_append]
      refine ⟨hfx.2, hi.fxOnce, ?_⟩
      intro k hk k' hk' e
      rw [List.mem_map] at hk hk'
      obtain ⟨e1, he1, rfl⟩ := hk
      obtain ⟨e2, he2, rfl⟩ := hk'
      have h1 : e1.msg = id := (hfx.1 e1 he1).trans hmid
      have h2 := hi.fxOwner e2 he2
      have : e1.msg = e2.msg := by rw [← key_fst, ← key_fst, e]
      exact hidacc (by rw [← h1, this]; exact h2)

theorem step_inv (s : St) (op : Op) (hi : Inv s) : Inv (step s op) := by
  cases op with
  | enqueue a vs sigs =>
    simp only [step]
    refine ⟨?_, ?_, ?_, ?_, hi.accIds, hi.accTxs, hi.accProcessed, hi.fxOwner, hi.fxOnce⟩
    · simp only [List.map_append, List.map_cons, List.map_nil]
      rw [List.nodup_append]
      refine ⟨hi.qNodup, by simp, ?_⟩
      intro a ha b hb
      simp only [List.mem_singleton] at hb
      rw [List.mem_map] at ha
      obtain ⟨m, hm, rfl⟩ := ha
      have := hi.idBound m hm
      omega
    · intro m hm
      simp only [List.mem_append, List.mem_singleton] at hm
      rcases hm with hm | rfl
      · have := hi.idBound m hm
        show m.id ≤ s.nextId + 1
        omega
      · exact Nat.le_refl _
    · intro a ha
      have := hi.accBound a ha
      show a.1 ≤ s.nextId + 1
      omega
    · intro a ha hm
      simp only [List.map_append, List.map_cons, List.map_nil, List.mem_append, List.mem_singleton] at hm
      rcases hm with hm | hm
      · exact hi.accGone a ha hm
      · have := hi.accBound a ha
        omega
  | update m =>
    simp only [step]
    split
    · rename_i hh
      have hm : ∃ x ∈ s.queue, x.id = m.id := by
        unfold hasId at hh
        simpa using hh
      refine ⟨?_, ?_, hi.accBound, ?_, hi.accIds, hi.accTxs, hi.accProcessed, hi.fxOwner, hi.fxOnce⟩
      · simp only [update_ids]
        exact hi.qNodup
      · intro x hx
        simp only [List.mem_map] at hx
        obtain ⟨y, hy, rfl⟩ := hx
        split
        · obtain ⟨z, hz, e⟩ := hm
          rw [← e]
          exact hi.idBound z hz
        · exact hi.idBound y hy
      · intro a ha
        simp only [update_ids]
        exact hi.accGone a ha
    · exact hi
  | remove id => exact inv_shrink s _ (removeMsg_sublist _ _) hi
  | setChain c =>
    exact ⟨hi.qNodup, hi.idBound, hi.accBound, hi.accGone, hi.accIds, hi.accTxs, hi.accProcessed, hi.fxOwner,
      hi.fxOnce⟩
  | attest id w => exact attest_inv s id w hi
  | attestEv id snap evs => exact attest_inv s id (winnerOf snap evs) hi

theorem run_inv : ∀ (ops : List Op) (s : St), Inv s → Inv (run s ops)
  | [], _, hi => hi
  | op :: ops, s, hi => run_inv ops (step s op) (step_inv s op hi)


/-! ### typing of the consensus tuple -/

theorem lookupSig_mem (sd : List SignData) (key : Bytes) :
    ∀ s, lookupSig sd key = some s → s ∈ sd := by
  unfold lookupSig
  suffices h : ∀ (l : List SignData) (acc : Option SignData) (s : SignData),
      l.foldl (fun acc s => if s.ext == key then some s else acc) acc = some s → s ∈ l ∨ acc = some s by
    intro s hs
    rcases h sd none s hs with h | h
    · exact h
    · cases h
  intro l
  induction l with
  | nil => intro acc s h; exact .inr h
  | cons x l ih =>
    intro acc s h
    simp only [List.foldl_cons] at h
    rcases ih _ s h with h1 | h1
    · exact .inl (List.mem_cons_of_mem _ h1)
    · split at h1
      · injection h1 with h1
        exact .inl (by rw [h1]; exact List.mem_cons_self)
      · exact .inr h1

theorem sigV_typed (sd : List SignData) (key : Bytes)
    (h : ∀ s ∈ sd, s.v < W256 ∧ s.r < W256 ∧ s.s < W256) :
    hasType (.tuple [.uint256, .uint256, .uint256]) (sigV (lookupSig sd key)) = true := by
  cases hl : lookupSig sd key with
  | none => simp [sigV, hasType, hasTypes]; decide
  | some s =>
    have := h s (lookupSig_mem sd key s hl)
    simp [sigV, hasType, hasTypes, this.1, this.2.1, this.2.2]

theorem consensus_typed (vs : GoValset) (sd : List SignData) (h : ConsWf vs sd) :
    hasType consensusTy (consensusV vs sd) = true := by
  have h1 := hasType_addresses (vs.validators.map hexToAddress) (all_map_hexToAddress _)
    (by simpa using h.nvals)
  have h2 := hasType_uints (vs.powers.map castI64) (all_map_castI64 _ h.pows) (by simpa using h.npows)
  have h3 : (vs.validators.map fun v => sigV (lookupSig sd v)).all
      (hasType (.tuple [.uint256, .uint256, .uint256])) = true := by
    rw [List.all_map, List.all_eq_true]
    intro v _
    exact sigV_typed sd v h.sigs
  simp only [consensusTy, consensusV, compassValsetV, valsetTy, hasType, hasTypes, h1, h2, h3,
    Bool.and_true, Bool.true_and, List.length_map, decide_eq_true_eq, Bool.and_eq_true]
  exact ⟨castI64_lt h.vid, h.nvals⟩

theorem consWf_take (vs : GoValset) (sd : List SignData) (h : ConsWf vs sd) (i : Nat) :
    ConsWf vs (sd.take i) :=
  ⟨h.nvals, h.npows, h.pows, h.vid, fun s hs => h.sigs s (List.mem_of_mem_take hs)⟩


/-! ### signatures inside the consensus tuple -/

/-- `signatureMap[validator]`: a hit is a collected signature stored under exactly that key -/
theorem lookupSig_some (sd : List SignData) (key : Bytes) (s : SignData)
    (h : lookupSig sd key = some s) : s ∈ sd ∧ s.ext = key := by
  unfold lookupSig at h
  suffices hh : ∀ (l : List SignData) (acc : Option SignData) (s : SignData),
      l.foldl (fun acc s => if s.ext == key then some s else acc) acc = some s →
        (s ∈ l ∧ s.ext = key) ∨ acc = some s by
    rcases hh sd none s h with h | h
    · exact h
    · cases h
  intro l
  induction l with
  | nil => intro acc s h; exact .inr h
  | cons x l ih =>
    intro acc s h
    simp only [List.foldl_cons] at h
    rcases ih _ s h with h1 | h1
    · exact .inl ⟨List.mem_cons_of_mem _ h1.1, h1.2⟩
    · split at h1
      · rename_i hx
        injection h1 with h1
        subst h1
        exact .inl ⟨List.mem_cons_self, by simpa using hx⟩
      · exact .inr h1

/-- … and a miss means that NO collected signature is stored under that key -/
theorem lookupSig_none (sd : List SignData) (key : Bytes) :
    lookupSig sd key = none ↔ ∀ s ∈ sd, s.ext ≠ key := by
  unfold lookupSig
  suffices hh : ∀ (l : List SignData) (acc : Option SignData),
      l.foldl (fun acc s => if s.ext == key then some s else acc) acc = none ↔
        (acc = none ∧ ∀ s ∈ l, s.ext ≠ key) by
    rw [hh sd none]
    simp
  intro l
  induction l with
  | nil => intro acc; simp
  | cons x l ih =>
    intro acc
    simp only [List.foldl_cons]
    rw [ih]
    by_cases hx : x.ext = key
    · simp [hx]
    · simp [hx]

/-! ### evidence of several validators -/

theorem firstIdx_getD (l : List ProofV) (a d : ProofV) (h : a ∈ l) : l.getD (firstIdx l a) d = a := by
  induction l with
  | nil => cases h
  | cons x xs ih =>
    unfold firstIdx
    split
    · rename_i hx
      simp [hx]
    · rename_i hx
      have : a ∈ xs := by
        rcases List.mem_cons.1 h with h | h
        · exact absurd h.symm hx
        · exact h
      simpa using ih this

theorem firstIdx_inj (l : List ProofV) (a b : ProofV) (ha : a ∈ l) (hb : b ∈ l)
    (h : firstIdx l a = firstIdx l b) : a = b := by
  rw [← firstIdx_getD l a (ProofV.other 0) ha, ← firstIdx_getD l b (ProofV.other 0) hb, h]

theorem mem_hashes : ∀ (evs : List Libcons.Evidence) (h : Nat), h ∈ Libcons.hashes evs → ∃ e ∈ evs, e.2 = h
  | [], h, hm => by simp [Libcons.hashes] at hm
  | e :: es, h, hm => by
    simp only [Libcons.hashes, List.mem_cons] at hm
    rcases hm with rfl | hm
    · exact ⟨e, List.mem_cons_self, rfl⟩
    · obtain ⟨e', he', h'⟩ := mem_hashes es h (List.mem_filter.1 hm).1
      exact ⟨e', List.mem_cons_of_mem _ he', h'⟩

/-- the Libcons group of a hash is the set of validators whose proof has that hash -/
theorem groupOf_toLibconsH (hp : ProofV → Nat) (evs : List EvidenceV) (h : Nat) :
    Libcons.groupOf (toLibconsH hp evs) h = groupForH hp evs h := by
  unfold Libcons.groupOf toLibconsH groupForH
  rw [List.filter_map, List.map_map]
  rfl

/-- without a collision on the submitted proofs the hash group of `hp P` is the group of the
    evidence that is byte-identical to `P` -/
theorem groupForH_eq (hp : ProofV → Nat) (evs : List EvidenceV) (hnc : NoCollOn hp evs) (P : ProofV)
    (hP : P ∈ evs.map (·.2)) : groupForH hp evs (hp P) = groupFor evs P := by
  unfold groupForH groupFor
  congr 1
  apply List.filter_congr
  intro e he
  have hm : e.2 ∈ evs.map (·.2) := List.mem_map.2 ⟨e, he, rfl⟩
  by_cases hc : e.2 = P
  · simp [hc]
  · have : hp e.2 ≠ hp P := fun h => hc (hnc _ hm _ hP h)
    simp [hc, this]

/-- what `VerifyEvidence` guarantees about its winner, for ANY proof hash: it is the first stored
    proof of a HASH group whose validator list reaches the Libcons quorum -/
theorem winnerOfH_spec_hash (hp : ProofV → Nat) (snap : Libcons.Snapshot) (evs : List EvidenceV)
    (h : winnerOfH hp snap evs ≠ .none) :
    ∃ P, P ∈ evs.map (·.2) ∧ winnerOfH hp snap evs = P.toWinner ∧
      (Libcons.tally snap (groupForH hp evs (hp P))).consensus = true := by
  unfold winnerOfH at h
  split at h
  · exact absurd rfl h
  · rename_i ws hv
    split at h
    · exact absurd rfl h
    · rename_i hd tl
      have hw : hd ∈ Libcons.winners snap (toLibconsH hp evs) := by
        unfold Libcons.verifyEvidence at hv
        split at hv
        · cases hv
        · split at hv
          · cases hv
          · injection hv with hv
            rw [hv]
            exact List.mem_cons_self
      have hc := Libcons.mem_winners hw
      split at h
      · rename_i P hg
        unfold groupProof at hg
        rw [Option.map_eq_some_iff] at hg
        obtain ⟨e, hfind, rfl⟩ := hg
        have hmem := List.mem_of_find?_eq_some hfind
        have hh : hp e.2 = hd := by simpa using List.find?_some hfind
        have hwin : winnerOfH hp snap evs = e.2.toWinner := by
          unfold winnerOfH
          rw [hv]
          simp only
          unfold groupProof
          rw [hfind]
          rfl
        refine ⟨e.2, List.mem_map.2 ⟨e, hmem, rfl⟩, hwin, ?_⟩
        rw [hh, ← groupOf_toLibconsH]
        exact hc
      · exact absurd rfl h

/-- under the no-collision ASSUMPTION that group is the group of byte-identical evidence -/
theorem winnerOfH_spec (hp : ProofV → Nat) (snap : Libcons.Snapshot) (evs : List EvidenceV)
    (hnc : NoCollOn hp evs) (h : winnerOfH hp snap evs ≠ .none) :
    ∃ P, P ∈ evs.map (·.2) ∧ winnerOfH hp snap evs = P.toWinner ∧
      (Libcons.tally snap (groupFor evs P)).consensus = true := by
  obtain ⟨P, hP, hw, hc⟩ := winnerOfH_spec_hash hp snap evs h
  exact ⟨P, hP, hw, by rw [← groupForH_eq hp evs hnc P hP]; exact hc⟩

theorem idealHash_noCollOn (evs : List EvidenceV) : NoCollOn (idealHash evs) evs :=
  fun a ha b hb h => firstIdx_inj _ a b ha hb h

/-! ### the processed set only grows -/

theorem attest_processed_mono (s : St) (id : Nat) (w : Winner) (h : Nat) (hh : h ∈ s.processed) :
    h ∈ (attest s id w).1.processed := by
  have ho := attest_outcome s id w
  generalize attest s id w = r at ho
  cases ho with
  | unchanged r hr => exact hh
  | errorHandled => exact hh
  | rejected p r hw hr => exact List.mem_cons_of_mem _ hh
  | accepted m p ce hm hw hrc hproc hv hs => exact List.mem_cons_of_mem _ hh

theorem step_processed_mono (s : St) (op : Op) (h : Nat) (hh : h ∈ s.processed) :
    h ∈ (step s op).processed := by
  cases op with
  | enqueue a vs sigs => exact hh
  | update m =>
    simp only [step]
    split
    · exact hh
    · exact hh
  | remove id => exact hh
  | setChain c => exact hh
  | attest id w => exact attest_processed_mono s id w h hh
  | attestEv id snap evs => exact attest_processed_mono s id (winnerOf snap evs) h hh

theorem run_processed_mono : ∀ (ops : List Op) (s : St) (h : Nat), h ∈ s.processed →
    h ∈ (run s ops).processed
  | [], _, _, hh => hh
  | op :: ops, s, h, hh => run_processed_mono ops (step s op) h (step_processed_mono s op h hh)

theorem upData_up (bc ctor : Bytes) (cid : Nat) : upData (.up bc ctor cid) = bc ++ ctor := rfl


/-! ### the hand-written content list is what is packed -/

theorem delivered_mustCarry (a : Action) (id : Nat) :
    (a.delivered id).map (fun d => (d.1, d.2.2)) = a.mustCarry id := by
  cases a <;> rfl

theorem delivered_sel_length (a : Action) (id : Nat) (d : Bytes × List Ty × List V)
    (h : a.delivered id = some d) : d.1.length = 4 := by
  cases a <;> simp only [Action.delivered, Option.some.injEq, reduceCtorEq] at h <;> subst h <;> rfl

theorem delivered_isSome (a : Action) (id : Nat) (h : isUp a = false) : ∃ d, a.delivered id = some d := by
  cases a <;> simp [isUp, Action.delivered] at h ⊢

/-! ### histories: splitting, logs as functions of the history -/

theorem run_append : ∀ (a b : List Op) (s : St), run s (a ++ b) = run (run s a) b
  | [], _, _ => rfl
  | op :: a, b, s => run_append a b (step s op)

theorem split_trichotomy {α : Type} : ∀ {pre1 pre2 post1 post2 : List α} {x1 x2 : α},
    pre1 ++ x1 :: post1 = pre2 ++ x2 :: post2 →
    (pre1 = pre2 ∧ x1 = x2 ∧ post1 = post2) ∨ (∃ mid, pre2 = pre1 ++ x1 :: mid) ∨
      (∃ mid, pre1 = pre2 ++ x2 :: mid)
  | [], [], _, _, _, _, h => by
    simp only [List.nil_append, List.cons.injEq] at h
    exact .inl ⟨rfl, h.1, h.2⟩
  | [], y :: pre2, _, _, _, _, h => by
    simp only [List.nil_append, List.cons_append, List.cons.injEq] at h
    exact .inr (.inl ⟨pre2, by rw [h.1]; rfl⟩)
  | y :: pre1, [], _, _, _, _, h => by
    simp only [List.nil_append, List.cons_append, List.cons.injEq] at h
    exact .inr (.inr ⟨pre1, by rw [h.1]; rfl⟩)
  | y :: pre1, z :: pre2, _, _, _, _, h => by
    simp only [List.cons_append, List.cons.injEq] at h
    rcases split_trichotomy h.2 with ⟨h1, h2, h3⟩ | ⟨mid, hm⟩ | ⟨mid, hm⟩
    · exact .inl ⟨by rw [h.1, h1], h2, h3⟩
    · exact .inr (.inl ⟨mid, by rw [h.1, hm]; rfl⟩)
    · exact .inr (.inr ⟨mid, by rw [h.1, hm]; rfl⟩)

/-- a list-valued projection of the state whose growth per step is characterised by `P` is, after a
    history, exactly the old content plus the `P`-events of the history -/
theorem run_log_iff {α : Type} (proj : St → List α) (P : St → Op → α → Prop)
    (hstep : ∀ s op a, a ∈ proj (step s op) ↔ a ∈ proj s ∨ P s op a) :
    ∀ (ops : List Op) (s : St) (a : α), a ∈ proj (run s ops) ↔
      a ∈ proj s ∨ ∃ pre op post, ops = pre ++ op :: post ∧ P (run s pre) op a
  | [], s, a => by
    simp only [run]
    constructor
    · exact fun h => .inl h
    · rintro (h | ⟨pre, op, post, h, -⟩)
      · exact h
      · cases pre <;> cases h
  | op :: ops, s, a => by
    simp only [run]
    rw [run_log_iff proj P hstep ops (step s op) a, hstep]
    constructor
    · rintro ((h | h) | ⟨pre, op', post, h, hp⟩)
      · exact .inl h
      · exact .inr ⟨[], op, ops, rfl, h⟩
      · exact .inr ⟨op :: pre, op', post, by rw [h]; rfl, hp⟩
    · rintro (h | ⟨pre, op', post, h, hp⟩)
      · exact .inl (.inl h)
      · cases pre with
        | nil =>
          simp only [List.nil_append, List.cons.injEq] at h
          obtain ⟨rfl, rfl⟩ := h
          exact .inl (.inr hp)
        | cons x pre =>
          simp only [List.cons_append, List.cons.injEq] at h
          obtain ⟨rfl, rfl⟩ := h
          exact .inr ⟨pre, op', post, rfl, hp⟩

theorem attempt_step (s : St) (op : Op) (id : Nat) (w : Winner) (h : op.attempt = some (id, w)) :
    step s op = (attest s id w).1 := by
  cases op with
  | attest id' w' =>
    simp only [Op.attempt, Option.some.injEq, Prod.mk.injEq] at h
    obtain ⟨rfl, rfl⟩ := h
    rfl
  | attestEv id' snap evs =>
    simp only [Op.attempt, Option.some.injEq, Prod.mk.injEq] at h
    obtain ⟨rfl, rfl⟩ := h
    rfl
  | enqueue _ _ _ => cases h
  | update _ => cases h
  | remove _ => cases h
  | setChain _ => cases h

/-- ops that are not attestation attempts touch neither the logs nor the processed set, and the
    keeper state only when they are the environment op itself -/
theorem no_attempt_step (s : St) (op : Op) (h : op.attempt = none) :
    (step s op).accepted = s.accepted ∧ (step s op).effects = s.effects ∧
    (step s op).processed = s.processed ∧ ((step s op).chain = s.chain ∨ ∃ c, op = .setChain c) := by
  cases op with
  | attest id' w' => cases h
  | attestEv id' snap evs => cases h
  | enqueue _ _ _ => exact ⟨rfl, rfl, rfl, .inl rfl⟩
  | update m =>
    simp only [step]
    split
    · exact ⟨rfl, rfl, rfl, .inl rfl⟩
    · exact ⟨rfl, rfl, rfl, .inl rfl⟩
  | remove _ => exact ⟨rfl, rfl, rfl, .inl rfl⟩
  | setChain c => exact ⟨rfl, rfl, rfl, .inr ⟨c, rfl⟩⟩

theorem mem_attest_accepted (s : St) (id : Nat) (w : Winner) (a : Nat × Nat) :
    a ∈ (attest s id w).1.accepted ↔
      a ∈ s.accepted ∨ ∃ p, w = .tx p ∧ (attest s id w).2 = .ok ∧ a = (id, p.hash) := by
  have ho := attest_outcome s id w
  generalize attest s id w = r at ho
  cases ho with
  | unchanged r hr =>
    constructor
    · exact fun h => .inl h
    · rintro (h | ⟨p, -, h, -⟩)
      · exact h
      · exact absurd h hr.1
  | errorHandled =>
    constructor
    · exact fun h => .inl h
    · rintro (h | ⟨p, -, h, -⟩)
      · exact h
      · cases h
  | rejected p r hw hr =>
    constructor
    · exact fun h => .inl h
    · rintro (h | ⟨p, -, h, -⟩)
      · exact h
      · rcases hr with rfl | rfl <;> cases h
  | accepted m p ce hm hw hrc hproc hv hs =>
    subst hw
    simp only [List.mem_cons]
    constructor
    · rintro (h | h)
      · exact .inr ⟨p, rfl, trivial, h⟩
      · exact .inl h
    · rintro (h | ⟨p', hp, -, h⟩)
      · exact .inr h
      · injection hp with hp
        subst hp
        exact .inl h

theorem mem_attest_effects (s : St) (id : Nat) (w : Winner) (e : Effect) :
    e ∈ (attest s id w).1.effects ↔
      e ∈ s.effects ∨ ∃ m p ce, w = .tx p ∧ (attest s id w).2 = .ok ∧ findMsg s.queue id = some m ∧
        applySuccess s.chain m p = some ce ∧ e ∈ ce.2 := by
  have ho := attest_outcome s id w
  generalize attest s id w = r at ho
  cases ho with
  | unchanged r hr =>
    constructor
    · exact fun h => .inl h
    · rintro (h | ⟨_, _, _, -, h, -⟩)
      · exact h
      · exact absurd h hr.1
  | errorHandled =>
    constructor
    · exact fun h => .inl h
    · rintro (h | ⟨_, _, _, -, h, -⟩)
      · exact h
      · cases h
  | rejected p r hw hr =>
    constructor
    · exact fun h => .inl h
    · rintro (h | ⟨_, _, _, -, h, -⟩)
      · exact h
      · rcases hr with rfl | rfl <;> cases h
  | accepted m p ce hm hw hrc hproc hv hs =>
    subst hw
    simp only [List.mem_append]
    constructor
    · rintro (h | h)
      · exact .inr ⟨m, p, ce, rfl, trivial, hm, hs, h⟩
      · exact .inl h
    · rintro (h | ⟨m', p', ce', hp, -, hm', hs', h⟩)
      · exact .inr h
      · injection hp with hp
        subst hp
        rw [hm] at hm'
        injection hm' with hm'
        subst hm'
        rw [hs] at hs'
        injection hs' with hs'
        subst hs'
        exact .inl h

theorem mem_attest_processed (s : St) (id : Nat) (w : Winner) (h : Nat) :
    h ∈ (attest s id w).1.processed ↔
      h ∈ s.processed ∨ ∃ p, w = .tx p ∧ p.hash = h ∧
        ((attest s id w).2 = .ok ∨ (attest s id w).2 = .txFailed ∨ (attest s id w).2 = .notVerified) := by
  have ho := attest_outcome s id w
  generalize attest s id w = r at ho
  cases ho with
  | unchanged r hr =>
    constructor
    · exact fun h => .inl h
    · rintro (h | ⟨_, -, -, h | h | h⟩)
      · exact h
      · exact absurd h hr.1
      · exact absurd h hr.2.1
      · exact absurd h hr.2.2
  | errorHandled =>
    constructor
    · exact fun h => .inl h
    · rintro (h | ⟨_, -, -, h | h | h⟩)
      · exact h
      · cases h
      · cases h
      · cases h
  | rejected p r hw hr =>
    subst hw
    simp only [commitReject, List.mem_cons]
    constructor
    · rintro (h | h)
      · exact .inr ⟨p, rfl, h.symm, .inr hr⟩
      · exact .inl h
    · rintro (h | ⟨p', hp, h, -⟩)
      · exact .inr h
      · injection hp with hp
        subst hp
        exact .inl h.symm
  | accepted m p ce hm hw hrc hproc hv hs =>
    subst hw
    simp only [List.mem_cons]
    constructor
    · rintro (h | h)
      · exact .inr ⟨p, rfl, h.symm, .inl trivial⟩
      · exact .inl h
    · rintro (h | ⟨p', hp, h, -⟩)
      · exact .inr h
      · injection hp with hp
        subst hp
        exact .inl h.symm

theorem mem_step_accepted (s : St) (op : Op) (a : Nat × Nat) :
    a ∈ (step s op).accepted ↔ a ∈ s.accepted ∨ ∃ p, Accepts s op a.1 p ∧ p.hash = a.2 := by
  cases hat : op.attempt with
  | none =>
    rw [(no_attempt_step s op hat).1]
    constructor
    · exact fun h => .inl h
    · rintro (h | ⟨p, ⟨h, -⟩, -⟩)
      · exact h
      · rw [hat] at h; cases h
  | some iw =>
    obtain ⟨id, w⟩ := iw
    rw [attempt_step s op id w hat, mem_attest_accepted]
    constructor
    · rintro (h | ⟨p, hw, hok, ha⟩)
      · exact .inl h
      · subst hw
        subst ha
        exact .inr ⟨p, ⟨hat, hok⟩, rfl⟩
    · rintro (h | ⟨p, ⟨h1, h2⟩, h3⟩)
      · exact .inl h
      · rw [hat] at h1
        simp only [Option.some.injEq, Prod.mk.injEq] at h1
        obtain ⟨rfl, rfl⟩ := h1
        exact .inr ⟨p, rfl, h2, by rw [h3]⟩

theorem mem_step_effects (s : St) (op : Op) (e : Effect) :
    e ∈ (step s op).effects ↔ e ∈ s.effects ∨ ∃ id m p ce, Accepts s op id p ∧
      findMsg s.queue id = some m ∧ applySuccess s.chain m p = some ce ∧ e ∈ ce.2 := by
  cases hat : op.attempt with
  | none =>
    rw [(no_attempt_step s op hat).2.1]
    constructor
    · exact fun h => .inl h
    · rintro (h | ⟨_, _, _, _, ⟨h, -⟩, -⟩)
      · exact h
      · rw [hat] at h; cases h
  | some iw =>
    obtain ⟨id, w⟩ := iw
    rw [attempt_step s op id w hat, mem_attest_effects]
    constructor
    · rintro (h | ⟨m, p, ce, hw, hok, hm, hs, he⟩)
      · exact .inl h
      · subst hw
        exact .inr ⟨id, m, p, ce, ⟨hat, hok⟩, hm, hs, he⟩
    · rintro (h | ⟨id', m, p, ce, ⟨h1, h2⟩, hm, hs, he⟩)
      · exact .inl h
      · rw [hat] at h1
        simp only [Option.some.injEq, Prod.mk.injEq] at h1
        obtain ⟨rfl, rfl⟩ := h1
        exact .inr ⟨m, p, ce, rfl, h2, hm, hs, he⟩

theorem mem_run_accepted_of_mem (ops : List Op) (s : St) (a : Nat × Nat) (h : a ∈ s.accepted) :
    a ∈ (run s ops).accepted :=
  (run_log_iff (·.accepted) (fun s op a => ∃ p, Accepts s op a.1 p ∧ p.hash = a.2)
    mem_step_accepted ops s a).2 (.inl h)

/-- an accepting step logs the pair, spends the transaction and removes the message -/
theorem accepts_step (s : St) (op : Op) (id : Nat) (p : TxProof) (h : Accepts s op id p) :
    (id, p.hash) ∈ (step s op).accepted ∧ p.hash ∈ (step s op).processed := by
  refine ⟨(mem_step_accepted s op (id, p.hash)).2 (.inr ⟨p, h, rfl⟩), ?_⟩
  rw [attempt_step s op id (.tx p) h.1, mem_attest_processed]
  exact .inr ⟨p, rfl, rfl, .inl h.2⟩

/-! ### ranges are preserved along well-formed histories -/

theorem attest_queue_sublist (s : St) (id : Nat) (w : Winner) :
    (attest s id w).1.queue.Sublist s.queue ∧ (attest s id w).1.nextId = s.nextId := by
  have ho := attest_outcome s id w
  generalize attest s id w = r at ho
  cases ho with
  | unchanged r hr => exact ⟨List.Sublist.refl _, rfl⟩
  | errorHandled => exact ⟨removeMsg_sublist _ _, rfl⟩
  | rejected p r hw hr => exact ⟨removeMsg_sublist _ _, rfl⟩
  | accepted m p ce hm hw hrc hproc hv hs =>
    refine ⟨List.Sublist.trans (removeMsg_sublist _ _) ?_, rfl⟩
    split
    · exact removeOlderUv_sublist _ _
    · exact List.Sublist.refl _

theorem step_queue_wf (s : St) (op : Op) (hq : ∀ m ∈ s.queue, m.Wf) (hop : op.Wf)
    (hn : s.nextId + 1 < U64) :
    (∀ m ∈ (step s op).queue, m.Wf) ∧ (step s op).nextId ≤ s.nextId + 1 := by
  cases op with
  | enqueue a vs sigs =>
    refine ⟨?_, Nat.le_refl _⟩
    intro m hm
    simp only [step, List.mem_append, List.mem_singleton] at hm
    rcases hm with hm | rfl
    · exact hq m hm
    · exact ⟨hn, hop.1, hop.2⟩
  | update m =>
    simp only [step]
    split
    · refine ⟨?_, Nat.le_succ _⟩
      intro x hx
      simp only [List.mem_map] at hx
      obtain ⟨y, hy, rfl⟩ := hx
      split
      · exact hop
      · exact hq y hy
    · exact ⟨hq, Nat.le_succ _⟩
  | remove id => exact ⟨fun m hm => hq m ((removeMsg_sublist _ _).subset hm), Nat.le_succ _⟩
  | setChain c => exact ⟨hq, Nat.le_succ _⟩
  | attest id w =>
    have := attest_queue_sublist s id w
    exact ⟨fun m hm => hq m (this.1.subset hm), by show (attest s id w).1.nextId ≤ _; rw [this.2]; omega⟩
  | attestEv id snap evs =>
    have := attest_queue_sublist s id (winnerOf snap evs)
    exact ⟨fun m hm => hq m (this.1.subset hm),
      by show (attest s id (winnerOf snap evs)).1.nextId ≤ _; rw [this.2]; omega⟩

theorem run_queue_wf_aux : ∀ (ops : List Op) (s : St), (∀ m ∈ s.queue, m.Wf) → OpsWf ops →
    s.nextId + ops.length < U64 → ∀ m ∈ (run s ops).queue, m.Wf
  | [], _, hq, _, _ => hq
  | op :: ops, s, hq, hops, hn => by
    simp only [List.length_cons] at hn
    have h1 := step_queue_wf s op hq (hops op List.mem_cons_self) (by omega)
    exact run_queue_wf_aux ops (step s op) h1.1 (fun o ho => hops o (List.mem_cons_of_mem _ ho))
      (by have := h1.2; omega)


/-! ### `SetSmartContractAsActive` / deployment records -/

theorem find_filter_ne (l : List (Nat × DepStatus)) (cid cid' : Nat) (h : cid' ≠ cid) :
    (l.filter fun d => d.1 != cid).find? (fun d => d.1 == cid') = l.find? (fun d => d.1 == cid') := by
  induction l with
  | nil => rfl
  | cons x l ih =>
    by_cases hx : x.1 = cid
    · have h1 : (x.1 != cid) = false := by simp [hx]
      have h2 : (x.1 == cid') = false := by simp [hx, Ne.symm h]
      rw [List.filter_cons, h1, List.find?_cons, h2]
      exact ih
    · have h1 : (x.1 != cid) = true := by simp [hx]
      simp only [List.filter_cons, h1, ↓reduceIte, List.find?_cons, ih]

theorem depStatus_setDep (c : Chain) (cid : Nat) (st : DepStatus) : depStatus (setDep c cid st) cid = some st := by
  simp [depStatus, setDep]

/-- recording a deployment touches the record of that contract id only -/
theorem depStatus_setDep_ne (c : Chain) (cid cid' : Nat) (st : DepStatus) (h : cid' ≠ cid) :
    depStatus (setDep c cid st) cid' = depStatus c cid' := by
  have h2 : (cid == cid') = false := by simp [Ne.symm h]
  simp only [depStatus, setDep, List.find?_cons, h2, find_filter_ne _ _ _ h]

theorem depStatus_delDep (c : Chain) (cid : Nat) : depStatus (delDep c cid) cid = none := by
  simp only [depStatus, delDep, Option.map_eq_none_iff, List.find?_eq_none]
  intro x hx
  simp only [List.mem_filter, bne_iff_ne, ne_eq] at hx
  simpa using hx.2

/-- deleting a deployment record touches the record of that contract id only -/
theorem depStatus_delDep_ne (c : Chain) (cid cid' : Nat) (h : cid' ≠ cid) :
    depStatus (delDep c cid) cid' = depStatus c cid' := by
  simp only [depStatus, delDep, find_filter_ne _ _ _ h]

/-- `SetSmartContractAsActive` in terms of the executable state: the deployment must be waiting, its
    record is deleted, the active contract id is raised to at least that id, and NOTHING else of the
    keeper state changes — in particular no other deployment record. -/
theorem setActive_spec (c c' : Chain) (cid : Nat) (h : setActive c cid = some c') :
    depStatus c cid = some .waiting ∧ depStatus c' cid = none ∧ cid ≤ c'.activeContract ∧
    c.activeContract ≤ c'.activeContract ∧ (c'.activeContract = c.activeContract ∨ c'.activeContract = cid) ∧
    c'.liveOn = c.liveOn ∧ c'.snapshots = c.snapshots ∧ c'.currentSnapshot = c.currentSnapshot ∧
    c'.userDeployments = c.userDeployments ∧ c'.userActive = c.userActive ∧ c'.handoverOk = c.handoverOk ∧
    ∀ cid', cid' ≠ cid → depStatus c' cid' = depStatus c cid' := by
  unfold setActive at h
  split at h
  · rename_i hw
    injection h with h
    subst h
    refine ⟨hw, depStatus_delDep _ _, ?_, ?_, ?_, rfl, rfl, rfl, rfl, rfl, rfl, ?_⟩
    · simp only [delDep]
      split <;> omega
    · simp only [delDep]
      split <;> omega
    · simp only [delDep]
      split
      · exact .inl rfl
      · exact .inr rfl
    · intro cid' hne
      rw [depStatus_delDep_ne _ _ _ hne]
      rfl
  · cases h

/-- what `GetLatestSnapshotOnChain` returns is an existing snapshot that lists the chain -/
theorem latestOnChain_some (c : Chain) : ∀ (n v : Nat), latestOnChain c n = some v →
    v ∈ c.liveOn ∧ v ∈ c.snapshots ∧ 1 ≤ v ∧ v ≤ n
  | 0, v, h => by simp [latestOnChain] at h
  | n + 1, v, h => by
    unfold latestOnChain at h
    split at h
    · cases h
    · rename_i hs
      split at h
      · rename_i hl
        injection h with h
        subst h
        exact ⟨by simpa using hl, by simpa using hs, by omega, Nat.le_refl _⟩
      · obtain ⟨h1, h2, h3, h4⟩ := latestOnChain_some c n v h
        exact ⟨h1, h2, h3, by omega⟩

theorem count_append_singleton (l : List Nat) (v w : Nat) :
    (l ++ [v]).count w = l.count w + (if v = w then 1 else 0) := by
  rw [List.count_append, List.count_singleton]
  by_cases h : v = w
  · simp [h]
  · have : (w == v) = false := by simp [Ne.symm h]
    simp [h, this]

/-- `contains` as membership for the user-deployment status -/
theorem mem_markUserActive (c : Chain) (cid x : Nat) :
    x ∈ (markUserActive c cid).userActive ↔ x ∈ c.userActive ∨ x = cid := by
  unfold markUserActive
  by_cases h : c.userActive.contains cid = true
  · simp only [h, ↓reduceIte]
    constructor
    · exact fun hx => .inl hx
    · rintro (hx | rfl)
      · exact hx
      · simpa using h
  · simp only [h, Bool.false_eq_true, ↓reduceIte, List.mem_cons]
    constructor
    · rintro (hx | hx)
      · exact .inr hx
      · exact .inl hx
    · rintro (hx | hx)
      · exact .inr hx
      · exact .inl hx

/-- listing the chain on the current snapshot makes `GetLatestSnapshotOnChain` succeed -/
theorem current_listed_hasSnapshot (c : Chain) (h1 : c.snapshots.contains c.currentSnapshot = true)
    (h2 : c.currentSnapshot ∈ c.liveOn) (h3 : 0 < c.currentSnapshot) : c.hasSnapshot = true := by
  unfold Chain.hasSnapshot
  cases hc : c.currentSnapshot with
  | zero => omega
  | succ n =>
    rw [hc] at h1 h2
    have h1' : n + 1 ∈ c.snapshots := by simpa using h1
    simp [latestOnChain, h1', h2]

/-! ### what call data binds: reading the content lists -/

/-- the selector of a compass method determines its argument types -/
theorem delivered_sel_tys (a1 a2 : Action) (id1 id2 : Nat) (d1 d2 : Bytes × List Ty × List V)
    (h1 : a1.delivered id1 = some d1) (h2 : a2.delivered id2 = some d2) (hs : d1.1 = d2.1) :
    d1.2.1 = d2.2.1 := by
  cases a1 <;> cases a2 <;>
    simp only [Action.delivered, Option.some.injEq, reduceCtorEq] at h1 h2 <;>
    subst h1 <;> subst h2 <;> first | rfl | (exfalso; dsimp only at hs; revert hs; decide)

/-- reading the content list of a logic call -/
theorem mustCarry_slc (f1 f2 : SLCFields) (id1 id2 : Nat) (h1 : id1 < U64) (h2 : id2 < U64)
    (h : (Action.slc f1).mustCarry id1 = (Action.slc f2).mustCarry id2) :
    id1 = id2 ∧ f1.contract = f2.contract ∧ f1.payload = f2.payload ∧
    feesOrDefault f1.fees = feesOrDefault f2.fees ∧ f1.sender = f2.sender ∧
    f1.deadline = f2.deadline ∧ f1.relayer = f2.relayer := by
  simp only [Action.mustCarry, Option.some.injEq, Prod.mk.injEq, List.cons.injEq, V.word.injEq, callV, feeV,
    V.seq.injEq, V.bytes.injEq, true_and, and_true] at h
  obtain ⟨⟨hc, hp⟩, ⟨hr, hco, hse, hsn⟩, hid, hd, hrel⟩ := h
  exact ⟨castI64_inj h1 h2 hid, hc, hp, fees_ext hr hco hse, hsn, hd, hrel⟩

theorem mustCarry_usc (f1 f2 : USCFields) (c1 c2 id1 id2 : Nat) (h1 : id1 < U64) (h2 : id2 < U64)
    (h : (Action.usc f1 c1).mustCarry id1 = (Action.usc f2 c2).mustCarry id2) :
    id1 = id2 ∧ f1.deployer = f2.deployer ∧ f1.bytecode = f2.bytecode ∧
    feesOrDefault f1.fees = feesOrDefault f2.fees ∧ f1.sender = f2.sender ∧
    f1.deadline = f2.deadline ∧ f1.relayer = f2.relayer := by
  simp only [Action.mustCarry, Option.some.injEq, Prod.mk.injEq, List.cons.injEq, V.word.injEq, feeV,
    V.seq.injEq, V.bytes.injEq, true_and, and_true] at h
  obtain ⟨hdp, hbc, ⟨hr, hco, hse, hsn⟩, hid, hd, hrel⟩ := h
  exact ⟨castI64_inj h1 h2 hid, hdp, hbc, fees_ext hr hco hse, hsn, hd, hrel⟩

theorem mustCarry_uv (f1 f2 : UVFields) (v1 v2 id1 id2 : Nat) (h1 : v1 < U64) (h2 : v2 < U64)
    (h : (Action.uv f1 v1).mustCarry id1 = (Action.uv f2 v2).mustCarry id2) :
    v1 = v2 ∧ f1.validators = f2.validators ∧ f1.powers = f2.powers ∧ f1.relayer = f2.relayer ∧
    f1.estimate = f2.estimate := by
  simp only [Action.mustCarry, Option.some.injEq, Prod.mk.injEq, List.cons.injEq, V.word.injEq,
    V.seq.injEq, true_and, and_true] at h
  obtain ⟨⟨hv, hp, hid⟩, hrel, hest⟩ := h
  exact ⟨castI64_inj h1 h2 hid, words_inj hv, words_inj hp, hrel, hest⟩

theorem mustCarry_ch (f1 f2 : CHFields) (c1 c2 id1 id2 : Nat)
    (h : (Action.ch f1 c1).mustCarry id1 = (Action.ch f2 c2).mustCarry id2) : f1 = f2 := by
  simp only [Action.mustCarry, Option.some.injEq, Prod.mk.injEq, List.cons.injEq, V.word.injEq,
    V.seq.injEq, true_and, and_true] at h
  obtain ⟨hc, hd, he, hr⟩ := h
  cases f1
  cases f2
  simp only [CHFields.mk.injEq]
  exact ⟨map_callV_inj hc, hd, hr, he⟩

theorem mustCarry_kind (a1 a2 : Action) (id1 id2 : Nat) (h1 : isUp a1 = false)
    (h : a1.mustCarry id1 = a2.mustCarry id2) : a1.kind = a2.kind := by
  cases a1 <;> cases a2 <;> simp only [Action.mustCarry, Option.some.injEq, Prod.mk.injEq, reduceCtorEq] at h <;>
    first | rfl | (exfalso; exact absurd h.1 (by decide)) | (simp [isUp] at h1)

/-- the compass valset inside equal consensus tuples -/
theorem consensusV_valset (vs1 vs2 : GoValset) (s1 s2 : List SignData)
    (h : consensusV vs1 s1 = consensusV vs2 s2) :
    vs1.validators.map hexToAddress = vs2.validators.map hexToAddress ∧
    vs1.powers.map castI64 = vs2.powers.map castI64 ∧ castI64 vs1.valsetId = castI64 vs2.valsetId := by
  simp only [consensusV, compassValsetV, V.seq.injEq, List.cons.injEq, V.word.injEq, and_true] at h
  exact ⟨words_inj h.1.1, words_inj h.1.2.1, h.1.2.2⟩


theorem eq_of_nodup_map_id : ∀ (q : List QMsg), (q.map (·.id)).Nodup → ∀ a ∈ q, ∀ b ∈ q, a.id = b.id → a = b
  | [], _, _, ha, _, _, _ => by cases ha
  | x :: q, hn, a, ha, b, hb, e => by
    simp only [List.map_cons, List.nodup_cons, List.mem_map, not_exists, not_and] at hn
    rcases List.mem_cons.1 ha with rfl | ha' <;> rcases List.mem_cons.1 hb with rfl | hb'
    · rfl
    · exact absurd e.symm (hn.1 b hb')
    · exact absurd e (hn.1 a ha')
    · exact eq_of_nodup_map_id q hn.2 a ha' b hb' e

theorem delivered_abiTys (a : Action) (id : Nat) (d : Bytes × List Ty × List V) (h : a.delivered id = some d) :
    d.2.1 = a.abiTys := by
  cases a <;> simp only [Action.delivered, Option.some.injEq, reduceCtorEq] at h <;> subst h <;> rfl

/-! ### histories: the point at which something becomes true; counting -/

/-- a point of a history at which a predicate on the state becomes true -/
theorem run_becomes (Q : St → Prop) : ∀ (ops : List Op) (s : St), ¬ Q s → Q (run s ops) →
    ∃ pre op post, ops = pre ++ op :: post ∧ ¬ Q (run s pre) ∧ Q (step (run s pre) op)
  | [], s, h0, h => absurd h h0
  | op :: ops, s, h0, h => by
    by_cases h1 : Q (step s op)
    · exact ⟨[], op, ops, rfl, h0, h1⟩
    · obtain ⟨pre, op', post, e, h2, h3⟩ := run_becomes Q ops (step s op) h1 h
      exact ⟨op :: pre, op', post, by rw [e]; rfl, h2, h3⟩

theorem countLive_append (v : Nat) (a b : List Effect) : countLive v (a ++ b) = countLive v a + countLive v b := by
  simp [countLive, List.filter_append]


/-- evidence stored per validator (`AddEvidence` replaces the proof of a validator that reports
again, C04) puts every validator at most once into a group -/
theorem groupFor_nodup (evs : List EvidenceV) (P : ProofV) (h : (evs.map (·.1)).Nodup) :
    (groupFor evs P).Nodup := by
  unfold groupFor
  exact (List.Sublist.map _ List.filter_sublist).nodup h


/-! ### governance over the set of supported chains: what it amounts to -/

theorem govOps_no_attempt (s : St) (g : Gov) : ∀ op ∈ govOps s g, op.attempt = none := by
  intro op h
  cases g <;> simp only [govOps, List.mem_map, List.not_mem_nil] at h
  obtain ⟨m, -, rfl⟩ := h
  rfl

theorem run_no_attempt : ∀ (ops : List Op) (s : St), (∀ op ∈ ops, op.attempt = none) →
    (run s ops).processed = s.processed ∧ (run s ops).accepted = s.accepted ∧
    (run s ops).effects = s.effects
  | [], _, _ => ⟨rfl, rfl, rfl⟩
  | op :: ops, s, h => by
    have h1 := no_attempt_step s op (h op List.mem_cons_self)
    have h2 := run_no_attempt ops (step s op) (fun o ho => h o (List.mem_cons_of_mem _ ho))
    simp only [run]
    exact ⟨h2.1.trans h1.2.2.1, h2.2.1.trans h1.1, h2.2.2.trans h1.2.1⟩

theorem run_removes : ∀ (ids : List Nat) (s : St),
    run s (ids.map Op.remove) = { s with queue := s.queue.filter fun m => !ids.contains m.id }
  | [], s => by
    cases s
    simp only [List.map_nil, run, List.contains_nil, Bool.not_false]
    congr 1
    exact (List.filter_eq_self.2 fun _ _ => rfl).symm
  | i :: ids, s => by
    simp only [List.map_cons, run, step]
    rw [run_removes ids]
    simp only [removeMsg, List.filter_filter]
    congr 1
    apply List.filter_congr
    intro m _
    simp only [List.contains_cons]
    cases ids.contains m.id <;> cases h : (m.id == i) <;> simp [bne, h]

theorem runE_is_a_history : ∀ (es : List Ev) (s : St), ∃ ops, run s ops = runE s es
  | [], _ => ⟨[], rfl⟩
  | .op o :: es, s => by
    obtain ⟨ops, h⟩ := runE_is_a_history es (step s o)
    exact ⟨o :: ops, h⟩
  | .gov g :: es, s => by
    obtain ⟨ops, h⟩ := runE_is_a_history es (gov s g)
    exact ⟨govOps s g ++ ops, by rw [run_append]; exact h⟩

end Lemmas

/-! ## Property theorems (C07) -/

/-! ### 1. accepted ⇒ the call data is the encoding of exactly that stored message -/

/-- **accept_implies_exact_calldata.** C07, first sentence: whenever the router accepts evidence for
message `id` (result `ok`, the only result that applies success effects), the winner is a
transaction proof whose call data equals the compass encoding of THAT stored message — action
arguments, the queue id `id` itself as message id, deadline, fees, relayer, and the consensus tuple
built from the selected valset and a NON-EMPTY prefix of the collected signatures (for a compass
upload: bytecode followed by the constructor input). -/
theorem accept_implies_exact_calldata (s : St) (id : Nat) (w : Winner)
    (h : (attest s id w).2 = .ok) :
    ∃ m p, findMsg s.queue id = some m ∧ m.id = id ∧ w = .tx p ∧ ExactFor m p.data := by
  have ho := attest_outcome s id w
  generalize attest s id w = r at ho h
  cases ho with
  | unchanged r hr => exact absurd h hr.1
  | errorHandled => cases h
  | rejected p r hw hr => rcases hr with rfl | rfl <;> cases h
  | accepted m p ce hm hw hrc hproc hv hs =>
    exact ⟨m, p, hm, (findMsg_some hm).2, hw, verify_ok_exact m p.data hv⟩

/-- **verify_ok_iff_exact.** `VerifyAgainstTX` succeeds exactly for the call data of the message
under one of the non-empty signature prefixes (both directions; late signatures are tolerated,
nothing else is). -/
theorem verify_ok_iff_exact (m : QMsg) (data : Bytes) :
    verifyAgainstTx m data = .ok ↔ ExactFor m data :=
  ⟨verify_ok_exact m data, exact_verify_ok m data⟩

/-- **verify_ok_iff_bridge_encoding.** `VerifyAgainstTX` succeeds exactly for the hand-written
specification of the bridge-contract encoding of the stored message. -/
theorem verify_ok_iff_bridge_encoding (m : QMsg) (data : Bytes) :
    verifyAgainstTx m data = .ok ↔ IsBridgeEncoding m data := by
  rw [verify_ok_iff_exact]
  unfold ExactFor IsBridgeEncoding
  cases ha : m.action with
  | up bc ct cid => simp [isUp, upData]
  | uv f vid =>
    simp only [isUp, Bool.false_eq_true, false_and, false_or, true_and]
    constructor
    · rintro ⟨d, i, hd, h1, h2, h3⟩
      refine ⟨d.1, d.2.2, i, ?_, h1, h2, ?_⟩
      · rw [← delivered_mustCarry, hd]; rfl
      · rw [← delivered_abiTys _ _ d hd]; exact h3
    · rintro ⟨sel, vals, i, hm, h1, h2, h3⟩
      obtain ⟨d, hd⟩ := delivered_isSome (.uv f vid) m.id rfl
      have : (d.1, d.2.2) = (sel, vals) := by
        have := delivered_mustCarry (.uv f vid) m.id
        rw [hd, hm] at this
        simpa using this
      injection this with e1 e2
      refine ⟨d, i, hd, h1, h2, ?_⟩
      rw [h3, ← e1, ← e2, ← delivered_abiTys _ _ d hd]
      rfl
  | slc f =>
    simp only [isUp, Bool.false_eq_true, false_and, false_or, true_and]
    constructor
    · rintro ⟨d, i, hd, h1, h2, h3⟩
      refine ⟨d.1, d.2.2, i, ?_, h1, h2, ?_⟩
      · rw [← delivered_mustCarry, hd]; rfl
      · rw [← delivered_abiTys _ _ d hd]; exact h3
    · rintro ⟨sel, vals, i, hm, h1, h2, h3⟩
      obtain ⟨d, hd⟩ := delivered_isSome (.slc f) m.id rfl
      have : (d.1, d.2.2) = (sel, vals) := by
        have := delivered_mustCarry (.slc f) m.id
        rw [hd, hm] at this
        simpa using this
      injection this with e1 e2
      refine ⟨d, i, hd, h1, h2, ?_⟩
      rw [h3, ← e1, ← e2, ← delivered_abiTys _ _ d hd]
      rfl
  | usc f cid =>
    simp only [isUp, Bool.false_eq_true, false_and, false_or, true_and]
    constructor
    · rintro ⟨d, i, hd, h1, h2, h3⟩
      refine ⟨d.1, d.2.2, i, ?_, h1, h2, ?_⟩
      · rw [← delivered_mustCarry, hd]; rfl
      · rw [← delivered_abiTys _ _ d hd]; exact h3
    · rintro ⟨sel, vals, i, hm, h1, h2, h3⟩
      obtain ⟨d, hd⟩ := delivered_isSome (.usc f cid) m.id rfl
      have : (d.1, d.2.2) = (sel, vals) := by
        have := delivered_mustCarry (.usc f cid) m.id
        rw [hd, hm] at this
        simpa using this
      injection this with e1 e2
      refine ⟨d, i, hd, h1, h2, ?_⟩
      rw [h3, ← e1, ← e2, ← delivered_abiTys _ _ d hd]
      rfl
  | ch f cid =>
    simp only [isUp, Bool.false_eq_true, false_and, false_or, true_and]
    constructor
    · rintro ⟨d, i, hd, h1, h2, h3⟩
      refine ⟨d.1, d.2.2, i, ?_, h1, h2, ?_⟩
      · rw [← delivered_mustCarry, hd]; rfl
      · rw [← delivered_abiTys _ _ d hd]; exact h3
    · rintro ⟨sel, vals, i, hm, h1, h2, h3⟩
      obtain ⟨d, hd⟩ := delivered_isSome (.ch f cid) m.id rfl
      have : (d.1, d.2.2) = (sel, vals) := by
        have := delivered_mustCarry (.ch f cid) m.id
        rw [hd, hm] at this
        simpa using this
      injection this with e1 e2
      refine ⟨d, i, hd, h1, h2, ?_⟩
      rw [h3, ← e1, ← e2, ← delivered_abiTys _ _ d hd]
      rfl


/-- **accepted_calldata_content.** The content of an accepted ABI call, spelled out against the
hand-written list `Action.mustCarry`: the method selector, then the ABI encoding of the consensus
tuple of a non-empty signature prefix followed by exactly the listed values — in particular the
message-id word is `castI64 m.id`, the id under which the message is stored, acceptances are logged
and effects are tagged (`accept_implies_exact_calldata`: `m.id = id`), and the valset-id word of an
update-valset is `castI64 vid` for the `vid` the snapshot effect is keyed by.  The free fields
`SLCFields.id` / `USCFields.id` / `UVFields.valsetId` of the action play no role. -/
theorem accepted_calldata_content (m : QMsg) (data : Bytes) (hu : isUp m.action = false)
    (hv : verifyAgainstTx m data = .ok) :
    ∃ d i, m.action.delivered m.id = some d ∧ m.action.mustCarry m.id = some (d.1, d.2.2) ∧
      1 ≤ i ∧ i ≤ m.sigs.length ∧
      data = d.1 ++ encodeArgs (consensusTy :: d.2.1) (consensusV m.valset (m.sigs.take i) :: d.2.2) := by
  rcases verify_ok_exact m data hv with ⟨hu', -⟩ | ⟨-, d, i, hd, h1, h2, h3⟩
  · rw [hu] at hu'; cases hu'
  · refine ⟨d, i, hd, ?_, h1, h2, h3⟩
    rw [← delivered_mustCarry, hd]
    rfl

/-- **exact_calldata_binds_values.** … "equals the bridge-contract encoding of that message": if
the accepted call data is ALSO the encoding of some well-typed argument list `vals'` under some
consensus tuple `c'` (same method), then `vals'` are exactly the message's delivered values and
`c'` is the consensus built from a non-empty signature prefix.  (Injectivity of the encoder:
`Abi.calldata_injective`.)  So no other target, payload, fee, fee payer, id, deadline, relayer,
valset or estimate can hide behind an accepted transaction. -/
theorem exact_calldata_binds_values (m : QMsg) (data : Bytes) (d : Bytes × List Ty × List V)
    (hd : m.action.delivered m.id = some d) (hex : ExactFor m data)
    (hcw : ConsWf m.valset m.sigs)
    (hty : ∀ c, hasType consensusTy c = true → hasTypeArgs (consensusTy :: d.2.1) (c :: d.2.2) = true)
    (c' : V) (vals' : List V) (ht' : hasTypeArgs (consensusTy :: d.2.1) (c' :: vals') = true)
    (hdata : data = calldata d.1 d.2.1 vals' c') :
    vals' = d.2.2 ∧ ∃ i, 1 ≤ i ∧ i ≤ m.sigs.length ∧ c' = consensusV m.valset (m.sigs.take i) := by
  rcases hex with ⟨hu, -⟩ | ⟨-, d0, i, hd0, h1, h2, h3⟩
  · cases ha : m.action <;> simp [ha, isUp, Action.delivered] at hu hd
  · rw [hd] at hd0
    injection hd0 with hd0
    subst hd0
    have htm := hty _ (consensus_typed m.valset (m.sigs.take i) (consWf_take _ _ hcw i))
    rw [h3] at hdata
    unfold calldata at hdata
    have := calldata_injective _ _ _ _ htm ht' hdata
    injection this with hc hv
    exact ⟨hv.symm, i, h1, h2, hc.symm⟩

/-- the typing side condition of `exact_calldata_binds_values` holds for logic calls with
well-typed fields (with or without fees: `feesOrDefault`). -/
theorem slc_delivered_typed (f : SLCFields) (hf : SLC.wf f = true) (c : V)
    (hc : hasType consensusTy c = true) :
    hasTypeArgs (consensusTy :: SLC.deliveredTys) (c :: SLC.deliveredVals f) = true := by
  simp only [SLC.wf, Bool.and_eq_true, decide_eq_true_eq] at hf
  obtain ⟨⟨⟨⟨⟨⟨⟨h1, h2⟩, h3⟩, h4⟩, h5⟩, h6⟩, h7⟩, h8⟩ := hf
  have hf := fees_lt _ h3
  rw [hasTypeArgs_cons, hc]
  simp [hasTypeArgs, SLC.deliveredTys, SLC.deliveredVals, callTy, feeTy, callV, feeV, hasType, hasTypes,
    h1, h2, h4, h5, h7, h8, hf.1, hf.2.1, hf.2.2]

/-- the same side condition for update-valset, user contract deployment and compass handover -/
theorem uv_delivered_typed (f : UVFields) (hf : UV.wf f = true) (c : V)
    (hc : hasType consensusTy c = true) :
    hasTypeArgs (consensusTy :: UV.deliveredTys) (c :: UV.deliveredVals f) = true := by
  simp only [UV.wf, Bool.and_eq_true, decide_eq_true_eq] at hf
  obtain ⟨⟨⟨⟨⟨⟨⟨h1, h2⟩, h3⟩, h4⟩, h5⟩, -⟩, h7⟩, h8⟩ := hf
  have := U64_lt_W256
  rw [hasTypeArgs_cons, hc]
  simp only [hasTypeArgs, UV.deliveredTys, UV.deliveredVals, UV.valsetV, valsetTy, hasType, hasTypes,
    hasType_addresses _ h1 h2, hasType_uints _ h3 h4, Bool.and_true, Bool.true_and, decide_eq_true_eq,
    Bool.and_eq_true]
  exact ⟨h5, h7, by omega⟩

theorem usc_delivered_typed (f : USCFields) (hf : USC.wf f = true) (c : V)
    (hc : hasType consensusTy c = true) :
    hasTypeArgs (consensusTy :: USC.deliveredTys) (c :: USC.deliveredVals f) = true := by
  simp only [USC.wf, Bool.and_eq_true, decide_eq_true_eq] at hf
  obtain ⟨⟨⟨⟨⟨⟨⟨h1, h2⟩, h3⟩, h4⟩, h5⟩, h6⟩, h7⟩, h8⟩ := hf
  have hf := fees_lt _ h3
  rw [hasTypeArgs_cons, hc]
  simp [hasTypeArgs, USC.deliveredTys, USC.deliveredVals, feeTy, feeV, hasType, hasTypes,
    h1, h2, h4, h5, h7, h8, hf.1, hf.2.1, hf.2.2]

theorem ch_delivered_typed (f : CHFields) (hf : CH.wf f = true) (c : V)
    (hc : hasType consensusTy c = true) :
    hasTypeArgs (consensusTy :: CH.deliveredTys) (c :: CH.deliveredVals f) = true := by
  simp only [CH.wf, Bool.and_eq_true, decide_eq_true_eq] at hf
  obtain ⟨⟨⟨⟨h1, h2⟩, h3⟩, h4⟩, h5⟩ := hf
  have := U64_lt_W256
  rw [hasTypeArgs_cons, hc, CH.deliveredTys, CH.deliveredVals, Bool.true_and, hasTypeArgs_cons,
    hasType_calls _ h1 h2]
  simp only [hasTypeArgs, hasType, hasTypes, Bool.and_true, Bool.true_and, decide_eq_true_eq,
    Bool.and_eq_true]
  exact ⟨h3, by omega, h4⟩

/-- **delivered_typed.** The typing side condition for EVERY ABI action of a message whose values
are in the ranges of their Go types (`QMsg.Wf`), with the queue id and the Go valset id substituted
as `VerifyAgainstTX` does. -/
theorem delivered_typed (m : QMsg) (hw : m.Wf) (d : Bytes × List Ty × List V)
    (hd : m.action.delivered m.id = some d) (c : V) (hc : hasType consensusTy c = true) :
    hasTypeArgs (consensusTy :: d.2.1) (c :: d.2.2) = true := by
  have hid := castI64_lt hw.id
  have ha := hw.action
  cases hact : m.action with
  | uv f vid =>
    rw [hact] at hd ha
    simp only [Action.delivered, Option.some.injEq] at hd
    subst hd
    simp only [Action.wf, Bool.and_eq_true, decide_eq_true_eq] at ha
    refine uv_delivered_typed _ ?_ c hc
    have h0 := ha.1
    simp only [UV.wf, Bool.and_eq_true, decide_eq_true_eq] at h0 ⊢
    obtain ⟨⟨⟨⟨⟨⟨⟨h1, h2⟩, h3⟩, h4⟩, -⟩, h6⟩, h7⟩, h8⟩ := h0
    exact ⟨⟨⟨⟨⟨⟨⟨h1, h2⟩, h3⟩, h4⟩, castI64_lt ha.2⟩, h6⟩, h7⟩, h8⟩
  | slc f =>
    rw [hact] at hd ha
    simp only [Action.delivered, Option.some.injEq] at hd
    subst hd
    refine slc_delivered_typed _ ?_ c hc
    simp only [Action.wf] at ha
    simp only [SLC.wf, Bool.and_eq_true, decide_eq_true_eq] at ha ⊢
    obtain ⟨⟨⟨⟨⟨⟨⟨h1, h2⟩, h3⟩, h4⟩, -⟩, h6⟩, h7⟩, h8⟩ := ha
    exact ⟨⟨⟨⟨⟨⟨⟨h1, h2⟩, h3⟩, h4⟩, hid⟩, h6⟩, h7⟩, h8⟩
  | usc f cid =>
    rw [hact] at hd ha
    simp only [Action.delivered, Option.some.injEq] at hd
    subst hd
    refine usc_delivered_typed _ ?_ c hc
    simp only [Action.wf] at ha
    simp only [USC.wf, Bool.and_eq_true, decide_eq_true_eq] at ha ⊢
    obtain ⟨⟨⟨⟨⟨⟨⟨h1, h2⟩, h3⟩, h4⟩, -⟩, h6⟩, h7⟩, h8⟩ := ha
    exact ⟨⟨⟨⟨⟨⟨⟨h1, h2⟩, h3⟩, h4⟩, hid⟩, h6⟩, h7⟩, h8⟩
  | ch f cid =>
    rw [hact] at hd ha
    simp only [Action.delivered, Option.some.injEq] at hd
    subst hd
    exact ch_delivered_typed f ha c hc
  | up bc ctor cid =>
    rw [hact] at hd
    cases hd

/-- **accepted_calldata_decodes_to_the_message.** The decoding direction, with no side condition
left open: for a message in the Go ranges, if accepted call data is the packing (same method) of ANY
well-typed consensus tuple `c'` and argument list `vals'`, then `vals'` is the hand-written content
list of THIS message under its queue id, and `c'` is the consensus of a non-empty prefix of its
collected signatures over its selected valset. -/
theorem accepted_calldata_decodes_to_the_message (m : QMsg) (hw : m.Wf) (data : Bytes)
    (hv : verifyAgainstTx m data = .ok) (d : Bytes × List Ty × List V)
    (hd : m.action.delivered m.id = some d) (c' : V) (vals' : List V)
    (ht' : hasTypeArgs (consensusTy :: d.2.1) (c' :: vals') = true)
    (hdata : data = d.1 ++ encodeArgs (consensusTy :: d.2.1) (c' :: vals')) :
    m.action.mustCarry m.id = some (d.1, vals') ∧
      ∃ i, 1 ≤ i ∧ i ≤ m.sigs.length ∧ c' = consensusV m.valset (m.sigs.take i) := by
  obtain ⟨h1, h2⟩ := exact_calldata_binds_values m data d hd (verify_ok_exact m data hv) hw.cons
    (delivered_typed m hw d hd) c' vals' ht' hdata
  refine ⟨?_, h2⟩
  rw [← delivered_mustCarry, hd, h1]
  rfl

/-! ### 2. every other call data is rejected -/

/-- **corrupted_calldata_rejected.** If `data` is not the encoding of `m` for any non-empty
signature prefix, verification does not succeed (the specific corruptions follow). -/
theorem corrupted_calldata_rejected (m : QMsg) (data : Bytes) (h : ¬ ExactFor m data) :
    verifyAgainstTx m data ≠ .ok := fun hv => h (verify_ok_exact m data hv)

/-- `VerifyAgainstTX` has two answers -/
theorem verify_not_ok_iff (m : QMsg) (data : Bytes) :
    verifyAgainstTx m data ≠ .ok ↔ verifyAgainstTx m data = .notVerified := by
  cases verifyAgainstTx m data <;> simp

/-- **verify_ok_iff_candidate.** Arbitrary byte strings: `VerifyAgainstTX` accepts `data` iff it is one
of at most `max 1 (number of collected signatures)` explicitly listed strings.  So EVERY edit of
accepted call data — any number of flipped, inserted or deleted bytes anywhere, not just well-typed
re-packings — is rejected unless it happens to produce another string of that list (the encoding
under another signature prefix). -/
theorem verify_ok_iff_candidate (m : QMsg) (data : Bytes) :
    verifyAgainstTx m data = .ok ↔ data ∈ candidates m := by
  rw [verify_ok_iff_exact]
  unfold ExactFor candidates
  by_cases hu : isUp m.action = true
  · simp [hu]
  · have hu' : isUp m.action = false := by simpa using hu
    obtain ⟨d, hd⟩ := delivered_isSome m.action m.id hu'
    simp only [hu', Bool.false_eq_true, false_and, false_or, true_and, ↓reduceIte, hd, List.mem_map,
      List.mem_range, Option.some.injEq]
    constructor
    · rintro ⟨d', i, hd', h1, h2, h3⟩
      subst hd'
      refine ⟨i - 1, by omega, ?_⟩
      rw [h3]
      have : i - 1 + 1 = i := by omega
      rw [this]
    · rintro ⟨k, hk, h3⟩
      exact ⟨d, k + 1, rfl, by omega, by omega, h3.symm⟩

theorem candidates_length_le (m : QMsg) : (candidates m).length ≤ max 1 m.sigs.length := by
  unfold candidates
  split
  · simp; omega
  · split
    · simp
    · simp; omega

/-- **arbitrary_edit_rejected.** … in the form of the quantifier: any byte string outside that list is
not verified. -/
theorem arbitrary_edit_rejected (m : QMsg) (data' : Bytes) (h : data' ∉ candidates m) :
    verifyAgainstTx m data' = .notVerified :=
  (verify_not_ok_iff m data').1 fun hv => h ((verify_ok_iff_candidate m data').1 hv)


/-- **corrupted_field_rejected.** All single- and multi-field corruptions of otherwise valid call
data: the packing (same method, any well-typed consensus tuple) of an argument list that differs
from the message's in AT LEAST ONE value — another target, payload, fee, fee payer, message id,
deadline, relayer, valset member, power, valset id or estimate — is not verified. -/
theorem corrupted_field_rejected (m : QMsg) (hw : m.Wf) (d : Bytes × List Ty × List V)
    (hd : m.action.delivered m.id = some d) (c' : V) (vals' : List V)
    (ht' : hasTypeArgs (consensusTy :: d.2.1) (c' :: vals') = true) (hne : vals' ≠ d.2.2) :
    verifyAgainstTx m (calldata d.1 d.2.1 vals' c') = .notVerified := by
  rw [← verify_not_ok_iff]
  intro hv
  exact hne (exact_calldata_binds_values m _ d hd (verify_ok_exact m _ hv) hw.cons
    (delivered_typed m hw d hd) c' vals' ht' rfl).1

/-- **foreign_consensus_rejected.** The same for the consensus argument: the message's own values
under a consensus tuple that is not built from its selected valset and one of the non-empty prefixes
of its collected signatures (another valset, other signatures, the empty prefix when that differs)
is not verified. -/
theorem foreign_consensus_rejected (m : QMsg) (hw : m.Wf) (d : Bytes × List Ty × List V)
    (hd : m.action.delivered m.id = some d) (c' : V) (hc' : hasType consensusTy c' = true)
    (hne : ∀ i, 1 ≤ i → i ≤ m.sigs.length → c' ≠ consensusV m.valset (m.sigs.take i)) :
    verifyAgainstTx m (calldata d.1 d.2.1 d.2.2 c') = .notVerified := by
  rw [← verify_not_ok_iff]
  intro hv
  obtain ⟨-, i, h1, h2, h3⟩ := exact_calldata_binds_values m _ d hd (verify_ok_exact m _ hv) hw.cons
    (delivered_typed m hw d hd) c' d.2.2 (delivered_typed m hw d hd c' hc') rfl
  exact hne i h1 h2 h3

/-- **accepted_calldata_starts_with_selector.** Accepted call data of an ABI action begins with the
four selector bytes of that action's compass method … -/
theorem accepted_calldata_starts_with_selector (m : QMsg) (data : Bytes) (hu : isUp m.action = false)
    (hv : verifyAgainstTx m data = .ok) :
    ∃ d, m.action.delivered m.id = some d ∧ data.take 4 = d.1 := by
  obtain ⟨d, i, hd, -, -, -, h⟩ := accepted_calldata_content m data hu hv
  refine ⟨d, hd, ?_⟩
  rw [h, List.take_append_of_le_length (by rw [delivered_sel_length _ _ _ hd]; exact Nat.le_refl 4),
    ← delivered_sel_length _ _ _ hd, List.take_length]

/-- **other_selector_rejected.** … so call data whose first four bytes are anything else (another
compass method with the same arguments, a foreign contract's method, fewer than four bytes) is not
verified, whatever follows. -/
theorem other_selector_rejected (m : QMsg) (data : Bytes) (d : Bytes × List Ty × List V)
    (hd : m.action.delivered m.id = some d) (hsel : data.take 4 ≠ d.1) :
    verifyAgainstTx m data = .notVerified := by
  rw [← verify_not_ok_iff]
  intro hv
  have hu : isUp m.action = false := by
    cases ha : m.action <;> simp [ha, isUp, Action.delivered] at hd ⊢
  obtain ⟨d', hd', h⟩ := accepted_calldata_starts_with_selector m data hu hv
  rw [hd] at hd'
  injection hd' with hd'
  subst hd'
  exact hsel h

/-- **accepted_calldata_self_delimiting.** Nothing may follow accepted call data and nothing may be
missing, for EVERY action type: a byte string and a proper extension of it are never both verified
for the same message.  (ABI actions: all candidate encodings — one per signature prefix — are
encodings of well-typed argument lists, and the ABI encoding is prefix-free,
`Abi.encode_prefix_free`; compass upload: the expected string is unique.) -/
theorem accepted_calldata_self_delimiting (m : QMsg) (hw : m.Wf) (data extra : Bytes)
    (he : extra ≠ []) :
    ¬ (verifyAgainstTx m data = .ok ∧ verifyAgainstTx m (data ++ extra) = .ok) := by
  rintro ⟨h1, h2⟩
  rcases verify_ok_exact m _ h1 with ⟨hu, hd⟩ | ⟨hu, d, i, hd, -, -, hdat⟩
  · rcases verify_ok_exact m _ h2 with ⟨-, hd2⟩ | ⟨hu2, -⟩
    · rw [hd] at hd2
      have hl := congrArg List.length hd2
      simp only [List.length_append] at hl
      exact he (List.eq_nil_of_length_eq_zero (by omega))
    · rw [hu] at hu2; cases hu2
  · rcases verify_ok_exact m _ h2 with ⟨hu2, -⟩ | ⟨-, d2, j, hd2, -, -, hdat2⟩
    · rw [hu] at hu2; cases hu2
    · rw [hd] at hd2
      injection hd2 with hd2
      subst hd2
      rw [hdat] at hdat2
      unfold calldata at hdat2
      rw [List.append_assoc] at hdat2
      have h3 := List.append_cancel_left hdat2
      have hti := delivered_typed m hw d hd _ (consensus_typed m.valset (m.sigs.take i) (consWf_take _ _ hw.cons i))
      have htj := delivered_typed m hw d hd _ (consensus_typed m.valset (m.sigs.take j) (consWf_take _ _ hw.cons j))
      have := encode_prefix_free (.tuple (consensusTy :: d.2.1)) _ _ extra [] hti htj
        (by rw [List.append_nil]; exact h3)
      exact he this.2

/-- **trailing_bytes_rejected.** Accepted call data followed by at least one more byte is not
verified (any action type). -/
theorem trailing_bytes_rejected (m : QMsg) (hw : m.Wf) (data extra : Bytes) (he : extra ≠ [])
    (hv : verifyAgainstTx m data = .ok) : verifyAgainstTx m (data ++ extra) = .notVerified := by
  rw [← verify_not_ok_iff]
  exact fun h => accepted_calldata_self_delimiting m hw data extra he ⟨hv, h⟩

/-- **truncated_calldata_rejected.** A proper prefix of accepted call data (a cut argument block,
the selector alone, the empty string) is not verified (any action type). -/
theorem truncated_calldata_rejected (m : QMsg) (hw : m.Wf) (data rest : Bytes) (hr : rest ≠ [])
    (hv : verifyAgainstTx m (data ++ rest) = .ok) : verifyAgainstTx m data = .notVerified := by
  rw [← verify_not_ok_iff]
  exact fun h => accepted_calldata_self_delimiting m hw data rest hr ⟨h, hv⟩

/-- **empty_prefix_never_tried.** "a prefix of the collected signatures": the Go loop runs
`for i := len(sigs); i > 0; i--`; without signatures nothing verifies. -/
theorem empty_prefix_never_tried (m : QMsg) (data : Bytes) (hu : isUp m.action = false)
    (hs : m.sigs = []) : verifyAgainstTx m data ≠ .ok := by
  intro hv
  rcases verify_ok_exact m data hv with ⟨hu', -⟩ | ⟨-, d, i, -, h1, h2, -⟩
  · rw [hu] at hu'; cases hu'
  · rw [hs] at h2
    simp at h2
    omega

/-! ### 3. what the signature slots of accepted call data are -/

/-- **consensus_slots_are_collected_signatures.** The consensus tuple has exactly one signature slot
per validator STRING of the selected valset, in valset order.  A slot is either `(v, r, s)` of a
collected signature of the prefix that is stored under exactly that validator's external address,
or `(0, 0, 0)` — the latter precisely when NO signature of the prefix is stored under that address.
Signatures of the prefix by addresses that are not in the selected valset appear nowhere. -/
theorem consensus_slots_are_collected_signatures (vs : GoValset) (sd : List SignData) :
    consensusV vs sd = .seq [compassValsetV vs, .seq (vs.validators.map fun v => sigV (lookupSig sd v))] ∧
    ∀ v, (∃ s ∈ sd, s.ext = v ∧ sigV (lookupSig sd v) = .seq [.word s.v, .word s.r, .word s.s]) ∨
         ((∀ s ∈ sd, s.ext ≠ v) ∧ sigV (lookupSig sd v) = .seq [.word 0, .word 0, .word 0]) := by
  refine ⟨rfl, ?_⟩
  intro v
  cases h : lookupSig sd v with
  | some s =>
    obtain ⟨h1, h2⟩ := lookupSig_some sd v s h
    exact .inl ⟨s, h1, h2, rfl⟩
  | none => exact .inr ⟨(lookupSig_none sd v).1 h, rfl⟩

/-- **prefix_of_strangers_is_the_empty_consensus.** When no signature of the prefix is stored under
an address of the selected valset, the consensus tuple is the one built from NO signature at all:
every slot is `(0, 0, 0)`. -/
theorem prefix_of_strangers_is_the_empty_consensus (vs : GoValset) (sd : List SignData)
    (h : ∀ s ∈ sd, s.ext ∉ vs.validators) : consensusV vs sd = consensusV vs [] := by
  have hm : (vs.validators.map fun v => sigV (lookupSig sd v)) =
      vs.validators.map fun v => sigV (lookupSig [] v) := by
    apply List.map_congr_left
    intro v hv
    have : lookupSig sd v = none := (lookupSig_none sd v).2 fun s hs he => h s hs (he ▸ hv)
    rw [this]
    rfl
  unfold consensusV
  rw [hm]

/-
FULL-STRENGTH reading that does NOT hold (audit finding "a non-empty prefix can carry zero real
signatures"):

  theorem accepted_calldata_carries_a_signature (m : QMsg) (data : Bytes) (hu : isUp m.action = false)
      (hv : verifyAgainstTx m data = .ok) :
      ∃ s ∈ m.sigs, s.ext ∈ m.valset.validators   -- some slot holds a collected signature

The Go code (`BuildCompassConsensus`) looks the collected signatures up by the validator strings of
the valset selected through `PublicAccessData.ValsetID`; signatures stored under other addresses —
or all of them, when that valset is the empty one (id 0 / unknown snapshot) — are dropped silently
and the loop `for i := len(sigs); i > 0; i--` only requires that SOME signature was collected.  The
negation is proved with a concrete witness below; `accepted_slots_partial` is the true part.
Reproduced on the implementation by the harness (Props/C07.md, finding 3).  Within the text of C07
(call data = encoding of "validator set and a prefix of the collected signatures") this is
conforming: the encoding of such a prefix IS the all-zero tuple; a real compass rejects it.
-/

/-- **signatureless_calldata_accepted.** Honest statement of that behaviour: if the message has at
least one collected signature but none under an address of the selected valset, then the call data
whose consensus tuple carries NO signature (all slots zero) is verified. -/
theorem signatureless_calldata_accepted (m : QMsg) (d : Bytes × List Ty × List V)
    (hd : m.action.delivered m.id = some d) (hne : m.sigs ≠ [])
    (hs : ∀ s ∈ m.sigs, s.ext ∉ m.valset.validators) :
    verifyAgainstTx m (calldata d.1 d.2.1 d.2.2 (consensusV m.valset [])) = .ok := by
  apply exact_verify_ok
  have hu : isUp m.action = false := by
    cases ha : m.action <;> simp [ha, isUp, Action.delivered] at hd ⊢
  refine .inr ⟨hu, d, 1, hd, Nat.le_refl 1, ?_, ?_⟩
  · cases hsg : m.sigs with
    | nil => exact absurd hsg hne
    | cons x xs => simp
  · rw [prefix_of_strangers_is_the_empty_consensus m.valset (m.sigs.take 1)
      fun s hs' => hs s (List.mem_of_mem_take hs')]

/-- **accepted_slots_partial.** The true part: in accepted call data of an ABI action the prefix is
non-empty (at least one signature had been collected) and every NON-ZERO signature slot is a
collected signature of the message, stored under the external address of the validator whose slot
it fills. -/
theorem accepted_slots_partial (m : QMsg) (data : Bytes) (hu : isUp m.action = false)
    (hv : verifyAgainstTx m data = .ok) :
    ∃ d i, m.action.delivered m.id = some d ∧ 1 ≤ i ∧ i ≤ m.sigs.length ∧
      data = calldata d.1 d.2.1 d.2.2 (consensusV m.valset (m.sigs.take i)) ∧
      ∀ v, sigV (lookupSig (m.sigs.take i) v) ≠ .seq [.word 0, .word 0, .word 0] →
        ∃ s ∈ m.sigs, s.ext = v ∧
          sigV (lookupSig (m.sigs.take i) v) = .seq [.word s.v, .word s.r, .word s.s] := by
  rcases verify_ok_exact m data hv with ⟨hu', -⟩ | ⟨-, d, i, hd, h1, h2, h3⟩
  · rw [hu] at hu'; cases hu'
  · refine ⟨d, i, hd, h1, h2, h3, ?_⟩
    intro v hz
    rcases (consensus_slots_are_collected_signatures m.valset (m.sigs.take i)).2 v with
      ⟨s, hs, he, hq⟩ | ⟨-, hq⟩
    · exact ⟨s, List.mem_of_mem_take hs, he, hq⟩
    · exact absurd hq hz


/-! ### 4. the receipt, and: no acceptance ⇒ no success effect -/

/-- **accept_implies_success_receipt.** C07, "… and its receipt reports success": acceptance
requires a decodable receipt with status 1. -/
theorem accept_implies_success_receipt (s : St) (id : Nat) (w : Winner)
    (h : (attest s id w).2 = .ok) : ∃ p, w = .tx p ∧ p.receipt = some 1 := by
  have ho := attest_outcome s id w
  generalize attest s id w = r at ho h
  cases ho with
  | unchanged r hr => exact absurd h hr.1
  | errorHandled => cases h
  | rejected p r hw hr => rcases hr with rfl | rfl <;> cases h
  | accepted m p ce hm hw hrc hproc hv hs => exact ⟨p, hw, hrc⟩

/-- **effects_only_on_accept.** C07, "any other transaction, or a failed receipt, never produces
the message's success effects": every outcome other than `ok` leaves the effect log, the keeper
state read by the attesters (snapshots live on the chain, deployments, active contract, user
deployments) and the acceptance log untouched. -/
theorem effects_only_on_accept (s : St) (id : Nat) (w : Winner) (h : (attest s id w).2 ≠ .ok) :
    (attest s id w).1.effects = s.effects ∧ (attest s id w).1.chain = s.chain ∧
    (attest s id w).1.accepted = s.accepted := by
  have ho := attest_outcome s id w
  generalize attest s id w = r at ho h
  cases ho with
  | unchanged r hr => exact ⟨rfl, rfl, rfl⟩
  | errorHandled => exact ⟨rfl, rfl, rfl⟩
  | rejected p r hw hr => exact ⟨rfl, rfl, rfl⟩
  | accepted m p ce hm hw hrc hproc hv hs => exact absurd rfl h

/-- **rejections_by_cause.** The individual causes named by the property: no winner, an error
proof, a missing or failed receipt, a transaction that does not verify, a transaction that
was used before, and a message whose expected call data cannot be built at all (nothing to compare
the transaction with) — none of them is accepted. -/
theorem rejections_by_cause (s : St) (id : Nat) (m : QMsg) (hm : findMsg s.queue id = some m) :
    (attest s id .none).2 = .noop ∧
    (attest s id .errorProof).2 = .errorHandled ∧
    (attest s id .other).2 = .postErr ∧
    (∀ p, p.receipt = none → (attest s id (.tx p)).2 = .receiptErr) ∧
    (∀ p st, p.receipt = some st → st ≠ 1 → (attest s id (.tx p)).2 = .txFailed) ∧
    (∀ p, p.receipt = some 1 → p.hash ∈ s.processed → (attest s id (.tx p)).2 = .alreadyProcessed) ∧
    (∀ p, p.receipt = some 1 → p.hash ∉ s.processed → buildable s.chain.abi m = false →
        (attest s id (.tx p)).2 = .encodeErr) ∧
    (∀ p, p.receipt = some 1 → p.hash ∉ s.processed → buildable s.chain.abi m = true →
        verifyAgainstTx m p.data = .notVerified → (attest s id (.tx p)).2 = .notVerified) ∧
    (∀ p, p.receipt = some 1 → p.hash ∉ s.processed → buildable s.chain.abi m = true →
        verifyAgainstTx m p.data = .ok →
        applySuccess s.chain m p = none → (attest s id (.tx p)).2 = .postErr) := by
  refine ⟨?_, ?_, ?_, ?_, ?_, ?_, ?_, ?_, ?_⟩
  · simp [attest, hm]
  · simp [attest, hm]
  · simp [attest, hm]
  · intro p hp
    simp [attest, hm, hp]
  · intro p st hp hst
    simp [attest, hm, hp, hst]
  · intro p hp hh
    simp [attest, hm, hp, hh]
  · intro p hp hh hb
    simp [attest, hm, hp, hh, hb]
  · intro p hp hh hb hv
    simp [attest, hm, hp, hh, hb, hv]
  · intro p hp hh hb hv hs
    simp [attest, hm, hp, hh, hb, hv, hs]

/-- **unknown_message_rejected.** … and evidence for an id under which nothing is stored. -/
theorem unknown_message_rejected (s : St) (id : Nat) (w : Winner) (h : findMsg s.queue id = none) :
    attest s id w = (s, .unknownMsg) := by
  simp [attest, h]

/-- **non_matching_tx_no_effects.** C07, second clause, at the router, for every state: a
transaction proof whose receipt is missing or not successful, whose transaction was used before, or
whose call data is not verified for the stored message is not accepted, and effect log, keeper state
and acceptance log stay as they were.  (Instances of "not verified": `corrupted_field_rejected`,
`foreign_consensus_rejected`, `other_selector_rejected`, `trailing_bytes_rejected`,
`truncated_calldata_rejected`, `up_trailing_bytes_rejected`, `up_proper_prefix_rejected`.) -/
theorem non_matching_tx_no_effects (s : St) (id : Nat) (m : QMsg) (hm : findMsg s.queue id = some m)
    (p : TxProof)
    (h : p.receipt ≠ some 1 ∨ p.hash ∈ s.processed ∨ verifyAgainstTx m p.data = .notVerified) :
    (attest s id (.tx p)).2 ≠ .ok ∧ (attest s id (.tx p)).1.effects = s.effects ∧
    (attest s id (.tx p)).1.chain = s.chain ∧ (attest s id (.tx p)).1.accepted = s.accepted := by
  have hne : (attest s id (.tx p)).2 ≠ .ok := by
    intro hok
    have ho := attest_outcome s id (.tx p)
    generalize attest s id (.tx p) = r at ho hok
    cases ho with
    | unchanged r hr => exact hr.1 hok
    | errorHandled => cases hok
    | rejected p r hw hr => rcases hr with rfl | rfl <;> cases hok
    | accepted m' p' ce hm' hw hrc hproc hv hs =>
      injection hw with hw
      subst hw
      rw [hm] at hm'
      injection hm' with hm'
      subst hm'
      rcases h with h | h | h
      · exact h hrc
      · have : s.processed.contains p.hash = true := by simpa using h
        rw [this] at hproc
        cases hproc
      · rw [h] at hv
        cases hv
  exact ⟨hne, effects_only_on_accept s id (.tx p) hne⟩

/-- **accepting_step_shape.** What an accepting step of a history is, in terms of the executable
state only: the message is stored under that id, the receipt reports success, the transaction was
not used before, the call data is the encoding of that stored message, the action attester succeeds
— and the step changes the keeper state to exactly what the action attester computed, logs exactly
its effects and this (message, transaction) pair, spends the transaction and removes the message. -/
theorem accepting_step_shape (s : St) (op : Op) (id : Nat) (p : TxProof) (h : Accepts s op id p) :
    ∃ m ce, findMsg s.queue id = some m ∧ m.id = id ∧ p.receipt = some 1 ∧ p.hash ∉ s.processed ∧
      ExactFor m p.data ∧ applySuccess s.chain m p = some ce ∧
      (step s op).chain = ce.1 ∧ (step s op).effects = ce.2 ++ s.effects ∧
      (step s op).accepted = (id, p.hash) :: s.accepted ∧
      (step s op).processed = p.hash :: s.processed ∧
      id ∉ (step s op).queue.map (·.id) := by
  rw [attempt_step s op id (.tx p) h.1]
  have hok := h.2
  have ho := attest_outcome s id (.tx p)
  generalize attest s id (.tx p) = r at ho hok
  cases ho with
  | unchanged r hr => exact absurd hok hr.1
  | errorHandled => cases hok
  | rejected p r hw hr => rcases hr with rfl | rfl <;> cases hok
  | accepted m p' ce hm hw hrc hproc hv hs =>
    injection hw with hw
    subst hw
    refine ⟨m, ce, hm, (findMsg_some hm).2, hrc, ?_, verify_ok_exact m _ hv, hs, rfl, rfl, rfl, rfl,
      not_mem_removeMsg _ _⟩
    intro hin
    have : s.processed.contains p.hash = true := by simpa using hin
    rw [this] at hproc
    cases hproc

/-- **state_changes_only_by_accepting_attestation.** The converse ("only on accept"), for EVERY op
of a history — enqueue, rewrite of a stored message, removal, environment, attestation attempts with
any winner or any evidence: if a step changes the effect log or the acceptance log, or changes the
keeper state read by the attesters without being the environment op `setChain` itself, then the op
is an accepting attestation of some message by some transaction proof (whose conditions are
`accepting_step_shape`).  `setChain` stands for ALL other keeper activity (new snapshots, new
deployments, governance); nothing is assumed about it. -/
theorem state_changes_only_by_accepting_attestation (s : St) (op : Op) :
    ((step s op).effects = s.effects ∧ (step s op).accepted = s.accepted ∧
      ((step s op).chain = s.chain ∨ ∃ c, op = .setChain c)) ∨ ∃ id p, Accepts s op id p := by
  cases hat : op.attempt with
  | none =>
    have := no_attempt_step s op hat
    exact .inl ⟨this.2.1, this.1, this.2.2.2⟩
  | some iw =>
    obtain ⟨id, w⟩ := iw
    by_cases hok : (attest s id w).2 = .ok
    · obtain ⟨p, hw, -⟩ := accept_implies_success_receipt s id w hok
      subst hw
      exact .inr ⟨id, p, hat, hok⟩
    · have := effects_only_on_accept s id w hok
      rw [attempt_step s op id w hat]
      exact .inl ⟨this.1, this.2.2, .inl this.2.1⟩

/-- **chain_delta_is_logged.** The effect log is complete with respect to the executable keeper
state: when the action attester changes the keeper state at all, it reports at least one effect. -/
theorem chain_delta_is_logged (c : Chain) (m : QMsg) (p : TxProof) (ce : Chain × List Effect)
    (h : applySuccess c m p = some ce) (hfx : ce.2 = []) : ce.1 = c := by
  unfold applySuccess at h
  split at h
  · split at h <;> (injection h with h; subst h; first | rfl | cases hfx)
  · injection h with h; subst h; rfl
  · split at h
    · cases h
    · split at h
      · cases h
      · injection h with h; subst h; cases hfx
  · split at h
    · cases h
    · injection h with h; subst h; cases hfx
  · split at h
    · cases h
    · split at h
      · split at h
        · cases h
        · split at h
          · cases h
          · injection h with h; subst h; cases hfx
      · split at h
        · cases h
        · injection h with h; subst h; cases hfx


/-- **effect_entries_describe_the_state_change.** Every entry of the effect log is a statement about
the EXECUTABLE keeper state before (`c`) and after (`ce.1`) the accepting step, and about the action
of the accepted message:
* "snapshot live `v`": snapshot `v` exists and the chain is listed on it ONCE MORE
  (`liveOn` afterwards = `liveOn` before `++ [v]`); `v` is the snapshot named by the accepted
  update-valset, or the current one on the first compass deployment of a chain for which
  `GetLatestSnapshotOnChain` finds nothing;
* "deployment recorded" / "handover scheduled" / "activated": the compass deployment with the
  contract id of the accepted upload / handover message went from in-flight to waiting, resp. from
  waiting to active-and-deleted with the chain's active contract id at least that id;
* "user contract active `cid`": the accepted message was that user deployment, its receipt carried
  the `ContractDeployed` log, the deployment record exists, and the ONLY change of the keeper state is
  that `cid` now has status active (`markUserActive`). -/
theorem effect_entries_describe_the_state_change (c : Chain) (m : QMsg) (p : TxProof)
    (ce : Chain × List Effect) (h : applySuccess c m p = some ce) :
    (∀ i v, Effect.snapshotLive i v ∈ ce.2 → c.snapshots.contains v = true ∧ ce.1.liveOn = c.liveOn ++ [v] ∧
      ((∃ f, m.action = .uv f v) ∨
        (∃ bc ct cid, m.action = .up bc ct cid ∧ c.hasSnapshot = false ∧ v = c.currentSnapshot))) ∧
    (∀ i cid, Effect.deploymentRecorded i cid ∈ ce.2 →
      (∃ bc ct, m.action = .up bc ct cid) ∧ depStatus c cid = some .inFlight) ∧
    (∀ i cid, Effect.activated i cid ∈ ce.2 → depStatus ce.1 cid = none ∧ cid ≤ ce.1.activeContract ∧
      ((∃ f, m.action = .ch f cid ∧ depStatus c cid = some .waiting) ∨
        (∃ bc ct, m.action = .up bc ct cid ∧ c.hasSnapshot = false))) ∧
    (∀ i cid, Effect.handoverScheduled i cid ∈ ce.2 → (∃ bc ct, m.action = .up bc ct cid) ∧
      depStatus ce.1 cid = some .waiting ∧ c.hasSnapshot = true ∧ c.handoverOk = true) ∧
    (∀ i cid, Effect.userActive i cid ∈ ce.2 → (∃ f, m.action = .usc f cid) ∧ p.deployLog = true ∧
      c.userDeployments.contains cid = true ∧ ce.1 = markUserActive c cid ∧ cid ∈ ce.1.userActive) := by
  unfold applySuccess at h
  split at h
  · -- update valset
    rename_i f vid ha
    split at h
    · rename_i hs
      injection h with h
      subst h
      refine ⟨?_, ?_, ?_, ?_, ?_⟩ <;> intro i x hx <;>
        simp only [List.mem_singleton, Effect.snapshotLive.injEq, reduceCtorEq] at hx
      obtain ⟨-, rfl⟩ := hx
      exact ⟨hs, rfl, .inl ⟨f, ha⟩⟩
    · injection h with h
      subst h
      refine ⟨?_, ?_, ?_, ?_, ?_⟩ <;> intro i x hx <;> cases hx
  · -- logic call
    injection h with h
    subst h
    refine ⟨?_, ?_, ?_, ?_, ?_⟩ <;> intro i x hx <;> cases hx
  · -- user contract
    rename_i f cid ha
    split at h
    · cases h
    · rename_i hlog
      split at h
      · cases h
      · rename_i hud
        injection h with h
        subst h
        refine ⟨?_, ?_, ?_, ?_, ?_⟩ <;> intro i x hx <;>
          simp only [List.mem_singleton, Effect.userActive.injEq, reduceCtorEq] at hx
        obtain ⟨-, rfl⟩ := hx
        exact ⟨⟨f, ha⟩, by simpa using hlog, by simpa using hud, rfl,
          (mem_markUserActive c x x).2 (.inr rfl)⟩
  · -- compass handover
    rename_i f cid ha
    split at h
    · cases h
    · rename_i c' hsa
      injection h with h
      subst h
      have hsp := setActive_spec c c' cid hsa
      refine ⟨?_, ?_, ?_, ?_, ?_⟩ <;> intro i x hx <;>
        simp only [List.mem_singleton, Effect.activated.injEq, reduceCtorEq] at hx
      obtain ⟨-, rfl⟩ := hx
      exact ⟨hsp.2.1, hsp.2.2.1, .inl ⟨f, ha, hsp.1⟩⟩
  · -- compass upload
    rename_i bc ct cid ha
    split at h
    · cases h
    · rename_i hfl
      have hfl' : depStatus c cid = some .inFlight := by simpa using hfl
      split at h
      · rename_i hns
        have hns' : c.hasSnapshot = false := by simpa using hns
        split at h
        · cases h
        · rename_i hcur
          split at h
          · cases h
          · rename_i c2 hsa
            injection h with h
            subst h
            have hsp := setActive_spec _ c2 cid hsa
            refine ⟨?_, ?_, ?_, ?_, ?_⟩ <;> intro i x hx <;>
              simp only [List.mem_cons, Effect.activated.injEq,
                Effect.snapshotLive.injEq, Effect.deploymentRecorded.injEq, reduceCtorEq, false_or,
                or_false, List.not_mem_nil] at hx
            · obtain ⟨-, rfl⟩ := hx
              exact ⟨by simpa using hcur, by rw [hsp.2.2.2.2.2.1]; rfl, .inr ⟨bc, ct, cid, ha, hns', rfl⟩⟩
            · obtain ⟨-, rfl⟩ := hx
              exact ⟨⟨bc, ct, ha⟩, hfl'⟩
            · obtain ⟨-, rfl⟩ := hx
              exact ⟨hsp.2.1, hsp.2.2.1, .inr ⟨bc, ct, ha, hns'⟩⟩
      · rename_i hns
        split at h
        · cases h
        · rename_i hho
          injection h with h
          subst h
          refine ⟨?_, ?_, ?_, ?_, ?_⟩ <;> intro i x hx <;>
            simp only [List.mem_cons, Effect.handoverScheduled.injEq,
              Effect.deploymentRecorded.injEq, reduceCtorEq, false_or, or_false, List.not_mem_nil] at hx
          · obtain ⟨-, rfl⟩ := hx
            exact ⟨⟨bc, ct, ha⟩, hfl'⟩
          · obtain ⟨-, rfl⟩ := hx
            exact ⟨⟨bc, ct, ha⟩, depStatus_setDep c _ .waiting, by simpa using hns, by simpa using hho⟩


/-! ### 4b. the success effects ARE executable keeper state, tied to the history -/

/-- **applySuccess_live_count.** The ghost effect entries count the executable listings exactly: an
action attester adds as many listings of the chain on snapshot `v` as it reports "snapshot `v` live"
entries (0 or 1). -/
theorem applySuccess_live_count (c : Chain) (m : QMsg) (p : TxProof) (ce : Chain × List Effect)
    (h : applySuccess c m p = some ce) (v : Nat) :
    ce.1.liveOn.count v = c.liveOn.count v + countLive v ce.2 := by
  unfold applySuccess at h
  split at h
  · split at h
    · injection h with h
      subst h
      simp only [markLive, count_append_singleton, countLive, List.filter_cons, List.filter_nil]
      split <;> rename_i hv
      · subst hv; simp
      · have : (‹Nat› == v) = false := by simpa using hv
        simp [this]
    · injection h with h; subst h; simp [countLive]
  · injection h with h; subst h; simp [countLive]
  · split at h
    · cases h
    · split at h
      · cases h
      · injection h with h; subst h; simp [countLive, markUserActive]
  · split at h
    · cases h
    · rename_i c' hsa
      injection h with h
      subst h
      have := setActive_spec _ _ _ hsa
      simp [countLive, this.2.2.2.2.2.1]
  · split at h
    · cases h
    · split at h
      · split at h
        · cases h
        · split at h
          · cases h
          · rename_i c2 hsa
            injection h with h
            subst h
            have := setActive_spec _ _ _ hsa
            simp only [this.2.2.2.2.2.1, markLive, setDep, count_append_singleton, countLive,
              List.filter_cons, List.filter_nil]
            split <;> rename_i hv
            · rw [hv]; simp
            · have : (c.currentSnapshot == v) = false := by simpa using hv
              simp [this]
      · split at h
        · cases h
        · injection h with h; subst h; simp [countLive, setDep]


/-- **success_effects_frame.** Per-id frame of the action attesters on the EXECUTABLE keeper state:
whatever a successful attestation of `m` changes is named by `m`'s action —
* the chain is listed on at most ONE more snapshot, exactly once more, and that snapshot is the one
  named by the update-valset (or the current one on a first compass deployment);
* a compass deployment record changes only for the contract id of the handover / upload message;
* the active contract id changes only to the contract id of the handover / upload message;
* a user deployment becomes active only for the contract id of the user-upload message;
* the snapshot store, the current snapshot id, the set of user deployments and the handover switch
  are never touched; a logic call touches nothing. -/
theorem success_effects_frame (c : Chain) (m : QMsg) (p : TxProof) (ce : Chain × List Effect)
    (h : applySuccess c m p = some ce) :
    (∀ v, ce.1.liveOn.count v ≠ c.liveOn.count v → ce.1.liveOn.count v = c.liveOn.count v + 1 ∧
      c.snapshots.contains v = true ∧
      ((∃ f, m.action = .uv f v) ∨
        (∃ bc ct cid, m.action = .up bc ct cid ∧ c.hasSnapshot = false ∧ v = c.currentSnapshot))) ∧
    (∀ cid, depStatus ce.1 cid ≠ depStatus c cid →
      (∃ f, m.action = .ch f cid) ∨ (∃ bc ct, m.action = .up bc ct cid)) ∧
    (ce.1.activeContract ≠ c.activeContract →
      (∃ f, m.action = .ch f ce.1.activeContract) ∨ (∃ bc ct, m.action = .up bc ct ce.1.activeContract)) ∧
    (∀ cid, ¬ (cid ∈ ce.1.userActive ↔ cid ∈ c.userActive) → ∃ f, m.action = .usc f cid) ∧
    ce.1.snapshots = c.snapshots ∧ ce.1.currentSnapshot = c.currentSnapshot ∧
    ce.1.userDeployments = c.userDeployments ∧ ce.1.handoverOk = c.handoverOk ∧
    ((∃ f, m.action = .slc f) → ce.1 = c) := by
  unfold applySuccess at h
  split at h
  · -- update valset
    rename_i f vid ha
    split at h
    · rename_i hs
      injection h with h
      subst h
      refine ⟨?_, ?_, ?_, ?_, rfl, rfl, rfl, rfl, ?_⟩
      · intro v hv
        simp only [markLive, count_append_singleton] at hv ⊢
        split at hv
        · rename_i e
          subst e
          exact ⟨by simp, hs, .inl ⟨f, ha⟩⟩
        · exact absurd rfl hv
      · intro cid hne; exact absurd rfl hne
      · intro hne; exact absurd rfl hne
      · intro cid hne; exact absurd Iff.rfl hne
      · rintro ⟨f', hf'⟩; rw [ha] at hf'; cases hf'
    · injection h with h
      subst h
      refine ⟨?_, ?_, ?_, ?_, rfl, rfl, rfl, rfl, fun _ => rfl⟩
      · intro v hv; exact absurd rfl hv
      · intro cid hne; exact absurd rfl hne
      · intro hne; exact absurd rfl hne
      · intro cid hne; exact absurd Iff.rfl hne
  · -- logic call
    injection h with h
    subst h
    refine ⟨?_, ?_, ?_, ?_, rfl, rfl, rfl, rfl, fun _ => rfl⟩
    · intro v hv; exact absurd rfl hv
    · intro cid hne; exact absurd rfl hne
    · intro hne; exact absurd rfl hne
    · intro cid hne; exact absurd Iff.rfl hne
  · -- user contract
    rename_i f cid ha
    split at h
    · cases h
    · split at h
      · cases h
      · injection h with h
        subst h
        refine ⟨?_, ?_, ?_, ?_, rfl, rfl, rfl, rfl, ?_⟩
        · intro v hv; exact absurd rfl hv
        · intro cid' hne; exact absurd rfl hne
        · intro hne; exact absurd rfl hne
        · intro cid' hne
          by_cases e : cid' = cid
          · subst e; exact ⟨f, ha⟩
          · exfalso
            apply hne
            rw [mem_markUserActive]
            constructor
            · rintro (hx | hx)
              · exact hx
              · exact absurd hx e
            · exact fun hx => .inl hx
        · rintro ⟨f', hf'⟩; rw [ha] at hf'; cases hf'
  · -- compass handover
    rename_i f cid ha
    split at h
    · cases h
    · rename_i c' hsa
      injection h with h
      subst h
      obtain ⟨-, -, -, -, hact, hl, hsn, hcur, hud, hua, hho, hdep⟩ := setActive_spec c c' cid hsa
      refine ⟨?_, ?_, ?_, ?_, hsn, hcur, hud, hho, ?_⟩
      · intro v hv; simp only [hl] at hv; exact absurd rfl hv
      · intro cid' hne
        by_cases e : cid' = cid
        · subst e; exact .inl ⟨f, ha⟩
        · exact absurd (hdep cid' e) hne
      · intro hne
        rcases hact with e | e
        · exact absurd e hne
        · simp only [e]; exact .inl ⟨f, ha⟩
      · intro cid' hne; rw [hua] at hne; exact absurd Iff.rfl hne
      · rintro ⟨f', hf'⟩; rw [ha] at hf'; cases hf'
  · -- compass upload
    rename_i bc ct cid ha
    split at h
    · cases h
    · split at h
      · rename_i hns
        have hns' : c.hasSnapshot = false := by simpa using hns
        split at h
        · cases h
        · rename_i hcur
          split at h
          · cases h
          · rename_i c2 hsa
            injection h with h
            subst h
            obtain ⟨-, -, -, -, hact, hl, hsn, hcu, hud, hua, hho, hdep⟩ := setActive_spec _ c2 cid hsa
            refine ⟨?_, ?_, ?_, ?_, hsn, hcu, hud, hho, ?_⟩
            · intro v hv
              simp only [hl, markLive, setDep, count_append_singleton] at hv ⊢
              split at hv
              · rename_i e
                subst e
                exact ⟨by simp, by simpa using hcur, .inr ⟨bc, ct, cid, ha, hns', rfl⟩⟩
              · exact absurd rfl hv
            · intro cid' hne
              by_cases e : cid' = cid
              · subst e; exact .inr ⟨bc, ct, ha⟩
              · exfalso
                apply hne
                rw [hdep cid' e]
                exact depStatus_setDep_ne c cid cid' .waiting e
            · intro hne
              rcases hact with e | e
              · exact absurd e hne
              · simp only [e]; exact .inr ⟨bc, ct, ha⟩
            · intro cid' hne; rw [hua] at hne; exact absurd Iff.rfl hne
            · rintro ⟨f', hf'⟩; rw [ha] at hf'; cases hf'
      · split at h
        · cases h
        · injection h with h
          subst h
          refine ⟨?_, ?_, ?_, ?_, rfl, rfl, rfl, rfl, ?_⟩
          · intro v hv; exact absurd rfl hv
          · intro cid' hne
            by_cases e : cid' = cid
            · subst e; exact .inr ⟨bc, ct, ha⟩
            · exact absurd (depStatus_setDep_ne c cid cid' .waiting e) hne
          · intro hne; exact absurd rfl hne
          · intro cid' hne; exact absurd Iff.rfl hne
          · rintro ⟨f', hf'⟩; rw [ha] at hf'; cases hf'


/-- **first_deployment_happens_once.** The "first compass deployment on this chain" branch (current
snapshot marked live, contract activated without handover) disables itself: after it, with snapshot
ids starting at 1, `GetLatestSnapshotOnChain` finds a snapshot, so every later upload takes the
handover branch. -/
theorem first_deployment_happens_once (c : Chain) (m : QMsg) (p : TxProof) (ce : Chain × List Effect)
    (h : applySuccess c m p = some ce) (bc ct : Bytes) (cid : Nat) (ha : m.action = .up bc ct cid)
    (hns : c.hasSnapshot = false) (hpos : 0 < c.currentSnapshot) : ce.1.hasSnapshot = true := by
  have hfr := success_effects_frame c m p ce h
  have hfx := effect_entries_describe_the_state_change c m p ce h
  have hmem : Effect.snapshotLive m.id c.currentSnapshot ∈ ce.2 := by
    unfold applySuccess at h
    simp only [ha] at h
    split at h
    · cases h
    · split at h
      · split at h
        · cases h
        · split at h
          · cases h
          · injection h with h
            subst h
            simp
      · rename_i hh
        rw [hns] at hh
        simp at hh
  obtain ⟨hex, hl, -⟩ := hfx.1 _ _ hmem
  apply current_listed_hasSnapshot
  · rw [hfr.2.2.2.2.1, hfr.2.2.2.2.2.1]; exact hex
  · rw [hfr.2.2.2.2.2.1, hl]; simp
  · rw [hfr.2.2.2.2.2.1]; exact hpos

/-- **keeper_state_provenance.** The executable keeper state is tied to the HISTORY: whenever a
property `Q` of the keeper state that fails initially holds after a history, there is a point of
the history at which it becomes true, and the op at that point is either the environment op
`setChain c` itself (with `Q c`) or an ACCEPTING attestation — message stored under that id, success
receipt, transaction not used before, call data the encoding of the stored message — whose action
attester produced a state with `Q`. -/
theorem keeper_state_provenance (Q : Chain → Prop) (ops : List Op) (h0 : ¬ Q ({} : St).chain)
    (h : Q (run {} ops).chain) :
    ∃ pre op post, ops = pre ++ op :: post ∧ ¬ Q (run {} pre).chain ∧
      ((∃ c, op = .setChain c ∧ Q c) ∨
       ∃ id p m ce, Accepts (run {} pre) op id p ∧ findMsg (run {} pre).queue id = some m ∧ m.id = id ∧
         p.receipt = some 1 ∧ p.hash ∉ (run {} pre).processed ∧ ExactFor m p.data ∧
         applySuccess (run {} pre).chain m p = some ce ∧ (step (run {} pre) op).chain = ce.1 ∧ Q ce.1) := by
  obtain ⟨pre, op, post, e, h1, h2⟩ := run_becomes (fun s => Q s.chain) ops {} h0 h
  refine ⟨pre, op, post, e, h1, ?_⟩
  rcases state_changes_only_by_accepting_attestation (run {} pre) op with ⟨-, -, hc | ⟨c, rfl⟩⟩ | ⟨id, p, ha⟩
  · simp only [hc] at h2
    exact absurd h2 h1
  · exact .inl ⟨c, rfl, h2⟩
  · obtain ⟨m, ce, hm, hid, hr, hnp, hex, hs, hch, -⟩ := accepting_step_shape _ op id p ha
    simp only [hch] at h2
    exact .inr ⟨id, p, m, ce, ha, hm, hid, hr, hnp, hex, hs, hch, h2⟩

/-- **live_snapshot_provenance.** "validator snapshot marked live on the chain" as executable state
tied to the history: if after a history the chain is listed on snapshot `v` more often than some
bound `n`, then at some point of the history either the environment set such a state, or an accepting
attestation (success receipt, unused transaction, call data = encoding of the stored message) of an
update-valset message NAMING snapshot `v` — or of a first compass deployment while `v` was the
current snapshot — added exactly one listing of `v`. -/
theorem live_snapshot_provenance (ops : List Op) (v n : Nat)
    (h : n < (run {} ops).chain.liveOn.count v) :
    ∃ pre op post, ops = pre ++ op :: post ∧ (run {} pre).chain.liveOn.count v ≤ n ∧
      ((∃ c, op = .setChain c ∧ n < c.liveOn.count v) ∨
       ∃ id p m, Accepts (run {} pre) op id p ∧ findMsg (run {} pre).queue id = some m ∧ m.id = id ∧
         p.receipt = some 1 ∧ p.hash ∉ (run {} pre).processed ∧ ExactFor m p.data ∧
         (step (run {} pre) op).chain.liveOn.count v = (run {} pre).chain.liveOn.count v + 1 ∧
         ((∃ f, m.action = .uv f v) ∨
           ∃ bc ct cid, m.action = .up bc ct cid ∧ (run {} pre).chain.hasSnapshot = false ∧
             v = (run {} pre).chain.currentSnapshot)) := by
  obtain ⟨pre, op, post, e, h1, h2⟩ := keeper_state_provenance (fun c => n < c.liveOn.count v) ops
    (by simp) h
  refine ⟨pre, op, post, e, Nat.le_of_not_lt h1, ?_⟩
  rcases h2 with h2 | ⟨id, p, m, ce, ha, hm, hid, hr, hnp, hex, hs, hch, hq⟩
  · exact .inl h2
  · have hne : ce.1.liveOn.count v ≠ (run {} pre).chain.liveOn.count v := by
      intro e'
      simp only [e'] at hq
      exact h1 hq
    obtain ⟨hc, -, hact⟩ := (success_effects_frame _ m p ce hs).1 v hne
    exact .inr ⟨id, p, m, ha, hm, hid, hr, hnp, hex, by rw [hch]; exact hc, hact⟩


/-- **user_deployment_provenance.** "user contract deployment recorded" tied to the history: a user
contract `cid` whose deployment is active after a history was set so by the environment, or by an
accepting attestation of a user-upload message for exactly that contract id whose receipt carried
the `ContractDeployed` log. -/
theorem user_deployment_provenance (ops : List Op) (cid : Nat)
    (h : cid ∈ (run {} ops).chain.userActive) :
    ∃ pre op post, ops = pre ++ op :: post ∧ cid ∉ (run {} pre).chain.userActive ∧
      ((∃ c, op = .setChain c ∧ cid ∈ c.userActive) ∨
       ∃ id p m f, Accepts (run {} pre) op id p ∧ findMsg (run {} pre).queue id = some m ∧ m.id = id ∧
         p.receipt = some 1 ∧ p.hash ∉ (run {} pre).processed ∧ ExactFor m p.data ∧
         m.action = .usc f cid ∧ p.deployLog = true ∧
         (run {} pre).chain.userDeployments.contains cid = true) := by
  obtain ⟨pre, op, post, e, h1, h2⟩ := keeper_state_provenance (fun c => cid ∈ c.userActive) ops
    (by simp) h
  refine ⟨pre, op, post, e, h1, ?_⟩
  rcases h2 with h2 | ⟨id, p, m, ce, ha, hm, hid, hr, hnp, hex, hs, hch, hq⟩
  · exact .inl h2
  · obtain ⟨f, hf⟩ := (success_effects_frame _ m p ce hs).2.2.2.1 cid
      (fun hiff => h1 (hiff.1 hq))
    have hu := (effect_entries_describe_the_state_change _ m p ce hs).2.2.2.2 m.id cid (by
      unfold applySuccess at hs
      simp only [hf] at hs
      split at hs
      · cases hs
      · split at hs
        · cases hs
        · injection hs with hs
          subst hs
          exact List.mem_singleton.2 rfl)
    exact .inr ⟨id, p, m, f, ha, hm, hid, hr, hnp, hex, hf, hu.2.1, hu.2.2.1⟩

/-- **bridge_contract_provenance.** "new bridge contract recorded or activated" tied to the history:
* a compass deployment that is recorded as deployed (status waiting) after a history was put there by
  the environment or by an accepting attestation of the UPLOAD message of exactly that contract id,
  whose deployment was in flight;
* an active contract id `cid` was set by the environment or by an accepting attestation of the
  HANDOVER message of that contract id (deployment waiting) or of its upload message on a chain with
  no live snapshot (first deployment). -/
theorem bridge_contract_provenance (ops : List Op) (cid : Nat) :
    (depStatus (run {} ops).chain cid = some .waiting →
      ∃ pre op post, ops = pre ++ op :: post ∧
        ((∃ c, op = .setChain c ∧ depStatus c cid = some .waiting) ∨
         ∃ id p m bc ct, Accepts (run {} pre) op id p ∧ findMsg (run {} pre).queue id = some m ∧ m.id = id ∧
           p.receipt = some 1 ∧ p.hash ∉ (run {} pre).processed ∧ ExactFor m p.data ∧
           m.action = .up bc ct cid ∧ depStatus (run {} pre).chain cid = some .inFlight)) ∧
    ((run {} ops).chain.activeContract = cid → cid ≠ 0 →
      ∃ pre op post, ops = pre ++ op :: post ∧
        ((∃ c, op = .setChain c ∧ c.activeContract = cid) ∨
         ∃ id p m, Accepts (run {} pre) op id p ∧ findMsg (run {} pre).queue id = some m ∧ m.id = id ∧
           p.receipt = some 1 ∧ p.hash ∉ (run {} pre).processed ∧ ExactFor m p.data ∧
           ((∃ f, m.action = .ch f cid ∧ depStatus (run {} pre).chain cid = some .waiting) ∨
            (∃ bc ct, m.action = .up bc ct cid ∧ (run {} pre).chain.hasSnapshot = false ∧
              depStatus (run {} pre).chain cid = some .inFlight)))) := by
  constructor
  · intro h
    obtain ⟨pre, op, post, e, h1, h2⟩ := keeper_state_provenance
      (fun c => depStatus c cid = some .waiting) ops (by simp [depStatus]) h
    refine ⟨pre, op, post, e, ?_⟩
    rcases h2 with h2 | ⟨id, p, m, ce, ha, hm, hid, hr, hnp, hex, hs, hch, hq⟩
    · exact .inl h2
    · have hne : depStatus ce.1 cid ≠ depStatus (run {} pre).chain cid := by
        intro e'
        rw [e'] at hq
        exact h1 hq
      rcases (success_effects_frame _ m p ce hs).2.1 cid hne with ⟨f, hf⟩ | ⟨bc, ct, hf⟩
      · -- a handover deletes the record: it cannot become waiting
        exfalso
        unfold applySuccess at hs
        simp only [hf] at hs
        split at hs
        · cases hs
        · rename_i c' hsa
          injection hs with hs
          subst hs
          rw [(setActive_spec _ _ _ hsa).2.1] at hq
          cases hq
      · refine .inr ⟨id, p, m, bc, ct, ha, hm, hid, hr, hnp, hex, hf, ?_⟩
        unfold applySuccess at hs
        simp only [hf] at hs
        split at hs
        · cases hs
        · rename_i hfl
          simpa using hfl
  · intro h hne0
    obtain ⟨pre, op, post, e, h1, h2⟩ := keeper_state_provenance
      (fun c => c.activeContract = cid) ops (fun h0 => hne0 h0.symm) h
    refine ⟨pre, op, post, e, ?_⟩
    rcases h2 with h2 | ⟨id, p, m, ce, ha, hm, hid, hr, hnp, hex, hs, hch, hq⟩
    · exact .inl h2
    · have hne : ce.1.activeContract ≠ (run {} pre).chain.activeContract := by
        intro e'
        rw [e'] at hq
        exact h1 hq
      have hfr := (success_effects_frame _ m p ce hs).2.2.1 hne
      rw [hq] at hfr
      refine .inr ⟨id, p, m, ha, hm, hid, hr, hnp, hex, ?_⟩
      rcases hfr with ⟨f, hf⟩ | ⟨bc, ct, hf⟩
      · left
        refine ⟨f, hf, ?_⟩
        unfold applySuccess at hs
        simp only [hf] at hs
        split at hs
        · cases hs
        · rename_i c' hsa
          exact (setActive_spec _ _ _ hsa).1
      · right
        refine ⟨bc, ct, hf, ?_⟩
        unfold applySuccess at hs
        simp only [hf] at hs
        split at hs
        · cases hs
        · rename_i hfl
          split at hs
          · rename_i hns
            exact ⟨by simpa using hns, by simpa using hfl⟩
          · exfalso
            split at hs
            · cases hs
            · injection hs with hs
              subst hs
              exact hne rfl


/-- one step that is not the environment op: the new effect entries account EXACTLY for the new
    listings of every snapshot -/
theorem step_live_count (s : St) (op : Op) (hne : ∀ c, op ≠ .setChain c) :
    ∃ new, (step s op).effects = new ++ s.effects ∧
      ∀ v, (step s op).chain.liveOn.count v = s.chain.liveOn.count v + countLive v new := by
  rcases state_changes_only_by_accepting_attestation s op with ⟨h1, -, hc | ⟨c, hc⟩⟩ | ⟨id, p, ha⟩
  · exact ⟨[], by simpa using h1, fun v => by rw [hc]; simp [countLive]⟩
  · exact absurd hc (hne c)
  · obtain ⟨m, ce, -, -, -, -, -, hs, hch, hfx, -⟩ := accepting_step_shape s op id p ha
    exact ⟨ce.2, hfx, fun v => by rw [hch]; exact applySuccess_live_count _ m p ce hs v⟩

/-- **live_listings_are_the_logged_effects.** The ghost effect log and the executable snapshot
listings agree along every history without environment op, from ANY start state: the effect log
grows by some entries `new`, and for every snapshot `v` the number of listings of the chain on `v`
grows by exactly the number of "snapshot `v` live" entries among them.  (With
`effects_at_most_once` — at most one entry of each kind per message, each owned by an accepted
message — this is "each message marks at most one snapshot live, at most once" on the executable
state.) -/
theorem live_listings_are_the_logged_effects : ∀ (ops : List Op) (s : St), NoEnv ops →
    ∃ new, (run s ops).effects = new ++ s.effects ∧
      ∀ v, (run s ops).chain.liveOn.count v = s.chain.liveOn.count v + countLive v new
  | [], s, _ => ⟨[], rfl, fun v => by simp [run, countLive]⟩
  | op :: ops, s, hne => by
    obtain ⟨n1, e1, c1⟩ := step_live_count s op (hne op List.mem_cons_self)
    obtain ⟨n2, e2, c2⟩ := live_listings_are_the_logged_effects ops (step s op)
      (fun o ho => hne o (List.mem_cons_of_mem _ ho))
    refine ⟨n2 ++ n1, ?_, ?_⟩
    · simp only [run]
      rw [e2, e1, List.append_assoc]
    · intro v
      simp only [run]
      rw [c2 v, c1 v, countLive_append]
      omega


/-! ### 5. the vote: the receipt is part of the evidence identity

What "quorum" means below is EXACTLY `Libcons.tally … .consensus` (`quorum_is_the_libcons_tally`):
three times the sum of the snapshot shares of the validators LISTED in the group — counted once per
listing, validators unknown to the snapshot skipped — reaches twice the snapshot's DECLARED total
(`snap.total`, a free field of the model's snapshot).  That this is "2/3 of the voting power" needs
(i) one evidence entry per validator — guaranteed by `AddEvidence`, which replaces the proof of a
validator that reports again (`groupFor_nodup` then makes every group duplicate-free) — and (ii)
`snap.total` = the sum of the listed shares; both are the subject of C04 (`Props/C04.lean`), not
proved here.  Without (i) the tally counts a validator once per entry (example at the end of the
file: validator 1 listed three times). -/

/-- **quorum_is_the_libcons_tally.** The arithmetic behind every "quorum" of this section. -/
theorem quorum_is_the_libcons_tally (snap : Libcons.Snapshot) (g : List Nat) :
    (Libcons.tally snap g).consensus = true ↔
      Libcons.foundShares snap g ≠ [] ∧ 3 * (Libcons.foundShares snap g).sum ≥ 2 * snap.total := by
  unfold Libcons.tally Libcons.Power.consensus
  cases h : Libcons.foundShares snap g with
  | nil => simp
  | cons x xs => simp

/-- **driver_hash_is_collision_free.** The naming the executable model (`winnerOf`, `attestEv`,
`Op.attestEv`, the compiled driver) uses for proofs is an instance of the no-collision assumption
— so every theorem below applies to it unconditionally. -/
theorem driver_hash_is_collision_free (evs : List EvidenceV) : NoCollOn (idealHash evs) evs :=
  idealHash_noCollOn evs

/-- **winner_is_first_of_a_quorum_hash_group.** What the Go vote guarantees with NO assumption on
the hash: a winner is the first stored proof of a group of evidence with EQUAL HASH whose validator
list reaches the Libcons quorum (`quorum_is_the_libcons_tally`). -/
theorem winner_is_first_of_a_quorum_hash_group (hp : ProofV → Nat) (snap : Libcons.Snapshot)
    (evs : List EvidenceV) (h : winnerOfH hp snap evs ≠ .none) :
    ∃ P, P ∈ evs.map (·.2) ∧ winnerOfH hp snap evs = P.toWinner ∧
      (Libcons.tally snap (groupForH hp evs (hp P))).consensus = true :=
  winnerOfH_spec_hash hp snap evs h

/-- **receipt_is_part_of_the_evidence_identity.** The evidence of the validators is grouped by the
hash of the bytes of the WHOLE proof — transaction and receipt (`BytesToHash` = serialized tx ++
serialized receipt).  ASSUMPTION `NoCollOn hp evs`: sha256 does not collide on the submitted proofs.
Then, if the vote yields the transaction proof `p`, the list of validators whose evidence is
byte-identical to `p` (same transaction, same receipt status, same logs, same everything) reaches the
Libcons quorum (`quorum_is_the_libcons_tally`: shares summed per listing, against the snapshot's
declared total).  Evidence with the same transaction but another receipt does not count. -/
theorem receipt_is_part_of_the_evidence_identity (hp : ProofV → Nat) (snap : Libcons.Snapshot)
    (evs : List EvidenceV) (hnc : NoCollOn hp evs) (p : TxProof) (h : winnerOfH hp snap evs = .tx p) :
    (Libcons.tally snap (groupFor evs (.tx p))).consensus = true ∧ ProofV.tx p ∈ evs.map (·.2) := by
  obtain ⟨P, hP, hw, hc⟩ := winnerOfH_spec hp snap evs hnc (by rw [h]; intro h'; cases h')
  rw [h] at hw
  cases P with
  | tx q =>
    simp only [ProofV.toWinner, Winner.tx.injEq] at hw
    subst hw
    exact ⟨hc, hP⟩
  | errorProof _ => simp [ProofV.toWinner] at hw
  | other _ => simp [ProofV.toWinner] at hw

/-- **effects_need_quorum_on_success_receipt.** C07 with disagreeing validators, for the Go vote
under any proof hash that does not collide on the submitted proofs: success effects are produced
(result `ok`) only if some transaction proof `p` with a SUCCESS receipt is reported byte-identically
by a list of validators reaching the Libcons quorum (`quorum_is_the_libcons_tally`), and its call
data is the encoding of the stored message.
A success receipt reported by a minority — first in the list or not — next to a majority reporting a
failed (or any other) receipt for the same transaction never produces them. -/
theorem effects_need_quorum_on_success_receipt (hp : ProofV → Nat) (s : St) (id : Nat)
    (snap : Libcons.Snapshot) (evs : List EvidenceV) (hnc : NoCollOn hp evs)
    (h : (attestEvH hp s id snap evs).2 = .ok) :
    ∃ m p, findMsg s.queue id = some m ∧ p.receipt = some 1 ∧ ExactFor m p.data ∧
      ProofV.tx p ∈ evs.map (·.2) ∧ (Libcons.tally snap (groupFor evs (.tx p))).consensus = true := by
  unfold attestEvH at h
  obtain ⟨m, p, hm, -, hw, hex⟩ := accept_implies_exact_calldata s id _ h
  obtain ⟨p', hw', hr⟩ := accept_implies_success_receipt s id _ h
  rw [hw] at hw'
  injection hw' with hw'
  subst hw'
  obtain ⟨hc, hmem⟩ := receipt_is_part_of_the_evidence_identity hp snap evs hnc p hw
  exact ⟨m, p, hm, hr, hex, hmem, hc⟩

/-- **effects_need_quorum_on_success_receipt_model.** The same for the executable vote of the model
(`attestEv`, what `Op.attestEv` runs), with no hypothesis left. -/
theorem effects_need_quorum_on_success_receipt_model (s : St) (id : Nat) (snap : Libcons.Snapshot)
    (evs : List EvidenceV) (h : (attestEv s id snap evs).2 = .ok) :
    ∃ m p, findMsg s.queue id = some m ∧ p.receipt = some 1 ∧ ExactFor m p.data ∧
      ProofV.tx p ∈ evs.map (·.2) ∧ (Libcons.tally snap (groupFor evs (.tx p))).consensus = true :=
  effects_need_quorum_on_success_receipt (idealHash evs) s id snap evs (idealHash_noCollOn evs) h

/-- **disagreeing_receipts_no_effects.** Contrapositive, in the shape of the monitor: when no
success-receipt proof is backed by a quorum group of byte-identical evidence, nothing is accepted and
effect log, keeper state and acceptance log stay as they were. -/
theorem disagreeing_receipts_no_effects (hp : ProofV → Nat) (s : St) (id : Nat)
    (snap : Libcons.Snapshot) (evs : List EvidenceV) (hnc : NoCollOn hp evs)
    (h : ∀ p : TxProof, p.receipt = some 1 → (Libcons.tally snap (groupFor evs (.tx p))).consensus = false) :
    (attestEvH hp s id snap evs).2 ≠ .ok ∧ (attestEvH hp s id snap evs).1.effects = s.effects ∧
    (attestEvH hp s id snap evs).1.chain = s.chain ∧
    (attestEvH hp s id snap evs).1.accepted = s.accepted := by
  have hne : (attestEvH hp s id snap evs).2 ≠ .ok := by
    intro hok
    obtain ⟨m, p, -, hr, -, -, hc⟩ := effects_need_quorum_on_success_receipt hp s id snap evs hnc hok
    rw [h p hr] at hc
    cases hc
  exact ⟨hne, effects_only_on_accept s id _ hne⟩

/-! ### 6. single use of a transaction, at most one acceptance of a message -/

/-- **processed_tx_rejected.** In any state a transaction that is already in the processed set is
never accepted, whatever the message. -/
theorem processed_tx_rejected (s : St) (id : Nat) (p : TxProof) (h : p.hash ∈ s.processed) :
    (attest s id (.tx p)).2 ≠ .ok := by
  intro hok
  have ho := attest_outcome s id (.tx p)
  generalize attest s id (.tx p) = r at ho hok
  cases ho with
  | unchanged r hr => exact hr.1 hok
  | errorHandled => cases hok
  | rejected p r hw hr => rcases hr with rfl | rfl <;> cases hok
  | accepted m p' ce hm hw hrc hproc hv hs =>
    injection hw with hw
    subst hw
    have : s.processed.contains p.hash = true := by simpa using h
    rw [this] at hproc
    cases hproc

/-- **marks_transaction.** accepted, failed-receipt and not-verified outcomes all commit the
transaction to the processed set (so it can never be presented again). -/
theorem marks_transaction (s : St) (id : Nat) (p : TxProof)
    (h : (attest s id (.tx p)).2 = .ok ∨ (attest s id (.tx p)).2 = .txFailed ∨
         (attest s id (.tx p)).2 = .notVerified) :
    p.hash ∈ (attest s id (.tx p)).1.processed :=
  (mem_attest_processed s id (.tx p) p.hash).2 (.inr ⟨p, rfl, rfl, h⟩)

/-- **processed_set_is_history.** The processed-transaction store after a history is a function of
the history: a hash is in it iff at some point of the history an attestation attempt presented a
transaction proof with that hash and the router answered `ok`, `ErrEthTxFailed` or
`ErrEthTxNotVerified` (the three committed outcomes). -/
theorem processed_set_is_history (ops : List Op) (h : Nat) :
    h ∈ (run {} ops).processed ↔
      ∃ pre op post id p, ops = pre ++ op :: post ∧ op.attempt = some (id, .tx p) ∧ p.hash = h ∧
        ((attest (run {} pre) id (.tx p)).2 = .ok ∨ (attest (run {} pre) id (.tx p)).2 = .txFailed ∨
          (attest (run {} pre) id (.tx p)).2 = .notVerified) := by
  have hstep : ∀ s op (h : Nat), h ∈ (step s op).processed ↔ h ∈ s.processed ∨
      ∃ id p, op.attempt = some (id, .tx p) ∧ p.hash = h ∧
        ((attest s id (.tx p)).2 = .ok ∨ (attest s id (.tx p)).2 = .txFailed ∨
          (attest s id (.tx p)).2 = .notVerified) := by
    intro s op h
    cases hat : op.attempt with
    | none =>
      rw [(no_attempt_step s op hat).2.2.1]
      constructor
      · exact fun h => .inl h
      · rintro (h | ⟨_, _, h, -⟩)
        · exact h
        · cases h
    | some iw =>
      obtain ⟨id, w⟩ := iw
      rw [attempt_step s op id w hat, mem_attest_processed]
      constructor
      · rintro (h | ⟨p, hw, hh, hr⟩)
        · exact .inl h
        · subst hw
          exact .inr ⟨id, p, rfl, hh, hr⟩
      · rintro (h | ⟨id', p, h1, hh, hr⟩)
        · exact .inl h
        · simp only [Option.some.injEq, Prod.mk.injEq] at h1
          obtain ⟨rfl, rfl⟩ := h1
          exact .inr ⟨p, rfl, hh, hr⟩
  rw [run_log_iff (·.processed) _ hstep ops {} h]
  constructor
  · rintro (h | ⟨pre, op, post, ho, id, p, h1, h2, h3⟩)
    · cases h
    · exact ⟨pre, op, post, id, p, ho, h1, h2, h3⟩
  · rintro ⟨pre, op, post, id, p, ho, h1, h2, h3⟩
    exact .inr ⟨pre, op, post, ho, id, p, h1, h2, h3⟩

/-- **accepted_log_is_history.** The acceptance log is NOT an independent ghost: after any history
`(id, h)` is in it iff the history has a point `ops = pre ++ op :: post` at which `op` is an
accepting attestation (`Accepts`, defined from the executable router) of message `id` by a
transaction proof with hash `h`. -/
theorem accepted_log_is_history (ops : List Op) (a : Nat × Nat) :
    a ∈ (run {} ops).accepted ↔
      ∃ pre op post p, ops = pre ++ op :: post ∧ Accepts (run {} pre) op a.1 p ∧ p.hash = a.2 := by
  rw [run_log_iff (·.accepted) _ mem_step_accepted ops {} a]
  constructor
  · rintro (h | ⟨pre, op, post, ho, p, h1, h2⟩)
    · cases h
    · exact ⟨pre, op, post, p, ho, h1, h2⟩
  · rintro ⟨pre, op, post, p, ho, h1, h2⟩
    exact .inr ⟨pre, op, post, ho, p, h1, h2⟩

/-- **effect_log_is_history.** Likewise the effect log: an entry is in it iff it is one of the
effects the action attester computed at an accepting step of the history, for the message stored
under the accepted id in the state of that moment. -/
theorem effect_log_is_history (ops : List Op) (e : Effect) :
    e ∈ (run {} ops).effects ↔
      ∃ pre op post id m p ce, ops = pre ++ op :: post ∧ Accepts (run {} pre) op id p ∧
        findMsg (run {} pre).queue id = some m ∧ applySuccess (run {} pre).chain m p = some ce ∧
        e ∈ ce.2 := by
  rw [run_log_iff (·.effects) _ mem_step_effects ops {} e]
  constructor
  · rintro (h | ⟨pre, op, post, ho, id, m, p, ce, h1, h2, h3, h4⟩)
    · cases h
    · exact ⟨pre, op, post, id, m, p, ce, ho, h1, h2, h3, h4⟩
  · rintro ⟨pre, op, post, id, m, p, ce, ho, h1, h2, h3, h4⟩
    exact .inr ⟨pre, op, post, ho, id, m, p, ce, h1, h2, h3, h4⟩

/-- after an accepting step the pair stays logged and the transaction stays spent, whatever follows -/
theorem accepts_then_logged (pre : List Op) (op : Op) (id : Nat) (p : TxProof)
    (h : Accepts (run {} pre) op id p) (mid : List Op) :
    (id, p.hash) ∈ (run {} (pre ++ op :: mid)).accepted ∧
    p.hash ∈ (run {} (pre ++ op :: mid)).processed := by
  have hs := accepts_step (run {} pre) op id p h
  rw [run_append]
  exact ⟨mem_run_accepted_of_mem mid _ _ hs.1, run_processed_mono mid _ _ hs.2⟩

/-- **message_accepted_at_most_once.** C07, "each message's success effects are applied at most
once", on the history itself (no log): if at two points of one history an accepting attestation of
the SAME message id happens, the two points are the same point (same op, same transaction proof).
Ids are never reissued (shared counter), an accepted message is removed in the same committed
step, and evidence for an id that is not stored is answered `unknown`. -/
theorem message_accepted_at_most_once (ops pre1 post1 pre2 post2 : List Op) (op1 op2 : Op) (id : Nat)
    (p1 p2 : TxProof) (h1 : ops = pre1 ++ op1 :: post1) (h2 : ops = pre2 ++ op2 :: post2)
    (a1 : Accepts (run {} pre1) op1 id p1) (a2 : Accepts (run {} pre2) op2 id p2) :
    pre1 = pre2 ∧ op1 = op2 ∧ post1 = post2 ∧ p1 = p2 := by
  have key : ∀ (preA preB : List Op) (opA opB : Op) (pA pB : TxProof) (mid : List Op),
      preB = preA ++ opA :: mid → Accepts (run {} preA) opA id pA → Accepts (run {} preB) opB id pB →
      False := by
    intro preA preB opA opB pA pB mid hm aA aB
    have hl := (accepts_then_logged preA opA id pA aA mid).1
    rw [← hm] at hl
    have hg := (run_inv preB {} inv_init).accGone _ hl
    have hnone : findMsg (run {} preB).queue id = none := by
      unfold findMsg
      rw [List.find?_eq_none]
      intro x hx hxid
      exact hg (List.mem_map.2 ⟨x, hx, by simpa using hxid⟩)
    have := aB.2
    rw [unknown_message_rejected _ id _ hnone] at this
    cases this
  rcases split_trichotomy (h1.symm.trans h2) with ⟨e1, e2, e3⟩ | ⟨mid, hm⟩ | ⟨mid, hm⟩
  · subst e1
    subst e2
    have := a1.1.symm.trans a2.1
    simp only [Option.some.injEq, Prod.mk.injEq, Winner.tx.injEq, true_and] at this
    exact ⟨rfl, rfl, e3, this⟩
  · exact (key pre1 pre2 op1 op2 p1 p2 mid hm a1 a2).elim
  · exact (key pre2 pre1 op2 op1 p2 p1 mid hm a2 a1).elim

/-- **tx_accepted_at_most_once.** C07, "the same remote transaction is never accepted for a second
message", on the history itself (no log): if at two points of one history accepting attestations by
transaction proofs with the SAME transaction hash happen — for the same or different messages, in
the same or different serializations, with the same or different receipts — the two points are the
same point; in particular the message is the same. -/
theorem tx_accepted_at_most_once (ops pre1 post1 pre2 post2 : List Op) (op1 op2 : Op) (id1 id2 : Nat)
    (p1 p2 : TxProof) (h1 : ops = pre1 ++ op1 :: post1) (h2 : ops = pre2 ++ op2 :: post2)
    (a1 : Accepts (run {} pre1) op1 id1 p1) (a2 : Accepts (run {} pre2) op2 id2 p2)
    (hh : p1.hash = p2.hash) :
    pre1 = pre2 ∧ op1 = op2 ∧ post1 = post2 ∧ id1 = id2 ∧ p1 = p2 := by
  have key : ∀ (preA preB : List Op) (opA opB : Op) (idA idB : Nat) (pA pB : TxProof) (mid : List Op),
      preB = preA ++ opA :: mid → pA.hash = pB.hash → Accepts (run {} preA) opA idA pA →
      Accepts (run {} preB) opB idB pB → False := by
    intro preA preB opA opB idA idB pA pB mid hm he aA aB
    have hl := (accepts_then_logged preA opA idA pA aA mid).2
    rw [← hm, he] at hl
    exact processed_tx_rejected _ idB pB hl aB.2
  rcases split_trichotomy (h1.symm.trans h2) with ⟨e1, e2, e3⟩ | ⟨mid, hm⟩ | ⟨mid, hm⟩
  · subst e1
    subst e2
    have := a1.1.symm.trans a2.1
    simp only [Option.some.injEq, Prod.mk.injEq, Winner.tx.injEq] at this
    exact ⟨rfl, rfl, e3, this.1, this.2⟩
  · exact (key pre1 pre2 op1 op2 id1 id2 p1 p2 mid hm hh a1 a2).elim
  · exact (key pre2 pre1 op2 op1 id2 id1 p2 p1 mid hm hh.symm a2 a1).elim

/-- **every_acceptance_in_a_history_is_sound.** C07 first sentence over histories: every entry of
the acceptance log of every history stems from a point of the history at which the message WAS
stored under that id, the presented transaction had not been used, its receipt reported success and
its call data was the encoding of the message as stored at that moment (collected signatures, fees
and estimate of that moment). -/
theorem every_acceptance_in_a_history_is_sound (ops : List Op) (a : Nat × Nat)
    (ha : a ∈ (run {} ops).accepted) :
    ∃ pre op post m p, ops = pre ++ op :: post ∧ op.attempt = some (a.1, .tx p) ∧ p.hash = a.2 ∧
      findMsg (run {} pre).queue a.1 = some m ∧ m.id = a.1 ∧ p.receipt = some 1 ∧
      a.2 ∉ (run {} pre).processed ∧ ExactFor m p.data := by
  obtain ⟨pre, op, post, p, ho, hacc, hh⟩ := (accepted_log_is_history ops a).1 ha
  obtain ⟨m, ce, hm, hid, hr, hnp, hex, -⟩ := accepting_step_shape _ op a.1 p hacc
  exact ⟨pre, op, post, m, p, ho, hacc.1, hh, hm, hid, hr, by rw [← hh]; exact hnp, hex⟩

/-- **tx_single_use.** The same two clauses on the logs (now known to be functions of the history):
over every history the transaction hashes of all acceptances are pairwise different, and every
accepted transaction is in the processed set. -/
theorem tx_single_use (ops : List Op) :
    ((run {} ops).accepted.map (·.2)).Nodup ∧
    ∀ a ∈ (run {} ops).accepted, a.2 ∈ (run {} ops).processed := by
  have := run_inv ops {} inv_init
  exact ⟨this.accTxs, this.accProcessed⟩

/-- **effects_at_most_once.** Over every history, each message id is accepted at most once, an
accepted message is gone from the queue for good (ids are never reissued, C05), every success
effect belongs to an accepted message, and there is at most one effect of each kind per message. -/
theorem effects_at_most_once (ops : List Op) :
    ((run {} ops).accepted.map (·.1)).Nodup ∧
    (∀ a ∈ (run {} ops).accepted, a.1 ∉ (run {} ops).queue.map (·.id)) ∧
    (∀ e ∈ (run {} ops).effects, e.msg ∈ (run {} ops).accepted.map (·.1)) ∧
    ((run {} ops).effects.map Effect.key).Nodup := by
  have := run_inv ops {} inv_init
  exact ⟨this.accIds, this.accGone, this.fxOwner, this.fxOnce⟩

/-- **accepted_message_leaves_queue.** One step: after `ok` the message is no longer stored, so a
second attestation attempt for the same id finds nothing. -/
theorem accepted_message_leaves_queue (s : St) (id : Nat) (w w' : Winner)
    (h : (attest s id w).2 = .ok) :
    (attest (attest s id w).1 id w').2 = .unknownMsg := by
  have ho := attest_outcome s id w
  generalize attest s id w = r at ho h
  cases ho with
  | unchanged r hr => exact absurd h hr.1
  | errorHandled => cases h
  | rejected p r hw hr => rcases hr with rfl | rfl <;> cases h
  | accepted m p ce hm hw hrc hproc hv hs =>
    have hnone : findMsg (removeMsg (if isUv m.action then removeOlderUv s.queue id else s.queue) id) id = none := by
      unfold findMsg
      rw [List.find?_eq_none]
      intro x hx
      have := not_mem_removeMsg (if isUv m.action then removeOlderUv s.queue id else s.queue) id
      intro hxid
      exact this (List.mem_map.2 ⟨x, hx, by simpa using hxid⟩)
    simp only [attest, hnone]


/-- **vote_step_is_an_attest_step.** The Go vote under ANY proof hash followed by the router is the
router applied to that vote's winner — so every history theorem above (they quantify over
`Op.attest id w` with an arbitrary winner `w`) covers end-blocker steps with real sha256 evidence,
collisions or not. -/
theorem vote_step_is_an_attest_step (hp : ProofV → Nat) (s : St) (id : Nat) (snap : Libcons.Snapshot)
    (evs : List EvidenceV) :
    attestEvH hp s id snap evs = attest s id (winnerOfH hp snap evs) ∧
    step s (.attest id (winnerOfH hp snap evs)) = (attestEvH hp s id snap evs).1 ∧
    step s (.attestEv id snap evs) = (attestEvH (idealHash evs) s id snap evs).1 :=
  ⟨rfl, rfl, rfl⟩

/-- **keeper_state_changed_at_most_once_per_message.** "At most once" on the EXECUTABLE state: in
any history, attestation attempts for one message id change the keeper state read by the attesters
(or either log) at no more than one point. -/
theorem keeper_state_changed_at_most_once_per_message (ops pre1 post1 pre2 post2 : List Op)
    (op1 op2 : Op) (id : Nat) (w1 w2 : Winner)
    (h1 : ops = pre1 ++ op1 :: post1) (h2 : ops = pre2 ++ op2 :: post2)
    (t1 : op1.attempt = some (id, w1)) (t2 : op2.attempt = some (id, w2))
    (c1 : (step (run {} pre1) op1).chain ≠ (run {} pre1).chain ∨
          (step (run {} pre1) op1).effects ≠ (run {} pre1).effects ∨
          (step (run {} pre1) op1).accepted ≠ (run {} pre1).accepted)
    (c2 : (step (run {} pre2) op2).chain ≠ (run {} pre2).chain ∨
          (step (run {} pre2) op2).effects ≠ (run {} pre2).effects ∨
          (step (run {} pre2) op2).accepted ≠ (run {} pre2).accepted) :
    pre1 = pre2 ∧ op1 = op2 ∧ post1 = post2 := by
  have acc : ∀ (s : St) (op : Op) (w : Winner), op.attempt = some (id, w) →
      ((step s op).chain ≠ s.chain ∨ (step s op).effects ≠ s.effects ∨ (step s op).accepted ≠ s.accepted) →
      ∃ p, Accepts s op id p := by
    intro s op w t c
    rcases state_changes_only_by_accepting_attestation s op with ⟨e1, e2, e3⟩ | ⟨id', p, ha⟩
    · rcases c with c | c | c
      · rcases e3 with e3 | ⟨ch, e3⟩
        · exact absurd e3 c
        · rw [e3] at t; cases t
      · exact absurd e1 c
      · exact absurd e2 c
    · have := ha.1
      rw [t] at this
      simp only [Option.some.injEq, Prod.mk.injEq] at this
      obtain ⟨rfl, -⟩ := this
      exact ⟨p, ha⟩
  obtain ⟨p1, a1⟩ := acc _ op1 w1 t1 c1
  obtain ⟨p2, a2⟩ := acc _ op2 w2 t2 c2
  have := message_accepted_at_most_once ops pre1 post1 pre2 post2 op1 op2 id p1 p2 h1 h2 a1 a2
  exact ⟨this.1, this.2.1, this.2.2.1⟩


/-- **early_evidence_is_processed.** Evidence for a fee-paying message whose fees were never set
(no gas estimate elected yet) is processed like any other evidence: verification compares the call
data against the encoding with the DEFAULT fees (`feesOrDefault`, the values that were signed) and
the result is one of the ordinary outcomes.  (Before /repo commit cab3e325 `VerifyAgainstTX`
dereferenced the nil `Fees` here and the consensus end blocker panicked; regression witness on the
field level: `SignBytes.slc_prefix_nil_fees_undefined`.) -/
theorem early_evidence_is_processed (m : QMsg) (f : SLCFields) (data : Bytes)
    (ha : m.action = .slc f) (hf : f.fees = none) :
    (verifyAgainstTx m data = .ok ↔
      ∃ i, 1 ≤ i ∧ i ≤ m.sigs.length ∧
        data = calldata selSubmitLogicCallD SLC.deliveredTys
          [callV (f.contract, f.payload), feeV defaultFees f.sender, .word (castI64 m.id), .word f.deadline,
           .word f.relayer]
          (consensusV m.valset (m.sigs.take i))) := by
  rw [verify_ok_iff_exact]
  unfold ExactFor
  simp only [ha, isUp, Bool.false_eq_true, false_and, false_or, true_and, Action.delivered,
    Option.some.injEq, SLC.deliveredVals, hf, feesOrDefault]
  constructor
  · rintro ⟨d, i, rfl, h1, h2, h3⟩
    exact ⟨i, h1, h2, h3⟩
  · rintro ⟨i, h1, h2, h3⟩
    exact ⟨_, i, rfl, h1, h2, h3⟩

/-- **processed_tx_rejected_any_encoding.** "The same remote transaction": the used-transaction set
is keyed by the transaction HASH, so the serialization the evidence bytes use (`TxProof.enc`:
canonical, or the EIP-4844 network form with any blob sidecar), the receipt attached to it and
everything else in the proof are irrelevant: whatever proof `q` carries a transaction whose hash is
in the set is never accepted, for any message. -/
theorem processed_tx_rejected_any_encoding (s : St) (id : Nat) (p q : TxProof) (hq : q.hash = p.hash)
    (h : p.hash ∈ s.processed) : (attest s id (.tx q)).2 ≠ .ok :=
  processed_tx_rejected s id q (by rw [hq]; exact h)

/-- **used_tx_never_accepted_again.** C07, "the same remote transaction is never accepted for a
second message", as a statement about histories: once a transaction was accepted (`a` is in the
acceptance log after `ops`), then after ANY further history `ops'` a proof carrying a transaction
with that hash — in the same or another encoding, with the same or another receipt, for the same
or another message — is not accepted. -/
theorem used_tx_never_accepted_again (ops ops' : List Op) (a : Nat × Nat)
    (ha : a ∈ (run {} ops).accepted) (id : Nat) (q : TxProof) (hq : q.hash = a.2) :
    (attest (run (run {} ops) ops') id (.tx q)).2 ≠ .ok := by
  have h1 : a.2 ∈ (run {} ops).processed := (run_inv ops {} inv_init).accProcessed a ha
  have h2 := run_processed_mono ops' _ _ h1
  exact processed_tx_rejected _ id q (by rw [hq]; exact h2)

/-- **committed_tx_never_accepted_again.** The same for every COMMITTED outcome (accepted, failed
receipt, not verified): the transaction of the winning proof `p` is spent; after any further
history no proof `q` of the same transaction (any encoding / receipt) is accepted. -/
theorem committed_tx_never_accepted_again (s : St) (id : Nat) (p q : TxProof) (hq : q.hash = p.hash)
    (h : (attest s id (.tx p)).2 = .ok ∨ (attest s id (.tx p)).2 = .txFailed ∨
         (attest s id (.tx p)).2 = .notVerified)
    (ops' : List Op) (id' : Nat) :
    (attest (run (attest s id (.tx p)).1 ops') id' (.tx q)).2 ≠ .ok := by
  have h1 := marks_transaction s id p h
  have h2 := run_processed_mono ops' _ _ h1
  exact processed_tx_rejected _ id' q (by rw [hq]; exact h2)

/-- **used_tx_never_wins_again.** … and in terms of the vote (any proof hash, collisions or not): if
evidence for a later message is accepted, the winning proof's transaction is none of the
transactions accepted before. -/
theorem used_tx_never_wins_again (hp : ProofV → Nat) (ops ops' : List Op) (id : Nat)
    (snap : Libcons.Snapshot) (evs : List EvidenceV)
    (h : (attestEvH hp (run (run {} ops) ops') id snap evs).2 = .ok) :
    ∃ p, winnerOfH hp snap evs = .tx p ∧ p.hash ∉ (run {} ops).accepted.map (·.2) := by
  unfold attestEvH at h
  obtain ⟨p, hw, -⟩ := accept_implies_success_receipt _ id _ h
  refine ⟨p, hw, ?_⟩
  intro hm
  rw [List.mem_map] at hm
  obtain ⟨a, ha, e⟩ := hm
  rw [hw] at h
  exact used_tx_never_accepted_again ops ops' a ha id p e.symm h

/-! ### 7. compass upload (not an ABI call) -/

/-- **up_accept_iff_bytecode_then_ctor.** C07 first sentence for a compass upload: the call data is
accepted iff it EQUALS the bytecode followed by the constructor input — the whole of it. -/
theorem up_accept_iff_bytecode_then_ctor (m : QMsg) (bc ctor : Bytes) (cid : Nat)
    (ha : m.action = .up bc ctor cid) (data : Bytes) :
    verifyAgainstTx m data = .ok ↔ data = bc ++ ctor := by
  unfold verifyAgainstTx
  simp only [ha, isUp, ↓reduceIte, upData_up]
  constructor
  · intro h
    split at h
    · assumption
    · cases h
  · intro h
    simp [h]

/-- **up_trailing_bytes_rejected.** Nothing may follow the expected call data: a deployment
transaction whose input is the message's encoding followed by at least one more byte (e.g. other
constructor arguments appended to the bare bytecode of a message WITHOUT constructor input) does
not verify. -/
theorem up_trailing_bytes_rejected (m : QMsg) (bc ctor : Bytes) (cid : Nat)
    (ha : m.action = .up bc ctor cid) (extra : Bytes) (he : extra ≠ []) :
    verifyAgainstTx m (bc ++ ctor ++ extra) = .notVerified := by
  have hne : verifyAgainstTx m (bc ++ ctor ++ extra) ≠ .ok := by
    intro h
    have := (up_accept_iff_bytecode_then_ctor m bc ctor cid ha _).1 h
    have hl := congrArg List.length this
    simp only [List.length_append] at hl
    have : extra.length = 0 := by omega
    exact he (List.eq_nil_of_length_eq_zero this)
  exact (verify_not_ok_iff m _).1 hne

/-- **up_bare_bytecode_nothing_follows.** The boundary shape: a message without constructor input
is delivered by the bare bytecode only. -/
theorem up_bare_bytecode_nothing_follows (m : QMsg) (bc : Bytes) (cid : Nat)
    (ha : m.action = .up bc [] cid) (data : Bytes) :
    verifyAgainstTx m data = .ok ↔ data = bc := by
  rw [up_accept_iff_bytecode_then_ctor m bc [] cid ha data, List.append_nil]

/-- **up_proper_prefix_rejected.** … and nothing may be missing: a proper prefix of the expected
call data (the bare bytecode of a message WITH constructor input, a truncated argument block) does
not verify. -/
theorem up_proper_prefix_rejected (m : QMsg) (bc ctor : Bytes) (cid : Nat)
    (ha : m.action = .up bc ctor cid) (data rest : Bytes) (hd : data ++ rest = bc ++ ctor)
    (hr : rest ≠ []) : verifyAgainstTx m data = .notVerified := by
  have hne : verifyAgainstTx m data ≠ .ok := by
    intro h
    have h1 := (up_accept_iff_bytecode_then_ctor m bc ctor cid ha _).1 h
    rw [← h1] at hd
    have hl := congrArg List.length hd
    simp only [List.length_append] at hl
    have : rest.length = 0 := by omega
    exact hr (List.eq_nil_of_length_eq_zero this)
  exact (verify_not_ok_iff m _).1 hne

/-- **up_other_calldata_no_effects.** Router level: for a stored compass upload, evidence whose
winning transaction carries anything but `bytecode ++ constructor input` is not accepted, hence
no contract is recorded or activated, no snapshot goes live and no handover is scheduled. -/
theorem up_other_calldata_no_effects (s : St) (id : Nat) (m : QMsg) (bc ctor : Bytes) (cid : Nat)
    (hm : findMsg s.queue id = some m) (ha : m.action = .up bc ctor cid) (p : TxProof)
    (hd : p.data ≠ bc ++ ctor) :
    (attest s id (.tx p)).2 ≠ .ok ∧ (attest s id (.tx p)).1.effects = s.effects ∧
    (attest s id (.tx p)).1.chain = s.chain := by
  have hv : verifyAgainstTx m p.data = .notVerified :=
    (verify_not_ok_iff m _).1 fun h => hd ((up_accept_iff_bytecode_then_ctor m bc ctor cid ha _).1 h)
  have := non_matching_tx_no_effects s id m hm p (.inr (.inr hv))
  exact ⟨this.1, this.2.1, this.2.2.1⟩

/-! ### 8. the range assumption holds along histories; corruptions over histories -/

/-- **run_queue_wf.** Companion of every theorem with a `QMsg.Wf` hypothesis: after any history
whose inputs are in the ranges of their Go types and which is shorter than 2^64 ops (the id counter
is a `uint64`), every stored message is in range. -/
theorem run_queue_wf (ops : List Op) (hops : OpsWf ops) (hn : ops.length < U64) :
    ∀ m ∈ (run {} ops).queue, m.Wf :=
  run_queue_wf_aux ops {} (fun m hm => by cases hm) hops (by show 0 + ops.length < U64; omega)

/-- **history_non_matching_tx_no_effects.** C07, second clause, with its quantifier ("all single- and
multi-field corruptions of otherwise valid call data, all receipt statuses"): after ANY well-formed
history, for the message `m` stored under `id`, a transaction proof
* whose call data packs (same method, any well-typed consensus) an argument list differing from the
  message's in at least one value, or
* whose call data starts with other selector bytes, or
* whose call data is a proper extension or a proper prefix of call data that verifies, or
* whose receipt is missing or reports anything but success
is not accepted, and effect log, keeper state and acceptance log stay exactly as they were. -/
theorem history_non_matching_tx_no_effects (ops : List Op) (hops : OpsWf ops) (hn : ops.length < U64)
    (id : Nat) (m : QMsg) (hm : findMsg (run {} ops).queue id = some m) (p : TxProof)
    (hc : (∃ d c' vals', m.action.delivered m.id = some d ∧
              hasTypeArgs (consensusTy :: d.2.1) (c' :: vals') = true ∧ vals' ≠ d.2.2 ∧
              p.data = calldata d.1 d.2.1 vals' c') ∨
          (∃ d, m.action.delivered m.id = some d ∧ p.data.take 4 ≠ d.1) ∨
          (∃ good extra, extra ≠ [] ∧ verifyAgainstTx m good = .ok ∧
              (p.data = good ++ extra ∨ good = p.data ++ extra)) ∨
          p.receipt ≠ some 1) :
    (attest (run {} ops) id (.tx p)).2 ≠ .ok ∧
    (attest (run {} ops) id (.tx p)).1.effects = (run {} ops).effects ∧
    (attest (run {} ops) id (.tx p)).1.chain = (run {} ops).chain ∧
    (attest (run {} ops) id (.tx p)).1.accepted = (run {} ops).accepted := by
  have hw : m.Wf := run_queue_wf ops hops hn m (findMsg_some hm).1
  apply non_matching_tx_no_effects _ id m hm p
  rcases hc with ⟨d, c', vals', hd, ht, hne, hp⟩ | ⟨d, hd, hsel⟩ | ⟨good, extra, he, hg, hp | hp⟩ | hr
  · exact .inr (.inr (by rw [hp]; exact corrupted_field_rejected m hw d hd c' vals' ht hne))
  · exact .inr (.inr (other_selector_rejected m p.data d hd hsel))
  · exact .inr (.inr (by rw [hp]; exact trailing_bytes_rejected m hw good extra he hg))
  · exact .inr (.inr (truncated_calldata_rejected m hw p.data extra he (by rw [← hp]; exact hg)))
  · exact .inl hr


/-! ### 9. what the call data binds — per action — and what it does not -/

/-- **same_calldata_same_content.** What call data BINDS, for all ABI actions at once: if the same
call data verifies for two messages (in the Go ranges) — stored under whatever ids, at whatever
time — then both are calls of the same compass method, their hand-written content lists
(`Action.mustCarry`: every argument after the consensus, with the message id for the two
fee-paying actions and the snapshot id for an update-valset) are EQUAL, and their consensus tuples
(compass valset of the selected valset + signature slots of some non-empty prefix) are equal. -/
theorem same_calldata_same_content (m1 m2 : QMsg) (hw1 : m1.Wf) (hw2 : m2.Wf) (data : Bytes)
    (hu1 : isUp m1.action = false) (hu2 : isUp m2.action = false)
    (h1 : verifyAgainstTx m1 data = .ok) (h2 : verifyAgainstTx m2 data = .ok) :
    m1.action.mustCarry m1.id = m2.action.mustCarry m2.id ∧
    ∃ i j, 1 ≤ i ∧ i ≤ m1.sigs.length ∧ 1 ≤ j ∧ j ≤ m2.sigs.length ∧
      consensusV m1.valset (m1.sigs.take i) = consensusV m2.valset (m2.sigs.take j) := by
  obtain ⟨d1, i, hd1, hc1, hi1, hi2, hdat1⟩ := accepted_calldata_content m1 data hu1 h1
  obtain ⟨d2, j, hd2, hc2, hj1, hj2, hdat2⟩ := accepted_calldata_content m2 data hu2 h2
  obtain ⟨d1', hd1', ht1⟩ := accepted_calldata_starts_with_selector m1 data hu1 h1
  obtain ⟨d2', hd2', ht2⟩ := accepted_calldata_starts_with_selector m2 data hu2 h2
  rw [hd1] at hd1'
  rw [hd2] at hd2'
  injection hd1' with hd1'
  injection hd2' with hd2'
  subst hd1'
  subst hd2'
  have hsel : d1.1 = d2.1 := ht1.symm.trans ht2
  have htys := delivered_sel_tys _ _ _ _ d1 d2 hd1 hd2 hsel
  have ht1' := delivered_typed m1 hw1 d1 hd1 _
    (consensus_typed m1.valset (m1.sigs.take i) (consWf_take _ _ hw1.cons i))
  have ht2' := delivered_typed m2 hw2 d2 hd2 _
    (consensus_typed m2.valset (m2.sigs.take j) (consWf_take _ _ hw2.cons j))
  rw [hdat1, hsel, htys] at hdat2
  rw [htys] at ht1'
  have := calldata_injective _ _ _ _ ht1' ht2' hdat2
  injection this with hc hv
  refine ⟨?_, i, j, hi1, hi2, hj1, hj2, hc⟩
  rw [hc1, hc2, hsel, hv]


/-- **what_the_calldata_binds.** C07 "equals the bridge-contract encoding of that message (action,
id, deadline, fees, relayer, validator set …)", per action: if the same call data verifies for two
ABI messages in the Go ranges, then
* ACTION: both are the same kind of compass call;
* VALIDATOR SET: their selected valsets have the same compass form (addresses, powers, id);
* logic call: same MESSAGE ID, target, payload, fees (after defaulting), fee payer, DEADLINE, RELAYER;
* user contract upload: same MESSAGE ID, deployer, bytecode, fees, fee payer, DEADLINE, RELAYER —
  but NOT the user-contract id the effect is keyed by (`contractId`; determined through the message);
* update-valset: same new validator set with the same SNAPSHOT ID (the key of the effect), RELAYER
  and elected estimate — the compass method has NO message id, deadline or fee argument;
* compass handover: same forward calls, DEADLINE, elected estimate and RELAYER — NO message id and
  NOT the compass contract id the activation is keyed by.
What is NOT bound is spelled out in `calldata_does_not_bind`. -/
theorem what_the_calldata_binds (m1 m2 : QMsg) (hw1 : m1.Wf) (hw2 : m2.Wf) (data : Bytes)
    (hu1 : isUp m1.action = false) (hu2 : isUp m2.action = false)
    (h1 : verifyAgainstTx m1 data = .ok) (h2 : verifyAgainstTx m2 data = .ok) :
    m1.action.kind = m2.action.kind ∧
    (m1.valset.validators.map hexToAddress = m2.valset.validators.map hexToAddress ∧
      m1.valset.powers.map castI64 = m2.valset.powers.map castI64 ∧
      castI64 m1.valset.valsetId = castI64 m2.valset.valsetId) ∧
    (∀ f1 f2, m1.action = .slc f1 → m2.action = .slc f2 →
      m1.id = m2.id ∧ f1.contract = f2.contract ∧ f1.payload = f2.payload ∧
      feesOrDefault f1.fees = feesOrDefault f2.fees ∧ f1.sender = f2.sender ∧
      f1.deadline = f2.deadline ∧ f1.relayer = f2.relayer) ∧
    (∀ f1 c1 f2 c2, m1.action = .usc f1 c1 → m2.action = .usc f2 c2 →
      m1.id = m2.id ∧ f1.deployer = f2.deployer ∧ f1.bytecode = f2.bytecode ∧
      feesOrDefault f1.fees = feesOrDefault f2.fees ∧ f1.sender = f2.sender ∧
      f1.deadline = f2.deadline ∧ f1.relayer = f2.relayer) ∧
    (∀ f1 v1 f2 v2, m1.action = .uv f1 v1 → m2.action = .uv f2 v2 →
      v1 = v2 ∧ f1.validators = f2.validators ∧ f1.powers = f2.powers ∧ f1.relayer = f2.relayer ∧
      f1.estimate = f2.estimate) ∧
    (∀ f1 c1 f2 c2, m1.action = .ch f1 c1 → m2.action = .ch f2 c2 → f1 = f2) := by
  obtain ⟨hmc, i, j, -, -, -, -, hc⟩ := same_calldata_same_content m1 m2 hw1 hw2 data hu1 hu2 h1 h2
  refine ⟨mustCarry_kind _ _ _ _ hu1 hmc, consensusV_valset _ _ _ _ hc, ?_, ?_, ?_, ?_⟩
  · intro f1 f2 e1 e2
    rw [e1, e2] at hmc
    exact mustCarry_slc f1 f2 _ _ hw1.id hw2.id hmc
  · intro f1 c1 f2 c2 e1 e2
    rw [e1, e2] at hmc
    exact mustCarry_usc f1 f2 c1 c2 _ _ hw1.id hw2.id hmc
  · intro f1 v1 f2 v2 e1 e2
    rw [e1, e2] at hmc
    have a1 := hw1.action
    have a2 := hw2.action
    rw [e1] at a1
    rw [e2] at a2
    simp only [Action.wf, Bool.and_eq_true, decide_eq_true_eq] at a1 a2
    exact mustCarry_uv f1 f2 v1 v2 _ _ a1.2 a2.2 hmc
  · intro f1 c1 f2 c2 e1 e2
    rw [e1, e2] at hmc
    exact mustCarry_ch f1 f2 c1 c2 _ _ hmc

/-- **calldata_does_not_bind.** The other half, for EVERY message and call data: verification does
not look at
* the message id of an update-valset, a compass handover or a compass upload (their encodings have
  no id argument),
* the contract id of a user upload, a compass handover or a compass upload (the key of the
  "deployment recorded / activated" effects),
* the free ABI-level fields `SLCFields.id`, `USCFields.id`, `UVFields.valsetId` and every `turnstone`
  field (the signing side's business, C05),
* for a compass upload: where the bytecode ends and the constructor input begins.
So two stored messages that differ only in these are INTERCHANGEABLE for `VerifyAgainstTX`. -/
theorem calldata_does_not_bind (m : QMsg) (data : Bytes) :
    (∀ f vid id', m.action = .uv f vid → verifyAgainstTx { m with id := id' } data = verifyAgainstTx m data) ∧
    (∀ f cid id' cid', m.action = .ch f cid →
      verifyAgainstTx { m with id := id', action := .ch f cid' } data = verifyAgainstTx m data) ∧
    (∀ bc ct cid id' cid', m.action = .up bc ct cid →
      verifyAgainstTx { m with id := id', action := .up bc ct cid' } data = verifyAgainstTx m data) ∧
    (∀ f cid cid', m.action = .usc f cid →
      verifyAgainstTx { m with action := .usc f cid' } data = verifyAgainstTx m data) ∧
    (∀ f x t, m.action = .slc f →
      verifyAgainstTx { m with action := .slc { f with id := x, turnstone := t } } data = verifyAgainstTx m data) ∧
    (∀ f cid x t, m.action = .usc f cid →
      verifyAgainstTx { m with action := .usc { f with id := x, turnstone := t } cid } data =
        verifyAgainstTx m data) ∧
    (∀ f vid x t, m.action = .uv f vid →
      verifyAgainstTx { m with action := .uv { f with valsetId := x, turnstone := t } vid } data =
        verifyAgainstTx m data) ∧
    (∀ bc ct cid bc' ct', m.action = .up bc ct cid → bc' ++ ct' = bc ++ ct →
      verifyAgainstTx { m with action := .up bc' ct' cid } data = verifyAgainstTx m data) := by
  refine ⟨?_, ?_, ?_, ?_, ?_, ?_, ?_, ?_⟩
  · intro f vid id' ha
    simp [verifyAgainstTx, ha, isUp, Action.delivered]
  · intro f cid id' cid' ha
    simp [verifyAgainstTx, ha, isUp, Action.delivered]
  · intro bc ct cid id' cid' ha
    simp only [verifyAgainstTx, ha, isUp, upData]
    rfl
  · intro f cid cid' ha
    simp [verifyAgainstTx, ha, isUp, Action.delivered]
  · intro f x t ha
    simp [verifyAgainstTx, ha, isUp, Action.delivered, SLC.deliveredVals]
  · intro f cid x t ha
    simp [verifyAgainstTx, ha, isUp, Action.delivered, USC.deliveredVals]
  · intro f vid x t ha
    simp [verifyAgainstTx, ha, isUp, Action.delivered, UV.deliveredVals, UV.valsetV]
  · intro bc ct cid bc' ct' ha he
    simp [verifyAgainstTx, ha, isUp, upData, he]


/-- **up_calldata_binds.** Compass upload (not an ABI call): call data that verifies for two upload
messages binds exactly the concatenation bytecode ++ constructor input — not the message id, not the
contract id, not even where the bytecode ends (`calldata_does_not_bind`, last clause).  (An upload
and an ABI message could accept the same bytes only if governance-supplied bytecode began with a
compass selector; nothing here excludes it — C05 finding "upload has no selector".) -/
theorem up_calldata_binds (m1 m2 : QMsg) (bc1 ct1 bc2 ct2 : Bytes) (c1 c2 : Nat)
    (ha1 : m1.action = .up bc1 ct1 c1) (ha2 : m2.action = .up bc2 ct2 c2) (data : Bytes)
    (h1 : verifyAgainstTx m1 data = .ok) (h2 : verifyAgainstTx m2 data = .ok) :
    bc1 ++ ct1 = bc2 ++ ct2 :=
  ((up_accept_iff_bytecode_then_ctor m1 bc1 ct1 c1 ha1 data).1 h1).symm.trans
    ((up_accept_iff_bytecode_then_ctor m2 bc2 ct2 c2 ha2 data).1 h2)

/-- **stored_ids_unique.** After every history, a queue id names at most one stored message (ids
come from one counter and are never reissued; rewrites keep the id). -/
theorem stored_ids_unique (ops : List Op) (m1 m2 : QMsg) (h1 : m1 ∈ (run {} ops).queue)
    (h2 : m2 ∈ (run {} ops).queue) (e : m1.id = m2.id) : m1 = m2 :=
  eq_of_nodup_map_id _ (run_inv ops {} inv_init).qNodup m1 h1 m2 h2 e

/-
FULL-STRENGTH reading of "its call data equals the bridge-contract encoding of THAT message (action,
ID, …)" that does NOT hold (AUDIT-2, "encoding does not bind the ids named in the clause"):

  theorem calldata_identifies_the_message (ops : List Op) (hops : OpsWf ops) (hn : ops.length < U64)
      (m1 m2 : QMsg) (h1 : m1 ∈ (run {} ops).queue) (h2 : m2 ∈ (run {} ops).queue) (data : Bytes)
      (v1 : verifyAgainstTx m1 data = .ok) (v2 : verifyAgainstTx m2 data = .ok) : m1 = m2

It is TRUE when one of the two is a logic call or a user contract upload
(`calldata_identifies_fee_paying_message`): their compass methods take the message id.  It is FALSE
for update-valset, compass handover and compass upload: `update_valset`, `compass_update_batch` and a
contract-creation transaction carry no message id (`calldata_does_not_bind`), so two stored messages
of equal content are interchangeable — witness `calldata_does_not_identify_the_message` below, two
identical update-valsets with ids 1 and 2.  This mirrors the Go code (`UpdateValset.VerifyAgainstTX`
packs consensus, valset, relayer, gas estimate; `CompassHandover.VerifyAgainstTX` packs consensus,
forward calls, deadline, gas estimate, relayer; `UploadSmartContract.VerifyAgainstTX` compares with
bytecode ++ constructor input) and the compass ABI, not a modelling choice.
-/

/-- **calldata_identifies_fee_paying_message.** The true part (`…_partial`): after any well-formed
history, call data that verifies for a stored logic call or user contract upload verifies for NO
other stored ABI message. -/
theorem calldata_identifies_fee_paying_message (ops : List Op) (hops : OpsWf ops) (hn : ops.length < U64)
    (m1 m2 : QMsg) (h1 : m1 ∈ (run {} ops).queue) (h2 : m2 ∈ (run {} ops).queue)
    (hk : m1.action.kind = 1 ∨ m1.action.kind = 2) (hu2 : isUp m2.action = false) (data : Bytes)
    (v1 : verifyAgainstTx m1 data = .ok) (v2 : verifyAgainstTx m2 data = .ok) : m1 = m2 := by
  have hw1 := run_queue_wf ops hops hn m1 h1
  have hw2 := run_queue_wf ops hops hn m2 h2
  have hu1 : isUp m1.action = false := by
    cases ha : m1.action <;> simp [ha, Action.kind, isUp] at hk ⊢
  obtain ⟨hkind, -, hslc, husc, -, -⟩ := what_the_calldata_binds m1 m2 hw1 hw2 data hu1 hu2 v1 v2
  apply stored_ids_unique ops m1 m2 h1 h2
  cases ha1 : m1.action with
  | slc f1 =>
    cases ha2 : m2.action with
    | slc f2 => exact (hslc f1 f2 ha1 ha2).1
    | _ => simp [ha1, ha2, Action.kind] at hkind
  | usc f1 c1 =>
    cases ha2 : m2.action with
    | usc f2 c2 => exact (husc f1 c1 f2 c2 ha1 ha2).1
    | _ => simp [ha1, ha2, Action.kind] at hkind
  | _ => simp [ha1, Action.kind] at hk


/-- **accepted_fee_paying_calldata_names_its_message.** History level: whenever, after a well-formed
history, an attestation of a logic call or a user contract upload is ACCEPTED, the accepted call
data verifies for no other ABI message stored at that moment — the transaction proves delivery of
that message and of no other. -/
theorem accepted_fee_paying_calldata_names_its_message (ops : List Op) (hops : OpsWf ops)
    (hn : ops.length < U64) (op : Op) (id : Nat) (p : TxProof) (ha : Accepts (run {} ops) op id p)
    (m : QMsg) (hm : findMsg (run {} ops).queue id = some m)
    (hk : m.action.kind = 1 ∨ m.action.kind = 2) (m' : QMsg) (hm' : m' ∈ (run {} ops).queue)
    (hne : m'.id ≠ id) (hu' : isUp m'.action = false) :
    verifyAgainstTx m' p.data = .notVerified := by
  rw [← verify_not_ok_iff]
  intro hv
  obtain ⟨m0, -, hm0, hid0, -, -, hex, -⟩ := accepting_step_shape _ op id p ha
  rw [hm] at hm0
  injection hm0 with hm0
  subst hm0
  have := calldata_identifies_fee_paying_message ops hops hn m m' (findMsg_some hm).1 hm' hk hu' p.data
    (exact_verify_ok m p.data hex) hv
  exact hne (by rw [← this]; exact hid0)


/-! ### 10. the expected call data cannot be built: there is nothing the transaction equals

`VerifyAgainstTX` BUILDS the bridge-contract encoding of the message with the ABI of the compass
`GetLastCompassContract` returns (the compass saved last, possibly newer than the one the message was
relayed on) — for a compass upload with the message's own ABI and constructor input — and only then
compares.  When that encoding cannot be built (`buildable = false`: the ABI does not parse, `Pack`
does not find the method or refuses the argument list, the constructor input does not unpack) the
clause "accepted only if its call data EQUALS the encoding" has nothing to be equal to: no
transaction whatsoever may be accepted, and none is — the router returns an error that is neither
success nor one of the two committed rejections, so the message stays and the transaction is not
spent (it can be attested later, once the encoding exists again). -/

/-- **buildable_iff.** What "the expected call data can be built" means, spelled out. -/
theorem buildable_iff (c : CompassAbi) (m : QMsg) :
    buildable c m = true ↔
      (isUp m.action = true ∧ m.upOk = true) ∨
      (isUp m.action = false ∧ c.parses = true ∧ (m.sigs = [] ∨ c.packs m.action = true)) := by
  unfold buildable
  cases hu : isUp m.action <;> simp [List.isEmpty_iff]

/-- **unbuildable_encoding_never_accepted.** C07, first clause, for the inputs the clause is silent
about: while the expected call data of the stored message cannot be built, NO evidence winner — no
transaction, whatever its call data and receipt — is accepted for it. -/
theorem unbuildable_encoding_never_accepted (s : St) (id : Nat) (m : QMsg)
    (hm : findMsg s.queue id = some m) (hb : buildable s.chain.abi m = false) (w : Winner) :
    (attest s id w).2 ≠ .ok := by
  intro hok
  cases w with
  | none => simp [attest, hm] at hok
  | errorProof => simp [attest, hm] at hok
  | other => simp [attest, hm] at hok
  | tx p =>
    simp only [attest, hm, hb, Bool.not_false, ↓reduceIte] at hok
    split at hok
    · cases hok
    · split at hok
      · cases hok
      · split at hok <;> cases hok

/-- **unbuildable_encoding_no_effects.** … and therefore effect log, keeper state (snapshot listings,
bridge contract records, active contract, user deployments) and acceptance log stay exactly as they
were, for every winner. -/
theorem unbuildable_encoding_no_effects (s : St) (id : Nat) (m : QMsg)
    (hm : findMsg s.queue id = some m) (hb : buildable s.chain.abi m = false) (w : Winner) :
    (attest s id w).2 ≠ .ok ∧ (attest s id w).1.effects = s.effects ∧
    (attest s id w).1.chain = s.chain ∧ (attest s id w).1.accepted = s.accepted :=
  ⟨unbuildable_encoding_never_accepted s id m hm hb w,
   effects_only_on_accept s id w (unbuildable_encoding_never_accepted s id m hm hb w)⟩

/-- **unbuildable_encoding_commits_nothing.** The exact outcome for a transaction that passed the
receipt gate and the single-use check: the non-sentinel error `encodeErr`, and the WHOLE state is
unchanged — the message is still queued, the transaction is not marked as used — for ALL call data
(the call data is never looked at). -/
theorem unbuildable_encoding_commits_nothing (s : St) (id : Nat) (m : QMsg)
    (hm : findMsg s.queue id = some m) (hb : buildable s.chain.abi m = false) (p : TxProof)
    (hr : p.receipt = some 1) (hh : p.hash ∉ s.processed) :
    attest s id (.tx p) = (s, .encodeErr) := by
  simp [attest, hm, hr, hh, hb]

/-- **accept_implies_buildable_encoding.** C07, first clause, complete: an accepting attestation
compared the transaction with an encoding that EXISTS (the latest compass ABI parses and declares the
method / the upload's constructor input unpacks) and the call data equals it. -/
theorem accept_implies_buildable_encoding (s : St) (id : Nat) (w : Winner)
    (h : (attest s id w).2 = .ok) :
    ∃ m p, findMsg s.queue id = some m ∧ m.id = id ∧ w = .tx p ∧
      buildable s.chain.abi m = true ∧ ExactFor m p.data := by
  obtain ⟨m, p, hm, hid, hw, hex⟩ := accept_implies_exact_calldata s id w h
  refine ⟨m, p, hm, hid, hw, ?_, hex⟩
  cases hb : buildable s.chain.abi m with
  | true => rfl
  | false => exact absurd h (unbuildable_encoding_never_accepted s id m hm hb w)

/-- **buildable_exact_success_tx_accepted.** The gate is not what rejects in normal operation: with a
buildable encoding, exact call data, a success receipt, an unused transaction and an action attester
that succeeds, the attestation is accepted. -/
theorem buildable_exact_success_tx_accepted (s : St) (id : Nat) (m : QMsg)
    (hm : findMsg s.queue id = some m) (hb : buildable s.chain.abi m = true) (p : TxProof)
    (hr : p.receipt = some 1) (hh : p.hash ∉ s.processed) (hex : ExactFor m p.data)
    (ce : Chain × List Effect) (hs : applySuccess s.chain m p = some ce) :
    (attest s id (.tx p)).2 = .ok := by
  simp [attest, hm, hr, hh, hb, exact_verify_ok m p.data hex, hs]

theorem applySuccess_keeps_abi (c : Chain) (m : QMsg) (p : TxProof) (ce : Chain × List Effect)
    (h : applySuccess c m p = some ce) : ce.1.abi = c.abi := by
  unfold applySuccess at h
  split at h
  · split at h <;> (injection h with h; subst h; rfl)
  · injection h with h; subst h; rfl
  · split at h
    · cases h
    · split at h
      · cases h
      · injection h with h; subst h; rfl
  · split at h
    · cases h
    · rename_i c' hc
      injection h with h; subst h
      unfold setActive at hc
      split at hc
      · injection hc with hc; subst hc; rfl
      · cases hc
  · split at h
    · cases h
    · split at h
      · split at h
        · cases h
        · split at h
          · cases h
          · rename_i c2 hc
            injection h with h; subst h
            unfold setActive at hc
            split at hc
            · injection hc with hc; subst hc; rfl
            · cases hc
      · split at h
        · cases h
        · injection h with h; subst h; rfl

/-- **attest_keeps_compass_abi.** The ABI the encodings are built with is not a success effect: no
attestation step changes it (only the environment op does — a governance proposal or genesis saving a
new compass). -/
theorem attest_keeps_compass_abi (s : St) (id : Nat) (w : Winner) :
    (attest s id w).1.chain.abi = s.chain.abi := by
  have ho := attest_outcome s id w
  generalize attest s id w = r at ho
  cases ho with
  | unchanged r hr => rfl
  | errorHandled => rfl
  | rejected p r hw hr => rfl
  | accepted m p ce hm hw hrc hproc hv hs => exact applySuccess_keeps_abi _ _ _ _ hs

/-- **history_unbuildable_encoding_no_effects.** With the quantifier of the property ("for all
histories"): after ANY history — e.g. a newer compass whose ABI lacks the method, or declares it with
another parameter list, was saved while the message was in flight (`setChain`), or an upload message
with an unusable ABI / constructor input was stored — an attestation attempt (with a given winner or
voted from any evidence) for a message whose expected call data cannot be built changes neither the
effect log, nor the keeper state, nor the acceptance log, whatever transaction is presented. -/
theorem history_unbuildable_encoding_no_effects (ops : List Op) (id : Nat) (m : QMsg)
    (hm : findMsg (run {} ops).queue id = some m)
    (hb : buildable (run {} ops).chain.abi m = false) (op : Op) (w : Winner)
    (ha : op.attempt = some (id, w)) :
    (step (run {} ops) op).effects = (run {} ops).effects ∧
    (step (run {} ops) op).chain = (run {} ops).chain ∧
    (step (run {} ops) op).accepted = (run {} ops).accepted := by
  rw [attempt_step _ op id w ha]
  exact (unbuildable_encoding_no_effects _ id m hm hb w).2

/-! ### 11. the account the call data names as relayer is the ASSIGNED relayer, whoever sent the transaction

C07 lists the relayer among the things the bridge-contract encoding of a message contains.  The
relayer the expected call data is built with is `Message.AssigneeRemoteAddress` of the message AS
STORED when the attestation runs (so after a re-assignment: the new assignee) — never something
taken from the transaction.  A remote transaction has a sender (`TxProof.sender`: what anybody recovers
from its signature; `none` when it carries none), and a relayer may well put ITS OWN account where
the compass method takes the relayer — another validator relaying the message for itself, the
previous assignee after the message was re-assigned.  Such call data is the genuine encoding in every
other field, and it is not the encoding of that message: refused, for every action that is a
compass call, whoever the sender is. -/

/-- the relayer the stored message is assigned to (`common.HexToAddress(AssigneeRemoteAddress)`); the
creation input of a compass upload names none -/
def Action.relayer : Action → Option Nat
  | .uv f _ => some f.relayer
  | .slc f => some f.relayer
  | .usc f _ => some f.relayer
  | .ch f _ => some f.relayer
  | .up _ _ _ => none

/-- the same action, assigned to the relayer `r` -/
def Action.withRelayer (a : Action) (r : Nat) : Action :=
  match a with
  | .uv f v => .uv { f with relayer := r } v
  | .slc f => .slc { f with relayer := r }
  | .usc f c => .usc { f with relayer := r } c
  | .ch f c => .ch { f with relayer := r } c
  | .up b c i => .up b c i

/-- the stored message as it would be stored had it been assigned to the account `r` -/
def QMsg.assignedTo (m : QMsg) (r : Nat) : QMsg := { m with action := m.action.withRelayer r }

/-- (§11, auxiliary) re-assigning a message in the Go ranges to a 20-byte account keeps it in the Go
ranges — `ReassignValidator` rewrites the assignee and nothing else. -/
theorem withRelayer_wf (a : Action) (r : Nat) (ha : a.wf = true) (hr : r < W160) :
    (a.withRelayer r).wf = true := by
  cases a with
  | uv f v =>
    simp only [Action.withRelayer, Action.wf, UV.wf, Bool.and_eq_true, decide_eq_true_eq] at ha ⊢
    exact ⟨⟨⟨⟨⟨⟨⟨⟨ha.1.1.1.1.1.1.1.1, ha.1.1.1.1.1.1.1.2⟩, ha.1.1.1.1.1.1.2⟩, ha.1.1.1.1.1.2⟩, ha.1.1.1.1.2⟩,
      ha.1.1.1.2⟩, hr⟩, ha.1.2⟩, ha.2⟩
  | slc f =>
    simp only [Action.withRelayer, Action.wf, SLC.wf, Bool.and_eq_true, decide_eq_true_eq] at ha ⊢
    exact ⟨ha.1, hr⟩
  | usc f c =>
    simp only [Action.withRelayer, Action.wf, USC.wf, Bool.and_eq_true, decide_eq_true_eq] at ha ⊢
    exact ⟨ha.1, hr⟩
  | ch f c =>
    simp only [Action.withRelayer, Action.wf, CH.wf, Bool.and_eq_true, decide_eq_true_eq] at ha ⊢
    exact ⟨⟨ha.1.1, hr⟩, ha.2⟩
  | up b c i => rfl

/-- (§11, auxiliary) re-assignment does not change the kind of action -/
theorem withRelayer_isUp (a : Action) (r : Nat) : isUp (a.withRelayer r) = isUp a := by
  cases a <;> rfl

/-- (§11, auxiliary) after the re-assignment to `r` the relayer of a compass call is `r` -/
theorem withRelayer_relayer (a : Action) (r : Nat) (h : isUp a = false) :
    (a.withRelayer r).relayer = some r := by
  cases a <;> first | rfl | cases h

/-- **calldata_naming_another_relayer_rejected.** C07 "… equals the bridge-contract encoding of that
message (…, relayer, …)", for EVERY compass-call action and EVERY account: call data that is the
genuine encoding of the stored message in every field except that it names the account `r` where the
message's assigned relayer belongs — i.e. whatever `VerifyAgainstTX` accepts for the message HAD IT
BEEN ASSIGNED TO `r` (any signature prefix) — is not verified for the message as it is stored, as
soon as `r` is not the assigned relayer.  `r` is arbitrary: another validator's account, the previous
assignee's, the zero address, and in particular the account that SENT the transaction. -/
theorem calldata_naming_another_relayer_rejected (m : QMsg) (hw : m.Wf) (hu : isUp m.action = false)
    (r : Nat) (hr : r < W160) (hne : m.action.relayer ≠ some r) (data : Bytes)
    (h : verifyAgainstTx (m.assignedTo r) data = .ok) : verifyAgainstTx m data = .notVerified := by
  rw [← verify_not_ok_iff]
  intro hv
  have hw' : (m.assignedTo r).Wf := ⟨hw.id, withRelayer_wf _ _ hw.action hr, hw.cons⟩
  have hu' : isUp (m.assignedTo r).action = false := (withRelayer_isUp m.action r).trans hu
  obtain ⟨-, -, h1, h2, h3, h4⟩ := what_the_calldata_binds m (m.assignedTo r) hw hw' data hu hu' hv h
  apply hne
  cases ha : m.action with
  | uv f v =>
    have := (h3 f v { f with relayer := r } v ha
      (by show m.action.withRelayer r = _; rw [ha]; rfl)).2.2.2.1
    simpa [Action.relayer] using this
  | slc f =>
    have := (h1 f { f with relayer := r } ha
      (by show m.action.withRelayer r = _; rw [ha]; rfl)).2.2.2.2.2.2
    simpa [Action.relayer] using this
  | usc f c =>
    have := (h2 f c { f with relayer := r } c ha
      (by show m.action.withRelayer r = _; rw [ha]; rfl)).2.2.2.2.2.2
    simpa [Action.relayer] using this
  | ch f c =>
    have := h4 f c { f with relayer := r } c ha
      (by show m.action.withRelayer r = _; rw [ha]; rfl)
    have := congrArg CHFields.relayer this
    simpa [Action.relayer] using this
  | up b c i => rw [ha] at hu; cases hu

/-- **accepted_calldata_names_the_assigned_relayer.** The same read from the accepted side (what the
harness monitor of the same name checks on the implementation): whenever call data verified for the
stored message is, for some account `r`, the encoding the message would have under the assignment to
`r`, then `r` IS the assigned relayer. -/
theorem accepted_calldata_names_the_assigned_relayer (m : QMsg) (hw : m.Wf) (hu : isUp m.action = false)
    (data : Bytes) (hv : verifyAgainstTx m data = .ok) (r : Nat) (hr : r < W160)
    (h : verifyAgainstTx (m.assignedTo r) data = .ok) : m.action.relayer = some r := by
  apply Classical.byContradiction
  intro hne
  rw [calldata_naming_another_relayer_rejected m hw hu r hr hne data h] at hv
  cases hv

/-- **attest_ignores_the_sender.** Who sent the remote transaction decides NOTHING: the router's
result and the whole resulting state (queue, processed set, keeper state, both logs) are the same for
a transaction proof and for the same proof with any other — or no — recoverable sender.  In
particular there is no second verification "against the sender": a verdict of the implementation that
depends on the sender shows as a differing line of the correspondence test. -/
theorem attest_ignores_the_sender (s : St) (id : Nat) (p : TxProof) (snd : Option Nat) :
    attest s id (.tx { p with sender := snd }) = attest s id (.tx p) := by
  have happ : ∀ m, applySuccess s.chain m { p with sender := snd } = applySuccess s.chain m p := by
    intro m
    unfold applySuccess
    rfl
  unfold attest
  cases findMsg s.queue id with
  | none => rfl
  | some m => simp only [happ]

/-- **sender_named_as_relayer_no_effects.** C07, second clause, for the transaction that names its
own sender: a transaction sent from the account `a` whose call data is the message's encoding with
`a` in the relayer's place is not accepted for the stored message unless `a` is the assigned relayer,
and effect log, keeper state and acceptance log stay as they were — for every compass-call action,
every state, every receipt. -/
theorem sender_named_as_relayer_no_effects (s : St) (id : Nat) (m : QMsg)
    (hm : findMsg s.queue id = some m) (hw : m.Wf) (hu : isUp m.action = false) (p : TxProof) (a : Nat)
    (hs : p.sender = some a) (ha : a < W160) (hne : m.action.relayer ≠ some a)
    (hd : verifyAgainstTx (m.assignedTo a) p.data = .ok) :
    (attest s id (.tx p)).2 ≠ .ok ∧ (attest s id (.tx p)).1.effects = s.effects ∧
    (attest s id (.tx p)).1.chain = s.chain ∧ (attest s id (.tx p)).1.accepted = s.accepted :=
  non_matching_tx_no_effects s id m hm p
    (.inr (.inr (calldata_naming_another_relayer_rejected m hw hu a ha hne p.data hd)))

/-- **history_sender_named_as_relayer_no_effects.** … over all well-formed histories from the
initial state, for the message as stored at that moment (after whatever re-assignment `update`s). -/
theorem history_sender_named_as_relayer_no_effects (ops : List Op) (hops : OpsWf ops)
    (hn : ops.length < U64) (id : Nat) (m : QMsg) (hm : findMsg (run {} ops).queue id = some m)
    (hu : isUp m.action = false) (p : TxProof) (a : Nat) (hs : p.sender = some a) (ha : a < W160)
    (hne : m.action.relayer ≠ some a) (hd : verifyAgainstTx (m.assignedTo a) p.data = .ok) :
    (attest (run {} ops) id (.tx p)).2 ≠ .ok ∧
    (attest (run {} ops) id (.tx p)).1.effects = (run {} ops).effects ∧
    (attest (run {} ops) id (.tx p)).1.chain = (run {} ops).chain ∧
    (attest (run {} ops) id (.tx p)).1.accepted = (run {} ops).accepted :=
  sender_named_as_relayer_no_effects _ id m hm
    (run_queue_wf ops hops hn m (findMsg_some hm).1) hu p a hs ha hne hd

/-! ### 12. "its receipt reports success", read off the receipt BYTES

Sections 4 and 5 speak about `TxProof.receipt`, the `Status` of the DECODED receipt.  Whether a receipt
reports success is a statement about the bytes a validator submits: the first field of the serialized
receipt is the success code `0x01`.  The two other forms that decode — the empty string (failure
code) and a 32-byte post-transaction state root (a receipt without any status code: the form used
before EIP-658, and what go-ethereum emits for a receipt whose node filled in `root` AND `status`,
reverted transactions included) — do not, and nothing else decodes.  `TxProof.ofReceiptField` builds
the proof value from that field the way `GetReceipt` does (`receiptStatusOf` = `Receipt.setStatus`),
so the theorems below quantify over the field, not over a status somebody supplied. -/

/-- **receipt_reports_success_iff.** The decoded status is 1 for exactly one first field: the
single byte `0x01`. -/
theorem receipt_reports_success_iff (f : Bytes) : receiptStatusOf f = some 1 ↔ f = [1] := by
  unfold receiptStatusOf
  constructor
  · intro h
    split at h
    · assumption
    · split at h
      · cases h
      · split at h <;> cases h
  · intro h
    simp [h]

/-- **post_state_receipt_reports_no_success.** A receipt whose first field is a 32-byte string — a
state root in place of the status code, whatever the 32 bytes are (all zero, `0x00…01`, `0x01 00…`) —
decodes, with status 0, and keeps the root as part of its identity. -/
theorem post_state_receipt_reports_no_success (f : Bytes) (h : f.length = 32) :
    receiptStatusOf f = some 0 ∧ receiptPostState f = f := by
  have h1 : f ≠ [1] := by
    intro h'
    rw [h'] at h
    cases h
  have h0 : f ≠ [] := by
    intro h'
    rw [h'] at h
    cases h
  simp [receiptStatusOf, receiptPostState, h1, h0, h]

/-- **proof_reports_success_iff.** The proof value built from a serialized receipt passes the
router's status gate iff there is a receipt and its first field is the success code. -/
theorem proof_reports_success_iff (hash : Nat) (data : Bytes) (field : Option Bytes) (log : Bool)
    (variant enc : Nat) (sender : Option Nat) :
    (TxProof.ofReceiptField hash data field log variant enc sender).receipt = some 1 ↔
      field = some [1] := by
  cases field with
  | none => simp [TxProof.ofReceiptField]
  | some f => simp [TxProof.ofReceiptField, receipt_reports_success_iff]

/-- **accept_implies_receipt_field_is_success_code.** C07, "… and its receipt reports success", on
the submitted bytes: if the router accepts the proof built from a serialized receipt, that receipt's
first field is the success code `0x01` — not a state root, not the failure code, not absent. -/
theorem accept_implies_receipt_field_is_success_code (s : St) (id : Nat) (hash : Nat) (data : Bytes)
    (field : Option Bytes) (log : Bool) (variant enc : Nat) (sender : Option Nat)
    (h : (attest s id (.tx (TxProof.ofReceiptField hash data field log variant enc sender))).2 = .ok) :
    field = some [1] := by
  obtain ⟨p, hw, hr⟩ := accept_implies_success_receipt s id _ h
  injection hw with hw
  subst hw
  exact (proof_reports_success_iff hash data field log variant enc sender).1 hr

/-- **receipt_without_success_code_no_effects.** C07, "a failed receipt never produces the message's
success effects", for EVERY receipt that does not report success — failure code, state root in place
of a status code (any 32 bytes), undecodable, absent — every state, every message, every call data
(the genuine encoding included): not accepted; effect log, keeper state and acceptance log stay as
they were. -/
theorem receipt_without_success_code_no_effects (s : St) (id : Nat) (hash : Nat) (data : Bytes)
    (field : Option Bytes) (log : Bool) (variant enc : Nat) (sender : Option Nat)
    (hf : field ≠ some [1]) :
    let p := TxProof.ofReceiptField hash data field log variant enc sender
    (attest s id (.tx p)).2 ≠ .ok ∧ (attest s id (.tx p)).1.effects = s.effects ∧
    (attest s id (.tx p)).1.chain = s.chain ∧ (attest s id (.tx p)).1.accepted = s.accepted := by
  intro p
  have hne : (attest s id (.tx p)).2 ≠ .ok := fun hok =>
    hf (accept_implies_receipt_field_is_success_code s id hash data field log variant enc sender hok)
  exact ⟨hne, effects_only_on_accept s id (.tx p) hne⟩

/-- **post_state_receipt_is_a_failed_receipt.** What the router does with a state-root receipt for a
stored message, exactly: the outcome of a FAILED receipt — `ErrEthTxFailed`, committed: the message
leaves the queue, the transaction is spent, nothing else changes — whatever the call data. -/
theorem post_state_receipt_is_a_failed_receipt (s : St) (id : Nat) (m : QMsg)
    (hm : findMsg s.queue id = some m) (hash : Nat) (data root : Bytes) (hroot : root.length = 32)
    (log : Bool) (variant enc : Nat) (sender : Option Nat) :
    attest s id (.tx (TxProof.ofReceiptField hash data (some root) log variant enc sender)) =
      (commitReject s id hash, .txFailed) := by
  have hr := (post_state_receipt_reports_no_success root hroot).1
  simp [attest, hm, TxProof.ofReceiptField, hr]

/-- **history_receipt_without_success_code_no_effects.** … with the property's quantifier ("all
receipt statuses", all histories): after any history, through the vote of the validators
(`attestEvH`, any proof hash): if every transaction proof submitted for the message was built from a
receipt whose first field is not the success code, nothing is accepted and nothing changes — however
many validators report it, unanimously or not, and whatever the transactions' call data. -/
theorem history_receipt_without_success_code_no_effects (hp : ProofV → Nat) (ops : List Op) (id : Nat)
    (snap : Libcons.Snapshot) (evs : List EvidenceV)
    (h : ∀ e ∈ evs, ∀ p, e.2 = .tx p → p.receipt ≠ some 1) :
    (attestEvH hp (run {} ops) id snap evs).2 ≠ .ok ∧
    (attestEvH hp (run {} ops) id snap evs).1.effects = (run {} ops).effects ∧
    (attestEvH hp (run {} ops) id snap evs).1.chain = (run {} ops).chain ∧
    (attestEvH hp (run {} ops) id snap evs).1.accepted = (run {} ops).accepted := by
  have hne : (attestEvH hp (run {} ops) id snap evs).2 ≠ .ok := by
    intro hok
    unfold attestEvH at hok
    obtain ⟨p, hw, hr⟩ := accept_implies_success_receipt _ id _ hok
    obtain ⟨P, hP, hwP, -⟩ := winner_is_first_of_a_quorum_hash_group hp snap evs
      (by rw [hw]; intro h'; cases h')
    rw [hw] at hwP
    obtain ⟨e, he, heP⟩ := List.mem_map.1 hP
    cases P with
    | tx q =>
      simp only [ProofV.toWinner, Winner.tx.injEq] at hwP
      subst hwP
      exact h e he p heP hr
    | errorProof _ => simp [ProofV.toWinner] at hwP
    | other _ => simp [ProofV.toWinner] at hwP
  exact ⟨hne, effects_only_on_accept _ id _ hne⟩

/-- **post_state_receipt_is_another_proof.** Evidence identity: the same transaction reported with a
state-root receipt, with a failure-code receipt and with a success-code receipt are three different
proofs (three vote groups) — `BytesToHash` re-encodes the decoded receipt and the root is emitted. -/
theorem post_state_receipt_is_another_proof (hash : Nat) (data root : Bytes) (hroot : root.length = 32)
    (log : Bool) (variant enc : Nat) (sender : Option Nat) :
    TxProof.ofReceiptField hash data (some root) log variant enc sender ≠
      TxProof.ofReceiptField hash data (some []) log variant enc sender ∧
    TxProof.ofReceiptField hash data (some root) log variant enc sender ≠
      TxProof.ofReceiptField hash data (some [1]) log variant enc sender := by
  have hne : root ≠ [] := by
    intro h'
    rw [h'] at hroot
    cases hroot
  constructor
  · intro h
    have := congrArg TxProof.postState h
    simp [TxProof.ofReceiptField, receiptPostState] at this
    exact hne (this hroot)
  · intro h
    have := congrArg TxProof.postState h
    simp [TxProof.ofReceiptField, receiptPostState] at this
    exact hne (this hroot)

/-! ### 13. the used-transaction set belongs to no chain: governance over the SET of supported chains

C07: "the same remote transaction is never accepted for a second message" — whatever happens between
the two submissions.  The model so far had one chain and a history vocabulary without governance over
the set of chains.  `Gov` (Model/Attest.lean) adds `AddSupportForNewChain` / `RemoveSupportForChain`, of
another chain or of this very chain, as what they are for the state of this chain: the store
`tx-processed` is keyed by the transaction hash under the MODULE's store key, no chain owns it, and
neither operation touches it; removing this chain deletes its queued messages, nothing else the router
reads.  The harness drives the real `AddSupportForNewChain` / `RemoveSupportForChain` between the
acceptance of a transaction and its re-submission for a twin message (ops `gov …`, `used …`). -/

/-- **chain_governance_is_a_history.** Every governance operation over the set of supported chains is,
for the state of this chain, a run of ordinary history ops none of which is an attestation attempt. -/
theorem chain_governance_is_a_history (s : St) (g : Gov) :
    ∃ ops, (∀ op ∈ ops, op.attempt = none) ∧ run s ops = gov s g :=
  ⟨govOps s g, govOps_no_attempt s g, rfl⟩

/-- **chain_governance_keeps_used_transactions.** Adding or removing a chain — another one, or this one
— leaves the used-transaction set, the acceptance log, the success effects and the keeper state of
the chain exactly as they were; removing this chain empties its queue (and nothing else does). -/
theorem chain_governance_keeps_used_transactions (s : St) (g : Gov) :
    (gov s g).processed = s.processed ∧ (gov s g).accepted = s.accepted ∧
    (gov s g).effects = s.effects ∧ (gov s g).chain = s.chain ∧
    (gov s g).queue = if g = .removeThis then [] else s.queue := by
  have h := run_no_attempt (govOps s g) s (govOps_no_attempt s g)
  refine ⟨h.1, h.2.1, h.2.2, ?_, ?_⟩
  · cases g <;> try rfl
    show (run s ((s.queue.map fun m => Op.remove m.id))).chain = s.chain
    have : (s.queue.map fun m => Op.remove m.id) = (s.queue.map (·.id)).map Op.remove := by
      rw [List.map_map]; rfl
    rw [this, run_removes]
  · cases g <;> try rfl
    show (run s ((s.queue.map fun m => Op.remove m.id))).queue = []
    have : (s.queue.map fun m => Op.remove m.id) = (s.queue.map (·.id)).map Op.remove := by
      rw [List.map_map]; rfl
    rw [this, run_removes]
    simp only [List.filter_eq_nil_iff]
    intro m hm
    simp only [List.contains_iff_mem, Bool.not_eq_eq_eq_not, Bool.not_true, Bool.not_eq_false]
    exact List.mem_map_of_mem hm

/-- **used_tx_refused_after_chain_governance.** One state, any sequence of governance operations over
the set of chains: a transaction that is in the used set before is refused after, for every message
and in every encoding / with every receipt (the proof `q` only shares the hash). -/
theorem used_tx_refused_after_chain_governance (s : St) (gs : List Gov) (id : Nat) (p q : TxProof)
    (hq : q.hash = p.hash) (h : p.hash ∈ s.processed) :
    (attest (runE s (gs.map Ev.gov)) id (.tx q)).2 ≠ .ok := by
  obtain ⟨ops, ho⟩ := runE_is_a_history (gs.map Ev.gov) s
  rw [← ho]
  exact processed_tx_rejected _ id q (by rw [hq]; exact run_processed_mono ops s _ h)

/-- **tx_single_use_with_chain_governance.** `tx_single_use` over histories in which chains are added
and removed at any point: the transaction hashes of all acceptances are pairwise different and every
accepted transaction is (still) in the used set. -/
theorem tx_single_use_with_chain_governance (es : List Ev) :
    ((runE {} es).accepted.map (·.2)).Nodup ∧
    ∀ a ∈ (runE {} es).accepted, a.2 ∈ (runE {} es).processed := by
  obtain ⟨ops, h⟩ := runE_is_a_history es {}
  rw [← h]
  exact tx_single_use ops

/-- **effects_at_most_once_with_chain_governance.** `effects_at_most_once` over the same histories. -/
theorem effects_at_most_once_with_chain_governance (es : List Ev) :
    ((runE {} es).accepted.map (·.1)).Nodup ∧
    (∀ a ∈ (runE {} es).accepted, a.1 ∉ (runE {} es).queue.map (·.id)) ∧
    (∀ e ∈ (runE {} es).effects, e.msg ∈ (runE {} es).accepted.map (·.1)) ∧
    ((runE {} es).effects.map Effect.key).Nodup := by
  obtain ⟨ops, h⟩ := runE_is_a_history es {}
  rw [← h]
  exact effects_at_most_once ops

/-- **used_tx_never_accepted_again_with_chain_governance.** C07, "the same remote transaction is never
accepted for a second message", over histories with chain governance: once a transaction was accepted
(after `es`), then after ANY further history `es'` — other chains removed or added, this chain removed
and added again, messages queued, keeper activity, attestations — no proof carrying that transaction
is accepted, for any message. -/
theorem used_tx_never_accepted_again_with_chain_governance (es es' : List Ev) (a : Nat × Nat)
    (ha : a ∈ (runE {} es).accepted) (id : Nat) (q : TxProof) (hq : q.hash = a.2) :
    (attest (runE (runE {} es) es') id (.tx q)).2 ≠ .ok := by
  obtain ⟨ops, h⟩ := runE_is_a_history es {}
  obtain ⟨ops', h'⟩ := runE_is_a_history es' (runE {} es)
  rw [← h', ← h]
  rw [← h] at ha
  exact used_tx_never_accepted_again ops ops' a ha id q hq

/-! ## non-vacuity — every example goes through `run` from the initial state `{}` -/

def exVs : GoValset := { validators := [[48, 120, 97, 97]], powers := [4294967296], valsetId := 3 }
def exSigs : List SignData := [{ ext := [48, 120, 97, 97], v := 27, r := 11, s := 12 }, { ext := [48, 120, 98, 98], v := 28, r := 13, s := 14 }]
/-- the action's own `id` field is stale on purpose (9): the queue hands out 1 and 2 -/
def exF : SLCFields :=
  { contract := 0x11, payload := [1, 2, 3], fees := some { relayer := 5, community := 6, security := 7 },
    sender := 0x22, id := 9, turnstone := 5, deadline := 1700000000, relayer := 0x33 }
/-- two logic calls are queued: ids 1 and 2 from the shared counter -/
def exOps : List Op := [.enqueue (.slc exF) exVs exSigs, .enqueue (.slc exF) exVs exSigs]
def exS : St := run {} exOps
/-- call data a relayer built for the message with id `n` when only the first `k` signatures were known -/
def exDataFor (n k : Nat) (fees : Fees) : Bytes :=
  calldata selSubmitLogicCallD SLC.deliveredTys
    [callV (0x11, [1, 2, 3]), feeV fees 0x22, .word n, .word 1700000000, .word 0x33]
    (consensusV exVs (exSigs.take k))
def exFees : Fees := { relayer := 5, community := 6, security := 7 }
def exData : Bytes := exDataFor 1 1 exFees
def exP : TxProof := { hash := 77, data := exData, receipt := some 1, deployLog := false }

example : OpsWf exOps ∧ exOps.length < U64 := by
  refine ⟨?_, by decide⟩
  intro op hop
  simp only [exOps, List.mem_cons, List.not_mem_nil, or_false] at hop
  rcases hop with rfl | rfl <;>
    exact ⟨by decide, ⟨by decide, by decide, by decide, by decide, by decide⟩⟩

set_option maxRecDepth 100000 in
example : exS.queue.map (·.id) = [1, 2] := by decide
-- accepted for message 1 (earlier signature prefix): logged under the QUEUE id, transaction spent, message gone
set_option maxRecDepth 100000 in
example : Accepts exS (.attest 1 (.tx exP)) 1 exP := ⟨rfl, by decide⟩
set_option maxRecDepth 100000 in
example : (run {} (exOps ++ [.attest 1 (.tx exP)])).accepted = [(1, 77)] ∧
    (run {} (exOps ++ [.attest 1 (.tx exP)])).processed = [77] ∧
    (run {} (exOps ++ [.attest 1 (.tx exP)])).queue.map (·.id) = [2] := by decide
-- the stale `id` field of the action (9) is NOT what is compared: call data packing 9 is refused,
-- and so is the call data of message 1 presented for message 2
set_option maxRecDepth 100000 in
example : (attest exS 1 (.tx { exP with data := exDataFor 9 1 exFees })).2 = .notVerified := by decide
set_option maxRecDepth 100000 in
example : (attest exS 2 (.tx exP)).2 = .notVerified := by decide
-- single-field corruptions, failed / missing receipt, trailing byte, truncated, other selector
set_option maxRecDepth 100000 in
example : (attest exS 1 (.tx { exP with data := exDataFor 1 1 { exFees with security := 8 } })).2 = .notVerified := by
  decide
set_option maxRecDepth 100000 in
example : (attest exS 1 (.tx { exP with receipt := some 0 })).2 = .txFailed ∧
    (run {} (exOps ++ [.attest 1 (.tx { exP with receipt := some 0 })])).effects = [] ∧
    (run {} (exOps ++ [.attest 1 (.tx { exP with receipt := some 0 })])).accepted = [] := by decide
set_option maxRecDepth 100000 in
example : (attest exS 1 (.tx { exP with receipt := none })).2 = .receiptErr := by decide
set_option maxRecDepth 100000 in
example : (attest exS 1 (.tx { exP with data := exData ++ [0] })).2 = .notVerified := by decide
set_option maxRecDepth 100000 in
example : (attest exS 1 (.tx { exP with data := exData.dropLast })).2 = .notVerified := by decide
set_option maxRecDepth 100000 in
example : (attest exS 1 (.tx { exP with data := selDeployContractD ++ exData.drop 4 })).2 = .notVerified := by
  decide
-- re-submission: the used transaction for message 2 (with message 2's call data), the same message again
set_option maxRecDepth 100000 in
example : (attest (run {} (exOps ++ [.attest 1 (.tx exP)])) 2 (.tx { exP with data := exDataFor 2 2 exFees })).2
    = .alreadyProcessed := by decide
set_option maxRecDepth 100000 in
example : (attest exS 2 (.tx { exP with data := exDataFor 2 2 exFees })).2 = .ok := by decide
set_option maxRecDepth 100000 in
example : (attest (run {} (exOps ++ [.attest 1 (.tx exP)])) 1 (.tx exP)).2 = .unknownMsg := by decide
-- early evidence: the same message before its fees were set is attested against the default fees
def exOpsNil : List Op := [.enqueue (.slc { exF with fees := none }) exVs exSigs]
set_option maxRecDepth 100000 in
example : (attest (run {} exOpsNil) 1 (.tx { exP with data := exDataFor 1 2 defaultFees })).2 = .ok := by decide
set_option maxRecDepth 100000 in
example : (attest (run {} exOpsNil) 1 (.tx exP)).2 = .notVerified := by decide

-- update-valset through the environment op: snapshot 7 exists, the message names snapshot 7 (its
-- `UVFields.valsetId` is stale: 3); accepted call data carries 7 and snapshot 7 goes live
def exUvF : UVFields :=
  { validators := [0xaa], powers := [5], valsetId := 3, turnstone := 1, relayer := 0x33, estimate := 21000 }
def exUvOps : List Op :=
  [.setChain { snapshots := [7], currentSnapshot := 7 }, .enqueue (.uv exUvF 7) exVs exSigs]
def exUvData (vid : Nat) : Bytes :=
  calldata selUpdateValsetD UV.deliveredTys
    [.seq [words [0xaa], words [5], .word vid], .word 0x33, .word 21000] (consensusV exVs (exSigs.take 2))
def exUvP (vid : Nat) : TxProof := { hash := 5, data := exUvData vid, receipt := some 1, deployLog := false }
set_option maxRecDepth 100000 in
example : (run {} (exUvOps ++ [.attest 1 (.tx (exUvP 7))])).effects = [.snapshotLive 1 7] ∧
    (run {} (exUvOps ++ [.attest 1 (.tx (exUvP 7))])).chain.liveOn = [7] ∧
    (run {} (exUvOps ++ [.attest 1 (.tx (exUvP 7))])).chain.hasSnapshot = true ∧
    (run {} exUvOps).chain.liveOn = [] ∧ (run {} exUvOps).chain.hasSnapshot = false := by decide
set_option maxRecDepth 100000 in
example : (attest (run {} exUvOps) 1 (.tx (exUvP 3))).2 = .notVerified := by decide

-- signatures collected under addresses that are NOT in the selected valset: the all-zero consensus
-- (no signature at all) is accepted — `signatureless_calldata_accepted` is not vacuous
def exStrangers : List SignData := [{ ext := [48, 120, 99, 99], v := 27, r := 1, s := 2 }]
def exStrOps : List Op := [.enqueue (.slc exF) exVs exStrangers]
def exStrData : Bytes :=
  calldata selSubmitLogicCallD SLC.deliveredTys
    [callV (0x11, [1, 2, 3]), feeV exFees 0x22, .word 1, .word 1700000000, .word 0x33] (consensusV exVs [])
set_option maxRecDepth 100000 in
example : (attest (run {} exStrOps) 1 (.tx { exP with data := exStrData })).2 = .ok := by decide

set_option maxRecDepth 100000 in
/-- **accepted_calldata_may_carry_no_signature.** Negation of the full-strength reading kept in the
comment before `signatureless_calldata_accepted`, by a concrete witness reachable from the initial
state: accepted call data none of whose slots holds a collected signature. -/
theorem accepted_calldata_may_carry_no_signature :
    ∃ (ops : List Op) (p : TxProof), (attest (run {} ops) 1 (.tx p)).2 = .ok ∧
      ∀ m ∈ (run {} ops).queue, isUp m.action = false ∧ ¬ ∃ s ∈ m.sigs, s.ext ∈ m.valset.validators :=
  ⟨exStrOps, { exP with data := exStrData }, by decide, by decide⟩

-- four validators with equal shares: 1 success + 3 failed receipts for the same transaction
def exSnap : Libcons.Snapshot := { vals := [(1, 10), (2, 10), (3, 10), (4, 10)], total := 40 }
def exFail : TxProof := { exP with receipt := some 0 }
set_option maxRecDepth 100000 in
example : (run {} (exOps ++ [.attestEv 1 exSnap [(1, .tx exP), (2, .tx exFail), (3, .tx exFail), (4, .tx exFail)]])).accepted = [] ∧
    (attestEv exS 1 exSnap [(1, .tx exP), (2, .tx exFail), (3, .tx exFail), (4, .tx exFail)]).2 = .txFailed := by
  decide
set_option maxRecDepth 100000 in
example : (attestEv exS 1 exSnap [(1, .tx exP), (2, .tx exP), (3, .tx exFail), (4, .tx exFail)]).2 = .noop := by
  decide
set_option maxRecDepth 100000 in
example : (run {} (exOps ++ [.attestEv 1 exSnap [(4, .tx exFail), (1, .tx exP), (2, .tx exP), (3, .tx exP)]])).accepted
    = [(1, 77)] := by
  decide
set_option maxRecDepth 100000 in
example : (attestEv exS 1 exSnap [(1, .tx exP), (2, .tx { exP with variant := 1 }), (3, .tx exP)]).2 = .noop := by
  decide

set_option maxRecDepth 100000 in
/-- **noColl_hypothesis_needed.** The sha256 ASSUMPTION of the vote theorems cannot be dropped: with a
proof hash that collides on the submitted proofs (here: constant), the Go algorithm merges a
success report listed first with three failed-receipt reports into one group and accepts — although
the evidence byte-identical to the winner holds only 1/4 of the shares (10 of the declared 40). -/
theorem noColl_hypothesis_needed :
    (attestEvH (fun _ => 0) exS 1 exSnap [(1, .tx exP), (2, .tx exFail), (3, .tx exFail), (4, .tx exFail)]).2 = .ok ∧
    winnerOfH (fun _ => 0) exSnap [(1, .tx exP), (2, .tx exFail), (3, .tx exFail), (4, .tx exFail)] = .tx exP ∧
    (Libcons.tally exSnap (groupFor [(1, .tx exP), (2, .tx exFail), (3, .tx exFail), (4, .tx exFail)] (.tx exP))).consensus
      = false := by
  decide

-- the same transaction (hash 77) reported in the EIP-4844 network form (enc 1) wins for message 1 …
def exPNet : TxProof := { exP with enc := 1 }
def exOpsNet : List Op := exOps ++ [.attestEv 1 exSnap [(1, .tx exPNet), (2, .tx exPNet), (3, .tx exPNet)]]
set_option maxRecDepth 100000 in
example : (run {} exOpsNet).accepted = [(1, 77)] := by decide
-- … and is spent: presented again in the canonical encoding (or any other) for message 2 it is refused
def exP2 : TxProof := { exP with data := exDataFor 2 2 exFees }
set_option maxRecDepth 100000 in
example : (attestEv (run {} exOpsNet) 2 exSnap [(1, .tx exP2), (2, .tx exP2), (3, .tx exP2)]).2 = .alreadyProcessed := by
  decide
set_option maxRecDepth 100000 in
example : (attestEv (run {} exOpsNet) 2 exSnap
    [(1, .tx { exP2 with enc := 2 }), (2, .tx { exP2 with enc := 2 }), (3, .tx { exP2 with enc := 2 })]).2
      = .alreadyProcessed := by decide
-- validators that report the same transaction in different encodings do not form one group
set_option maxRecDepth 100000 in
example : (attestEv exS 1 exSnap [(1, .tx exPNet), (2, .tx exPNet), (3, .tx exP), (4, .tx exP)]).2 = .noop := by
  decide

-- compass upload WITHOUT constructor input, reached through the environment (deployment 2 in flight,
-- chain already has a live snapshot): only the bare bytecode is its encoding
def exUpOps (ctor : Bytes) : List Op :=
  [.setChain { deployments := [(2, .inFlight)], activeContract := 1, liveOn := [1], snapshots := [1],
               currentSnapshot := 1 },
   .enqueue (.up [0x60, 0x02, 0x11] ctor 2) exVs []]
example : (run {} (exUpOps [] ++ [.attest 1 (.tx { exP with data := [0x60, 0x02, 0x11] })])).effects
    = [.handoverScheduled 1 2, .deploymentRecorded 1 2] := by decide
example : (attest (run {} (exUpOps [])) 1 (.tx { exP with data := [0x60, 0x02, 0x11, 0xaa, 0xbb] })).2 = .notVerified := by
  decide
example : (attest (run {} (exUpOps [])) 1 (.tx { exP with data := [0x60, 0x02] })).2 = .notVerified := by decide
-- … and WITH constructor input the bare bytecode is not
example : (attest (run {} (exUpOps [0xaa, 0xbb])) 1 (.tx { exP with data := [0x60, 0x02, 0x11] })).2 = .notVerified := by
  decide
example : (attest (run {} (exUpOps [0xaa, 0xbb])) 1 (.tx { exP with data := [0x60, 0x02, 0x11, 0xaa, 0xbb] })).2 = .ok := by
  decide
-- first deployment on a chain without live snapshot: current snapshot live, contract active
example : (run {} [.setChain { deployments := [(2, .inFlight)], snapshots := [4], currentSnapshot := 4 },
                   .enqueue (.up [0x60] [] 2) exVs [],
                   .attest 1 (.tx { exP with data := [0x60] })]).chain
    = { deployments := [], activeContract := 2, liveOn := [4], snapshots := [4], currentSnapshot := 4 } := by
  decide

-- TWIN messages: the same update-valset queued twice (ids 1 and 2)
def exTwinOps : List Op := exUvOps ++ [.enqueue (.uv exUvF 7) exVs exSigs]
set_option maxRecDepth 100000 in
/-- **calldata_does_not_identify_the_message.** Negation of the full-strength reading kept in the
comment above, by a witness reachable from the initial state through well-formed ops: two stored
messages (ids 1 and 2) for BOTH of which the same call data verifies — and either of them is
accepted on it. -/
theorem calldata_does_not_identify_the_message :
    ∃ (ops : List Op) (p : TxProof), (run {} ops).queue.map (·.id) = [1, 2] ∧
      ∀ m ∈ (run {} ops).queue, verifyAgainstTx m p.data = .ok ∧ (attest (run {} ops) m.id (.tx p)).2 = .ok :=
  ⟨exTwinOps, exUvP 7, by decide, by decide⟩
-- the transaction a relayer sent "for" message 1 is accepted as proof of delivery of message 2 (and
-- message 1 is dropped as a superseded update-valset without ever having been attested)
set_option maxRecDepth 100000 in
example : (run {} (exTwinOps ++ [.attest 2 (.tx (exUvP 7))])).accepted = [(2, 5)] ∧
    (run {} (exTwinOps ++ [.attest 2 (.tx (exUvP 7))])).queue.map (·.id) = [] := by decide
-- in the other order the transaction is spent on message 1; a SECOND transaction with the same call
-- data is then accepted for message 2: the chain is listed TWICE on snapshot 7 (`SetSnapshotOnChain`
-- appends), once per accepted message
def exUvP' : TxProof := { exUvP 7 with hash := 6 }
set_option maxRecDepth 100000 in
example : (attest (run {} (exTwinOps ++ [.attest 1 (.tx (exUvP 7))])) 2 (.tx (exUvP 7))).2 = .alreadyProcessed ∧
    (run {} (exTwinOps ++ [.attest 1 (.tx (exUvP 7)), .attest 2 (.tx exUvP')])).accepted = [(2, 6), (1, 5)] ∧
    (run {} (exTwinOps ++ [.attest 1 (.tx (exUvP 7)), .attest 2 (.tx exUvP')])).chain.liveOn = [7, 7] := by decide

-- compass handover (deployment 2 waiting): accepted → contract 2 active, its record deleted; the
-- contract id is NOT in the call data: the twin message naming contract 3 accepts the same bytes
def exChF : CHFields := { calls := [(0x44, [9, 9])], deadline := 1700000600, relayer := 0x33, estimate := 50000 }
def exChOps (cid : Nat) : List Op :=
  [.setChain { deployments := [(2, .waiting), (3, .waiting)], activeContract := 1, liveOn := [1], snapshots := [1],
               currentSnapshot := 1 },
   .enqueue (.ch exChF cid) exVs exSigs]
def exChP : TxProof :=
  { hash := 9, receipt := some 1, deployLog := false,
    data := calldata selCompassUpdateBatchD CH.deliveredTys (CH.deliveredVals exChF) (consensusV exVs (exSigs.take 2)) }
set_option maxRecDepth 100000 in
example : (run {} (exChOps 2 ++ [.attest 1 (.tx exChP)])).effects = [.activated 1 2] ∧
    (run {} (exChOps 2 ++ [.attest 1 (.tx exChP)])).chain.activeContract = 2 ∧
    (run {} (exChOps 2 ++ [.attest 1 (.tx exChP)])).chain.deployments = [(3, .waiting)] ∧
    (run {} (exChOps 2 ++ [.attest 1 (.tx exChP)])).accepted = [(1, 9)] := by decide
set_option maxRecDepth 100000 in
example : (run {} (exChOps 3 ++ [.attest 1 (.tx exChP)])).chain.activeContract = 3 ∧
    (run {} (exChOps 3 ++ [.attest 1 (.tx exChP)])).chain.deployments = [(2, .waiting)] := by decide
set_option maxRecDepth 100000 in
example : (attest (run {} (exChOps 2)) 1 (.tx { exChP with receipt := some 0 })).2 = .txFailed ∧
    (run {} (exChOps 2 ++ [.attest 1 (.tx { exChP with receipt := some 0 })])).chain = (run {} (exChOps 2)).chain := by
  decide

-- user contract upload (user contract 4 has a deployment on this chain): accepted only with the
-- `ContractDeployed` log; then user contract 4 — and no other — is active
def exUscF : USCFields :=
  { deployer := 0xd1, bytecode := [0x60, 0x01], fees := some exFees, sender := 0x22, id := 0, turnstone := 5,
    deadline := 1700000000, relayer := 0x33 }
def exUscOps : List Op := [.setChain { userDeployments := [4, 5], userActive := [5] }, .enqueue (.usc exUscF 4) exVs exSigs]
def exUscP : TxProof :=
  { hash := 11, receipt := some 1, deployLog := true,
    data := calldata selDeployContractD USC.deliveredTys (USC.deliveredVals { exUscF with id := 1 })
      (consensusV exVs (exSigs.take 1)) }
set_option maxRecDepth 100000 in
example : (run {} (exUscOps ++ [.attest 1 (.tx exUscP)])).effects = [.userActive 1 4] ∧
    (run {} (exUscOps ++ [.attest 1 (.tx exUscP)])).chain.userActive = [4, 5] ∧
    (run {} (exUscOps ++ [.attest 1 (.tx exUscP)])).accepted = [(1, 11)] ∧
    (run {} (exUscOps ++ [.attest 1 (.tx exUscP)])).queue.map (·.id) = [] := by decide
set_option maxRecDepth 100000 in
example : (attest (run {} exUscOps) 1 (.tx { exUscP with deployLog := false })).2 = .postErr ∧
    (run {} (exUscOps ++ [.attest 1 (.tx { exUscP with deployLog := false })])).chain.userActive = [5] ∧
    (run {} (exUscOps ++ [.attest 1 (.tx { exUscP with deployLog := false })])).queue.map (·.id) = [1] := by decide
-- the call data packs the queue id 1: a stale action field (0) or another id is refused
def exUscStale : TxProof :=
  { exUscP with
    data := calldata selDeployContractD USC.deliveredTys (USC.deliveredVals exUscF) (consensusV exVs (exSigs.take 1)) }
set_option maxRecDepth 100000 in
example : (attest (run {} exUscOps) 1 (.tx exUscStale)).2 = .notVerified := by decide


-- the Libcons tally counts per LISTING: validator 1 listed three times reaches the quorum alone (30 of
-- the declared 40).  `AddEvidence` keeps one entry per validator, so stored evidence never looks like
-- this (C04); the vote theorems above do not assume it.
set_option maxRecDepth 100000 in
example : (attestEv exS 1 exSnap [(1, .tx exP), (1, .tx exP), (1, .tx exP)]).2 = .ok ∧
    (attestEv exS 1 exSnap [(1, .tx exP)]).2 = .noop := by decide


-- the expected call data cannot be built.  A newer compass was saved while update-valset 1 was in
-- flight (environment op; snapshot 7 exists) and its ABI does not declare `update_valset` with the
-- parameter list the arguments fit: the transaction that WOULD verify and a transaction with junk call
-- data get the same answer, the non-committed error, and nothing at all changes; once the latest
-- compass declares the method again the genuine transaction is accepted
def exAbiOps (a : CompassAbi) : List Op :=
  [.enqueue (.uv exUvF 7) exVs exSigs, .setChain { snapshots := [7], currentSnapshot := 7, abi := a }]
set_option maxRecDepth 100000 in
example : buildable (run {} (exAbiOps { uv := false })).chain.abi
      { id := 1, action := .uv exUvF 7, valset := exVs, sigs := exSigs } = false ∧
    (attest (run {} (exAbiOps { uv := false })) 1 (.tx (exUvP 7))).2 = .encodeErr ∧
    (attest (run {} (exAbiOps { uv := false })) 1 (.tx { exUvP 7 with data := [0xde, 0xad, 0xbe, 0xef] })).2 = .encodeErr ∧
    (run {} (exAbiOps { uv := false } ++ [.attest 1 (.tx (exUvP 7))])).chain.liveOn = [] ∧
    (run {} (exAbiOps { uv := false } ++ [.attest 1 (.tx (exUvP 7))])).processed = [] ∧
    (run {} (exAbiOps { uv := false } ++ [.attest 1 (.tx (exUvP 7))])).queue.map (·.id) = [1] ∧
    (run {} (exAbiOps { uv := false } ++ [.attest 1 (.tx (exUvP 7)),
        .setChain { snapshots := [7], currentSnapshot := 7 }, .attest 1 (.tx (exUvP 7))])).chain.liveOn = [7] := by
  decide
-- a missing method of ANOTHER action does not matter; an ABI that does not parse does
set_option maxRecDepth 100000 in
example : (attest (run {} (exAbiOps { slc := false, usc := false, ch := false })) 1 (.tx (exUvP 7))).2 = .ok ∧
    (attest (run {} (exAbiOps { parses := false })) 1 (.tx (exUvP 7))).2 = .encodeErr := by decide
-- `Pack` is only reached inside the loop over the signature prefixes: without signatures a missing
-- method goes unnoticed and the transaction is refused with the COMMITTED `ErrEthTxNotVerified`; an
-- ABI that does not parse is noticed before the loop
set_option maxRecDepth 100000 in
example : (attest (run {} [.enqueue (.uv exUvF 7) exVs [], .setChain { abi := { uv := false } }]) 1 (.tx (exUvP 7))).2
      = .notVerified ∧
    (attest (run {} [.enqueue (.uv exUvF 7) exVs [], .setChain { abi := { parses := false } }]) 1 (.tx (exUvP 7))).2
      = .encodeErr := by decide
-- a compass upload whose own ABI / constructor input is unusable (the stored message rewritten under
-- its id): even the bytes bytecode ++ constructor input are not accepted; the failed-receipt gate
-- comes first
set_option maxRecDepth 100000 in
example : (attest (run {} (exUpOps [0xaa, 0xbb] ++
      [.update { id := 1, action := .up [0x60, 0x02, 0x11] [0xaa, 0xbb] 2, valset := exVs, sigs := [], upOk := false }]))
      1 (.tx { exP with data := [0x60, 0x02, 0x11, 0xaa, 0xbb] })).2 = .encodeErr ∧
    (run {} (exUpOps [0xaa, 0xbb] ++
      [.update { id := 1, action := .up [0x60, 0x02, 0x11] [0xaa, 0xbb] 2, valset := exVs, sigs := [], upOk := false },
       .attest 1 (.tx { exP with data := [0x60, 0x02, 0x11, 0xaa, 0xbb] })])).chain.deployments = [(2, .inFlight)] ∧
    (attest (run {} (exUpOps [0xaa, 0xbb] ++
      [.update { id := 1, action := .up [0x60, 0x02, 0x11] [0xaa, 0xbb] 2, valset := exVs, sigs := [], upOk := false }]))
      1 (.tx { exP with receipt := some 0 })).2 = .txFailed := by decide


/-! the relayer named by the call data (§11): the logic call 1 of `exS` is assigned to 0x33 -/
/-- genuine in every field, but it names the account 0x99 as relayer -/
def exDataNaming (rel : Nat) : Bytes :=
  calldata selSubmitLogicCallD SLC.deliveredTys
    [callV (0x11, [1, 2, 3]), feeV exFees 0x22, .word 1, .word 1700000000, .word rel]
    (consensusV exVs (exSigs.take 1))
/-- the logic call stored under id 1 in `exS` -/
def exM1 : QMsg := { id := 1, action := .slc exF, valset := exVs, sigs := exSigs }
set_option maxRecDepth 100000 in
example : ((findMsg exS.queue 1).any fun m => decide (m.id = exM1.id ∧ m.action = exM1.action ∧
    m.valset.validators = exM1.valset.validators ∧ m.valset.powers = exM1.valset.powers ∧
    m.valset.valsetId = exM1.valset.valsetId ∧ m.sigs = exM1.sigs ∧ m.upOk = exM1.upOk)) = true := by decide
-- call data naming 0x99 IS what would be accepted had the message been assigned to 0x99: the
-- hypotheses of `calldata_naming_another_relayer_rejected` are satisfiable together …
set_option maxRecDepth 100000 in
example : exM1.Wf ∧ isUp exM1.action = false ∧ exM1.action.relayer = some 0x33 ∧ 0x99 < W160 ∧
    verifyAgainstTx (exM1.assignedTo 0x99) (exDataNaming 0x99) = .ok := by
  refine ⟨⟨by decide, by decide, ⟨by decide, by decide, ?_, by decide, ?_⟩⟩, by decide, by decide, by decide,
    by decide⟩
  · intro p hp
    simp only [exM1, exVs, List.mem_cons, List.not_mem_nil, or_false] at hp
    subst hp
    decide
  · intro x hx
    simp only [exM1, exSigs, List.mem_cons, List.not_mem_nil, or_false] at hx
    rcases hx with rfl | rfl <;> decide
-- … and it is refused for the message as stored, whether the transaction was sent from 0x99 itself,
-- from the assigned relayer, or carries no signature; nothing changes
set_option maxRecDepth 100000 in
example : (attest exS 1 (.tx { exP with data := exDataNaming 0x99, sender := some 0x99 })).2 = .notVerified ∧
    (attest exS 1 (.tx { exP with data := exDataNaming 0x99, sender := some 0x33 })).2 = .notVerified ∧
    (attest exS 1 (.tx { exP with data := exDataNaming 0x99, sender := none })).2 = .notVerified ∧
    (attest exS 1 (.tx { exP with data := exDataNaming 0x99, sender := some 0x99 })).1.effects = [] ∧
    (attest exS 1 (.tx { exP with data := exDataNaming 0x99, sender := some 0x99 })).1.accepted = [] := by
  decide
-- the genuine call data (names 0x33) is accepted whoever sent it: the assignee, another account, nobody
set_option maxRecDepth 100000 in
example : exDataNaming 0x33 = exData ∧
    (attest exS 1 (.tx { exP with sender := some 0x33 })).2 = .ok ∧
    (attest exS 1 (.tx { exP with sender := some 0x99 })).2 = .ok ∧
    (attest exS 1 (.tx { exP with sender := none })).2 = .ok := by decide
-- after a re-assignment to 0x99 (`update` rewrites the stored message) it is the other way round:
-- the transaction the previous assignee 0x33 sent is refused, the one naming 0x99 accepted
set_option maxRecDepth 100000 in
example :
    (attest (run {} (exOps ++ [.update (exM1.assignedTo 0x99)])) 1 (.tx { exP with sender := some 0x33 })).2
      = .notVerified ∧
    (attest (run {} (exOps ++ [.update (exM1.assignedTo 0x99)])) 1
      (.tx { exP with data := exDataNaming 0x99, sender := some 0x99 })).2 = .ok := by decide


-- §12: the genuine transaction of message 1 with a receipt whose first field is a 32-byte state root
-- (here: 31 zero bytes and a final 1 — "status 1" written as a word) instead of the success code: the
-- outcome of a failed receipt (message removed, transaction spent), no acceptance, no effects; the
-- same transaction with the success code is accepted.
def exRoot : Bytes := List.replicate 31 0 ++ [1]
def exRootP : TxProof := TxProof.ofReceiptField 77 exData (some exRoot) false 0 0 none

example : exRoot.length = 32 ∧ exRootP.receipt = some 0 ∧ exRootP.postState = exRoot := by decide
example : (attest exS 1 (.tx exRootP)).2 = .txFailed ∧
    (run {} (exOps ++ [.attest 1 (.tx exRootP)])).effects = [] ∧
    (run {} (exOps ++ [.attest 1 (.tx exRootP)])).accepted = [] ∧
    (run {} (exOps ++ [.attest 1 (.tx exRootP)])).processed = [77] ∧
    (run {} (exOps ++ [.attest 1 (.tx exRootP)])).queue.map (·.id) = [2] := by decide
set_option maxRecDepth 100000 in
example : (attest exS 1 (.tx (TxProof.ofReceiptField 77 exData (some [1]) false 0 0 none))).2 = .ok := by decide
example : (attest exS 1 (.tx (TxProof.ofReceiptField 77 exData (some []) false 0 0 none))).2 = .txFailed ∧
    (attest exS 1 (.tx (TxProof.ofReceiptField 77 exData (some [2]) false 0 0 none))).2 = .receiptErr ∧
    (attest exS 1 (.tx (TxProof.ofReceiptField 77 exData none false 0 0 none))).2 = .receiptErr := by decide

/-! chain governance between two submissions of one transaction (§13): the twin update-valsets 1 and 2
of `exTwinOps`; transaction 5 is accepted for message 1 -/
def exGovS : St := run {} (exTwinOps ++ [.attest 1 (.tx (exUvP 7))])
set_option maxRecDepth 100000 in
example : exGovS.accepted = [(1, 5)] ∧ exGovS.processed = [5] ∧ exGovS.queue.map (·.id) = [2] := by decide
-- another chain is removed (and added again): the transaction is still refused for the twin
set_option maxRecDepth 100000 in
example : (attest (runE exGovS [.gov .removeOther]) 2 (.tx (exUvP 7))).2 = .alreadyProcessed ∧
    (attest (runE exGovS [.gov .removeOther, .gov .addOther]) 2 (.tx (exUvP 7))).2 = .alreadyProcessed ∧
    (attest (runE exGovS [.gov .addOther, .gov .removeOther]) 2 (.tx { exUvP 7 with enc := 2 })).2 = .alreadyProcessed := by
  decide
-- this chain is removed (its queue goes), added again, the same update-valset is queued once more
-- (id 3) and the old transaction is presented for it: refused; a fresh transaction is accepted
def exGovEs : List Ev := [.gov .removeThis, .gov .addThis, .op (.enqueue (.uv exUvF 7) exVs exSigs)]
set_option maxRecDepth 100000 in
example : (runE exGovS [.gov .removeThis]).queue = [] ∧ (runE exGovS [.gov .removeThis]).processed = [5] ∧
    (runE exGovS exGovEs).queue.map (·.id) = [3] ∧
    (attest (runE exGovS exGovEs) 3 (.tx (exUvP 7))).2 = .alreadyProcessed ∧
    (attest (runE exGovS exGovEs) 3 (.tx exUvP')).2 = .ok := by decide

end Paloma.Attest
