/-
Model of the pre-image of `ClaimHash` (x/skyway/types/msgs.go): Go's `fmt.Sprintf` with
`%d` (uint64), `%s` of `sdkmath.Int.String()` and `%x` of a string, joined by '/'.
Bytes are naturals (47 = '/', 45 = '-', 48.. = digits, 97.. = a-f). Core Lean only.
-/
namespace Paloma.ClaimHash

inductive Field where
  | num (n : Nat)            -- `%d` of a uint64 field
  | amt (i : Int)            -- `%s` of `Amount.String()` (decimal, '-' for negatives)
  | nilAmt                   -- `Amount.String()` of the zero-value `math.Int{}`: "<nil>"
  | str (b : List Nat)       -- `%x` of a string field (bytes)
deriving DecidableEq, Repr

def slash : Nat := 47

/-- decimal digits, most significant first -/
def decDigits (n : Nat) : List Nat :=
  if n < 10 then [48 + n] else decDigits (n / 10) ++ [48 + n % 10]
termination_by n
decreasing_by omega

def hexd (n : Nat) : Nat := if n < 10 then 48 + n else 87 + n

def encStr : List Nat → List Nat
  | [] => []
  | x :: xs => hexd (x / 16) :: hexd (x % 16) :: encStr xs

def enc : Field → List Nat
  | .num n => decDigits n
  | .amt i => if i < 0 then 45 :: decDigits (-i).toNat else decDigits i.toNat
  | .nilAmt => [60, 110, 105, 108, 62]
  | .str b => encStr b

def join : List (List Nat) → List Nat
  | [] => []
  | [x] => x
  | x :: y :: rest => x ++ slash :: join (y :: rest)

/-- the bytes handed to `tmhash.Sum` -/
def preimage (fs : List Field) : List Nat := join (fs.map enc)

/-- two field lists have the same format (same claim type) -/
def sameKind : Field → Field → Bool
  | .num _, .num _ => true
  | .amt _, .amt _ => true
  | .amt _, .nilAmt => true
  | .nilAmt, .amt _ => true
  | .nilAmt, .nilAmt => true
  | .str _, .str _ => true
  | _, _ => false

def sameShape : List Field → List Field → Bool
  | [], [] => true
  | f :: fs, g :: gs => sameKind f g && sameShape fs gs
  | _, _ => false

end Paloma.ClaimHash
