/-
Model of the pre-image of `ClaimHash` (x/skyway/types/msgs.go): Go's `fmt.Sprintf` with
`%d` (uint64), `%s` of `sdkmath.Int.String()` and `%x` of a string, joined by '/'.
Bytes are naturals (47 = '/', 45 = '-', 48.. = digits, 97.. = a-f). Core Lean only.
-/
namespace Paloma.ClaimHash

inductive Field where
  | num (n : Nat)            -- `%d` of a uint64 field
  | amt (i : Int)            -- `%s` of `Amount.String()` (decimal, '-' for negatives)
  | nilAmt                   -- `Amount.String()` of the zero-value `math.Int{}`: "<nil>"
  | str (b : List Nat)       -- `%x` of a string field (bytes)
deriving DecidableEq, Repr

def slash : Nat := 47

/-- decimal digits, most significant first -/
def decDigits (n : Nat) : List Nat :=
  if n < 10 then [48 + n] else decDigits (n / 10) ++ [48 + n % 10]
termination_by n
decreasing_by omega

def hexd (n : Nat) : Nat := if n < 10 then 48 + n else 87 + n

def encStr : List Nat → List Nat
  | [] => []
  | x :: xs => hexd (x / 16) :: hexd (x % 16) :: encStr xs

def enc : Field → List Nat
  | .num n => decDigits n
  | .amt i => if i < 0 then 45 :: decDigits (-i).toNat else decDigits i.toNat
  | .nilAmt => [60, 110, 105, 108, 62]
  | .str b => encStr b

def join : List (List Nat) → List Nat
  | [] => []
  | [x] => x
  | x :: y :: rest => x ++ slash :: join (y :: rest)

/-- the bytes handed to `tmhash.Sum` -/
def preimage (fs : List Field) : List Nat := join (fs.map enc)

/-- two field lists have the same format (same claim type) -/
def sameKind : Field → Field → Bool
  | .num _, .num _ => true
  | .amt _, .amt _ => true
  | .amt _, .nilAmt => true
  | .nilAmt, .amt _ => true
  | .nilAmt, .nilAmt => true
  | .str _, .str _ => true
  | _, _ => false

def sameShape : List Field → List Field → Bool
  | [], [] => true
  | f :: fs, g :: gs => sameKind f g && sameShape fs gs
  | _, _ => false

/-- the kind of value a format position renders: `%d` of a uint64, `%s` of `Amount.String()`, `%x` of a string -/
inductive Kind where
  | num
  | amt
  | str
deriving DecidableEq, Repr

def kindOf : Field → Kind
  | .num _ => .num
  | .amt _ => .amt
  | .nilAmt => .amt
  | .str _ => .str

/-- the kind a Sprintf verb of a `ClaimHash` format stands for (any other verb: not a modelled format) -/
def verbKind (verb : String) : Option Kind :=
  if verb == "%d" then some .num else if verb == "%s" then some .amt else if verb == "%x" then some .str else none

/-- the shape of a claim type: the kinds of its format's verbs, in order (`none` if some verb is not modelled) -/
def shapeOfVerbs : List String → Option (List Kind)
  | [] => some []
  | v :: vs =>
    match verbKind v, shapeOfVerbs vs with
    | some k, some ks => some (k :: ks)
    | _, _ => none

/-- a field list is an instance of a shape: same length, every field of the kind of its position -/
def hasShape : List Kind → List Field → Bool
  | [], [] => true
  | k :: ks, f :: fs => (kindOf f == k) && hasShape ks fs
  | _, _ => false

/-! ## the attestation store (x/skyway/keeper: `GetStore`, `GetAttestationKey`, `Attest`)

The module keeps everything in ONE flat key-value store. `GetStore(ctx, chainReferenceID)` is that store seen
through the prefix `[]byte(chainReferenceID)` — the bytes of the id exactly as written in the claim, nothing
normalised — and `GetAttestationKey(nonce, hash)` is `OracleAttestationKey ++ big-endian-8(nonce) ++ hash`. So
the key an attestation really lives under is `flatKey chain nonce hash`; two claims are pooled iff these byte
strings are equal. -/

/-- `types.OracleAttestationKey` = md5("OracleAttestationKey") (x/skyway/types/key.go); the correspondence
run compares `flatKey` with the key the keeper really writes into the module store -/
def attPrefix : List Nat := [11, 250, 22, 95, 244, 239, 85, 139, 61, 11, 98, 234, 77, 74, 70, 197]

/-- `UInt64Bytes`: 8 bytes, big endian -/
def be8 (n : Nat) : List Nat :=
  [n / 72057594037927936 % 256, n / 281474976710656 % 256, n / 1099511627776 % 256, n / 4294967296 % 256,
   n / 16777216 % 256, n / 65536 % 256, n / 256 % 256, n % 256]

/-- the key of an attestation in the module's flat store: chain prefix, attestation prefix, nonce, claim hash -/
def flatKey (chain : List Nat) (nonce : Nat) (hash : List Nat) : List Nat :=
  chain ++ (attPrefix ++ (be8 nonce ++ hash))

/-- a claim as submitted: the voting validator, the chain id as written in the claim (bytes), the claim type
and the values of the hashed fields in format order (skyway nonce first, remote height second) -/
structure KVote where
  val : Nat
  chain : List Nat
  ty : String
  fields : List Field
deriving DecidableEq, Repr

def numAt (fs : List Field) (i : Nat) : Nat :=
  match fs[i]? with
  | some (.num n) => n
  | _ => 0

def KVote.nonce (v : KVote) : Nat := numAt v.fields 0
def KVote.height (v : KVote) : Nat := numAt v.fields 1

/-- a stored attestation: its key in the flat store, the body of the FIRST claim submitted under that key
(chain id, type, hashed fields: this is what gets executed) and the validators whose votes are pooled -/
structure KAtt where
  key : List Nat
  bodyChain : List Nat
  bodyTy : String
  body : List Field
  votes : List Nat
deriving DecidableEq, Repr

/-- `log` is a ghost: the accepted votes, latest first -/
structure KState where
  atts : List KAtt
  cursor : List (List Nat × Nat × Nat)
  log : List KVote

def KState.init : KState := { atts := [], cursor := [], log := [] }

/-- `GetLastSkywayNonceByValidator(val, chain)`: kept in the store of the chain; 0 when never set -/
def cursorOf : List (List Nat × Nat × Nat) → List Nat → Nat → Nat
  | [], _, _ => 0
  | e :: rest, chain, val => if e.1 = chain ∧ e.2.1 = val then e.2.2 else cursorOf rest chain val

def lookup (k : List Nat) : List KAtt → Option KAtt
  | [] => none
  | b :: bs => if b.key = k then some b else lookup k bs

def upsert (a : KAtt) : List KAtt → List KAtt
  | [] => [a]
  | b :: bs => if b.key = a.key then a :: bs else b :: upsert a bs

def keyOf (H : List Nat → List Nat) (v : KVote) : List Nat :=
  flatKey v.chain v.nonce (H (preimage v.fields))

inductive KRes where
  | rejected
  | ok (isNew : Bool) (votes : Nat)
deriving DecidableEq, Repr

def addVote (votes : List Nat) (v : Nat) : List Nat := if votes.contains v then votes else votes ++ [v]

/-- `Attest` (statement order of the Go code): the validator's cursor on the claim's chain must be one below
the claim's nonce; the attestation is looked up under (store of the claim's chain, nonce, hash) and created
with the submitted body when there is none; the remote height of the stored body must equal the claim's;
the vote is appended unless already there; the cursor moves. `H` is the hash (`tmhash.Sum`). -/
def attest (H : List Nat → List Nat) (s : KState) (v : KVote) : KState × KRes :=
  if v.nonce ≠ cursorOf s.cursor v.chain v.val + 1 then (s, .rejected)
  else
    match lookup (keyOf H v) s.atts with
    | none =>
      ({ atts := upsert { key := keyOf H v, bodyChain := v.chain, bodyTy := v.ty, body := v.fields, votes := [v.val] } s.atts,
         cursor := (v.chain, v.val, v.nonce) :: s.cursor, log := v :: s.log }, .ok true 1)
    | some a =>
      if numAt a.body 1 ≠ v.height then (s, .rejected)
      else
        ({ atts := upsert { a with votes := addVote a.votes v.val } s.atts,
           cursor := (v.chain, v.val, v.nonce) :: s.cursor, log := v :: s.log },
         .ok false (addVote a.votes v.val).length)

/-- a history of claim submissions; the results, in order -/
def runVotes (H : List Nat → List Nat) : KState → List KVote → KState × List KRes
  | s, [] => (s, [])
  | s, v :: vs =>
    ((runVotes H (attest H s v).1 vs).1, (attest H s v).2 :: (runVotes H (attest H s v).1 vs).2)

end Paloma.ClaimHash
