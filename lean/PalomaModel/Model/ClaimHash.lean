/-
Model of the pre-image of `ClaimHash` (x/skyway/types/msgs.go): Go's `fmt.Sprintf` with
`%d` (uint64), `%s` of `sdkmath.Int.String()` and `%x` of a string, joined by '/'.
Bytes are naturals (47 = '/', 45 = '-', 48.. = digits, 97.. = a-f). Core Lean only.
-/
namespace Paloma.ClaimHash

inductive Field where
  | num (n : Nat)            -- `%d` of a uint64 field
  | amt (i : Int)            -- `%s` of `Amount.String()` (decimal, '-' for negatives)
  | nilAmt                   -- `Amount.String()` of the zero-value `math.Int{}`: "<nil>"
  | str (b : List Nat)       -- `%x` of a string field (bytes)
deriving DecidableEq, Repr

def slash : Nat := 47

/-- decimal digits, most significant first -/
def decDigits (n : Nat) : List Nat :=
  if n < 10 then [48 + n] else decDigits (n / 10) ++ [48 + n % 10]
termination_by n
decreasing_by omega

def hexd (n : Nat) : Nat := if n < 10 then 48 + n else 87 + n

def encStr : List Nat → List Nat
  | [] => []
  | x :: xs => hexd (x / 16) :: hexd (x % 16) :: encStr xs

def enc : Field → List Nat
  | .num n => decDigits n
  | .amt i => if i < 0 then 45 :: decDigits (-i).toNat else decDigits i.toNat
  | .nilAmt => [60, 110, 105, 108, 62]
  | .str b => encStr b

def join : List (List Nat) → List Nat
  | [] => []
  | [x] => x
  | x :: y :: rest => x ++ slash :: join (y :: rest)

/-- the bytes handed to `tmhash.Sum` -/
def preimage (fs : List Field) : List Nat := join (fs.map enc)

/-- two field lists have the same format (same claim type) -/
def sameKind : Field → Field → Bool
  | .num _, .num _ => true
  | .amt _, .amt _ => true
  | .amt _, .nilAmt => true
  | .nilAmt, .amt _ => true
  | .nilAmt, .nilAmt => true
  | .str _, .str _ => true
  | _, _ => false

def sameShape : List Field → List Field → Bool
  | [], [] => true
  | f :: fs, g :: gs => sameKind f g && sameShape fs gs
  | _, _ => false

/-- the kind of value a format position renders: `%d` of a uint64, `%s` of `Amount.String()`, `%x` of a string -/
inductive Kind where
  | num
  | amt
  | str
deriving DecidableEq, Repr

def kindOf : Field → Kind
  | .num _ => .num
  | .amt _ => .amt
  | .nilAmt => .amt
  | .str _ => .str

/-- the kind a Sprintf verb of a `ClaimHash` format stands for (any other verb: not a modelled format) -/
def verbKind (verb : String) : Option Kind :=
  if verb == "%d" then some .num else if verb == "%s" then some .amt else if verb == "%x" then some .str else none

/-- the shape of a claim type: the kinds of its format's verbs, in order (`none` if some verb is not modelled) -/
def shapeOfVerbs : List String → Option (List Kind)
  | [] => some []
  | v :: vs =>
    match verbKind v, shapeOfVerbs vs with
    | some k, some ks => some (k :: ks)
    | _, _ => none

/-- a field list is an instance of a shape: same length, every field of the kind of its position -/
def hasShape : List Kind → List Field → Bool
  | [], [] => true
  | k :: ks, f :: fs => (kindOf f == k) && hasShape ks fs
  | _, _ => false

end Paloma.ClaimHash
