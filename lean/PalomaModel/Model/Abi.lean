/-
Model of the Solidity contract-ABI argument encoding as implemented by go-ethereum
v1.13.15 `accounts/abi`: `Arguments.Pack` (argument.go), `Type.pack`, `isDynamicType`,
`getTypeSize` (type.go), `packElement`/`packBytesSlice`/`packNum` (pack.go).

Used by paloma in x/evm/types/turnstone_abi.go (`keccak256` of every message kind),
x/evm/types/eth_txable.go (`VerifyAgainstTX`: `contractABI.Pack(method, args…)`),
x/skyway/types/batch.go (`GetCheckpoint`).

Core Lean only (the compiled driver imports this file).

Representation.
* Types: the six shapes that occur in the compass ABI and in the hand-written
  `abi.Arguments` of the repo.  (`string` is laid out exactly like `bytes`, `bool`/`uintN`
  exactly like `uint256` with a tighter range; no fixed-size arrays occur.)
* Values: an untyped tree.  `uint256`, `address` and `bytes32` are all `V.word n`
  (a `bytes32` is the big-endian number of its 32 bytes, so its encoding is the same
  32-byte word); `bytes` is `V.bytes`; arrays and tuples are `V.seq`.
* `hasType` is the boolean typing predicate: words below 2^256, addresses below 2^160,
  `bytes` and array lengths below 2^256 (the length word is a `uint256`).
-/
namespace Paloma.Abi

inductive Ty where
  | uint256
  | address
  | bytes32
  | bytes
  | array (elem : Ty)
  | tuple (members : List Ty)
deriving Repr, Inhabited

inductive V where
  | word (n : Nat)
  | bytes (b : List UInt8)
  | seq (vs : List V)
deriving Repr, Inhabited

def W256 : Nat := 2 ^ 256
def W160 : Nat := 2 ^ 160

/-! ### typing -/

mutual
/-- `isDynamicType`: `bytes`, every slice, and tuples with a dynamic member. -/
def isDynamic : Ty → Bool
  | .uint256 | .address | .bytes32 => false
  | .bytes => true
  | .array _ => true
  | .tuple ts => anyDynamic ts
def anyDynamic : List Ty → Bool
  | [] => false
  | t :: ts => isDynamic t || anyDynamic ts
end

mutual
/-- `getTypeSize`: bytes a member occupies in the head of the enclosing tuple
    (32 for every dynamic type: the offset word). -/
def headSize : Ty → Nat
  | .uint256 | .address | .bytes32 => 32
  | .bytes => 32
  | .array _ => 32
  | .tuple ts => if anyDynamic ts then 32 else headsSize ts
def headsSize : List Ty → Nat
  | [] => 0
  | t :: ts => headSize t + headsSize ts
end

mutual
def hasType : Ty → V → Bool
  | .uint256, .word n => decide (n < W256)
  | .address, .word n => decide (n < W160)
  | .bytes32, .word n => decide (n < W256)
  | .bytes, .bytes b => decide (b.length < W256)
  | .array t, .seq vs => decide (vs.length < W256) && vs.all (hasType t)
  | .tuple ts, .seq vs => hasTypes ts vs
  | _, _ => false
def hasTypes : List Ty → List V → Bool
  | [], [] => true
  | t :: ts, v :: vs => hasType t v && hasTypes ts vs
  | _, _ => false
end

/-! ### words and byte strings -/

/-- the `k` low-order base-256 digits of `n`, most significant first -/
def beBytes : Nat → Nat → List UInt8
  | 0, _ => []
  | k + 1, n => beBytes k (n / 256) ++ [UInt8.ofNat (n % 256)]

/-- `packNum` / `math.U256Bytes`: 32-byte big-endian word (reduced modulo 2^256) -/
def word (n : Nat) : List UInt8 := beBytes 32 n

/-- zero bytes that right-pad `len` bytes to a multiple of 32 (`common.RightPadBytes`) -/
def padLen (len : Nat) : Nat := (32 - len % 32) % 32

def padRight (b : List UInt8) : List UInt8 := b ++ List.replicate (padLen b.length) 0

/-- `packBytesSlice`: length word, then the data right-padded to a multiple of 32 -/
def encBytes (b : List UInt8) : List UInt8 := word b.length ++ padRight b

/-! ### head / tail layout

A member that has already been encoded: `(dynamic?, encoding)`.  The layout of a tuple
(and of the element area of a slice) is
`head(X1) … head(Xk) tail(X1) … tail(Xk)`; a static member sits in the head, a dynamic
member leaves an offset word in the head and its encoding in the tail.  Offsets count
from the start of the tuple encoding. -/
abbrev Member := Bool × List UInt8

/-- heads; `off` is the offset at which the next dynamic member's tail will start -/
def heads : List Member → Nat → List UInt8
  | [], _ => []
  | (true, e) :: ms, off => word off ++ heads ms (off + e.length)
  | (false, e) :: ms, off => e ++ heads ms off

def tails : List Member → List UInt8
  | [] => []
  | (true, e) :: ms => e ++ tails ms
  | (false, _) :: ms => tails ms

/-- `off0` = total size of the heads (`Σ getTypeSize`) -/
def layout (off0 : Nat) (ms : List Member) : List UInt8 := heads ms off0 ++ tails ms

/-! ### the encoder -/

mutual
/-- `Type.pack`.  Ill-typed combinations encode to `[]` (go-ethereum returns an error;
    every theorem assumes `hasType`). -/
def encode : Ty → V → List UInt8
  | .uint256, .word n => word n
  | .address, .word n => word n
  | .bytes32, .word n => word n
  | .bytes, .bytes b => encBytes b
  | .array t, .seq vs =>
      -- length word, then the elements laid out like a tuple of `vs.length` members;
      -- go-ethereum: `offset = getTypeSize(elem) * len` (only used when `elem` is dynamic)
      word vs.length ++
        layout (headSize t * vs.length) (vs.map fun v => (isDynamic t, encode t v))
  | .tuple ts, .seq vs => layout (headsSize ts) (members ts vs)
  | _, _ => []
/-- the members of a tuple, each encoded on its own -/
def members : List Ty → List V → List Member
  | t :: ts, v :: vs => (isDynamic t, encode t v) :: members ts vs
  | _, _ => []
end

/-- `Arguments.Pack(args…)`: the encoding of the tuple of the arguments. -/
def encodeArgs (ts : List Ty) (vs : List V) : List UInt8 := encode (.tuple ts) (.seq vs)

/-- typing of an argument list -/
def hasTypeArgs (ts : List Ty) (vs : List V) : Bool := hasType (.tuple ts) (.seq vs)

/-! ### hex -/

def hexDigit (n : Nat) : Char :=
  if n < 10 then Char.ofNat (48 + n) else Char.ofNat (87 + n)

def toHex (b : List UInt8) : String :=
  String.ofList (b.flatMap fun x => [hexDigit (x.toNat / 16), hexDigit (x.toNat % 16)])

end Paloma.Abi
