/-
Model of the bytes validators sign for EVM consensus messages and skyway batches, and of
the argument lists the compass contract is handed on delivery.

Go sources modelled (statement order and conversions mirrored):
* x/evm/types/turnstone_abi.go  — `keccak256` of `Message_UpdateValset`, `Message_SubmitLogicCall`,
  `Message_UploadSmartContract`, `Message_UploadUserSmartContract`, `Message_CompassHandover`;
  `feesOrDefault`; the `estimate == 0 → 300_000` default; `BuildCompassConsensus`,
  `TransformValsetToCompassValset`.
* x/evm/types/eth_txable.go     — the argument lists `VerifyAgainstTX` packs (`delivered…`).
* x/skyway/types/batch.go       — `InternalOutgoingTxBatch.GetCheckpoint`.
* x/consensus/keeper/consensus/consensus.go + util/keeper/id_generation.go — `Put`
  (shared counter `consensusQueueIDCounterKey`, `MsgIDToReplace`) and `Remove` (`Ids` section).

Two levels.
* Go level (`Go…` structures): the protobuf fields as the Go code sees them: strings and byte
  slices are `List UInt8`, `uint64` are `Nat`, `int64` are `Int`, optional `Fees`.
* ABI level (`…Fields` structures): the values handed to `abi.Arguments.Pack`, i.e. after the
  lossy Go conversions `common.HexToAddress`, `int64(uint64)`/`big.NewInt`, `[32]byte` copies.

Hashing is abstract in everything that is used by proofs: `H : List UInt8 → Nat`, and the 32-byte
digest is `H b % 2^256`.  `keccakNat` (bottom of the file) is the executable instance used by
the driver.  Core Lean only.
-/
import PalomaModel.Model.Abi
import PalomaModel.Model.Keccak

namespace Paloma.SignBytes
open Paloma.Abi

abbrev Bytes := List UInt8
abbrev Hash := Bytes → Nat

def U64 : Nat := 2 ^ 64
def I63 : Nat := 2 ^ 63

/-- 32-byte digest of an abstract hash -/
def digest (H : Hash) (b : Bytes) : Nat := H b % W256

/-! ## Go conversions -/

/-- big-endian number of a byte string (`new(big.Int).SetBytes`) -/
def natOfBytes (b : Bytes) : Nat := b.foldl (fun acc x => acc * 256 + x.toNat) 0

/-- `encoding/hex.fromHexChar` -/
def hexVal (c : UInt8) : Option Nat :=
  if 48 ≤ c.toNat ∧ c.toNat ≤ 57 then some (c.toNat - 48)
  else if 97 ≤ c.toNat ∧ c.toNat ≤ 102 then some (c.toNat - 87)
  else if 65 ≤ c.toNat ∧ c.toNat ≤ 70 then some (c.toNat - 55)
  else none

/-- `common.Hex2Bytes` = `hex.DecodeString` with the error dropped: the decoded prefix up to
    the first pair that is not two hex digits (input has even length here). -/
def hexDecodePrefix : Bytes → Bytes
  | c :: d :: r =>
    match hexVal c, hexVal d with
    | some hi, some lo => UInt8.ofNat (hi * 16 + lo) :: hexDecodePrefix r
    | _, _ => []
  | _ => []

/-- `common.has0xPrefix` -/
def has0x (s : Bytes) : Bool :=
  match s with
  | 48 :: x :: _ => x == 120 || x == 88
  | _ => false

/-- `common.FromHex`: strip `0x`/`0X`, left-pad an odd number of digits with `'0'`, decode -/
def fromHex (s : Bytes) : Bytes :=
  let t := if has0x s then s.drop 2 else s
  let t := if t.length % 2 == 1 then 48 :: t else t
  hexDecodePrefix t

/-- `common.HexToAddress(s)` = `BytesToAddress(FromHex(s))` as a number: the LAST 20 bytes
    when there are more (`b = b[len(b)-20:]`), left-padded with zeros when there are fewer. -/
def hexToAddress (s : Bytes) : Nat := natOfBytes (fromHex s) % W160

/-- `common.BytesToAddress(b)` as a number -/
def bytesToAddress (b : Bytes) : Nat := natOfBytes b % W160

/-- the 256-bit word go-ethereum packs for a (possibly negative) `*big.Int`:
    `math.U256Bytes` = two's complement modulo 2^256 -/
def wordOfInt (i : Int) : Nat := (i % (W256 : Int)).toNat

/-- `int64(n)` for a `uint64` n -/
def toI64 (n : Nat) : Int := if n < I63 then (n : Int) else (n : Int) - (U64 : Int)

/-- `big.NewInt(int64(n))` packed as `uint256`: ids, powers, valset ids, batch nonce/timeout.
    Values `≥ 2^63` become `2^256 - (2^64 - n)`. -/
def castI64 (n : Nat) : Nat := if n < I63 then n else W256 - (U64 - n)

/-- `var b [32]byte; copy(b[:], s)`: the first 32 bytes of `s`, zero-padded on the right,
    as the big-endian number of the 32 bytes (turnstone / compass id) -/
def bytes32OfString (s : Bytes) : Nat :=
  natOfBytes (s.take 32 ++ List.replicate (32 - (s.take 32).length) 0)

/-- `padding := bytes.Repeat([]byte{0}, 32-len(sender)); [32]byte(append(padding, sender...))`:
    panics (negative repeat count) when the sender is longer than 32 bytes -/
def padSender (s : Bytes) : Option Nat :=
  if s.length > 32 then none else some (natOfBytes s)

structure Fees where
  relayer : Nat
  community : Nat
  security : Nat
deriving Repr, DecidableEq, Inhabited

/-- `feesOrDefault` -/
def defaultFees : Fees := { relayer := 100000, community := 100000, security := 100000 }

def feesOrDefault (f : Option Fees) : Fees :=
  match f with
  | some x => x
  | none => defaultFees

/-- `estimate := gasEstimate; if estimate == 0 { estimate = 300_000 }` -/
def effEstimate (e : Nat) : Nat := if e = 0 then 300000 else e

/-- `uint64ToByte` (8 bytes big endian) -/
def be8 (n : Nat) : Bytes := beBytes 8 n

/-! ## method selectors

`abi.NewMethod(name, …).ID` = first four bytes of keccak256 of the signature string.  The
constants are checked against `Keccak.keccak256` below (`#guard`) and against the real code
by the correspondence test (a wrong selector changes every digest). -/

def selCheckpoint : Bytes := [0x29, 0x90, 0x18, 0xc2]
def selUpdateValset : Bytes := [0x9a, 0xf2, 0xb8, 0xd2]
def selLogicCall : Bytes := [0x80, 0x46, 0xd1, 0xe7]
def selCompassUpdateBatch : Bytes := [0x0b, 0xae, 0xca, 0x88]
def selDeployContract : Bytes := [0x65, 0x29, 0xd2, 0x2b]
def selBatchCall : Bytes := [0x6f, 0x7b, 0xe4, 0x57]

def sigSel (s : String) : Bytes := (Keccak.keccak256 s.toUTF8.toList).take 4

#guard sigSel "checkpoint(address[],uint256[],uint256,bytes32)" = selCheckpoint
#guard sigSel "update_valset(bytes32,address,uint256)" = selUpdateValset
#guard sigSel "logic_call((address,bytes),(uint256,uint256,uint256,bytes32),uint256,bytes32,uint256,address)" = selLogicCall
#guard sigSel "compass_update_batch((address,bytes)[],uint256,address,uint256)" = selCompassUpdateBatch
#guard sigSel "deploy_contract(address,bytes,(uint256,uint256,uint256,bytes32),uint256,bytes32,uint256,address)" = selDeployContract
#guard sigSel "batch_call(address,(address[],uint256[]),uint256,bytes32,uint256,address,uint256)" = selBatchCall

/-! ## shared ABI shapes -/

def words (l : List Nat) : V := .seq (l.map V.word)

/-- `(address[],uint256[],uint256)`: `CompassValset` -/
def valsetTy : Ty := .tuple [.array .address, .array .uint256, .uint256]
/-- `(uint256,uint256,uint256,bytes32)`: `FeeArgs` -/
def feeTy : Ty := .tuple [.uint256, .uint256, .uint256, .bytes32]
/-- `(address,bytes)`: `CompassLogicCallArgs` -/
def callTy : Ty := .tuple [.address, .bytes]
/-- `((address[],uint256[],uint256),(uint256,uint256,uint256)[])`: `CompassConsensus` -/
def consensusTy : Ty := .tuple [valsetTy, .array (.tuple [.uint256, .uint256, .uint256])]

def feeV (f : Fees) (sender : Nat) : V :=
  .seq [.word f.relayer, .word f.community, .word f.security, .word sender]

def callV (c : Nat × Bytes) : V := .seq [.word c.1, .bytes c.2]

/-! ## UpdateValset -/

structure UVFields where
  validators : List Nat   -- `common.HexToAddress` of every validator string
  powers : List Nat       -- `big.NewInt(int64(power))` as words
  valsetId : Nat          -- `big.NewInt(int64(valsetID))` as a word
  turnstone : Nat         -- bytes32
  relayer : Nat           -- `common.HexToAddress(AssigneeRemoteAddress)`
  estimate : Nat          -- elected gas estimate as stored on the queued message (0 = none)
deriving Repr, DecidableEq, Inhabited

namespace UV

def wf (f : UVFields) : Bool :=
  f.validators.all (fun a => decide (a < W160)) && decide (f.validators.length < W256) &&
  f.powers.all (fun p => decide (p < W256)) && decide (f.powers.length < W256) &&
  decide (f.valsetId < W256) && decide (f.turnstone < W256) && decide (f.relayer < W160) &&
  decide (f.estimate < U64)

/-- `checkpoint(address[],uint256[],uint256,bytes32)` -/
def cpTys : List Ty := [.array .address, .array .uint256, .uint256, .bytes32]
def cpVals (f : UVFields) : List V :=
  [words f.validators, words f.powers, .word f.valsetId, .word f.turnstone]
def checkpointPre (f : UVFields) : Bytes := selCheckpoint ++ encodeArgs cpTys (cpVals f)

/-- `update_valset(bytes32,address,uint256)` -/
def signedTys : List Ty := [.bytes32, .address, .uint256]
def signedVals (H : Hash) (f : UVFields) : List V :=
  [.word (digest H (checkpointPre f)), .word f.relayer, .word (effEstimate f.estimate)]
def preimage (H : Hash) (f : UVFields) : Bytes := selUpdateValset ++ encodeArgs signedTys (signedVals H f)
def signBytes (H : Hash) (f : UVFields) : Nat := digest H (preimage H f)

/-- compass `update_valset(consensus, new_valset, relayer, gas_estimate)` minus the consensus -/
def deliveredTys : List Ty := [valsetTy, .address, .uint256]
def valsetV (f : UVFields) : V := .seq [words f.validators, words f.powers, .word f.valsetId]
def deliveredVals (f : UVFields) : List V := [valsetV f, .word f.relayer, .word f.estimate]

/-- HAND-WRITTEN list of what the property says the signature must bind -/
def mustBind (f : UVFields) : List V :=
  [words f.validators,             -- new validator set: addresses
   words f.powers,                 -- new validator set: powers
   .word f.valsetId,               -- new validator set: id
   .word f.turnstone,              -- bridge deployment id (in the checkpoint)
   .word f.relayer,                -- relayer address
   .word (effEstimate f.estimate)] -- elected gas estimate (as handed to the contract)

end UV

/-! ## SubmitLogicCall -/

structure SLCFields where
  contract : Nat         -- `common.HexToAddress(HexContractAddress)`
  payload : Bytes
  fees : Option Fees     -- `m.Fees` (nil until the gas estimate is elected)
  sender : Nat           -- left-padded `SenderAddress` as bytes32
  id : Nat               -- `new(big.Int).SetInt64(int64(id))` as a word
  turnstone : Nat
  deadline : Nat         -- `big.NewInt(deadline)` as a word
  relayer : Nat
deriving Repr, DecidableEq, Inhabited

def feesWf (f : Option Fees) : Bool :=
  match f with
  | none => true
  | some x => decide (x.relayer < U64) && decide (x.community < U64) && decide (x.security < U64)

namespace SLC

def wf (f : SLCFields) : Bool :=
  decide (f.contract < W160) && decide (f.payload.length < W256) && feesWf f.fees &&
  decide (f.sender < W256) && decide (f.id < W256) && decide (f.turnstone < W256) &&
  decide (f.deadline < W256) && decide (f.relayer < W160)

/-- `logic_call((address,bytes),(uint256,uint256,uint256,bytes32),uint256,bytes32,uint256,address)` -/
def signedTys : List Ty := [callTy, feeTy, .uint256, .bytes32, .uint256, .address]
def signedVals (f : SLCFields) : List V :=
  [callV (f.contract, f.payload), feeV (feesOrDefault f.fees) f.sender, .word f.id,
   .word f.turnstone, .word f.deadline, .word f.relayer]
def preimage (f : SLCFields) : Bytes := selLogicCall ++ encodeArgs signedTys (signedVals f)
def signBytes (H : Hash) (f : SLCFields) : Nat := digest H (preimage f)

/-- compass `submit_logic_call(consensus, args, fee_args, message_id, deadline, relayer)` minus
    the consensus.  Since /repo commit cab3e325 `VerifyAgainstTX` packs `feesOrDefault(m.Fees)`,
    exactly like the signing side. -/
def deliveredTys : List Ty := [callTy, feeTy, .uint256, .uint256, .address]
def deliveredVals (f : SLCFields) : List V :=
  [callV (f.contract, f.payload), feeV (feesOrDefault f.fees) f.sender, .word f.id, .word f.deadline,
   .word f.relayer]

/-- PRE-FIX behaviour (before cab3e325), kept as a regression witness only: the Go code read
    `m.Fees.RelayerFee` directly, so with `m.Fees == nil` there was no argument list at all
    (nil-pointer panic, `none`). -/
def deliveredValsPreFix (f : SLCFields) : Option (List V) :=
  match f.fees with
  | none => none
  | some fe =>
    some [callV (f.contract, f.payload), feeV fe f.sender, .word f.id, .word f.deadline, .word f.relayer]

def mustBind (f : SLCFields) : List V :=
  [.word f.contract,                              -- target contract
   .bytes f.payload,                              -- payload
   .word (feesOrDefault f.fees).relayer,          -- relayer fee
   .word (feesOrDefault f.fees).community,        -- community fee
   .word (feesOrDefault f.fees).security,         -- security fee
   .word f.sender,                                -- fee payer
   .word f.id,                                    -- message id
   .word f.turnstone,                             -- bridge deployment id
   .word f.deadline,                              -- deadline
   .word f.relayer]                               -- relayer address

end SLC

/-! ## UploadUserSmartContract -/

structure USCFields where
  deployer : Nat
  bytecode : Bytes
  fees : Option Fees
  sender : Nat
  id : Nat
  turnstone : Nat
  deadline : Nat
  relayer : Nat
deriving Repr, DecidableEq, Inhabited

namespace USC

def wf (f : USCFields) : Bool :=
  decide (f.deployer < W160) && decide (f.bytecode.length < W256) && feesWf f.fees &&
  decide (f.sender < W256) && decide (f.id < W256) && decide (f.turnstone < W256) &&
  decide (f.deadline < W256) && decide (f.relayer < W160)

/-- `deploy_contract(address,bytes,(uint256,uint256,uint256,bytes32),uint256,bytes32,uint256,address)` -/
def signedTys : List Ty := [.address, .bytes, feeTy, .uint256, .bytes32, .uint256, .address]
def signedVals (f : USCFields) : List V :=
  [.word f.deployer, .bytes f.bytecode, feeV (feesOrDefault f.fees) f.sender, .word f.id,
   .word f.turnstone, .word f.deadline, .word f.relayer]
def preimage (f : USCFields) : Bytes := selDeployContract ++ encodeArgs signedTys (signedVals f)
def signBytes (H : Hash) (f : USCFields) : Nat := digest H (preimage f)

/-- compass `deploy_contract(consensus, deployer, bytecode, fee_args, message_id, deadline, relayer)`;
    fees through `feesOrDefault` (cab3e325) -/
def deliveredTys : List Ty := [.address, .bytes, feeTy, .uint256, .uint256, .address]
def deliveredVals (f : USCFields) : List V :=
  [.word f.deployer, .bytes f.bytecode, feeV (feesOrDefault f.fees) f.sender, .word f.id, .word f.deadline,
   .word f.relayer]

def mustBind (f : USCFields) : List V :=
  [.word f.deployer, .bytes f.bytecode,
   .word (feesOrDefault f.fees).relayer, .word (feesOrDefault f.fees).community,
   .word (feesOrDefault f.fees).security, .word f.sender,
   .word f.id, .word f.turnstone, .word f.deadline, .word f.relayer]

end USC

/-! ## CompassHandover -/

structure CHFields where
  calls : List (Nat × Bytes)   -- (HexToAddress(HexContractAddress), payload)
  deadline : Nat
  relayer : Nat
  estimate : Nat
deriving Repr, DecidableEq, Inhabited

namespace CH

def wf (f : CHFields) : Bool :=
  f.calls.all (fun c => decide (c.1 < W160) && decide (c.2.length < W256)) &&
  decide (f.calls.length < W256) && decide (f.deadline < W256) && decide (f.relayer < W160) &&
  decide (f.estimate < U64)

/-- `compass_update_batch((address,bytes)[],uint256,address,uint256)`; the scheme has NO
    turnstone id and NO message id -/
def signedTys : List Ty := [.array callTy, .uint256, .address, .uint256]
def signedVals (f : CHFields) : List V :=
  [.seq (f.calls.map callV), .word f.deadline, .word f.relayer, .word (effEstimate f.estimate)]
def preimage (f : CHFields) : Bytes := selCompassUpdateBatch ++ encodeArgs signedTys (signedVals f)
def signBytes (H : Hash) (f : CHFields) : Nat := digest H (preimage f)

/-- compass `compass_update_batch(consensus, update_compass_args, deadline, gas_estimate, relayer)` -/
def deliveredTys : List Ty := [.array callTy, .uint256, .uint256, .address]
def deliveredVals (f : CHFields) : List V :=
  [.seq (f.calls.map callV), .word f.deadline, .word f.estimate, .word f.relayer]

def mustBind (f : CHFields) : List V :=
  [.seq (f.calls.map callV),         -- every target contract and payload
   .word f.deadline, .word f.relayer, .word (effEstimate f.estimate)]

end CH

/-! ## UploadSmartContract (compass deployment) — not an ABI scheme -/

structure UPFields where
  bytecode : Bytes
  id : Nat          -- uint64 message id
deriving Repr, DecidableEq, Inhabited

namespace UP

def wf (f : UPFields) : Bool := decide (f.id < U64)

/-- `crypto.Keccak256(append(bytecode, uint64ToByte(nonce)...))`.  Nothing else is signed:
    not the constructor input, not the relayer, not the chain's turnstone id. -/
def preimage (f : UPFields) : Bytes := f.bytecode ++ be8 f.id
def signBytes (H : Hash) (f : UPFields) : Nat := digest H (preimage f)

/-- what is DELIVERED for a compass deployment (`UploadSmartContract.VerifyAgainstTX`): the data of
    a plain contract-creation transaction, `bytecode ++ constructor input` (the constructor input
    after the Unpack / Pack round trip through the stored ABI; `[]` when the message has none).
    The constructor input carries the new compass id, the valset and the fee manager. -/
def delivered (f : UPFields) (ctor : Bytes) : Bytes := f.bytecode ++ ctor

end UP

/-! ## skyway batch (`GetCheckpoint`) -/

structure BatchFields where
  token : Nat               -- `TokenContract.GetAddress()`
  receivers : List Nat      -- `tx.DestAddress.GetAddress()`
  amounts : List Nat        -- `tx.Erc20Token.Amount.BigInt()` (non-negative, validated)
  nonce : Nat               -- `big.NewInt(int64(BatchNonce))` as a word
  turnstone : Nat
  timeout : Nat             -- `big.NewInt(int64(BatchTimeout))` as a word
  relayer : Nat             -- `AssigneeRemoteAddress`
  estimate : Nat            -- `GasEstimate` (0 = none)
deriving Repr, DecidableEq, Inhabited

namespace Batch

def wf (f : BatchFields) : Bool :=
  decide (f.token < W160) &&
  f.receivers.all (fun a => decide (a < W160)) && decide (f.receivers.length < W256) &&
  f.amounts.all (fun a => decide (a < W256)) && decide (f.amounts.length < W256) &&
  decide (f.nonce < W256) && decide (f.turnstone < W256) && decide (f.timeout < W256) &&
  decide (f.relayer < W160) && decide (f.estimate < U64)

/-- `batch_call(address,(address[],uint256[]),uint256,bytes32,uint256,address,uint256)` -/
def signedTys : List Ty :=
  [.address, .tuple [.array .address, .array .uint256], .uint256, .bytes32, .uint256, .address, .uint256]
def signedVals (f : BatchFields) : List V :=
  [.word f.token, .seq [words f.receivers, words f.amounts], .word f.nonce, .word f.turnstone,
   .word f.timeout, .word f.relayer, .word (effEstimate f.estimate)]
def preimage (f : BatchFields) : Bytes := selBatchCall ++ encodeArgs signedTys (signedVals f)
def signBytes (H : Hash) (f : BatchFields) : Nat := digest H (preimage f)

/-- compass `submit_batch(consensus, token, args, batch_id, deadline, relayer, gas_estimate)` minus
    the consensus (compass ABI: x/evm/keeper/testdata/sample-abi.json).  The call itself is built
    by the relayer (pigeon), not by /repo; relayers are only offered batches whose estimate has
    been elected (`batchOffered` below), and are handed `GasEstimate` as stored. -/
def deliveredTys : List Ty :=
  [.address, .tuple [.array .address, .array .uint256], .uint256, .uint256, .address, .uint256]
def deliveredVals (f : BatchFields) : List V :=
  [.word f.token, .seq [words f.receivers, words f.amounts], .word f.nonce, .word f.timeout,
   .word f.relayer, .word f.estimate]

def mustBind (f : BatchFields) : List V :=
  [.word f.token,                   -- batch token
   words f.receivers,               -- recipients
   words f.amounts,                 -- amounts
   .word f.nonce,                   -- batch nonce
   .word f.turnstone,               -- bridge deployment id
   .word f.timeout,                 -- deadline
   .word f.relayer,                 -- relayer address
   .word (effEstimate f.estimate)]  -- elected gas estimate

end Batch

/-! ## Go level: messages as the keeper stores them, and the conversion to ABI fields -/

structure GoValset where
  validators : List Bytes   -- hex strings
  powers : List Nat         -- uint64
  valsetId : Nat            -- uint64
deriving Repr, Inhabited

inductive GoAction where
  | updateValset (vs : GoValset)
  | submitLogicCall (contract : Bytes) (payload : Bytes) (fees : Option Fees) (sender : Bytes) (deadline : Int)
  | uploadSmartContract (bytecode : Bytes)
  | uploadUserSmartContract (deployer : Bytes) (bytecode : Bytes) (fees : Option Fees) (sender : Bytes) (deadline : Int)
  | compassHandover (calls : List (Bytes × Bytes)) (deadline : Int)
deriving Repr, Inhabited

/-- `evmtypes.Message` together with the two values `Keccak256WithSignedMessage` reads from the
    `QueuedSignedMessage` wrapper: its id and its elected gas estimate -/
structure GoMsg where
  turnstoneId : Bytes       -- `TurnstoneID` string
  relayer : Bytes           -- `AssigneeRemoteAddress` string
  id : Nat                  -- uint64
  estimate : Nat            -- uint64
  action : GoAction
deriving Repr, Inhabited

def uvFields (m : GoMsg) (vs : GoValset) : UVFields :=
  { validators := vs.validators.map hexToAddress
    powers := vs.powers.map castI64
    valsetId := castI64 vs.valsetId
    turnstone := bytes32OfString m.turnstoneId
    relayer := hexToAddress m.relayer
    estimate := m.estimate }

def slcFields (m : GoMsg) (contract payload : Bytes) (fees : Option Fees) (sender : Nat) (deadline : Int) :
    SLCFields :=
  { contract := hexToAddress contract, payload := payload, fees := fees, sender := sender
    id := castI64 m.id, turnstone := bytes32OfString m.turnstoneId
    deadline := wordOfInt deadline, relayer := hexToAddress m.relayer }

def uscFields (m : GoMsg) (deployer bytecode : Bytes) (fees : Option Fees) (sender : Nat) (deadline : Int) :
    USCFields :=
  { deployer := hexToAddress deployer, bytecode := bytecode, fees := fees, sender := sender
    id := castI64 m.id, turnstone := bytes32OfString m.turnstoneId
    deadline := wordOfInt deadline, relayer := hexToAddress m.relayer }

def chFields (m : GoMsg) (calls : List (Bytes × Bytes)) (deadline : Int) : CHFields :=
  { calls := calls.map fun c => (hexToAddress c.1, c.2)
    deadline := wordOfInt deadline, relayer := hexToAddress m.relayer, estimate := m.estimate }

/-- outcome of `Message.Keccak256WithSignedMessage` -/
inductive SignResult where
  | hash (d : Nat)
  | panic            -- `bytes.Repeat` with a negative count: `len(SenderAddress) > 32`
deriving Repr, DecidableEq, Inhabited

/-- `Message.Keccak256WithSignedMessage(q)` -/
def goSignBytes (H : Hash) (m : GoMsg) : SignResult :=
  match m.action with
  | .updateValset vs => .hash (UV.signBytes H (uvFields m vs))
  | .submitLogicCall c p fe s d =>
    match padSender s with
    | none => .panic
    | some snd => .hash (SLC.signBytes H (slcFields m c p fe snd d))
  | .uploadSmartContract bc => .hash (UP.signBytes H { bytecode := bc, id := m.id })
  | .uploadUserSmartContract dep bc fe s d =>
    match padSender s with
    | none => .panic
    | some snd => .hash (USC.signBytes H (uscFields m dep bc fe snd d))
  | .compassHandover cs d => .hash (CH.signBytes H (chFields m cs d))

/-- skyway `OutgoingTxBatch` as far as `GetCheckpoint` reads it.  The bech32 sender of every
    transfer is validated by `ToInternal` too but is not part of the checkpoint; the harness
    only supplies valid senders. -/
structure GoBatch where
  token : Bytes                 -- `TokenContract` string
  dests : List Bytes            -- `DestAddress` strings
  tokenOfTx : List Bytes        -- `Erc20Token.Contract` strings (validated, not signed)
  amounts : List Int            -- `Erc20Token.Amount` (`math.Int`)
  nonce : Nat
  timeout : Nat
  relayer : Bytes               -- `AssigneeRemoteAddress` BYTES (not a hex string)
  estimate : Nat
deriving Repr, Inhabited

def isHexDigits (s : Bytes) : Bool := s.all fun c => (hexVal c).isSome

/-- `libeth.ValidateEthAddress`: non-empty; after stripping one `0x`/`0X`: 40 hex digits -/
def validEthAddress (s : Bytes) : Bool :=
  let t := if has0x s then s.drop 2 else s
  !s.isEmpty && t.length == 40 && isHexDigits t

def batchFields (turnstone : Bytes) (b : GoBatch) : BatchFields :=
  { token := hexToAddress b.token
    receivers := b.dests.map hexToAddress
    amounts := b.amounts.map Int.toNat
    nonce := castI64 b.nonce
    turnstone := bytes32OfString turnstone
    timeout := castI64 b.timeout
    relayer := bytesToAddress b.relayer
    estimate := b.estimate }

/-- `OutgoingTxBatch.GetCheckpoint(turnstoneID)`: `none` = `ToInternal` rejected the batch -/
def goBatchCheckpoint (H : Hash) (turnstone : Bytes) (b : GoBatch) : Option Nat :=
  if !validEthAddress b.token then none
  else if !(b.dests.all validEthAddress) then none
  else if !(b.tokenOfTx.all validEthAddress) then none
  else if b.amounts.any (fun a => decide (a < 0)) then none
  else some (Batch.signBytes H (batchFields turnstone b))

/-! ## Go level: signable items, their pre-images, and what is delivered for them

Everything below is a re-statement of `goSignBytes` / `goBatchCheckpoint` and of the argument
lists of `VerifyAgainstTX` in a form theorems can talk about: one type of signable item
(turnstone message or skyway batch), its kind, the byte string that is hashed (`none` on the
panic / rejected branches), the values the remote side is handed.  `Props/C05.lean` proves
`goSignBytes` / `goBatchCheckpoint` equal to `goItemDigest` on every branch. -/

inductive Kind where
  | uv | slc | up | usc | ch | batch
deriving Repr, DecidableEq, Inhabited

def GoAction.kind (a : GoAction) : Kind :=
  match a with
  | .updateValset _ => .uv
  | .submitLogicCall _ _ _ _ _ => .slc
  | .uploadSmartContract _ => .up
  | .uploadUserSmartContract _ _ _ _ _ => .usc
  | .compassHandover _ _ => .ch

/-- the 4-byte method id the signed pre-image of a kind starts with; `UploadSmartContract` is
    not an ABI scheme and has none -/
def kindSel (k : Kind) : Bytes :=
  match k with
  | .uv => selUpdateValset
  | .slc => selLogicCall
  | .up => []
  | .usc => selDeployContract
  | .ch => selCompassUpdateBatch
  | .batch => selBatchCall

/-- all method ids that start a hashed ABI pre-image (the five signed schemes and the inner
    valset checkpoint) -/
def schemeSelectors : List Bytes :=
  [selCheckpoint, selUpdateValset, selLogicCall, selCompassUpdateBatch, selDeployContract, selBatchCall]

/-- A signable item.  `ctor` is `UploadSmartContract.ConstructorInput` (after the ABI round trip
    of `VerifyAgainstTX`); only an `uploadSmartContract` action has one, the signing side never
    reads it, which is why `GoAction.uploadSmartContract` does not carry it. -/
inductive GoItem where
  | msg (m : GoMsg) (ctor : Bytes)
  | batch (turnstone : Bytes) (b : GoBatch)
deriving Repr, Inhabited

def GoItem.kind (it : GoItem) : Kind :=
  match it with
  | .msg m _ => m.action.kind
  | .batch _ _ => .batch

/-- `ToInternal` accepts the batch (the four checks of `goBatchCheckpoint`, in one) -/
def batchValid (b : GoBatch) : Bool :=
  validEthAddress b.token && b.dests.all validEthAddress && b.tokenOfTx.all validEthAddress &&
  !(b.amounts.any (fun a => decide (a < 0)))

/-- the byte string `Keccak256WithSignedMessage` hashes; `none` = it panics -/
def goPreimage (H : Hash) (m : GoMsg) : Option Bytes :=
  match m.action with
  | .updateValset vs => some (UV.preimage H (uvFields m vs))
  | .submitLogicCall c p fe s d =>
    match padSender s with
    | none => none
    | some snd => some (SLC.preimage (slcFields m c p fe snd d))
  | .uploadSmartContract bc => some (UP.preimage { bytecode := bc, id := m.id })
  | .uploadUserSmartContract dep bc fe s d =>
    match padSender s with
    | none => none
    | some snd => some (USC.preimage (uscFields m dep bc fe snd d))
  | .compassHandover cs d => some (CH.preimage (chFields m cs d))

/-- the byte string that is hashed for an item; `none` = panic (message) / rejected (batch) -/
def goItemPreimage (H : Hash) (it : GoItem) : Option Bytes :=
  match it with
  | .msg m _ => goPreimage H m
  | .batch ts b => if batchValid b then some (Batch.preimage (batchFields ts b)) else none

/-- the digest validators are asked to sign -/
def goItemDigest (H : Hash) (it : GoItem) : Option Nat :=
  match goItemPreimage H it with
  | none => none
  | some p => some (digest H p)

/-- the inner pre-image of an `UpdateValset` (its digest is the first signed argument) -/
def goCheckpointPre (it : GoItem) : Option Bytes :=
  match it with
  | .msg m _ =>
    match m.action with
    | .updateValset vs => some (UV.checkpointPre (uvFields m vs))
    | _ => none
  | .batch _ _ => none

/-- the values of the property text, per kind (`mustBind` of the converted fields); `none` on the
    panic / rejected branch -/
def goItemBound (it : GoItem) : Option (List V) :=
  match it with
  | .msg m _ =>
    match m.action with
    | .updateValset vs => some (UV.mustBind (uvFields m vs))
    | .submitLogicCall c p fe s d =>
      match padSender s with
      | none => none
      | some snd => some (SLC.mustBind (slcFields m c p fe snd d))
    | .uploadSmartContract bc => some [.bytes bc, .word m.id]
    | .uploadUserSmartContract dep bc fe s d =>
      match padSender s with
      | none => none
      | some snd => some (USC.mustBind (uscFields m dep bc fe snd d))
    | .compassHandover cs d => some (CH.mustBind (chFields m cs d))
  | .batch ts b => if batchValid b then some (Batch.mustBind (batchFields ts b)) else none

/-- what the remote side is handed when the item is delivered -/
inductive Delivered where
  | call (k : Kind) (args : List V)   -- compass method of that kind, arguments after the consensus
  | create (data : Bytes)             -- contract-creation transaction data
deriving Repr, Inhabited

/-- the argument lists of `VerifyAgainstTX` (`x/evm/types/eth_txable.go`; it panics on the same
    over-long sender as the signing side) and of compass `submit_batch` -/
def goItemDelivered (it : GoItem) : Option Delivered :=
  match it with
  | .msg m ctor =>
    match m.action with
    | .updateValset vs => some (.call .uv (UV.deliveredVals (uvFields m vs)))
    | .submitLogicCall c p fe s d =>
      match padSender s with
      | none => none
      | some snd => some (.call .slc (SLC.deliveredVals (slcFields m c p fe snd d)))
    | .uploadSmartContract bc => some (.create (UP.delivered { bytecode := bc, id := m.id } ctor))
    | .uploadUserSmartContract dep bc fe s d =>
      match padSender s with
      | none => none
      | some snd => some (.call .usc (USC.deliveredVals (uscFields m dep bc fe snd d)))
    | .compassHandover cs d => some (.call .ch (CH.deliveredVals (chFields m cs d)))
  | .batch ts b =>
    if batchValid b then some (.call .batch (Batch.deliveredVals (batchFields ts b))) else none

/-- SIDE CONDITION on `UploadSmartContract` items: the hashed string `bytecode ++ be64(id)` does
    not start with the method id of an ABI scheme.  (The bytecode is fixed by a governance
    proposal; nothing in /repo checks this.)  Trivially true for every other kind. -/
def upSafe (it : GoItem) : Bool :=
  match it with
  | .msg m _ =>
    match m.action with
    | .uploadSmartContract bc => !(schemeSelectors.contains ((bc ++ be8 m.id).take 4))
    | _ => true
  | .batch _ _ => true

/-- an `int64` value (deadlines are `int64` in the protobuf messages) -/
def int64Ok (d : Int) : Bool := decide (-(I63 : Int) ≤ d) && decide (d < (I63 : Int))

/-- ranges the Go types guarantee: `uint64` ids / estimates / powers / nonces, `uint64` fees, `int64`
    deadlines, `sdkmath.Int` amounts below 2^256, slice lengths below 2^256 -/
def goItemWf (it : GoItem) : Bool :=
  match it with
  | .msg m _ =>
    decide (m.id < U64) && decide (m.estimate < U64) &&
    match m.action with
    | .updateValset vs =>
      vs.powers.all (fun p => decide (p < U64)) && decide (vs.valsetId < U64) &&
      decide (vs.validators.length < W256) && decide (vs.powers.length < W256)
    | .submitLogicCall _ p fe _ d => feesWf fe && decide (p.length < W256) && int64Ok d
    | .uploadSmartContract _ => true
    | .uploadUserSmartContract _ bc fe _ d => feesWf fe && decide (bc.length < W256) && int64Ok d
    | .compassHandover cs d =>
      decide (cs.length < W256) && cs.all (fun c => decide (c.2.length < W256)) && int64Ok d
  | .batch _ b =>
    decide (b.nonce < U64) && decide (b.timeout < U64) && decide (b.estimate < U64) &&
    b.amounts.all (fun a => decide (a < (W256 : Int))) &&
    decide (b.dests.length < W256) && decide (b.amounts.length < W256)

/-- the Go-level deadline (`int64`) of an item, for the kinds that have one -/
def goDeadline (it : GoItem) : Option Int :=
  match it with
  | .msg m _ =>
    match m.action with
    | .submitLogicCall _ _ _ _ d => some d
    | .uploadUserSmartContract _ _ _ _ d => some d
    | .compassHandover _ d => some d
    | _ => none
  | .batch _ _ => none

/-! ### when is an item offered to relayers -/

/-- `filters.HasGasEstimate` (x/consensus/keeper/filters/has_gas_estimate.go), one of the
    conjuncts of `GetMessagesForRelaying` -/
def hasGasEstimate (requireEst : Bool) (est : Nat) : Bool :=
  if !requireEst then true else decide (est > 0)

/-- skyway `OutgoingTxBatches` query (x/skyway/keeper/grpc_query.go): `if batch.GasEstimate < 1`
    the batch is skipped -/
def batchOffered (est : Nat) : Bool := !decide (est < 1)

/-- The stored gas estimate of the item is an ELECTED one (non-zero) — for the kinds whose delivered call
    carries an estimate (`UpdateValset`, `CompassHandover`, skyway batch); vacuous for the others.  This is a
    statement about the item's `estimate` field only.  WHEN it holds is not decided here:
    * a turnstone message is offered to relayers (`GetMessagesForRelaying`) only if `hasGasEstimate req est`,
      where `req` is the `RequireGasEstimation` flag the message was ENQUEUED with — an input of that filter,
      modelled in `Model/Queue.lean` (`Item.reqEst`, `pass2`); `Props/C14.lean` proves that every message the
      producers of /repo enqueue has the flag set (`offered_requires_elected_no_put`) and `Props/C05.lean`
      (`offered_message_is_elected`) transfers it to this predicate;
    * a skyway batch is listed by the `OutgoingTxBatches` query only if `batchOffered est`.
    Validators SIGN an item regardless (no such gate in `GetMessagesForSigning` / `ConfirmBatch`). -/
def itemElected (it : GoItem) : Bool :=
  match it with
  | .msg m _ =>
    match m.action with
    | .updateValset _ => decide (m.estimate ≠ 0)
    | .compassHandover _ _ => decide (m.estimate ≠ 0)
    | _ => true
  | .batch _ b => decide (b.estimate ≠ 0)

/-! ## Ids: the consensus queue id counter

One counter (`consensusQueueIDCounterKey`) is shared by every `Queue` of every chain.
`live` is the set of (queue, id) pairs currently stored; `issued` is a log of every fresh id
handed out, newest first (not read by any operation; `Props/C05.lean` proves it equal to the ids
the fresh `Put`s of the history RETURNED, `freshIds` below). -/

structure IdSt where
  counter : Nat := 0
  live : List (Nat × Nat) := []
  issued : List Nat := []
deriving Repr, DecidableEq, Inhabited

inductive IdOp where
  | put (q : Nat) (replace : Nat)    -- `Put` with `PutOptions.MsgIDToReplace = replace` (0 = fresh)
  | remove (q : Nat) (id : Nat)      -- `Remove`
deriving Repr, DecidableEq, Inhabited

inductive IdRes where
  | ok (id : Nat)
  | notFound        -- `ErrMessageDoesNotExist`
  | zeroId          -- `ErrUnableToSaveMessageWithoutID` (the uint64 counter wrapped to 0)
deriving Repr, DecidableEq, Inhabited

def hasMsg (s : IdSt) (q id : Nat) : Bool := s.live.any fun p => p.1 == q && p.2 == id

def idStep (s : IdSt) (op : IdOp) : IdSt × IdRes :=
  match op with
  | .put q r =>
    if r ≠ 0 then
      -- `GetMsgByID(mid)` in THIS queue; the stored message keeps its id
      if hasMsg s q r then (s, .ok r) else (s, .notFound)
    else
      -- `IncrementNextID`: `GetLastID + 1` in uint64 arithmetic, stored before `save`
      let next := (s.counter + 1) % U64
      if next = 0 then ({ s with counter := 0 }, .zeroId)
      else ({ counter := next, live := (q, next) :: s.live, issued := next :: s.issued }, .ok next)
  | .remove q id =>
    if hasMsg s q id then
      ({ s with live := s.live.filter fun p => !(p.1 == q && p.2 == id) }, .ok id)
    else (s, .notFound)

def idRun (s : IdSt) : List IdOp → IdSt
  | [] => s
  | op :: ops => idRun (idStep s op).1 ops

/-- the results returned along a run, oldest first -/
def idTrace (s : IdSt) : List IdOp → List IdRes
  | [] => []
  | op :: ops => (idStep s op).2 :: idTrace (idStep s op).1 ops

/-- the id a FRESH `Put` (`MsgIDToReplace = 0`) returned, as a list of length ≤ 1 -/
def freshOf (op : IdOp) (r : IdRes) : List Nat :=
  match op with
  | .put _ rep =>
    if rep = 0 then
      match r with
      | .ok id => [id]
      | _ => []
    else []
  | .remove _ _ => []

/-- the ids RETURNED by the fresh `Put`s of a history, in the order they were returned: a
    function of the observable results only -/
def freshIds (s : IdSt) : List IdOp → List Nat
  | [] => []
  | op :: ops => freshOf op (idStep s op).2 ++ freshIds (idStep s op).1 ops

/-! ## Ids and messages together: what `Queue.Put` stores

`Queue.Put` (x/consensus/keeper/consensus/consensus.go) builds the stored `QueuedSignedMessage` with
`Id: mid` where `mid` is the value `IncrementNextID` just returned (fresh put), or re-reads the stored
wrapper and only swaps `m.Msg` (put with `MsgIDToReplace`: id, gas estimate and signatures stay).
`GetBytesToSign` then calls `Keccak256WithSignedMessage(q)`, which reads `q.GetId()` and `q.GasEstimate`
— so the `id` / `estimate` fields of the `GoMsg` that is hashed are the wrapper's.  `jqStep` is `idStep`
plus exactly that bookkeeping; the id part of its state IS the `IdSt` of `idStep`. -/

structure JqSt where
  ids : IdSt := {}
  /-- (queue, stored message); `msg.id` / `msg.estimate` are the wrapper's `Id` / `GasEstimate` -/
  msgs : List (Nat × GoMsg) := []
deriving Repr, Inhabited

inductive JqOp where
  | put (q : Nat) (m : GoMsg) (replace : Nat)   -- the caller's `m.id` / `m.estimate` are ignored
  | remove (q : Nat) (id : Nat)
deriving Repr, Inhabited

def JqOp.toId : JqOp → IdOp
  | .put q _ r => .put q r
  | .remove q id => .remove q id

def jqStep (s : JqSt) (op : JqOp) : JqSt × IdRes :=
  match op with
  | .put q m r =>
    match (idStep s.ids (.put q r)).2 with
    | .ok id =>
      if r ≠ 0 then
        ({ ids := (idStep s.ids (.put q r)).1,
           msgs := s.msgs.map fun p =>
             if p.1 == q && p.2.id == id then (q, { m with id := id, estimate := p.2.estimate }) else p }, .ok id)
      else
        ({ ids := (idStep s.ids (.put q r)).1, msgs := (q, { m with id := id, estimate := 0 }) :: s.msgs }, .ok id)
    | res => ({ s with ids := (idStep s.ids (.put q r)).1 }, res)
  | .remove q id =>
    match (idStep s.ids (.remove q id)).2 with
    | .ok _ =>
      ({ ids := (idStep s.ids (.remove q id)).1, msgs := s.msgs.filter fun p => !(p.1 == q && p.2.id == id) }, .ok id)
    | res => ({ s with ids := (idStep s.ids (.remove q id)).1 }, res)

def jqRun (s : JqSt) : List JqOp → JqSt
  | [] => s
  | op :: ops => jqRun (jqStep s op).1 ops

def jqGet (s : JqSt) (q id : Nat) : Option GoMsg :=
  (s.msgs.find? fun p => p.1 == q && p.2.id == id).map (·.2)

/-! ## Bridge deployment ids: which id the keeper hands to `GetCheckpoint`

`GetCheckpoint(turnstoneID)` takes the bridge deployment id as an argument; the keeper supplies it.
`BuildOutgoingTXBatch` (x/skyway/keeper/batch.go) issues `BytesToSign` with
`string(ci.SmartContractUniqueID)` of the evm module's chain info of the batch's chain,
`UpdateBatchGasEstimate` RE-ISSUES them with the same lookup once the gas estimate is elected, and
`MsgConfirmBatch` verifies a signature against the checkpoint under that id.

The chain info changes only in `ActivateChainReferenceID` (x/evm/keeper/keeper.go): a compass with
an id not larger than the active one is ignored (`return nil` before any write) — but the deferred
function publishes `EVMActivatedChain` whenever no error is returned, i.e. for the ignored call
too, with the id of THAT call.  The skyway module's subscriber stores the event's id as its own
"latest compass id" record (`setLatestCompassID`), which is not part of the module's genesis
export.  So the record and the chain info can disagree; the record is modelled here as it behaves
(`compassRec`) precisely to state that no signing bytes depend on it. -/

/-- `evmtypes.ChainInfo` as far as the bridge batches read it -/
structure ChainRec where
  activeId : Nat := 0        -- `ActiveSmartContractID`
  uniqueId : Bytes := []     -- `SmartContractUniqueID`
deriving Repr, DecidableEq, Inhabited

/-- a stored `OutgoingTxBatch`: `b.estimate` is `GasEstimate`, `bytes` is `BytesToSign` -/
structure StoredBatch where
  chain : Nat
  b : GoBatch
  bytes : Nat
deriving Repr, Inhabited

structure DepSt where
  /-- evm chain infos by chain -/
  chains : Nat → Option ChainRec := fun _ => none
  /-- skyway `LatestCompassIDKey` by chain (`""` when never written) -/
  compassRec : Nat → Bytes := fun _ => []
  batches : List StoredBatch := []

instance : Inhabited DepSt := ⟨{}⟩

inductive DepOp where
  | setChain (c active : Nat) (uid record : Bytes)   -- harness: the observed state of a chain
  | activate (c scId : Nat) (uid : Bytes)            -- `ActivateChainReferenceID`
  | build (c : Nat) (b : GoBatch)                    -- `BuildOutgoingTXBatch` produced `b` for chain `c`
  | elect (token : Bytes) (nonce est : Nat)          -- `UpdateBatchGasEstimate`
  | reimport                                         -- skyway `ExportGenesis` / `InitGenesis`
  | getRec (c : Nat)                                 -- `GetLatestCompassID`
deriving Repr, Inhabited

inductive DepOut where
  | ok
  | chain (active : Nat) (uid record : Bytes)
  | bytes (d : Nat)
  | record (r : Bytes)
  | noChain | notFound | already | dup | rejected
deriving Repr, DecidableEq, Inhabited

/-- point update of a total map -/
def setAt {α : Type} (f : Nat → α) (k : Nat) (v : α) : Nat → α := fun i => if i = k then v else f i

/-- `GetOutgoingTxBatchKey(tokenContract, nonce)`: the token as an address, and the nonce -/
def batchKeyIs (tok nonce : Nat) (x : StoredBatch) : Bool :=
  hexToAddress x.b.token == tok && x.b.nonce == nonce

def findBatch (s : DepSt) (tok nonce : Nat) : Option StoredBatch := s.batches.find? (batchKeyIs tok nonce)

/-- the stored batch after the election: estimate and `BytesToSign` replaced -/
def StoredBatch.reissued (x : StoredBatch) (est d : Nat) : StoredBatch :=
  { x with b := { x.b with estimate := est }, bytes := d }

def depStep (H : Hash) (s : DepSt) (op : DepOp) : DepSt × DepOut :=
  match op with
  | .setChain c a uid r =>
    ({ s with chains := setAt s.chains c (some { activeId := a, uniqueId := uid }),
              compassRec := setAt s.compassRec c r }, .ok)
  | .activate c scId uid =>
    match s.chains c with
    | none => (s, .noChain)                  -- `GetChainInfo` fails: error, no event
    | some ci =>
      if ci.activeId ≥ scId then
        -- "if this is called with version lower than the current one, then do nothing": no error,
        -- so the deferred function still publishes the event with this call's id
        ({ s with compassRec := setAt s.compassRec c uid }, .chain ci.activeId ci.uniqueId uid)
      else
        ({ s with chains := setAt s.chains c (some { activeId := scId, uniqueId := uid }),
                  compassRec := setAt s.compassRec c uid }, .chain scId uid uid)
  | .build c b =>
    match s.chains c with
    | none => (s, .noChain)
    | some ci =>
      if (findBatch s (hexToAddress b.token) b.nonce).isSome then (s, .dup)   -- `StoreBatch` never overwrites
      else
        match goBatchCheckpoint H ci.uniqueId { b with estimate := 0 } with
        | none => (s, .rejected)
        | some d =>
          ({ s with batches := { chain := c, b := { b with estimate := 0 }, bytes := d } :: s.batches }, .bytes d)
  | .elect tok nonce est =>
    match findBatch s (hexToAddress tok) nonce with
    | none => (s, .notFound)
    | some sb =>
      if sb.b.estimate > 0 then (s, .already)
      else
        match s.chains sb.chain with
        | none => (s, .noChain)
        | some ci =>
          match goBatchCheckpoint H ci.uniqueId { sb.b with estimate := est } with
          | none => (s, .rejected)
          | some d =>
            ({ s with batches := s.batches.map fun x =>
                 if batchKeyIs (hexToAddress tok) nonce x then x.reissued est d else x }, .bytes d)
  | .reimport => ({ s with compassRec := fun _ => [] }, .ok)
  | .getRec c => (s, .record (s.compassRec c))

/-- `GetBytesToSign` of a turnstone message the evm keeper ITSELF queues for chain `c` (e.g.
    `SendValsetMsgForChain`): the producer stamps `TurnstoneID: string(chainInfo.SmartContractUniqueID)`
    into the message, whatever the caller's `m.turnstoneId`; `none` = the chain has no chain info -/
def depMsgBytes (H : Hash) (s : DepSt) (c : Nat) (m : GoMsg) : Option SignResult :=
  match s.chains c with
  | none => none
  | some ci => some (goSignBytes H { m with turnstoneId := ci.uniqueId })

def depRun (H : Hash) (s : DepSt) : List DepOp → DepSt
  | [] => s
  | op :: ops => depRun H (depStep H s op).1 ops

/-- the outputs along a history, oldest first -/
def depTrace (H : Hash) (s : DepSt) : List DepOp → List DepOut
  | [] => []
  | op :: ops => (depStep H s op).2 :: depTrace H (depStep H s op).1 ops

/-- the op reads the skyway record directly (the only op whose OUTPUT may depend on it) -/
def DepOp.readsRecord : DepOp → Bool
  | .getRec _ => true
  | _ => false

/-! ## executable hash -/

/-- keccak256 as a number (used by the driver only) -/
def keccakNat : Hash := fun b => natOfBytes (Keccak.keccak256 b)

end Paloma.SignBytes
