/-
Model of the valset keep-alive / inactivity jailing machinery (property C12):
  x/valset/keeper/keep_alive.go        KeepValidatorAlive, IsValidatorAlive, CanAcceptKeepAlive,
                                       UpdateGracePeriod, encodeUnjailedSnapshot, decodeUnjailedSnapshot,
                                       JailInactiveValidators, isValidatorInGracePeriod
  x/valset/keeper/keeper.go            Jail, IsJailed, GetUnjailedValidators, deriveJailSentence,
                                       calculateJailSentenceResetThreshold, jailSentences,
                                       SetPigeonRequirements, SetScheduledPigeonRequirements, PigeonRequirements
  x/valset/module.go                   BeginBlock (scheduled requirements), EndBlock
  x/valset/gov_handler.go              SetPigeonRequirementsProposal
  x/valset/keeper/msg_server_keep_alive.go
  golang.org/x/mod/semver              Compare (through an order-preserving key, see `vkey`)
  x/slashing MsgUnjail                 only its `JailedUntil` gate

Validator addresses, version strings and the stored snapshot blob are BYTE STRINGS (`List UInt8`).
Heights are `Int` (int64), times are `Int` unix nanoseconds, durations `Int` nanoseconds.
The staking view (`vals`) is owned by x/staking and x/slashing: it is changed only by the external
operations `addVal / setStatus / setPower / extJail / extUnjail / unjail` and by `jail`.
Core Lean only.
-/
namespace Paloma.KeepAlive

abbrev Addr := List UInt8
abbrev Blob := List UInt8
abbrev Ver := List UInt8

/-! ## constants (x/valset/keeper/keep_alive.go, keeper.go, module.go) -/

/-- `cJailingDefaultKeepAliveBlockHeight` -/
def keepAliveTTL : Int := 2000
/-- `cJailingGracePeriodBlockHeight` -/
def gracePeriod : Int := 30
/-- module.go EndBlock: sweep iff `height > 50 && height % 10 == 0` -/
def sweepMinHeight : Int := 50
def sweepPeriod : Int := 10
def minute : Int := 60000000000
/-- `jailSentences` -/
def jailSentences : List Int := [minute, 5 * minute, 15 * minute, 60 * minute, 1440 * minute]
/-- floor of `calculateJailSentenceResetThreshold` -/
def resetThresholdFloor : Int := 30 * minute
/-- `d/20` in `calculateJailSentenceResetThreshold` -/
def resetThresholdDivisor : Int := 20
/-- `cJailingNetworkShareProtection = 0.25` as the rational 1/4 -/
def protectionDenominator : Nat := 4
/-- `defaultMinimumPigeonVersion = "v1.11.3"` -/
def defaultMinVersion : Ver := [118, 49, 46, 49, 49, 46, 51]
/-- `cUnjailedSnapshotHexPrefix = "hex:"` -/
def hexPrefix : Blob := [104, 101, 120, 58]
/-- the separator `","` -/
def comma : UInt8 := 44
/-- `time.Time{}` (0001-01-01T00:00:00Z) in unix nanoseconds -/
def zeroTime : Int := -62135596800 * 1000000000

/-! ## snapshot codec (`encodeUnjailedSnapshot` / `decodeUnjailedSnapshot`) -/

/-- lower-case hex digit of a nibble (`hex.EncodeToString`) -/
def hexDigit (n : Nat) : UInt8 := if n < 10 then UInt8.ofNat (48 + n) else UInt8.ofNat (87 + n)

def hexEnc : List UInt8 → List UInt8
  | [] => []
  | b :: bs => hexDigit (b.toNat / 16) :: hexDigit (b.toNat % 16) :: hexEnc bs

/-- `hex.DecodeString` accepts both cases -/
def unhex (c : UInt8) : Option Nat :=
  if 48 ≤ c.toNat ∧ c.toNat ≤ 57 then some (c.toNat - 48)
  else if 97 ≤ c.toNat ∧ c.toNat ≤ 102 then some (c.toNat - 87)
  else if 65 ≤ c.toNat ∧ c.toNat ≤ 70 then some (c.toNat - 55)
  else none

/-- `hex.DecodeString`: `none` on odd length or on a non-hex character -/
def hexDec : List UInt8 → Option (List UInt8)
  | [] => some []
  | [_] => none
  | a :: b :: rest =>
    match unhex a, unhex b, hexDec rest with
    | some x, some y, some r => some (UInt8.ofNat (16 * x + y) :: r)
    | _, _, _ => none

/-- `bytes.Split(s, sep)` / `strings.Split(s, sep)` for a one byte separator: never empty -/
def splitBy (sep : UInt8) : List UInt8 → List (List UInt8)
  | [] => [[]]
  | c :: cs =>
    if c = sep then [] :: splitBy sep cs
    else (c :: (splitBy sep cs).headD []) :: (splitBy sep cs).tail

/-- `strings.Join(parts, sep)` / `bytes.Join` -/
def joinBy (sep : UInt8) : List (List UInt8) → List UInt8
  | [] => []
  | [x] => x
  | x :: y :: rest => x ++ sep :: joinBy sep (y :: rest)

/-- `strings.CutPrefix` -/
def cutPrefix (p b : List UInt8) : Option (List UInt8) :=
  if p.isPrefixOf b then some (b.drop p.length) else none

/-- `encodeUnjailedSnapshot` -/
def encodeSet (l : List Addr) : Blob := hexPrefix ++ joinBy comma (l.map hexEnc)

/-- the format of the pinned tree: raw addresses joined by "," (kept to model a pre-upgrade store
    and to show what the repair fixed) -/
def encodeSetLegacy (l : List Addr) : Blob := joinBy comma l

/-- `decodeUnjailedSnapshot`: the list stands for the key set of the Go map -/
def decodeSet (b : Blob) : List Addr :=
  match cutPrefix hexPrefix b with
  | some e => (splitBy comma e).filterMap hexDec
  | none => splitBy comma b

/-! ## semantic versions (`semver.Compare`) -/

def isDigit (c : Nat) : Bool := 48 ≤ c && c ≤ 57
def isIdentChar (c : Nat) : Bool :=
  (65 ≤ c && c ≤ 90) || (97 ≤ c && c ≤ 122) || (48 ≤ c && c ≤ 57) || c == 45

def digitsVal (l : List Nat) : Nat := l.foldl (fun acc c => 10 * acc + (c - 48)) 0

/-- `parseInt`: a non-empty digit run without leading zero; returns (value, rest) -/
def parseInt (v : List Nat) : Option (Nat × List Nat) :=
  let ds := v.takeWhile isDigit
  if ds.isEmpty then none
  else if ds.head? == some 48 && ds.length != 1 then none
  else some (digitsVal ds, v.dropWhile isDigit)

/-- split on '.' -/
def splitDots : List Nat → List (List Nat)
  | [] => [[]]
  | c :: cs =>
    if c = 46 then [] :: splitDots cs
    else (c :: (splitDots cs).headD []) :: (splitDots cs).tail

def isNum (v : List Nat) : Bool := v.all isDigit
/-- `isBadNum`: all digits, longer than one, leading zero -/
def isBadNum (v : List Nat) : Bool := isNum v && v.length > 1 && v.head? == some 48

/-- key of one pre-release identifier: numeric < alphanumeric; numeric by value; alphanumeric
    lexicographic with "shorter prefix first" (terminator 0, characters shifted by one) -/
def identKey (v : List Nat) : List Nat :=
  if isNum v then [1, 0, digitsVal v] else [1, 1] ++ v.map (· + 1) ++ [0]

/-- key of the pre-release part (without the leading '-'): `none` if malformed -/
def preKey (v : List Nat) : Option (List Nat) :=
  if v.all (fun c => isIdentChar c || c == 46) &&
     (splitDots v).all (fun i => !i.isEmpty && !isBadNum i)
  then some (((splitDots v).map identKey).flatten ++ [0]) else none

/-- `parseBuild` (without the leading '+') -/
def buildOk (v : List Nat) : Bool :=
  v.all (fun c => isIdentChar c || c == 46) && (splitDots v).all (fun i => !i.isEmpty)

/-- what follows `MAJOR.MINOR.PATCH`: optional `-prerelease`, optional `+build`, end of string.
    No pre-release sorts after any pre-release: key `[2]`. -/
def tailKey (v : List Nat) : Option (List Nat) :=
  match v with
  | [] => some [2]
  | 45 :: r =>
    let pre := r.takeWhile (· != 43)
    let rest := r.dropWhile (· != 43)
    match preKey pre, rest with
    | some k, [] => some k
    | some k, _ :: b => if buildOk b then some k else none
    | none, _ => none
  | 43 :: b => if buildOk b then some [2] else none
  | _ => none

/-- Order-preserving key of a version string: `[]` for an invalid string (all invalid strings are
    equal and below every valid one), `1 :: major :: minor :: patch :: prerelease-key` otherwise. -/
def vkeyNat (v : List Nat) : List Nat :=
  match v with
  | 118 :: r =>
    match parseInt r with
    | none => []
    | some (maj, r1) =>
      match r1 with
      | [] => [1, maj, 0, 0, 2]
      | 46 :: r2 =>
        match parseInt r2 with
        | none => []
        | some (mi, r3) =>
          match r3 with
          | [] => [1, maj, mi, 0, 2]
          | 46 :: r4 =>
            match parseInt r4 with
            | none => []
            | some (pa, r5) =>
              match tailKey r5 with
              | some k => [1, maj, mi, pa] ++ k
              | none => []
          | _ => []
      | _ => []
  | _ => []

def vkey (v : Ver) : List Nat := vkeyNat (v.map (·.toNat))

/-- strict lexicographic order on keys -/
def lexLt : List Nat → List Nat → Bool
  | _, [] => false
  | [], _ :: _ => true
  | a :: as, b :: bs => if a < b then true else if b < a then false else lexLt as bs

/-- `semver.Compare(a, b) < 0` -/
def vlt (a b : Ver) : Bool := lexLt (vkey a) (vkey b)
/-- `semver.Compare(a, b)` -/
def vcmp (a b : Ver) : Int := if vlt a b then -1 else if vlt b a then 1 else 0
/-- `semver.IsValid` -/
def vvalid (a : Ver) : Bool := vkey a != []

/-! ## state -/

inductive Status where
  | bonded
  | unbonding
  | unbonded
deriving DecidableEq, Repr

structure Val where
  addr : Addr
  status : Status
  jailed : Bool
  power : Nat
deriving DecidableEq, Repr

/-- `types.JailRecord` -/
structure JailRec where
  duration : Int
  jailedAt : Int
deriving DecidableEq, Repr

/-- a KV store keyed by address: association list, one entry per key -/
abbrev Map (α : Type) := List (Addr × α)

def Map.get {α : Type} (m : Map α) (a : Addr) : Option α :=
  match m with
  | [] => none
  | (k, x) :: rest => if k = a then some x else Map.get rest a

def Map.set {α : Type} (m : Map α) (a : Addr) (x : α) : Map α :=
  (a, x) :: m.filter (fun p => p.1 != a)

structure St where
  /-- staking view in `IterateValidators` order -/
  vals : List Val
  /-- keep-alive store: `AliveUntilBlockHeight` -/
  alive : Map Int
  /-- grace-period store: height at which the validator was seen newly unjailed -/
  grace : Map Int
  /-- the stored snapshot blob (`none`: no entry yet) -/
  prev : Option Blob
  jailLog : Map JailRec
  /-- slashing signing info `JailedUntil` (written by `Jail` through `JailUntil`) -/
  jailedUntil : Map Int
  /-- current `PigeonRequirements.MinVersion` (the default while nothing is stored) -/
  minVersion : Ver
  /-- `ScheduledPigeonRequirements`: version and uint64 target height -/
  scheduled : Option (Ver × Nat)

def St.init : St :=
  { vals := [], alive := [], grace := [], prev := none, jailLog := [], jailedUntil := [],
    minVersion := defaultMinVersion, scheduled := none }

inductive Res where
  | ok
  | rejected
deriving DecidableEq, Repr

def findVal (l : List Val) (a : Addr) : Option Val := l.find? (fun v => v.addr == a)

/-- `IsJailed` (false for an unknown validator: the zero `stakingtypes.Validator`) -/
def isJailed (s : St) (a : Addr) : Bool :=
  match findVal s.vals a with
  | some v => v.jailed
  | none => false

/-! ## staking view: external operations -/

/-- store order of the validators: key = length byte ++ address -/
def addrLt (a b : Addr) : Bool :=
  a.length < b.length || (a.length == b.length && lexLt (a.map (·.toNat)) (b.map (·.toNat)))

def insertVal (v : Val) : List Val → List Val
  | [] => [v]
  | w :: ws => if addrLt v.addr w.addr then v :: w :: ws else w :: insertVal v ws

def addVal (s : St) (v : Val) : St × Res :=
  if (findVal s.vals v.addr).isSome then (s, .rejected)
  else ({ s with vals := insertVal v s.vals }, .ok)

def updVal (l : List Val) (a : Addr) (f : Val → Val) : List Val :=
  l.map (fun v => if v.addr = a then f v else v)

def setStatus (s : St) (a : Addr) (st : Status) : St × Res :=
  if (findVal s.vals a).isNone then (s, .rejected)
  else ({ s with vals := updVal s.vals a (fun v => { v with status := st }) }, .ok)

def setPower (s : St) (a : Addr) (p : Nat) : St × Res :=
  if (findVal s.vals a).isNone then (s, .rejected)
  else ({ s with vals := updVal s.vals a (fun v => { v with power := p }) }, .ok)

def setJailed (l : List Val) (a : Addr) (j : Bool) : List Val :=
  updVal l a (fun v => { v with jailed := j })

/-- jailing by another module directly through staking/slashing (downtime, double sign, evidence):
    no valset rule is consulted -/
def extJail (s : St) (a : Addr) : St × Res :=
  if (findVal s.vals a).isNone then (s, .rejected)
  else ({ s with vals := setJailed s.vals a true }, .ok)

def extUnjail (s : St) (a : Addr) : St × Res :=
  if (findVal s.vals a).isNone then (s, .rejected)
  else ({ s with vals := setJailed s.vals a false }, .ok)

/-- slashing `MsgUnjail` as far as the sentence is concerned: refused while the block time is
    before `JailedUntil` (no signing-info change means `time.Unix(0,0)`) -/
def unjail (s : St) (t : Int) (a : Addr) : St × Res :=
  match findVal s.vals a with
  | none => (s, .rejected)
  | some v =>
    if !v.jailed then (s, .rejected)
    else if t < (s.jailedUntil.get a).getD 0 then (s, .rejected)
    else ({ s with vals := setJailed s.vals a false }, .ok)

/-! ## `Jail` -/

/-- `Validator.GetConsensusPower` / `ConsensusPower`: zero unless the validator is bonded -/
def consPower (v : Val) : Nat := if v.status == .bonded then v.power else 0

def isActive (v : Val) : Bool := v.status == .bonded && !v.jailed
def activeCount (l : List Val) : Nat := (l.filter isActive).length
def activeTotal (l : List Val) : Nat := ((l.filter isActive).map (·.power)).sum

/-- `deriveJailSentence`: the first sentence strictly greater than `d`, capped at the last one -/
def deriveSentence (d : Int) : Int :=
  if d < minute then minute
  else if d < 5 * minute then 5 * minute
  else if d < 15 * minute then 15 * minute
  else if d < 60 * minute then 60 * minute
  else 1440 * minute

/-- the loop as written in Go, to tie `deriveSentence` to `jailSentences` -/
def deriveSentenceLoop (d : Int) : Int :=
  ((jailSentences.find? (fun s => d < s)).getD (jailSentences.getLastD 0))

/-- `calculateJailSentenceResetThreshold`: `max(30 min, d + d/20)` (Go `/` truncates toward zero) -/
def resetThreshold (d : Int) : Int := max resetThresholdFloor (d + Int.tdiv d resetThresholdDivisor)

/-- the network-protection rules as `Jail` evaluates them -/
def protectedIn (l : List Val) (p : Nat) : Bool :=
  activeCount l == 1 || decide (protectionDenominator * p > activeTotal l)

/-- the sentence `Jail` hands out at time `t` given the previous record -/
def nextSentence (r : Option JailRec) (t : Int) : Int :=
  if t - (r.getD { duration := minute, jailedAt := zeroTime }).jailedAt
      < resetThreshold (r.getD { duration := minute, jailedAt := zeroTime }).duration
  then deriveSentence (r.getD { duration := minute, jailedAt := zeroTime }).duration
  else deriveSentence 0

/-- `Keeper.Jail` at block time `t` -/
def jail (s : St) (t : Int) (a : Addr) : St × Res :=
  match findVal s.vals a with
  | none => (s, .rejected)
  | some v =>
    if v.jailed then (s, .rejected)
    else if activeCount s.vals == 1 then (s, .rejected)
    else if protectionDenominator * consPower v > activeTotal s.vals then (s, .rejected)
    else
      ({ s with vals := setJailed s.vals a true,
                jailLog := s.jailLog.set a { duration := nextSentence (s.jailLog.get a) t, jailedAt := t },
                jailedUntil := s.jailedUntil.set a (t + nextSentence (s.jailLog.get a) t) }, .ok)

/-! ## keep-alive -/

/-- `msgServer.KeepAlive` / `KeepValidatorAlive` in a block of height `h` -/
def keepAlive (s : St) (h : Int) (a : Addr) (ver : Ver) : St × Res :=
  if (findVal s.vals a).isNone then (s, .rejected)
  else if vlt ver s.minVersion then (s, .rejected)
  else ({ s with alive := s.alive.set a (h + keepAliveTTL) }, .ok)

/-- `IsValidatorAlive` (a missing record counts as not alive in the sweep) -/
def isAlive (s : St) (a : Addr) (h : Int) : Bool :=
  match s.alive.get a with
  | some u => decide (h < u)
  | none => false

/-- `isValidatorInGracePeriod` -/
def inGrace (s : St) (a : Addr) (h : Int) : Bool :=
  match s.grace.get a with
  | some g => decide (h - g ≤ gracePeriod)
  | none => false

/-! ## pigeon requirements -/

/-- `SetPigeonRequirements` -/
def setMinVersion (s : St) (v : Ver) : St × Res :=
  if vlt v s.minVersion then (s, .rejected)
  else ({ s with minVersion := v, scheduled := none }, .ok)

/-- `SetScheduledPigeonRequirements` -/
def scheduleMinVersion (s : St) (v : Ver) (target : Nat) : St × Res :=
  if vlt v s.minVersion then (s, .rejected)
  else ({ s with scheduled := some (v, target) }, .ok)

/-- `int64(uint64)` -/
def toInt64 (n : Nat) : Int :=
  if n % 18446744073709551616 < 9223372036854775808 then (n % 18446744073709551616 : Nat)
  else ((n % 18446744073709551616 : Nat) : Int) - 18446744073709551616

/-- the governance handler of `SetPigeonRequirementsProposal` executed in a block of height `h` -/
def proposal (s : St) (h : Int) (v : Ver) (target : Nat) : St × Res :=
  if h ≥ toInt64 target then setMinVersion s v else scheduleMinVersion s v target

/-- `AppModule.BeginBlock`: a due scheduled requirement is applied; a refused one stays scheduled -/
def beginBlock (s : St) (h : Int) : St :=
  match s.scheduled with
  | none => s
  | some (v, target) => if toInt64 target ≤ h then (setMinVersion s v).1 else s

/-- the `PigeonRequirements` entry of a genesis state (`nil`: `SetPigeonRequirements` returns at once) -/
def genesisCur (s : St) : Option Ver → St × Res
  | none => (s, .ok)
  | some v => setMinVersion s v

/-- the `ScheduledPigeonRequirements` entry of a genesis state -/
def genesisSched (s : St) : Option (Ver × Nat) → St × Res
  | none => (s, .ok)
  | some p => scheduleMinVersion s p.1 p.2

/-- `InitGenesis` of x/valset (chain start / re-import of an exported state): the current requirement
    goes through `SetPigeonRequirements`, then the scheduled one through
    `SetScheduledPigeonRequirements`; an error of either PANICS (`rejected`: the chain does not start,
    nothing is kept). On a fresh store the comparison is against the built-in default. -/
def initGenesis (s : St) (cur : Option Ver) (sch : Option (Ver × Nat)) : St × Res :=
  if (genesisCur s cur).2 = .rejected then (s, .rejected)
  else if (genesisSched (genesisCur s cur).1 sch).2 = .rejected then (s, .rejected)
  else ((genesisSched (genesisCur s cur).1 sch).1, .ok)

/-! ## end block -/

def unjailedVals (s : St) : List Val := s.vals.filter (fun v => !v.jailed)
def unjailedAddrs (s : St) : List Addr := (unjailedVals s).map (·.addr)

def graceFold (lookup : List Addr) (h : Int) (g : Map Int) : List Addr → Map Int
  | [] => g
  | a :: as => graceFold lookup h (if lookup.contains a then g else g.set a h) as

/-- `UpdateGracePeriod` -/
def updateGrace (s : St) (h : Int) : St :=
  { s with grace := graceFold (decodeSet (s.prev.getD [])) h s.grace (unjailedAddrs s),
           prev := some (encodeSet (unjailedAddrs s)) }

/-- one iteration of the loop in `JailInactiveValidators`; `v` is the entry of the list read at the
    start of the sweep, errors of `Jail` are collected and only logged -/
def sweepStep (h t : Int) (s : St) (v : Val) : St :=
  if !(v.status == .bonded || v.status == .unbonding) then s
  else if isAlive s v.addr h then s
  else if inGrace s v.addr h then s
  else if isJailed s v.addr then s
  else (jail s t v.addr).1

/-- `JailInactiveValidators` -/
def sweep (s : St) (h t : Int) : St := (unjailedVals s).foldl (sweepStep h t) s

def isSweepHeight (h : Int) : Bool := decide (h > sweepMinHeight) && h % sweepPeriod == 0

/-- `AppModule.EndBlock` (the snapshot build does not touch this state) -/
def endBlock (s : St) (h t : Int) : St :=
  if isSweepHeight h then sweep (updateGrace s h) h t else updateGrace s h

/-! ## histories -/

inductive Op where
  | addVal (v : Val)
  | setStatus (a : Addr) (st : Status)
  | setPower (a : Addr) (p : Nat)
  | extJail (a : Addr)
  | extUnjail (a : Addr)
  | unjail (t : Int) (a : Addr)
  | jail (t : Int) (a : Addr)
  | keepAlive (h : Int) (a : Addr) (ver : Ver)
  | setMinVersion (v : Ver)
  | scheduleMinVersion (v : Ver) (target : Nat)
  | proposal (h : Int) (v : Ver) (target : Nat)
  | beginBlock (h : Int)
  | endBlock (h t : Int)

def apply (s : St) : Op → St
  | .addVal v => (addVal s v).1
  | .setStatus a st => (setStatus s a st).1
  | .setPower a p => (setPower s a p).1
  | .extJail a => (extJail s a).1
  | .extUnjail a => (extUnjail s a).1
  | .unjail t a => (unjail s t a).1
  | .jail t a => (jail s t a).1
  | .keepAlive h a ver => (keepAlive s h a ver).1
  | .setMinVersion v => (setMinVersion s v).1
  | .scheduleMinVersion v target => (scheduleMinVersion s v target).1
  | .proposal h v target => (proposal s h v target).1
  | .beginBlock h => beginBlock s h
  | .endBlock h t => endBlock s h t

def run (s : St) (ops : List Op) : St := ops.foldl apply s

/-- the operations a genesis state stands for in a history -/
def genesisOps (cur : Option Ver) (sch : Option (Ver × Nat)) : List Op :=
  (match cur with | none => [] | some v => [Op.setMinVersion v]) ++
  (match sch with | none => [] | some p => [Op.scheduleMinVersion p.1 p.2])

end Paloma.KeepAlive
