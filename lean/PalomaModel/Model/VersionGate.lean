/-
The version gate of the paloma module's BeginBlock (x/paloma/keeper/keeper.go `CheckChainVersion`), the one
deliberate stop of block production: a node panics when the software it runs is outside the major.minor line of
the last upgrade governance has completed, or older than it.

  govVer, govHeight := Upgrade.GetLastCompletedUpgrade()
  if len(govVer) == 0 || govHeight == 0 { return }
  if !strings.HasPrefix(govVer, "v") { govVer = "v" + govVer }
  if semver.Compare(semver.MajorMinor(AppVersion), semver.MajorMinor(govVer)) != 0 { panic }
  if semver.Compare(AppVersion, govVer) == -1 { panic }

`semver.Compare` is the order-preserving key of Model/KeepAlive.lean (`vkey`: invalid strings are all equal and
below every valid one, numeric fields compare by VALUE, a pre-release sorts before its release).
`semver.MajorMinor(v)` is `vMAJOR.MINOR` of a valid version and `""` of an invalid one.  Core Lean only.
-/
import PalomaModel.Model.KeepAlive

namespace Paloma.VersionGate
open Paloma.KeepAlive

/-- the key of `semver.MajorMinor(v)` (itself a version string `vMAJOR.MINOR`, or invalid) -/
def mmKey (v : Ver) : List Nat :=
  match vkey v with
  | 1 :: maj :: mi :: _ => [1, maj, mi, 0, 2]
  | _ => []

/-- `if !strings.HasPrefix(govVer, "v") { govVer = "v" + govVer }` -/
def withV (g : Ver) : Ver := if g.head? == some 118 then g else 118 :: g

/-- does `CheckChainVersion` panic?  `gov` / `height` = name and height of the last completed upgrade -/
def halts (app gov : Ver) (height : Nat) : Bool :=
  if gov.isEmpty || height == 0 then false
  else if mmKey app != mmKey (withV gov) then true
  else vlt app (withV gov)

end Paloma.VersionGate
