/-
Model of the cross-chain consensus-queue message life-cycle (properties C06 and C14):

  x/consensus/keeper/consensus/consensus.go   Put (incl. MsgIDToReplace), AddSignature, AddGasEstimate,
                                              SetElectedGasEstimate, SetPublicAccessData, SetErrorData,
                                              AddEvidence, Remove
  x/consensus/types/consensus.go              SetElectedGasEstimate clears SignData, AddSignData
  x/consensus/keeper/concensus_keeper.go      AddMessageSignature (GetSigningKey first), GetMessagesForRelaying,
                                              GetPendingValsetUpdates
  x/consensus/keeper/filters/*.go             the five relay filters, in the order they are `&&`-ed
  x/consensus/keeper/estimate.go              checkAndProcessEstimatedMessage, checkAndProcessEstimatedFeePayer,
                                              calculateFeesForEstimate
  x/evm/keeper/msg_assigner.go                PickValidatorForMessage, buildValidatorsInfos, rankValidators,
                                              scoreValue, filterValidatorsForJob
  x/evm/keeper/keeper.go                      PickValidatorForMessage wrapper (remote address from the snapshot),
                                              SupportedQueues.VerifySignature
  x/evm/types/turnstone_abi.go                which fields each action's signing bytes depend on
  x/treasury/keeper/keeper.go                 GetCombinedFeesForRelay
  x/valset/keeper/keeper.go                   GetSigningKey, SetExternalChainInfoState (collision rule)
  x/skyway/keeper/msg_server.go               ConfirmBatch, confirmHandlerCommon
  x/skyway/keeper/batch.go                    UpdateBatchGasEstimate (re-issues the checkpoint, deletes confirms)

The model follows /repo *after* the repairs 23185e9f (only the canonical 20-byte spelling of a key
verifies), db2aad4e (an eth key confirms a batch once) and be3dcb4f (the per-sender relay filter also
covers UploadUserSmartContract).  The three pre-repair behaviours stay available as `verifiesPreFix`,
`confirmWith false` and `senderMsgPreFix` (parameters of `signWith` / `confirmWith` / `relayAux`); they are
used only by the negation witnesses in Props/C06.lean and Props/C14.lean.

Core Lean only.  Validators, senders, payloads are naturals.  `math.LegacyDec` is an `Int` scaled by
10^18 with the library's exact rounding (banker's rounding in `Mul`/`Quo`, truncation toward zero in
big-integer division).  External-chain *address strings* and *registered public-key byte strings*
are naturals `x` whose eth account is `x / 4` (`x % 4` is the spelling: hex case of an address
string, zero-padding of key bytes) — this is how the model says that the code compares the raw
strings/bytes for equality but *verifies* against `common.HexToAddress` / `common.BytesToAddress`
of them, which are not injective.

Signing bytes are a keccak hash of an ABI encoding; here they are the tuple `SignBytes` of exactly
the fields that enter the encoding (C05 / the ABI model prove the concrete dependence).  A signature
records which eth key made it (`by_`, 0 = garbage), the tuple it was made for and the byte form
(`Wire`) in which it was submitted — and is stored: the code stores the submitted bytes verbatim,
so the check that admits a signature must be a check of exactly those bytes.

Conventions that make inputs of the real code explicit: eth account 0 is nobody's (`by_ = 0` = random
bytes, never verifies); message ids come from the model's own counter (`nextId`); batch nonces are an
input of `putBatch` checked for freshness against `lastNonce` (the real nonce is an auto-increment);
`put` is the keeper-level `PutMessageInQueue` (caller-chosen assignee), `enqueue` the composition with
the relayer pick that every producer in x/evm uses; only fee-paying actions have a sender (`senderOf`).

Accounts carry the chain they were registered for (`chain = 0` is the chain the queue / batch
belongs to, any other number a sibling chain of the same chain type); a validator may hold
different keys on different chains, and only the account registered for the target chain counts.
-/
import PalomaModel.Model.Libcons

namespace Paloma.Queue
open Paloma.Libcons (verifyGasEstimates GasVerdict addEvidence)

/-! ### `math.LegacyDec` arithmetic (18 decimals) -/

def PN : Nat := 1000000000000000000
def P : Int := 1000000000000000000

/-- `chopPrecisionAndRound` on a non-negative big integer: banker's rounding -/
def chopNat (n : Nat) : Nat :=
  if n % PN == 0 then n / PN
  else if 2 * (n % PN) < PN then n / PN
  else if 2 * (n % PN) > PN then n / PN + 1
  else if (n / PN) % 2 == 0 then n / PN else n / PN + 1

/-- `chopPrecisionAndRound`: sign is removed and added back -/
def chopRound (x : Int) : Int :=
  if x < 0 then -((chopNat x.natAbs : Nat) : Int) else ((chopNat x.natAbs : Nat) : Int)

/-- `LegacyDec.Mul` -/
def dmul (a b : Int) : Int := chopRound (a * b)

/-- `LegacyDec.Quo`: multiply by precision twice, big-integer `Quo` (truncates toward zero), round -/
def dquo (a b : Int) : Int := chopRound (Int.tdiv (a * (P * P)) b)

/-- `LegacyDec.Ceil().TruncateInt()` of a scaled value: `QuoRem` truncates toward zero and the
    quotient is bumped only for a positive remainder -/
def ceilDec (x : Int) : Int :=
  if Int.tmod x P > 0 then Int.tdiv x P + 1 else Int.tdiv x P

def U64 : Nat := 18446744073709551616

/-- `sdkmath.Int.Uint64()` panics outside `[0, 2^64)` -/
def toU64 (x : Int) : Option Nat :=
  if x < 0 then none else if x.toNat < U64 then some x.toNat else none

/-- the `mul` closure of `calculateFeesForEstimate`: a negative multiplicator and a product outside
    `uint64` are errors (`none`), not panics -/
def mulFee (m : Int) (v : Nat) : Option Nat :=
  if m < 0 then none else toU64 (ceilDec (m * (v : Int)))

/-- `calculateFeesForEstimate` once the three multiplicators are known; `none` = error -/
def calcFees (m c s : Int) (g : Nat) : Option (Nat × Nat × Nat) :=
  match mulFee m g with
  | none => none
  | some r =>
    match mulFee c r with
    | none => none
    | some cf =>
      match mulFee s r with
      | none => none
      | some sf => some (r, cf, sf)

/-! ### environment: snapshot, metrics, fee table, weights -/

/-- eth account denoted by an address string / key byte string -/
def canon (x : Nat) : Nat := x / 4

/-- one `ExternalChainInfo` entry; `chain = 0` is the chain the queue belongs to -/
structure Account where
  chain : Nat
  addr : Nat
  raw : Nat
  mev : Bool
deriving DecidableEq, Repr

def targetChain : Nat := 0

structure SnapVal where
  id : Nat
  share : Nat
  accounts : List Account
deriving DecidableEq, Repr

structure Snap where
  vals : List SnapVal
  total : Nat
deriving DecidableEq, Repr

structure Metrics where
  uptime : Int
  successRate : Int
  execTime : Int
  featureSet : Int
deriving DecidableEq, Repr

structure Weights where
  fee : Int := P
  uptime : Int := P
  successRate : Int := P
  execTime : Int := P
  featureSet : Int := P
deriving DecidableEq, Repr

structure Env where
  snapshot : Option Snap := none
  metrics : List (Nat × Metrics) := []
  /-- relayer fee multiplicators on record for the target chain -/
  fees : List (Nat × Int) := []
  weights : Weights := {}
  community : Int := 0
  security : Int := 0
deriving Repr

def assoc? {α} (l : List (Nat × α)) (k : Nat) : Option α := (l.find? (fun p => p.1 == k)).map (·.2)

structure Info where
  id : Nat
  fee : Int
  uptime : Int
  successRate : Int
  execTime : Int
  featureSet : Int
deriving DecidableEq, Repr

/-- `buildValidatorsInfos`: snapshot validators that have both a metrics record and a fee record -/
def infoOf (env : Env) (v : SnapVal) : Option Info :=
  match assoc? env.metrics v.id with
  | none => none
  | some m =>
    match assoc? env.fees v.id with
    | none => none
    | some f => some { id := v.id, fee := f, uptime := m.uptime, successRate := m.successRate,
                       execTime := m.execTime, featureSet := m.featureSet }

def buildInfos (env : Env) (snap : Snap) : List Info := snap.vals.filterMap (infoOf env)

def clamp0 (a : Int) : Int := if a < 0 then 0 else a

/-- `probeMin` folded over the values: running minimum, clamped at zero -/
def wmin : List Int → Int
  | [] => 0
  | x :: rest => rest.foldl (fun b a => if a < b then clamp0 a else b) (clamp0 x)

/-- `probeMax` folded over the values -/
def wmax : List Int → Int
  | [] => 0
  | x :: rest => rest.foldl (fun b a => if a > b then a else b) x

/-- `scoreValue` -/
def scoreValue (mx mn v : Int) (rev : Bool) : Int :=
  if mx == mn then 0
  else if rev then P - dquo (v - mn) (mx - mn) else dquo (v - mn) (mx - mn)

structure Scored where
  id : Nat
  score : Int
deriving DecidableEq, Repr

def scoreOf (w : Weights) (infos : List Info) (i : Info) : Scored :=
  { id := i.id,
    score :=
      dmul (scoreValue (wmax (infos.map (·.fee))) (wmin (infos.map (·.fee))) i.fee true) w.fee
      + dmul (scoreValue (wmax (infos.map (·.uptime))) (wmin (infos.map (·.uptime))) i.uptime false) w.uptime
      + dmul (scoreValue (wmax (infos.map (·.successRate))) (wmin (infos.map (·.successRate))) i.successRate false) w.successRate
      + dmul (scoreValue (wmax (infos.map (·.execTime))) (wmin (infos.map (·.execTime))) i.execTime true) w.execTime
      + dmul (scoreValue (wmax (infos.map (·.featureSet))) (wmin (infos.map (·.featureSet))) i.featureSet false) w.featureSet }

/-- the comparison of `slices.SortStableFunc`: higher score first, ties by address -/
def before (a b : Scored) : Bool := a.score > b.score || (a.score == b.score && a.id < b.id)

def insertScored (x : Scored) : List Scored → List Scored
  | [] => [x]
  | y :: ys => if before x y then x :: y :: ys else y :: insertScored x ys

def rank (l : List Scored) : List Scored := l.foldr insertScored []

/-- first chain-info entry for the target chain (both loops `return` on the first match) -/
def chainAccount (accts : List Account) : Option Account := accts.find? (fun a => a.chain == targetChain)

/-- `filterValidatorsForJob` for one ranked validator -/
def eligible (snap : Snap) (mev : Bool) (id : Nat) : Bool :=
  match snap.vals.find? (fun v => v.id == id) with
  | none => false
  | some v =>
    match chainAccount v.accounts with
    | none => false
    | some a => !mev || a.mev

def topPool : Nat := 5

def assignable (env : Env) (snap : Snap) (mev : Bool) : List Scored :=
  (rank ((buildInfos env snap).map (scoreOf env.weights (buildInfos env snap)))).filter
    (fun s => eligible snap mev s.id)

/-- `Keeper.PickValidatorForMessage`: winner and its remote address, `none` = error.
    `ts` is the block time in unix seconds. -/
def pick (env : Env) (mev : Bool) (ts : Nat) : Option (Nat × Nat) :=
  match env.snapshot with
  | none => none
  | some snap =>
    if (buildInfos env snap).isEmpty then none
    else if (assignable env snap mev).isEmpty then none
    else
      match (assignable env snap mev)[ts % min (assignable env snap mev).length topPool]? with
      | none => none
      | some w =>
        match snap.vals.find? (fun v => v.id == w.id) with
        | none => none
        | some v =>
          match chainAccount v.accounts with
          | none => none
          | some a => some (w.id, a.addr)

/-! ### queue items -/

inductive Kind where
  | valset | slc | uusc | other
deriving DecidableEq, Repr

/-- actions implementing `evmtypes.FeePayer` -/
def Kind.feePayer : Kind → Bool
  | .slc => true
  | .uusc => true
  | _ => false

/-- byte form of a submitted signature `r ‖ s ‖ v` by some key over some digest.  The first two forms
    are the two encodings `crypto.Ecrecover` maps to the signer (65 bytes, recovery id 0/1; the second
    is the twin `(r, n − s, v xor 1)`); the others are renderings of the same `(r, s)` that a strict
    recover over the stored bytes does not map to the signer. -/
inductive Wire where
  | canonical
  | highS
  /-- recovery id spelled 27/28 (wallet / `personal_sign` style) -/
  | v27
  /-- recovery id 2/3 -/
  | recid23
  /-- 64 bytes: recovery id missing -/
  | short
  /-- 66 bytes: one trailing byte -/
  | long
deriving DecidableEq, Repr

/-- `crypto.Ecrecover(digest, sig)` over the bytes as they are (and as they are stored and later
    relayed with 27 added to the last byte) yields the signer -/
def Wire.strict : Wire → Bool
  | .canonical => true
  | .highS => true
  | _ => false

/-- skyway's `EthAddressFromSignature` (the bridge's own convention, the one the batch relayer
    follows): at least 65 bytes, 27/28 is mapped to 0/1, then `crypto.SigToPub` -/
def Wire.bridge : Wire → Bool
  | .canonical => true
  | .highS => true
  | .v27 => true
  | _ => false

/-- the fields the signing bytes are computed from -/
structure SignBytes where
  kind : Kind
  content : Nat
  id : Nat
  gas : Nat
  fr : Nat
  fc : Nat
  fs : Nat
  remote : Nat
deriving DecidableEq, Repr

structure Sig where
  val : Nat
  /-- `ExternalAccountAddress` the validator claimed to sign with -/
  addr : Nat
  /-- `PublicKey` as registered when the signature was added -/
  key : Nat
  by_ : Nat
  for_ : SignBytes
  /-- byte form in which the signature was submitted and is stored -/
  wire : Wire := .canonical
deriving DecidableEq, Repr

structure Item where
  id : Nat
  kind : Kind
  content : Nat
  /-- 0 = empty sender address -/
  sender : Nat
  assignee : Nat
  remote : Nat
  reqEst : Bool
  estimates : List (Nat × Nat) := []
  elected : Nat := 0
  fees : Option (Nat × Nat × Nat) := none
  sigs : List Sig := []
  evidence : List (Nat × Nat) := []
  pub : Bool := false
  err : Bool := false
deriving DecidableEq, Repr

def defaultGas : Nat := 300000
def defaultFee : Nat := 100000

/-- `GetBytesToSign`: SubmitLogicCall / UploadUserSmartContract hash (payload, fees-or-default, message
    id, turnstone, deadline, relayer); UpdateValset / CompassHandover hash (payload, relayer,
    gas-estimate-or-300000). -/
def bytesOf (it : Item) : SignBytes :=
  if it.kind.feePayer then
    { kind := it.kind, content := it.content, id := it.id, gas := 0,
      fr := (it.fees.getD (defaultFee, defaultFee, defaultFee)).1,
      fc := (it.fees.getD (defaultFee, defaultFee, defaultFee)).2.1,
      fs := (it.fees.getD (defaultFee, defaultFee, defaultFee)).2.2,
      remote := canon it.remote }
  else
    { kind := it.kind, content := it.content, id := 0,
      gas := if it.elected == 0 then defaultGas else it.elected,
      fr := 0, fc := 0, fs := 0, remote := canon it.remote }

structure BBytes where
  nonce : Nat
  content : Nat
  remote : Nat
  gas : Nat
deriving DecidableEq, Repr

structure BConfirm where
  val : Nat
  /-- `EthSigner` string -/
  addr : Nat
  by_ : Nat
  for_ : BBytes
  wire : Wire := .canonical
deriving DecidableEq, Repr

structure Batch where
  nonce : Nat
  content : Nat
  remote : Nat
  gas : Nat := 0
  confirms : List BConfirm := []
deriving DecidableEq, Repr

/-- `InternalOutgoingTxBatch.GetCheckpoint` -/
def bbytes (b : Batch) : BBytes :=
  { nonce := b.nonce, content := b.content, remote := canon b.remote,
    gas := if b.gas == 0 then defaultGas else b.gas }

structure State where
  env : Env := {}
  /-- valset's external-chain-info store: validator ↦ registered accounts -/
  regs : List (Nat × List Account) := []
  /-- last id handed out by the id generator -/
  nextId : Nat := 0
  /-- queue in store order (ascending id) -/
  queue : List Item := []
  batches : List Batch := []
  /-- highest batch nonce handed out so far (`KeyLastOutgoingBatchID`) -/
  lastNonce : Nat := 0
deriving Repr

def getItem (q : List Item) (id : Nat) : Option Item := q.find? (fun it => it.id == id)

def setItem (q : List Item) (it' : Item) : List Item := q.map (fun it => if it.id == it'.id then it' else it)

/-! ### registration of external accounts (`SetExternalChainInfoState`) -/

/-- another validator already holds an account on the same chain with the same address *string*
    or the same key *bytes* -/
def collides (regs : List (Nat × List Account)) (val : Nat) (accts : List Account) : Bool :=
  regs.any fun r => r.1 != val &&
    r.2.any fun e => accts.any fun n => n.chain == e.chain && (n.addr == e.addr || n.raw == e.raw)

def upsert {α} (l : List (Nat × α)) (k : Nat) (v : α) : List (Nat × α) :=
  if l.any (fun p => p.1 == k) then l.map (fun p => if p.1 == k then (k, v) else p) else l ++ [(k, v)]

def register (s : State) (val : Nat) (accts : List Account) : State × Bool :=
  if collides s.regs val accts then (s, false)
  else ({ s with regs := upsert s.regs val accts }, true)

/-! ### enqueue -/

/-- only the fee-paying actions (SubmitLogicCall, UploadUserSmartContract) have a `SenderAddress`
    field at all; for UpdateValset / CompassHandover the sender is empty (0) whatever the caller says -/
def senderOf (kind : Kind) (sender : Nat) : Nat := if kind.feePayer then sender else 0

/-- the message `Queue.Put` stores under a fresh id -/
def newItem (id : Nat) (kind : Kind) (content sender assignee remote : Nat) (reqEst : Bool) : Item :=
  { id := id, kind := kind, content := content, sender := senderOf kind sender,
    assignee := assignee, remote := remote, reqEst := reqEst }

/-- `Queue.Put` without `MsgIDToReplace`.  This is the keeper-level entry point: assignee and relayer
    address are whatever the caller passes.  Every producer of a turnstone message in x/evm
    (`AddSmartContractExecutionToConsensus`, `AddUploadUserSmartContractToConsensus`,
    `scheduleCompassHandover`, `PublishValsetToChain`, …) calls `PickValidatorForMessage` first and
    passes its result — that composition is `enqueue`. -/
def put (s : State) (kind : Kind) (content sender assignee remote : Nat) (reqEst : Bool) : State × Nat :=
  ({ s with nextId := s.nextId + 1,
            queue := s.queue ++ [newItem (s.nextId + 1) kind content sender assignee remote reqEst] },
   s.nextId + 1)

/-- `AddSmartContractExecutionToConsensus` / `AddUploadUserSmartContractToConsensus`: pick, then put
    with gas estimation required; a failed pick enqueues nothing. -/
def enqueue (s : State) (kind : Kind) (content sender : Nat) (mev : Bool) (ts : Nat) : State × Option (Nat × Nat × Nat) :=
  match pick s.env mev ts with
  | none => (s, none)
  | some vr => ((put s kind content sender vr.1 vr.2 true).1, some (s.nextId + 1, vr.1, vr.2))

/-! ### signatures -/

inductive SignRes where
  | ok | notFound | noKey | dupKey | dupVal | badSig
deriving DecidableEq, Repr

/-- `valset.GetSigningKey` -/
def signingKey (regs : List (Nat × List Account)) (val addr : Nat) : Option Nat :=
  match assoc? regs val with
  | none => none
  | some accts => (accts.find? (fun a => a.chain == targetChain && a.addr == addr)).map (·.raw)

/-- the duplicate loop of `AddSignature`: per stored signature, key first, then validator -/
def dupCheck : List Sig → Nat → Nat → Option SignRes
  | [], _, _ => none
  | s :: rest, key, val =>
    if s.key == key then some .dupKey
    else if s.val == val then some .dupVal
    else dupCheck rest key val

/-- the queue's `VerifySignature`: only the canonical 20-byte spelling of the key bytes is accepted
    (`key % 4 == 0`), `crypto.Ecrecover` runs over the submitted bytes as they are (`w.strict`) and the
    recovered account equals `BytesToAddress(key)`.  `by_ = 0` stands for "bytes that are a signature by
    no key anybody holds" (random bytes): the account they recover to is nobody's, so it never equals
    a registered one — account 0 is reserved for this. -/
def verifies (w : Wire) (key by_ : Nat) (for_ cur : SignBytes) : Bool :=
  w.strict && key % 4 == 0 && by_ != 0 && by_ == canon key && for_ == cur

/-- `VerifySignature` before 23185e9f: any spelling of the key bytes verified -/
def verifiesPreFix (w : Wire) (key by_ : Nat) (for_ cur : SignBytes) : Bool :=
  w.strict && by_ != 0 && by_ == canon key && for_ == cur

def addSig (it : Item) (sg : Sig) : Item := { it with sigs := it.sigs ++ [sg] }

/-- `AddMessageSignature` for one message, with the queue's signature check `vf` -/
def signWith (vf : Wire → Nat → Nat → SignBytes → SignBytes → Bool) (s : State) (id val addr by_ : Nat) (for_ : SignBytes)
    (w : Wire) : State × SignRes :=
  match signingKey s.regs val addr with
  | none => (s, .noKey)
  | some key =>
    match getItem s.queue id with
    | none => (s, .notFound)
    | some it =>
      match dupCheck it.sigs key val with
      | some r => (s, r)
      | none =>
        if vf w key by_ for_ (bytesOf it) then
          ({ s with queue := setItem s.queue (addSig it ⟨val, addr, key, by_, for_, w⟩) }, .ok)
        else (s, .badSig)

def sign (s : State) (id val addr by_ : Nat) (for_ : SignBytes) (w : Wire := .canonical) : State × SignRes :=
  signWith verifies s id val addr by_ for_ w

/-! ### gas estimates, election, fee attachment -/

/-- `msgServer.AddMessageEstimates` (refuses a value below 1) + `Queue.AddGasEstimate` -/
def addEstimate (s : State) (id val value : Nat) : State × Bool :=
  match getItem s.queue id with
  | none => (s, false)
  | some it =>
    if value == 0 then (s, false)
    else if !it.reqEst then (s, false)
    else if it.estimates.any (fun e => e.1 == val) then (s, false)
    else ({ s with queue := setItem s.queue { it with estimates := it.estimates ++ [(val, value)] } }, true)

/-- `GetCombinedFeesForRelay` + `calculateFeesForEstimate`; `none` = error -/
def feesFor (env : Env) (assignee g : Nat) : Option (Nat × Nat × Nat) :=
  match assoc? env.fees assignee with
  | none => none
  | some m =>
    if m == 0 then none
    else if env.community == 0 || env.security == 0 then none
    else calcFees m env.community env.security g

def libSnap (snap : Snap) : Paloma.Libcons.Snapshot :=
  { vals := snap.vals.map (fun v => (v.id, v.share)), total := snap.total }

/-- `checkAndProcessEstimatedMessage` on a cached context: an error leaves the item untouched (the
    cache is dropped).  Election clears the signatures and, for fee payers, the message is replaced
    in place (same id, signatures stay cleared) with the fees filled in. -/
def electOne (env : Env) (snap : Snap) (it : Item) : Item :=
  if !it.reqEst then it
  else if it.estimates.isEmpty then it
  else if it.elected > 0 then it
  else
    match verifyGasEstimates (libSnap snap) it.estimates with
    | .notAchieved => it
    | .zero => it
    | .elected g =>
      if it.kind.feePayer then
        match feesFor env it.assignee g with
        | some f => { it with sigs := [], elected := g, fees := some f }
        | none => it
      else { it with sigs := [], elected := g }

/-- `CheckAndProcessEstimatedMessages`; `true` = no snapshot (the real code dereferences nil) -/
def endBlock (s : State) : State × Bool :=
  match s.env.snapshot with
  | none => (s, true)
  | some snap => ({ s with queue := s.queue.map (electOne s.env snap) }, false)

/-! ### delivery / error reports, evidence, removal -/

def setPublic (s : State) (id : Nat) : State × Bool :=
  match getItem s.queue id with
  | none => (s, false)
  | some it =>
    if it.pub then (s, true)
    else ({ s with queue := setItem s.queue { it with pub := true } }, true)

def setError (s : State) (id : Nat) : State × Bool :=
  match getItem s.queue id with
  | none => (s, false)
  | some it =>
    if it.err || it.pub then (s, true)
    else ({ s with queue := setItem s.queue { it with err := true } }, true)

def addEv (s : State) (id val h : Nat) : State × Bool :=
  match getItem s.queue id with
  | none => (s, false)
  | some it => ({ s with queue := setItem s.queue { it with evidence := addEvidence it.evidence (val, h) } }, true)

def remove (s : State) (id : Nat) : State × Bool :=
  match getItem s.queue id with
  | none => (s, false)
  | some _ => ({ s with queue := s.queue.filter (fun it => it.id != id) }, true)

/-- `Queue.ReassignValidator` (reached only from `Keeper.ReassignOrphanedMessages`, which has NO
    caller anywhere in /repo — no module, ABCI hook or message server uses it).  It rewrites assignee
    and relayer address and keeps `SignData`.  It is deliberately *not* an `Op`: it is unreachable
    code.  Props/C06.lean shows what it would do to the property if it were ever wired in.  (The harness does
    call the exported keeper method as a step of C14 / C04 histories: that is `reassign` at the end of this file.) -/
def reassignDead (s : State) (id assignee remote : Nat) : State :=
  match getItem s.queue id with
  | none => s
  | some it => { s with queue := setItem s.queue { it with assignee := assignee, remote := remote } }

/-! ### relaying (`GetMessagesForRelaying`) -/

/-- id of the first UpdateValset message in the queue (`GetPendingValsetUpdates()[0]`) -/
def pendingValset (q : List Item) : Option Nat := (q.find? (fun it => it.kind == .valset)).map (·.id)

/-- `IsNotBlockedByValset && IsUnprocessed` -/
def pass1 (pend : Option Nat) (it : Item) : Bool :=
  (match pend with | none => true | some p => it.id ≤ p) && (!it.pub && !it.err)

/-- messages the per-sender filter tracks: the fee-paying actions (SubmitLogicCall,
    UploadUserSmartContract) with a non-empty sender -/
def senderMsg (it : Item) : Bool := it.kind.feePayer && it.sender != 0

/-- the per-sender filter before be3dcb4f: SubmitLogicCall only -/
def senderMsgPreFix (it : Item) : Bool := it.kind == .slc && it.sender != 0

/-- `HasGasEstimate && IsAssignedTo` -/
def pass2 (v : Nat) (it : Item) : Bool := (!it.reqEst || it.elected > 0) && it.assignee == v

/-- the filter closure run over the queue in order, `lut` = senders already registered, `sm` = which
    messages the per-sender filter tracks.  The sender
    is registered as soon as the first two filters pass — before the estimate and assignee tests. -/
def relayAux (sm : Item → Bool) (pend : Option Nat) (v : Nat) : List Nat → List Item → List Nat
  | _, [] => []
  | lut, it :: rest =>
    if pass1 pend it then
      if sm it then
        if lut.contains it.sender then relayAux sm pend v lut rest
        else if pass2 v it then it.id :: relayAux sm pend v (it.sender :: lut) rest
        else relayAux sm pend v (it.sender :: lut) rest
      else if pass2 v it then it.id :: relayAux sm pend v lut rest
      else relayAux sm pend v lut rest
    else relayAux sm pend v lut rest

/-- `GetMessagesForRelaying` with per-sender predicate `sm` -/
def offeredWith (sm : Item → Bool) (q : List Item) (v : Nat) : List Nat := relayAux sm (pendingValset q) v [] q

def offered (q : List Item) (v : Nat) : List Nat := offeredWith senderMsg q v

/-- `defaultResponseMessageCount`: the query answers are cut to this many messages *after* filtering -/
def respCap : Nat := 1000

/-- what the `GetMessagesForRelaying` query returns: the first `respCap` of the offered messages.
    The filters — the pending validator-set update included — are evaluated over the whole queue,
    however long it is. -/
def offeredPage (q : List Item) (v : Nat) : List Nat := (offered q v).take respCap

/-! ### bridge batches -/

def getBatch (bs : List Batch) (n : Nat) : Option Batch := bs.find? (fun b => b.nonce == n)

def setBatch (bs : List Batch) (b' : Batch) : List Batch := bs.map (fun b => if b.nonce == b'.nonce then b' else b)

/-- `BuildOutgoingTXBatch`: the nonce comes from the auto-increment counter `KeyLastOutgoingBatchID`
    (`StoreBatch` is never called with a nonce that was handed out before, except by
    `UpdateBatchGasEstimate`, which is `updateBatchGas`).  The model takes the nonce as an input and
    expresses the counter as a freshness test: a nonce that is not above every earlier one creates
    nothing. -/
def putBatch (s : State) (nonce content remote : Nat) : State :=
  if nonce ≤ s.lastNonce then s
  else { s with batches := s.batches ++ [{ nonce := nonce, content := content, remote := remote }],
                lastNonce := nonce }

/-- `GetEthAddressByValidator`: first registered account on the chain -/
def ethAddrOf (regs : List (Nat × List Account)) (val : Nat) : Option Nat :=
  match assoc? regs val with
  | none => none
  | some accts => (chainAccount accts).map (·.addr)

inductive ConfRes where
  | ok | notFound | noAddr | mismatch | badSig | dup | dupKey
deriving DecidableEq, Repr

def addConfirm (b : Batch) (c : BConfirm) : Batch := { b with confirms := b.confirms ++ [c] }

/-- `ConfirmBatch`; `keyOnce = false` is the code before db2aad4e (no duplicate-key test) -/
def confirmWith (keyOnce : Bool) (s : State) (nonce val addr by_ : Nat) (for_ : BBytes) (w : Wire) : State × ConfRes :=
  match getBatch s.batches nonce with
  | none => (s, .notFound)
  | some b =>
    match ethAddrOf s.regs val with
    | none => (s, .noAddr)
    | some a =>
      if canon a != canon addr then (s, .mismatch)
      else if !(w.bridge && by_ != 0 && by_ == canon a && for_ == bbytes b) then (s, .badSig)
      else if b.confirms.any (fun c => c.val == val) then (s, .dup)
      else if keyOnce && b.confirms.any (fun c => canon c.addr == canon addr) then (s, .dupKey)
      else ({ s with batches := setBatch s.batches (addConfirm b ⟨val, addr, by_, for_, w⟩) }, .ok)

def confirm (s : State) (nonce val addr by_ : Nat) (for_ : BBytes) (w : Wire := .canonical) : State × ConfRes :=
  confirmWith true s nonce val addr by_ for_ w

/-- `UpdateBatchGasEstimate` -/
def updateBatchGas (s : State) (nonce g : Nat) : State × Bool :=
  match getBatch s.batches nonce with
  | none => (s, false)
  | some b =>
    if b.gas > 0 then (s, false)
    else ({ s with batches := setBatch s.batches { b with gas := g, confirms := [] } }, true)

/-! ### histories -/

inductive Op where
  | setEnv (e : Env)
  | register (val : Nat) (accts : List Account)
  | put (kind : Kind) (content sender assignee remote : Nat) (reqEst : Bool)
  | enqueue (kind : Kind) (content sender : Nat) (mev : Bool) (ts : Nat)
  | sign (id val addr by_ : Nat) (for_ : SignBytes) (w : Wire := .canonical)
  | addEstimate (id val value : Nat)
  | endBlock
  | setPublic (id : Nat)
  | setError (id : Nat)
  | addEvidence (id val h : Nat)
  | remove (id : Nat)
  | putBatch (nonce content remote : Nat)
  | confirm (nonce val addr by_ : Nat) (for_ : BBytes) (w : Wire := .canonical)
  | updateBatchGas (nonce g : Nat)

def apply (s : State) : Op → State
  | .setEnv e => { s with env := e }
  | .register v a => (register s v a).1
  | .put k c sd a r q => (put s k c sd a r q).1
  | .enqueue k c sd m t => (enqueue s k c sd m t).1
  | .sign id v a b f w => (sign s id v a b f w).1
  | .addEstimate id v x => (addEstimate s id v x).1
  | .endBlock => (endBlock s).1
  | .setPublic id => (setPublic s id).1
  | .setError id => (setError s id).1
  | .addEvidence id v h => (addEv s id v h).1
  | .remove id => (remove s id).1
  | .putBatch n c r => putBatch s n c r
  | .confirm n v a b f w => (confirm s n v a b f w).1
  | .updateBatchGas n g => (updateBatchGas s n g).1

def run (ops : List Op) : State := ops.foldl apply {}

/-- `n` blocks pass in which nothing is submitted: the consensus end blocker runs `n` times.  (Its other
    parts do not touch what this model holds: attestation needs evidence, pruning needs a message older
    than 300 blocks, and `ReassignOrphanedMessages` is not called by it — see `reassignDead`.) -/
def idleBlocks (s : State) (n : Nat) : State := (List.replicate n Op.endBlock).foldl apply s

/-! ### the keyed store of batch confirmations (`SetBatchConfirm` / `GetBatchConfirmByNonceAndTokenContract` /
`DeleteBatchConfirms`)

`Batch.confirms` above is the list of confirmations found under a batch.  The store itself is keyed:
`GetBatchConfirmKey(contract, nonce, orchestrator)`.  A stored `MsgConfirmBatch` names an `Orchestrator`
and carries the `Metadata.Creator` of the transaction that delivered it; `ConfirmBatch` never compares
the two (the eth signature authenticates a confirmation), so a confirmation may be delivered by any
account.  Write, duplicate test and delete all derive the key from the ORCHESTRATOR. -/

structure ConfRec where
  /-- `Orchestrator` (as validator id) -/
  val : Nat
  /-- `Metadata.Creator` -/
  creator : Nat
  /-- `EthSigner` string -/
  addr : Nat
deriving DecidableEq, Repr

/-- key `(nonce, account)` ↦ record -/
abbrev ConfStore := List ((Nat × Nat) × ConfRec)

/-- `SetBatchConfirm`: stored under the key of the record's orchestrator -/
def setBatchConfirm (st : ConfStore) (nonce : Nat) (r : ConfRec) : ConfStore :=
  st.filter (fun e => e.1 != (nonce, r.val)) ++ [((nonce, r.val), r)]

/-- `GetBatchConfirmByNonceAndTokenContract`: prefix iteration over one batch -/
def confirmsOf (st : ConfStore) (nonce : Nat) : List ConfRec := (st.filter (fun e => e.1.1 == nonce)).map (·.2)

/-- `DeleteBatchConfirms`: every record found under the batch is deleted under the key derived from it
    by `keyOf` -/
def deleteBatchConfirmsBy (keyOf : ConfRec → Nat) (st : ConfStore) (nonce : Nat) : ConfStore :=
  (confirmsOf st nonce).foldl (fun acc r => acc.filter (fun e => e.1 != (nonce, keyOf r))) st

/-- the code that exists: the key is derived from the orchestrator, like the write -/
def deleteBatchConfirms (st : ConfStore) (nonce : Nat) : ConfStore := deleteBatchConfirmsBy (·.val) st nonce

/-! ### what an offer carries (C14: "offered … only once its gas estimate is elected", with the fees of the formula) -/

/-- the offered page of validator `v` together with what each offered message carries: elected gas
    estimate and attached fees -/
def offeredCarrying (q : List Item) (v : Nat) : List (Nat × Nat × Option (Nat × Nat × Nat)) :=
  (offeredPage q v).filterMap fun id => (getItem q id).map fun it => (it.id, it.elected, it.fees)

/-- NOT the code that exists: a `mul` closure that range-checks the truncated quotient first and rounds up
    afterwards on the `uint64` (the increment wraps).  Used only by the negation witness
    `narrow_before_rounding_breaks_formula` in Props/C14.lean: it shows that the fee theorems are sensitive to
    the order "round, then range-check" exactly on the products in `(2^64 − 1, 2^64)`. -/
def mulFeeNarrowFirst (m : Int) (v : Nat) : Option Nat :=
  if m < 0 then none
  else
    match toU64 (Int.tdiv (m * (v : Int)) P) with
    | none => none
    | some q => some (if Int.tmod (m * (v : Int)) P > 0 then (q + 1) % U64 else q)

/-! ### several chains of one chain type, several signatures per request (C06)

`State` holds ONE queue (the turnstone queue of `targetChain`).  Every active chain of the chain type has such a
queue (`SupportedQueues` iterates the chain infos), the message ids of all of them come from one counter, and ONE
`MsgAddMessagesSignatures` carries a LIST of signatures, each naming its queue; `Keeper.AddMessageSignature`
loops over them: `getConsensusQueue`, `valset.GetSigningKey(validator, chain OF THAT QUEUE, claimed address)`,
`Queue.AddSignature`.  The message handler runs on a cached context, so a failing entry discards the request. -/

/-- `valset.GetSigningKey` for a given chain (`signingKey` is the instance for `targetChain`) -/
def signingKeyOn (chain : Nat) (regs : List (Nat × List Account)) (val addr : Nat) : Option Nat :=
  match assoc? regs val with
  | none => none
  | some accts => (accts.find? (fun a => a.chain == chain && a.addr == addr)).map (·.raw)

/-- the registry and the turnstone queues of the chains of one chain type: chain ↦ queue (`none` = the chain
    has no queue: it is not an active chain) -/
structure MultiQ where
  regs : List (Nat × List Account) := []
  queues : Nat → Option (List Item) := fun _ => none

def queueOf (w : MultiQ) (chain : Nat) : Option (List Item) := w.queues chain

def setQueue (w : MultiQ) (chain : Nat) (q : List Item) : MultiQ :=
  { w with queues := fun c => if c = chain then some q else w.queues c }

/-- one `ConsensusMessageSignature` of a request: queue (as its chain), message id, claimed address, and —
    as in `Sig` — who really made the signature, over what, in which byte form -/
structure SigEntry where
  chain : Nat
  id : Nat
  addr : Nat
  by_ : Nat
  for_ : SignBytes
  wire : Wire := .canonical
deriving DecidableEq, Repr

/-- `Queue.AddSignature` on one queue with the key the caller fetched: message look-up, duplicate loop,
    `VerifySignature`, store -/
def storeSigned (q : List Item) (val key : Nat) (e : SigEntry) : List Item × SignRes :=
  match getItem q e.id with
  | none => (q, .notFound)
  | some it =>
    match dupCheck it.sigs key val with
    | some r => (q, r)
    | none =>
      if verifies e.wire key e.by_ e.for_ (bytesOf it) then
        (setItem q (addSig it ⟨val, e.addr, key, e.by_, e.for_, e.wire⟩), .ok)
      else (q, .badSig)

/-- where the loop takes the signing key of an entry from.  `memo = false` is the code that exists: a
    `GetSigningKey` call per entry, for the chain of the entry's queue.  `memo = true` is a variant that
    remembers, within one request, the key fetched for a claimed address string whatever chain it was
    fetched for (used only by a negation witness in Props/C06.lean). -/
def keyFor (memo : Bool) (cache : List (Nat × Nat)) (w : MultiQ) (val : Nat) (e : SigEntry) : Option Nat :=
  if memo then
    match assoc? cache e.addr with
    | some k => some k
    | none => signingKeyOn e.chain w.regs val e.addr
  else signingKeyOn e.chain w.regs val e.addr

/-- the loop of `Keeper.AddMessageSignature`; stops at the first entry that fails (an unknown queue is
    reported as `notFound`) -/
def signLoop (memo : Bool) (val : Nat) : List (Nat × Nat) → MultiQ → List SigEntry → MultiQ × SignRes
  | _, w, [] => (w, .ok)
  | cache, w, e :: rest =>
    match queueOf w e.chain with
    | none => (w, .notFound)
    | some q =>
      match keyFor memo cache w val e with
      | none => (w, .noKey)
      | some key =>
        if (storeSigned q val key e).2 == .ok then
          signLoop memo val ((e.addr, key) :: cache) (setQueue w e.chain (storeSigned q val key e).1) rest
        else (w, (storeSigned q val key e).2)

/-- one `MsgAddMessagesSignatures` of validator `val`: all entries are stored, or none -/
def signRequestWith (memo : Bool) (w : MultiQ) (val : Nat) (es : List SigEntry) : MultiQ × SignRes :=
  if (signLoop memo val [] w es).2 == .ok then signLoop memo val [] w es
  else (w, (signLoop memo val [] w es).2)

def signRequest (w : MultiQ) (val : Nat) (es : List SigEntry) : MultiQ × SignRes := signRequestWith false w val es

/-- `PutMessageInQueue` on the queue of `chain` with the id the shared counter hands out -/
def putOn (w : MultiQ) (chain id : Nat) (kind : Kind) (content sender assignee remote : Nat) (reqEst : Bool) : MultiQ :=
  setQueue w chain ((queueOf w chain).getD [] ++ [newItem id kind content sender assignee remote reqEst])

/-- histories of a world of several chains: registration, enqueueing on any chain, requests of any length -/
inductive MQOp where
  | register (val : Nat) (accts : List Account)
  | put (chain : Nat) (kind : Kind) (content sender assignee remote : Nat) (reqEst : Bool)
  | request (val : Nat) (es : List SigEntry)

structure MQState where
  w : MultiQ := {}
  nextId : Nat := 0

def mqapply (s : MQState) : MQOp → MQState
  | .register v a =>
    if collides s.w.regs v a then s else { s with w := { s.w with regs := upsert s.w.regs v a } }
  | .put c k ct sd a r q => { w := putOn s.w c (s.nextId + 1) k ct sd a r q, nextId := s.nextId + 1 }
  | .request v es => { s with w := (signRequest s.w v es).1 }

def mqrun (ops : List MQOp) : MQState := ops.foldl mqapply {}

/-! ### assignments other than the first one (C14 / C04): reassignment of stale messages, retry of a failed logic call

`Keeper.ReassignOrphanedMessages` has no caller in /repo (see `reassignDead`), but it is an exported keeper
method and the harness calls it as a step of a history.  What the JOB demands (the MEV requirement the
scheduler put on it, whether retries are left) is an input of these steps, told by whoever created the job
— not read back from the stored message: `JobFlags` = `(message id, MEV demanded, retries left)`. -/

abbrev JobFlags := List (Nat × Bool × Bool)

def mevDemanded (flags : JobFlags) (id : Nat) : Bool := ((assoc? flags id).map (·.1)).getD false

def retryLeft (flags : JobFlags) (id : Nat) : Bool := ((assoc? flags id).map (·.2)).getD false

/-- `Queue.ReassignValidator` + `Message.SetAssignee`: assignee and relayer address are overwritten, nothing
    else of the queued message is (elected estimate, estimates, fees, signatures, evidence stay). -/
def handTo (it : Item) (vr : Nat × Nat) : Item := { it with assignee := vr.1, remote := vr.2 }

/-- the loop of `ReassignOrphanedMessages` over one queue: `stale` = ids of the messages older than the block
    age (an input: the model has no block heights).  Messages with a delivery or error report are skipped; for
    every other stale message `PickValidatorForMessage` runs with the requirements derived from the job, over the
    CURRENT environment, and its answer — validator and that validator's account in the current snapshot — is
    written whoever held the message before (the pool does not exclude the current assignee).  A failing pick
    ends the loop with an error (`false`); what was reassigned before stays. -/
def reassignAux (env : Env) (ts : Nat) (flags : JobFlags) : List Item → List Item × Bool
  | [] => ([], true)
  | it :: rest =>
    if (assoc? flags it.id).isSome && !it.pub && !it.err then
      match pick env (mevDemanded flags it.id) ts with
      | none => (it :: rest, false)
      | some vr => (handTo it vr :: (reassignAux env ts flags rest).1, (reassignAux env ts flags rest).2)
    else (it :: (reassignAux env ts flags rest).1, (reassignAux env ts flags rest).2)

def reassign (s : State) (ts : Nat) (flags : JobFlags) : State × Bool :=
  ({ s with queue := (reassignAux s.env ts flags s.queue).1 }, (reassignAux s.env ts flags s.queue).2)

/-- one message of `CheckAndProcessAttestedMessages` whose evidence is `SmartContractExecutionErrorProof`s on a
    SubmitLogicCall (`submitLogicCallAttester.attemptRetry`): without a 2/3 winner nothing happens; with one the
    message leaves the queue and, when retries are left, the SAME job (payload, sender, requirements) is enqueued
    again through the relayer pick (`AddSmartContractExecutionToConsensus`); a failing pick enqueues nothing.
    Other kinds just leave the queue (their attesters are C07's subject; the harness attests logic calls only). -/
def attestOne (ts : Nat) (flags : JobFlags) (s : State) (it : Item) : State :=
  if it.evidence.isEmpty then s
  else
    match s.env.snapshot with
    | none => s
    | some snap =>
      match Paloma.Libcons.verifyEvidence (libSnap snap) it.evidence with
      | .notAchieved => s
      | .winnerIn _ =>
        if it.kind == .slc && retryLeft flags it.id then
          (enqueue (remove s it.id).1 .slc it.content it.sender (mevDemanded flags it.id) ts).1
        else (remove s it.id).1

/-- `CheckAndProcessAttestedMessages`: the messages are read once, then processed in order -/
def attest (s : State) (ts : Nat) (flags : JobFlags) : State := s.queue.foldl (attestOne ts flags) s

/-- NOT the code that exists: `SetAssignee` with an early exit when the validator stays the same (the relayer
    address is then not refreshed).  Used only by a negation witness in Props/C14.lean. -/
def handToKeepSame (it : Item) (vr : Nat × Nat) : Item := if it.assignee == vr.1 then it else handTo it vr

end Paloma.Queue
