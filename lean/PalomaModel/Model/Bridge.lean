/-
Model of the Skyway outbound/inbound bridge life-cycle:
  x/skyway/keeper/pool.go      AddToOutgoingPool, RemoveFromOutgoingPoolAndRefund
  x/skyway/keeper/batch.go     BuildOutgoingTXBatch, CancelOutgoingTXBatch, OutgoingTxBatchExecuted,
                               UpdateBatchGasEstimate
  x/skyway/keeper/keeper.go    bridgeTaxAmount, UpdateBridgeTransferUsageWithLimit, SetBridgeTax
  x/skyway/keeper/evidence.go  checkBadSignatureEvidenceInternal
  x/evm/keeper/keeper.go       GetValidatorAddressByEthAddress;  x/valset/keeper/keeper.go  SetExternalChainInfoState
  x/skyway/keeper/attestation_handler.go  handleSendToPaloma, handleBatchSendToRemote
  x/skyway/abci.go             createBatch, attestationTally (single fully-voted claim per nonce),
                               processGasEstimates, cleanupTimedOutBatches

Every step mirrors the Go statement order as far as collaborator calls are concerned: a step
threads a `Fault` (which calls of which collaborator class fail) and *ticks* it at each call site in
source order.  Every step is "guards, then one effect function" (`sendOk`, `cancelOk`, `buildOk`, …):
the effect function is what a successful operation does to the state; a rejected operation returns the
state it was given.  Message-level steps (`send`, `cancel`) are atomic because baseapp runs a message
in a cached store; keeper functions wrapped in `CacheContext()`+commit-on-nil are atomic by themselves.

Core Lean only.  Users, tokens, ids, validators, remote keys are naturals; amounts are unbounded `Nat`
with the `sdkmath.Int` 256-bit overflow panic made explicit.
-/
namespace Paloma.Bridge

/-! ### collaborator call classes and fault injection -/

/-- 1 evm.chaininfo, 2 evm.pick, 3 evm.ethaddr, 4 bank.lock, 5 bank.send, 6 bank.pool,
    7 bank.mint, 8 bank.burn -/
abbrev Target := Nat
def tChainInfo : Target := 1
def tPick : Target := 2
def tEthAddr : Target := 3
def tLock : Target := 4
def tSend : Target := 5
def tPool : Target := 6
def tMint : Target := 7
def tBurn : Target := 8

/-- A fault *sequence*: every `(class, n)` in `points` makes the `n`-th call (1-based) of that
    collaborator class fail; `seen` records the calls made so far.  `points = []` is a fault-free run,
    one point is what the `verif` hook of /repo injects, several points are several failures within
    one operation (e.g. within one end-block). -/
structure Fault where
  points : List (Target × Nat)
  seen : List Target := []
deriving Repr

def Fault.none : Fault := { points := [] }

/-- the `nth` call of class `t` fails -/
def Fault.at (t : Target) (nth : Nat) : Fault := { points := [(t, nth)] }

/-- one collaborator call of class `t`: returns the updated call record and whether this call fails -/
def Fault.tick (f : Fault) (t : Target) : Fault × Bool :=
  ({ f with seen := t :: f.seen }, t != 0 && f.points.contains (t, (t :: f.seen).count t))

/-! ### state -/

structure Tx where
  id : Nat
  sender : Nat
  token : Nat
  amount : Nat
  tax : Nat
deriving DecidableEq, Repr, Inhabited

def Tx.owed (t : Tx) : Nat := t.amount + t.tax

structure Batch where
  nonce : Nat
  token : Nat
  txs : List Tx
  timeout : Nat
  estimate : Nat
deriving Repr, DecidableEq

/-- a checkpoint `(token, nonce, estimate, content variant)`; variant 0 is the content the chain itself
    gave the batch, any other variant is a batch body the chain never stored (forged) -/
abbrev Ckpt := Nat × Nat × Nat × Nat

/-- the bytes the chain currently asks validators to sign for an open batch (`BytesToSign`) -/
def Batch.ckpt (b : Batch) : Ckpt := (b.token, b.nonce, b.estimate, 0)

/-- rate = num/den (`SetBridgeTax` refuses a rate `big.Rat` cannot parse, so `den > 0` in every stored
    setting: see `setTax`), exempt senders -/
structure TaxCfg where
  num : Nat
  den : Nat
  exempt : List Nat
deriving Repr, DecidableEq

/-- period in blocks (0 = `LimitPeriod_NONE`) -/
structure LimitCfg where
  period : Nat
  limit : Nat
  exempt : List Nat
deriving Repr, DecidableEq

structure Usage where
  start : Nat
  total : Nat
deriving Repr, DecidableEq

/-- the community pool is an ordinary balance holder in the model -/
def communityPool : Nat := 1000

/-- a claim every validator voted for (one per nonce; competing claims are C02's subject) -/
inductive Claim where
  | executed (token nonce ethHeight : Nat)
  | deposit (token amount : Nat) (receiver : Option Nat) (tokenKnown : Bool)
deriving Repr, DecidableEq

inductive Res where
  | ok
  | noop      -- nothing to do (e.g. empty batch build)
  | rejected  -- the operation reported failure
deriving Repr, DecidableEq

structure St where
  pool : List Tx
  batches : List Batch
  bal : Nat → Nat → Nat
  escrow : Nat → Nat
  supply : Nat → Nat
  lastTx : Nat
  lastBatch : Nat
  tax : Nat → Option TaxCfg
  limit : Nat → Option LimitCfg
  usage : Nat → Option Usage
  /-- archived checkpoints (PastEthSignatureCheckpoint) -/
  archive : List Ckpt
  /-- `(validator, remote key)`: the key each validator registered for the bridge's chain
      (valset external chain infos, read through `GetValidatorAddressByEthAddress`) -/
  keys : List (Nat × Nat)
  /-- jailed validators (the staking jailed flag): written by bad-signature evidence here; Props/C13.lean
      adds every other jailing mechanism (`Op13.jail`, prune-time jailing of the world machine) to the
      same set, which `registerKey` consults -/
  jailed : List Nat
  lastObserved : Nat
  claims : List (Nat × Claim)
  /- History logs: written, never read by any step.  Each is tied to the op history / the executable
     state by theorems of Props/C01.lean (`accepted_provenance`, `accepted_forever`, `refunded_provenance`,
     `fundLog_eq`, `user_ledger`, `minted_eq_applied`, `applied_once_in_order`, `credits_from_deposit_claims`,
     `burned_provenance`, `tally_results_are_log_flags`, `minted_without_faults`). -/
  accepted : List Tx
  refunded : List Tx
  burned : List Tx
  minted : Nat → Nat
  funded : Nat → Nat
  /-- `(user, token, amount)` of every `fund`, newest first -/
  fundLog : List (Nat × Nat × Nat)
  /-- `(holder, token, amount)` of every credit of freshly minted deposit coins, newest first -/
  creditLog : List (Nat × Nat × Nat)
  /-- `(nonce, claim, handler result)` of every claim the tally observed, newest first -/
  applied : List (Nat × Claim × Res)

def St.init : St :=
  { pool := [], batches := [], bal := fun _ _ => 0, escrow := fun _ => 0, supply := fun _ => 0,
    lastTx := 0, lastBatch := 0, tax := fun _ => none, limit := fun _ => none, usage := fun _ => none,
    archive := [], keys := [], jailed := [], lastObserved := 0, claims := [], accepted := [], refunded := [],
    burned := [], minted := fun _ => 0, funded := fun _ => 0, fundLog := [], creditLog := [], applied := [] }

def upd (f : Nat → Nat) (k v : Nat) : Nat → Nat := fun x => if x = k then v else f x
def upd2 (f : Nat → Nat → Nat) (u k v : Nat) : Nat → Nat → Nat :=
  fun a b => if a = u ∧ b = k then v else f a b
def updO {α} (f : Nat → Option α) (k : Nat) (v : Option α) : Nat → Option α :=
  fun x => if x = k then v else f x

def maxInt : Nat := 2 ^ 256

/-! ### tax and limits (C15) -/

/-- `bridgeTaxAmount`: `amount * num / den` truncated; 0 if no setting, zero rate or exempt sender -/
def taxOf (cfg : Option TaxCfg) (sender amt : Nat) : Nat :=
  match cfg with
  | none => 0
  | some c => if c.num == 0 then 0 else if c.exempt.contains sender then 0 else amt * c.num / c.den

/-- does `bridgeTaxAmount` hit the 256-bit overflow panic of `sdkmath.Int.Mul`? -/
def taxOverflows (cfg : Option TaxCfg) (sender amt : Nat) : Bool :=
  match cfg with
  | none => false
  | some c => if c.num == 0 then false else if c.exempt.contains sender then false
              else decide (amt * c.num ≥ maxInt)

/-- is the sender subject to the token's transfer limit? -/
def limitApplies (lim : Option LimitCfg) (sender : Nat) : Bool :=
  match lim with
  | none => false
  | some l => !(l.exempt.contains sender) && l.period != 0

/-- `UpdateBridgeTransferUsageWithLimit`: `none` = rejected, `some u` = usage to persist.
    (`h - u.start` is an `int64` subtraction in Go; it is only compared with a period `> 0`, where the
    truncated subtraction of `Nat` gives the same answer: `window_test_int` in Props/C15.lean.) -/
def limitStep (lim : Option LimitCfg) (usage : Option Usage) (sender amt h : Nat) : Option (Option Usage) :=
  match lim with
  | none => some usage
  | some l =>
    if l.exempt.contains sender then some usage
    else if l.period == 0 then some usage
    else
      let nu : Usage := match usage with
        | none => { start := h, total := amt }
        | some u => if h - u.start ≥ l.period then { start := h, total := amt }
                    else { start := u.start, total := u.total + amt }
      if nu.total > l.limit then none else some (some nu)

/-- `SetBridgeTax`: a rate that does not parse as a rational (denominator 0) is refused -/
def setTax (s : St) (tok : Nat) (c : Option TaxCfg) : St :=
  match c with
  | none => { s with tax := updO s.tax tok none }
  | some cfg => if cfg.den == 0 then s else { s with tax := updO s.tax tok (some cfg) }

/-- `SetBridgeTransferLimit` -/
def setLimit (s : St) (tok : Nat) (c : Option LimitCfg) : St := { s with limit := updO s.limit tok c }

/-! ### pool helpers -/

def insertDesc (t : Tx) : List Tx → List Tx
  | [] => [t]
  | x :: xs => if (x.amount < t.amount) || (x.amount == t.amount && x.id < t.id) then t :: x :: xs
               else x :: insertDesc t xs

/-- pool iteration order of `IterateUnbatchedTransactionsByContract`: key = contract‖amount‖id, reversed -/
def sortDesc : List Tx → List Tx
  | [] => []
  | t :: ts => insertDesc t (sortDesc ts)

def OutgoingTxBatchSize : Nat := 100

def findTx (l : List Tx) (id : Nat) : Option Tx := l.find? (fun t => t.id == id)

def findBatch (l : List Batch) (tok nonce : Nat) : Option Batch :=
  l.find? (fun b => b.token == tok && b.nonce == nonce)

def removeBatch (l : List Batch) (tok nonce : Nat) : List Batch :=
  l.filter (fun b => !(b.token == tok && b.nonce == nonce))

/-! ### message-level steps (atomic through baseapp's per-message cache) -/

/-- the transfer an accepted send records: the tax is the one computed *now* -/
def newTx (s : St) (u tok amt : Nat) : Tx :=
  { id := s.lastTx + 1, sender := u, token := tok, amount := amt, tax := taxOf (s.tax tok) u amt }

/-- effect of an accepted send -/
def sendOk (s : St) (u tok amt : Nat) (usage' : Option Usage) : St :=
  { s with pool := newTx s u tok amt :: s.pool,
           bal := upd2 s.bal u tok (s.bal u tok - (newTx s u tok amt).owed),
           escrow := upd s.escrow tok (s.escrow tok + (newTx s u tok amt).owed),
           lastTx := s.lastTx + 1,
           usage := updO s.usage tok usage',
           accepted := newTx s u tok amt :: s.accepted }

/-- `MsgSendToRemote` → `AddToOutgoingPool` at block height `h`. -/
def send (s : St) (f : Fault) (u tok amt h : Nat) : St × Fault × Res :=
  match limitStep (s.limit tok) (s.usage tok) u amt h with
  | none => (s, f, .rejected)
  | some usage' =>
    if taxOverflows (s.tax tok) u amt then (s, f, .rejected) else
    if amt + taxOf (s.tax tok) u amt ≥ maxInt then (s, f, .rejected) else
    if (f.tick tLock).2 then (s, (f.tick tLock).1, .rejected) else
    if amt = 0 then (s, (f.tick tLock).1, .rejected) else       -- sdk.Coins validation refuses a zero coin
    if s.bal u tok < amt + taxOf (s.tax tok) u amt then (s, (f.tick tLock).1, .rejected) else
    if (((f.tick tLock).1).tick tChainInfo).2 then (s, (((f.tick tLock).1).tick tChainInfo).1, .rejected) else
    (sendOk s u tok amt usage', (((f.tick tLock).1).tick tChainInfo).1, .ok)

/-- effect of a successful cancellation of the pooled transfer `t`: amount *and recorded tax* go back
    to `t.sender` -/
def cancelOk (s : St) (t : Tx) : St :=
  { s with pool := s.pool.filter (fun x => x.id != t.id),
           bal := upd2 s.bal t.sender t.token (s.bal t.sender t.token + t.owed),
           escrow := upd s.escrow t.token (s.escrow t.token - t.owed),
           refunded := t :: s.refunded }

/-- `MsgCancelSendToRemote` → `RemoveFromOutgoingPoolAndRefund`. -/
def cancel (s : St) (f : Fault) (u id : Nat) : St × Fault × Res :=
  if id < 1 then (s, f, .rejected) else
  match findTx s.pool id with
  | none => (s, f, .rejected)
  | some t =>
    if t.sender != u then (s, f, .rejected) else
    if (f.tick tSend).2 then (s, (f.tick tSend).1, .rejected) else
    if (((f.tick tSend).1).tick tChainInfo).2 then (s, (((f.tick tSend).1).tick tChainInfo).1, .rejected) else
    (cancelOk s t, (((f.tick tSend).1).tick tChainInfo).1, .ok)

/-! ### keeper-level steps (each wrapped in CacheContext + commit-on-success) -/

/-- the transfers a build for `tok` selects: the first `OutgoingTxBatchSize` in pool iteration order -/
def selectedFor (s : St) (tok : Nat) : List Tx :=
  (sortDesc (s.pool.filter (fun t => t.token == tok))).take OutgoingTxBatchSize

def newBatch (s : St) (tok time : Nat) : Batch :=
  { nonce := s.lastBatch + 1, token := tok, txs := selectedFor s tok, timeout := time + 600, estimate := 0 }

/-- effect of a successful batch build (stores the batch *and* archives its checkpoint) -/
def buildOk (s : St) (tok time : Nat) : St :=
  { s with pool := s.pool.filter (fun t => !(t.token == tok)) ++
                     (sortDesc (s.pool.filter (fun t => t.token == tok))).drop OutgoingTxBatchSize,
           batches := newBatch s tok time :: s.batches,
           lastBatch := s.lastBatch + 1,
           archive := (newBatch s tok time).ckpt :: s.archive }

/-- `BuildOutgoingTXBatch` for one token at block time `time` (seconds). -/
def buildOne (s : St) (f : Fault) (tok time : Nat) : St × Fault × Res :=
  if (selectedFor s tok).isEmpty then (s, f, .noop) else
  if (f.tick tChainInfo).2 then (s, (f.tick tChainInfo).1, .rejected) else
  if (((f.tick tChainInfo).1).tick tPick).2 then (s, (((f.tick tChainInfo).1).tick tPick).1, .rejected) else
  if ((((f.tick tChainInfo).1).tick tPick).1.tick tEthAddr).2 then
    (s, ((((f.tick tChainInfo).1).tick tPick).1.tick tEthAddr).1, .rejected) else
  (buildOk s tok time, ((((f.tick tChainInfo).1).tick tPick).1.tick tEthAddr).1, .ok)

/-- effect of a successful cancellation of the open batch `b` -/
def cancelBatchOk (s : St) (b : Batch) : St :=
  { s with pool := b.txs ++ s.pool, batches := removeBatch s.batches b.token b.nonce }

/-- `CancelOutgoingTXBatch`. -/
def cancelBatch (s : St) (f : Fault) (tok nonce : Nat) : St × Fault × Res :=
  match findBatch s.batches tok nonce with
  | none => (s, f, .rejected)
  | some b =>
    if (f.tick tChainInfo).2 then (s, (f.tick tChainInfo).1, .rejected) else
    (cancelBatchOk s b, (f.tick tChainInfo).1, .ok)

/-- effect of the attested execution of the open batch `b`: amount plus tax of its transfers is burned -/
def execOk (s : St) (b : Batch) : St :=
  { s with batches := removeBatch s.batches b.token b.nonce,
           escrow := upd s.escrow b.token (s.escrow b.token - (b.txs.map Tx.owed).sum),
           supply := upd s.supply b.token (s.supply b.token - (b.txs.map Tx.owed).sum),
           burned := b.txs ++ s.burned }

/-- `OutgoingTxBatchExecuted` (through `handleBatchSendToRemote`). -/
def execBatch (s : St) (f : Fault) (tok nonce ethHeight : Nat) : St × Fault × Res :=
  match findBatch s.batches tok nonce with
  | none => (s, f, .rejected)
  | some b =>
    if b.timeout ≤ ethHeight then (s, f, .rejected) else
    if (f.tick tBurn).2 then (s, (f.tick tBurn).1, .rejected) else
    -- the bank refuses to burn more than the module holds / more than exists
    if s.escrow b.token < (b.txs.map Tx.owed).sum || s.supply b.token < (b.txs.map Tx.owed).sum then
      (s, (f.tick tBurn).1, .rejected) else
    (execOk s b, (f.tick tBurn).1, .ok)

/-- `handleSendToPaloma` inside `processAttestation`'s cached context. -/
def depositMinted (s : St) (tok amt : Nat) : St :=
  { s with supply := upd s.supply tok (s.supply tok + amt),
           minted := upd s.minted tok (s.minted tok + amt) }

def creditTo (s : St) (who tok amt : Nat) : St :=
  { s with bal := upd2 s.bal who tok (s.bal who tok + amt),
           creditLog := (who, tok, amt) :: s.creditLog }

/-- effect of an applied deposit: `amt` is minted and credited to `who` (receiver or community pool) -/
def depositOk (s : St) (who tok amt : Nat) : St := creditTo (depositMinted s tok amt) who tok amt

/-- fallback of a deposit: the minted coins go to the community pool (`s` = state before the mint) -/
def depositToPool (s : St) (f : Fault) (tok amt : Nat) : St × Fault × Res :=
  if (f.tick tPool).2 then (s, (f.tick tPool).1, .rejected)
  else (depositOk s communityPool tok amt, (f.tick tPool).1, .ok)

def deposit (s : St) (f : Fault) (tok amt : Nat) (receiver : Option Nat) (tokenKnown : Bool) :
    St × Fault × Res :=
  if !tokenKnown then (s, f, .rejected) else
  if (f.tick tMint).2 then (s, (f.tick tMint).1, .rejected) else
  match receiver with
  | none => depositToPool s (f.tick tMint).1 tok amt
  | some r =>
    if (((f.tick tMint).1).tick tSend).2 then depositToPool s (((f.tick tMint).1).tick tSend).1 tok amt
    else (depositOk s r tok amt, (((f.tick tMint).1).tick tSend).1, .ok)

/-- effect of an elected gas estimate on the batch `(tok, nonce)`: the batch's signing bytes change and
    the re-issued checkpoint is archived (the C13 repair) -/
def estimateOk (s : St) (tok nonce est : Nat) : St :=
  { s with batches := s.batches.map (fun x => if x.token == tok && x.nonce == nonce then { x with estimate := est } else x),
           archive := (tok, nonce, est, 0) :: s.archive }

/-- `UpdateBatchGasEstimate`. -/
def setEstimate (s : St) (f : Fault) (tok nonce est : Nat) : St × Fault × Res :=
  match findBatch s.batches tok nonce with
  | none => (s, f, .rejected)
  | some b =>
    if b.estimate > 0 then (s, f, .rejected) else
    if (f.tick tChainInfo).2 then (s, (f.tick tChainInfo).1, .rejected) else
    (estimateOk s tok nonce est, (f.tick tChainInfo).1, .ok)

/-! ### validators' remote keys and bad-signature evidence (C13) -/

/-- `GetValidatorAddressByEthAddress`: the first validator (store order) that registered `key` -/
def lookupKey (keys : List (Nat × Nat)) (key : Nat) : Option Nat :=
  (keys.find? (fun p => p.2 == key)).map (·.1)

def setKey : List (Nat × Nat) → Nat → Nat → List (Nat × Nat)
  | [], v, k => [(v, k)]
  | p :: ps, v, k => if p.1 == v then (v, k) :: ps else p :: setKey ps v k

/-- valset `AddExternalChainInfo` for the bridge's chain: refused for a jailed validator
    (`CanAcceptValidator`) and when another validator already holds the key, otherwise the validator's
    registration is replaced -/
def registerKey (s : St) (v key : Nat) : St × Res :=
  if s.jailed.contains v then (s, .rejected) else
  if s.keys.any (fun p => p.1 != v && p.2 == key) then (s, .rejected)
  else ({ s with keys := setKey s.keys v key }, .ok)

/-- `MsgSubmitBadSignatureEvidence` → `checkBadSignatureEvidenceInternal`: `c` is the checkpoint of the
    submitted batch, `key` the remote key recovered from the signature over `c` (ECDSA recovery is
    trusted: the recovered key is the key that signed).  The validator is *looked up* in the registry. -/
def evidence (s : St) (c : Ckpt) (key : Nat) : St × Res :=
  if s.archive.contains c then (s, .rejected) else
  match lookupKey s.keys key with
  | none => (s, .rejected)
  | some v => if s.jailed.contains v then (s, .ok) else ({ s with jailed := v :: s.jailed }, .ok)

/-- coins arriving from outside the bridge (faucet / native mint) -/
def fund (s : St) (u tok amt : Nat) : St :=
  { s with bal := upd2 s.bal u tok (s.bal u tok + amt),
           supply := upd s.supply tok (s.supply tok + amt),
           funded := upd s.funded tok (s.funded tok + amt),
           fundLog := (u, tok, amt) :: s.fundLog }

/-! ### end-block composite (x/skyway/abci.go:EndBlocker) -/

/-- `createBatch`: every 50th block, one build per token in store order, stop at the first error -/
def createBatches (s : St) (f : Fault) (time : Nat) : List Nat → St × Fault × List Res
  | [] => (s, f, [])
  | tok :: rest =>
    let (s', f', r) := buildOne s f tok time
    if r == .rejected then (s', f', [r])
    else
      let (s'', f'', rs) := createBatches s' f' time rest
      (s'', f'', r :: rs)

def applyClaim (s : St) (f : Fault) : Claim → St × Fault × Res
  | .executed tok nonce h => execBatch s f tok nonce h
  | .deposit tok amt r known => deposit s f tok amt r known

/-- one observation of the tally: the cursor moves to the claim's nonce, the handler runs in its own
    cached context, and the observation is recorded whether or not the handler succeeded -/
def observe (s : St) (f : Fault) (n : Nat) (c : Claim) : St × Fault × Res :=
  ({ (applyClaim { s with lastObserved := n } f c).1 with
       applied := (n, c, (applyClaim { s with lastObserved := n } f c).2.2) ::
                    (applyClaim { s with lastObserved := n } f c).1.applied },
   (applyClaim { s with lastObserved := n } f c).2.1,
   (applyClaim { s with lastObserved := n } f c).2.2)

/-- `attestationTally` for fully-voted claims: apply the claim at `lastObserved+1`, advance the
    cursor whether or not the handler succeeded, emit the event (a failing `GetChainInfo` there
    aborts the rest of the tally with the state kept); fuel = number of stored claims. -/
def tally (s : St) (f : Fault) : Nat → St × Fault × List Res
  | 0 => (s, f, [])
  | fuel + 1 =>
    match s.claims.find? (fun c => c.1 == s.lastObserved + 1) with
    | none => (s, f, [])
    | some (n, c) =>
      let (s', f', r) := observe s f n c
      let (f'', fail) := f'.tick tChainInfo
      if fail then (s', f'', [r])
      else
        let (s'', f''', rs) := tally s' f'' fuel
        (s'', f''', r :: rs)

/-- `processGasEstimates`: for each batch (store order = descending (token, nonce)) whose
    validators all submitted `est`; errors are logged and the loop continues -/
def applyEstimates (s : St) (f : Fault) : List (Nat × Nat × Nat) → St × Fault × List Res
  | [] => (s, f, [])
  | (tok, nonce, est) :: rest =>
    let (s', f', r) := setEstimate s f tok nonce est
    let (s'', f'', rs) := applyEstimates s' f' rest
    (s'', f'', r :: rs)

def batchOrder (bs : List Batch) : List Batch :=
  let rec ins (b : Batch) : List Batch → List Batch
    | [] => [b]
    | x :: xs => if (x.token < b.token) || (x.token == b.token && x.nonce < b.nonce) then b :: x :: xs
                 else x :: ins b xs
  bs.foldr ins []

/-- `cleanupTimedOutBatches`: cancel each batch with `timeout < now`, stop at the first error -/
def timeouts (s : St) (f : Fault) (now : Nat) : List Batch → St × Fault × List Res
  | [] => (s, f, [])
  | b :: rest =>
    if b.timeout < now then
      let (s', f', r) := cancelBatch s f b.token b.nonce
      if r == .rejected then (s', f', [r])
      else
        let (s'', f'', rs) := timeouts s' f' now rest
        (s'', f'', r :: rs)
    else timeouts s f now rest

/-- the whole end-blocker at height `h`, block time `now`; `tokens` = registered tokens in store
    order, `ests` = batches for which a quorum of identical estimates is on record -/
def endBlock (s : St) (f : Fault) (h now : Nat) (tokens : List Nat) (ests : List (Nat × Nat × Nat)) :
    St × Fault × List Res :=
  let (s1, f1, r1) := if h % 50 == 0 then createBatches s f now tokens else (s, f, [])
  let (s2, f2, r2) := tally s1 f1 s1.claims.length
  let (s3, f3, r3) := applyEstimates s2 f2 ests
  let (s4, f4, r4) := timeouts s3 f3 now (batchOrder s3.batches)
  (s4, f4, r1 ++ r2 ++ r3 ++ r4)

/-- a fully-voted claim is stored under its nonce (first claim at a nonce wins) -/
def addClaim (s : St) (n : Nat) (c : Claim) : St :=
  if s.claims.any (fun x => x.1 == n) then s else { s with claims := s.claims ++ [(n, c)] }

/-- A chain export followed by an import of the bridge module's genesis (x/skyway/keeper/genesis.go), as it behaves: pool,
batches (with their checkpoints), tax and limit settings, the id counters and the oracle cursor come back; the per-token
window usage records (`BridgeTransferUsage`) are not part of the genesis state and are gone — every limit window starts
afresh — and so is the archive of issued checkpoints (`PastEthSignatureCheckpoint`): `InitGenesis` stores the exported
batches without archiving their checkpoints (known finding C13-archive-not-exported).  Not an `Op` of the history machine (the properties quantify over messages and blocks); the driver applies it for
the harness's `reimport` lines. -/
def reimport (s : St) : St := { s with usage := fun _ => none, archive := [] }

/-! ### deployments (compass upgrades) and what the chain publishes for signing (C13)

A batch's signing bytes are a digest over the batch AND the remote deployment's id (`SmartContractUniqueID`): they are
computed with the id in force when the batch is built or re-estimated, STORED in the batch (`BytesToSign`) and archived;
the queries validators poll (`LastPendingBatchRequestByAddr`, `BatchRequestByNonce`, `OutgoingTxBatches`,
`LastPendingBatchForGasEstimation`) hand out the stored bytes.  `ConfirmBatch` and the evidence handler re-derive the
digest from the batch with the id in force NOW.  `Dep` is that layer on top of `St` (whose `Ckpt` has no id). -/

/-- signing bytes as they are: `(deployment id in the pre-image, batch checkpoint)` -/
abbrev DCkpt := Nat × Ckpt

structure Dep where
  /-- the remote chain's current deployment id (`ChainInfo.SmartContractUniqueID`) -/
  cur : Nat := 1
  /-- every open batch with the deployment id its stored `BytesToSign` were computed with -/
  stored : List (Batch × Nat) := []
  /-- `PastEthSignatureCheckpoint`, with the deployment id of the pre-image -/
  arch : List DCkpt := []
  /-- batch confirmations `(validator, batch as it was when confirmed)`: a re-estimated batch is another value, its
      confirmations are gone (`UpdateBatchGasEstimate` → `DeleteBatchConfirms`) -/
  conf : List (Nat × Batch) := []
deriving Repr

def Dep.tagOf (d : Dep) (b : Batch) : Option Nat := (d.stored.find? (fun p => p.1 == b)).map (·.2)

/-- after any step of the bridge: a batch that is new or whose content changed (built, re-estimated) has had its bytes
    computed with the current id and archived; every other open batch keeps its stored bytes -/
def Dep.sync (d : Dep) (bs : List Batch) : Dep :=
  { d with stored := bs.map (fun b => (b, (d.tagOf b).getD d.cur)),
           arch := (bs.filter (fun b => (d.tagOf b).isNone)).map (fun b => (d.cur, b.ckpt)) ++ d.arch }

/-- everything the chain publishes for signing: the stored bytes of the open batches -/
def Dep.published (d : Dep) : List DCkpt := d.stored.map (fun p => (p.2, p.1.ckpt))

/-- `LastPendingBatchRequestByAddr`: the first open batch in store order that validator `v` has not confirmed, with its
    STORED bytes -/
def Dep.pendingFor (d : Dep) (bs : List Batch) (v : Nat) : Option (Batch × Nat) :=
  match (batchOrder bs).find? (fun b => !(d.conf.contains (v, b))) with
  | none => none
  | some b => some (b, (d.tagOf b).getD d.cur)

/-- `MsgConfirmBatch` by validator `v` with its registered key over the bytes `BatchRequestByNonce` publishes for batch
    `(tok, nonce)`: verified against the digest re-derived with the CURRENT id -/
def Dep.confirm (d : Dep) (bs : List Batch) (v tok nonce : Nat) : Dep × Res :=
  match findBatch bs tok nonce with
  | none => (d, .rejected)
  | some b =>
    if (d.tagOf b).getD d.cur != d.cur then (d, .rejected) else
    if d.conf.contains (v, b) then (d, .rejected) else
    ({ d with conf := (v, b) :: d.conf }, .ok)

/-- `checkBadSignatureEvidenceInternal` with the deployment id: `c` is the submitted batch, `signed` the bytes the
    submitted signature is really over, `key` the key that made it.  The handler derives the digest `(cur, c)`; an
    archived digest is refused; a signature over other bytes recovers to an address nobody registered (ECDSA trusted). -/
def evidenceD (s : St) (d : Dep) (c : Ckpt) (signed : DCkpt) (key : Nat) : St × Res :=
  if d.arch.contains (d.cur, c) then (s, .rejected) else
  if signed != (d.cur, c) then (s, .rejected) else
  match lookupKey s.keys key with
  | none => (s, .rejected)
  | some v => if s.jailed.contains v then (s, .ok) else ({ s with jailed := v :: s.jailed }, .ok)

/-! ### the contract registry of a remote chain (x/skyway/keeper/cosmos-originated.go)

A transfer is escrowed in a *denom* but recorded (pool key, batch key) under the *contract* the denom is bound to at
that moment; the refund (`RemoveFromOutgoingPoolAndRefund`) and the burn (`OutgoingTxBatchExecuted`) find the denom
again through the reverse entry of that contract.  Denoms and contracts are naturals. -/

/-- `DenomToERC20` / `ERC20ToDenom` entries of one remote chain: `erc d` is the contract new transfers of denom `d`
    are recorded under, `den c` the denom a transfer or batch recorded under contract `c` is refunded / burned in -/
structure Registry where
  erc : Nat → Option Nat
  den : Nat → Option Nat

def Registry.init : Registry := { erc := fun _ => none, den := fun _ => none }

/-- `setDenomToERC20`: both entries are written, nothing is ever deleted (the reverse entry of the contract the
    denom was bound to before stays) -/
def Registry.set (r : Registry) (d c : Nat) : Registry :=
  { erc := updO r.erc d (some c), den := updO r.den c (some d) }

/-- `MsgSetERC20ToTokenDenom`, also reached through the wasm binding `set_erc20_to_denom`: only for the denom's
    admin (`isAdmin` = the sender is the admin the token factory names), and only a contract without reverse entry -/
def Registry.bindAdmin (r : Registry) (isAdmin : Bool) (d c : Nat) : Registry × Res :=
  if !isAdmin then (r, .rejected) else
  if (r.den c).isSome then (r, .rejected) else
  (r.set d c, .ok)

/-- `SetERC20ToDenomProposal` / `MsgSetERC20MappingProposal`: unconditional -/
def Registry.bindGov (r : Registry) (d c : Nat) : Registry × Res := (r.set d c, .ok)

inductive RegOp where
  | admin (isAdmin : Bool) (d c : Nat)
  | gov (d c : Nat)
deriving Repr, DecidableEq

def Registry.apply (r : Registry) : RegOp → Registry
  | .admin a d c => (r.bindAdmin a d c).1
  | .gov d c => (r.bindGov d c).1

def Registry.run (r : Registry) (ops : List RegOp) : Registry := ops.foldl Registry.apply r

/-- the contract `AddToOutgoingPool` records a transfer of denom `d` under (`GetERC20OfDenom`) -/
def Registry.recordedUnder (r : Registry) (d : Nat) : Option Nat := r.erc d

/-- the denom a transfer (batch) recorded under contract `c` is refunded (burned) in (`GetDenomOfERC20`);
    `none` = the refund / the burn fails with "denom not found" -/
def Registry.paidIn (r : Registry) (c : Nat) : Option Nat := r.den c

end Paloma.Bridge
