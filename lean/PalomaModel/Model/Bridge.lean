/-
Model of the Skyway outbound/inbound bridge life-cycle:
  x/skyway/keeper/pool.go      AddToOutgoingPool, RemoveFromOutgoingPoolAndRefund
  x/skyway/keeper/batch.go     BuildOutgoingTXBatch, CancelOutgoingTXBatch, OutgoingTxBatchExecuted,
                               UpdateBatchGasEstimate
  x/skyway/keeper/keeper.go    bridgeTaxAmount, UpdateBridgeTransferUsageWithLimit
  x/skyway/keeper/attestation_handler.go  handleSendToPaloma, handleBatchSendToRemote
  x/skyway/abci.go             createBatch, attestationTally (single fully-voted claim per nonce),
                               processGasEstimates, cleanupTimedOutBatches

Every step mirrors the Go statement order as far as collaborator calls are concerned: a step
threads a `Fault` (which collaborator call class fails, and the how-many-th call of that class)
and *ticks* it at each call site in source order.  Message-level steps (`send`, `cancel`) are
atomic because baseapp runs a message in a cached store; keeper functions wrapped in
`CacheContext()`+commit-on-nil are atomic by themselves.

Core Lean only.  Users, tokens, ids are naturals; amounts are unbounded `Nat` with the
`sdkmath.Int` 256-bit overflow panic made explicit.
-/
namespace Paloma.Bridge

/-! ### collaborator call classes and fault injection -/

/-- 1 evm.chaininfo, 2 evm.pick, 3 evm.ethaddr, 4 bank.lock, 5 bank.send, 6 bank.pool,
    7 bank.mint, 8 bank.burn -/
abbrev Target := Nat
def tChainInfo : Target := 1
def tPick : Target := 2
def tEthAddr : Target := 3
def tLock : Target := 4
def tSend : Target := 5
def tPool : Target := 6
def tMint : Target := 7
def tBurn : Target := 8

/-- `target = 0` means no fault. The `nth` call (1-based) to `target` fails. -/
structure Fault where
  target : Target
  nth : Nat
  seen : Nat := 0
deriving Repr, DecidableEq

def Fault.none : Fault := { target := 0, nth := 0 }

/-- one collaborator call of class `t`: returns the updated counter and whether this call fails -/
def Fault.tick (f : Fault) (t : Target) : Fault × Bool :=
  if f.target == t && t != 0 then
    let f' := { f with seen := f.seen + 1 }
    (f', f'.seen == f.nth)
  else (f, false)

/-! ### state -/

structure Tx where
  id : Nat
  sender : Nat
  token : Nat
  amount : Nat
  tax : Nat
deriving DecidableEq, Repr, Inhabited

def Tx.owed (t : Tx) : Nat := t.amount + t.tax

structure Batch where
  nonce : Nat
  token : Nat
  txs : List Tx
  timeout : Nat
  estimate : Nat
deriving Repr, DecidableEq

/-- rate = num/den (den > 0, as `big.Rat` normalises), exempt senders -/
structure TaxCfg where
  num : Nat
  den : Nat
  exempt : List Nat
deriving Repr

/-- period in blocks (0 = `LimitPeriod_NONE`) -/
structure LimitCfg where
  period : Nat
  limit : Nat
  exempt : List Nat
deriving Repr

structure Usage where
  start : Nat
  total : Nat
deriving Repr, DecidableEq

/-- the community pool is an ordinary balance holder in the model -/
def communityPool : Nat := 1000

/-- a claim every validator voted for (one per nonce; competing claims are C02's subject) -/
inductive Claim where
  | executed (token nonce ethHeight : Nat)
  | deposit (token amount : Nat) (receiver : Option Nat) (tokenKnown : Bool)
deriving Repr, DecidableEq

structure St where
  pool : List Tx
  batches : List Batch
  bal : Nat → Nat → Nat
  escrow : Nat → Nat
  supply : Nat → Nat
  lastTx : Nat
  lastBatch : Nat
  tax : Nat → Option TaxCfg
  limit : Nat → Option LimitCfg
  usage : Nat → Option Usage
  /-- archived checkpoints `(token, nonce, estimate, content variant)` (PastEthSignatureCheckpoint);
      variant 0 is the content the chain itself gave the batch -/
  archive : List (Nat × Nat × Nat × Nat)
  /-- ghost: every checkpoint the chain ever published for signing (stored as a batch's BytesToSign) -/
  issued : List (Nat × Nat × Nat × Nat)
  /-- validators jailed through bad-signature evidence -/
  jailed : List Nat
  lastObserved : Nat
  claims : List (Nat × Claim)
  /-- ghost history -/
  accepted : List Tx
  refunded : List Tx
  burned : List Tx
  minted : Nat → Nat
  funded : Nat → Nat
  /-- ghost: amounts of the limited sends accepted in the token's current limit window -/
  winLog : Nat → List Nat

def St.init : St :=
  { pool := [], batches := [], bal := fun _ _ => 0, escrow := fun _ => 0, supply := fun _ => 0,
    lastTx := 0, lastBatch := 0, tax := fun _ => none, limit := fun _ => none, usage := fun _ => none,
    archive := [], issued := [], jailed := [], lastObserved := 0, claims := [], accepted := [], refunded := [], burned := [],
    minted := fun _ => 0, funded := fun _ => 0, winLog := fun _ => [] }

inductive Res where
  | ok
  | noop      -- nothing to do (e.g. empty batch build)
  | rejected  -- the operation reported failure
deriving Repr, DecidableEq

def upd (f : Nat → Nat) (k v : Nat) : Nat → Nat := fun x => if x = k then v else f x
def upd2 (f : Nat → Nat → Nat) (u k v : Nat) : Nat → Nat → Nat :=
  fun a b => if a = u ∧ b = k then v else f a b
def updO {α} (f : Nat → Option α) (k : Nat) (v : Option α) : Nat → Option α :=
  fun x => if x = k then v else f x

def maxInt : Nat := 2 ^ 256

/-! ### tax and limits (C15) -/

/-- `bridgeTaxAmount`: `amount * num / den` truncated; 0 if no setting, zero rate or exempt sender -/
def taxOf (cfg : Option TaxCfg) (sender amt : Nat) : Nat :=
  match cfg with
  | none => 0
  | some c => if c.num == 0 then 0 else if c.exempt.contains sender then 0 else amt * c.num / c.den

/-- does `bridgeTaxAmount` hit the 256-bit overflow panic of `sdkmath.Int.Mul`? -/
def taxOverflows (cfg : Option TaxCfg) (sender amt : Nat) : Bool :=
  match cfg with
  | none => false
  | some c => if c.num == 0 then false else if c.exempt.contains sender then false
              else decide (amt * c.num ≥ maxInt)

/-- `UpdateBridgeTransferUsageWithLimit`: `none` = rejected, `some u` = usage to persist -/
def limitApplies (lim : Option LimitCfg) (sender : Nat) : Bool :=
  match lim with
  | none => false
  | some l => !(l.exempt.contains sender) && l.period != 0

/-- does this send start a new window (no usage on record, or the old window has run out)? -/
def rollsOver (lim : Option LimitCfg) (usage : Option Usage) (h : Nat) : Bool :=
  match lim, usage with
  | some l, some u => decide (h - u.start ≥ l.period)
  | _, _ => true

def limitStep (lim : Option LimitCfg) (usage : Option Usage) (sender amt h : Nat) : Option (Option Usage) :=
  match lim with
  | none => some usage
  | some l =>
    if l.exempt.contains sender then some usage
    else if l.period == 0 then some usage
    else
      let nu : Usage := match usage with
        | none => { start := h, total := amt }
        | some u => if h - u.start ≥ l.period then { start := h, total := amt }
                    else { start := u.start, total := u.total + amt }
      if nu.total > l.limit then none else some (some nu)

/-! ### pool helpers -/

def insertDesc (t : Tx) : List Tx → List Tx
  | [] => [t]
  | x :: xs => if (x.amount < t.amount) || (x.amount == t.amount && x.id < t.id) then t :: x :: xs
               else x :: insertDesc t xs

/-- pool iteration order of `IterateUnbatchedTransactionsByContract`: key = contract‖amount‖id, reversed -/
def sortDesc : List Tx → List Tx
  | [] => []
  | t :: ts => insertDesc t (sortDesc ts)

def OutgoingTxBatchSize : Nat := 100

def findTx (l : List Tx) (id : Nat) : Option Tx := l.find? (fun t => t.id == id)

def findBatch (l : List Batch) (tok nonce : Nat) : Option Batch :=
  l.find? (fun b => b.token == tok && b.nonce == nonce)

def removeBatch (l : List Batch) (tok nonce : Nat) : List Batch :=
  l.filter (fun b => !(b.token == tok && b.nonce == nonce))

/-! ### message-level steps (atomic through baseapp's per-message cache) -/

/-- `MsgSendToRemote` → `AddToOutgoingPool` at block height `h`. -/
def send (s : St) (f : Fault) (u tok amt h : Nat) : St × Fault × Res :=
  match limitStep (s.limit tok) (s.usage tok) u amt h with
  | none => (s, f, .rejected)
  | some usage' =>
    if taxOverflows (s.tax tok) u amt then (s, f, .rejected) else
    let tax := taxOf (s.tax tok) u amt
    if amt + tax ≥ maxInt then (s, f, .rejected) else
    let f1 := (f.tick tLock).1
    let fail1 := (f.tick tLock).2
    if fail1 then (s, f1, .rejected) else
    if amt = 0 then (s, f1, .rejected) else       -- sdk.Coins validation refuses a zero coin
    if s.bal u tok < amt + tax then (s, f1, .rejected) else
    let f2 := (f1.tick tChainInfo).1
    let fail2 := (f1.tick tChainInfo).2
    if fail2 then (s, f2, .rejected) else
    let id := s.lastTx + 1
    let t : Tx := { id := id, sender := u, token := tok, amount := amt, tax := tax }
    ({ s with pool := t :: s.pool,
              bal := upd2 s.bal u tok (s.bal u tok - (amt + tax)),
              escrow := upd s.escrow tok (s.escrow tok + (amt + tax)),
              lastTx := id,
              usage := updO s.usage tok usage',
              accepted := t :: s.accepted,
              winLog := if limitApplies (s.limit tok) u then
                          (fun x => if x = tok then
                              (if rollsOver (s.limit tok) (s.usage tok) h then [amt] else amt :: s.winLog tok)
                            else s.winLog x)
                        else s.winLog }, f2, .ok)

/-- `MsgCancelSendToRemote` → `RemoveFromOutgoingPoolAndRefund`. -/
def cancel (s : St) (f : Fault) (u id : Nat) : St × Fault × Res :=
  if id < 1 then (s, f, .rejected) else
  match findTx s.pool id with
  | none => (s, f, .rejected)
  | some t =>
    if t.sender != u then (s, f, .rejected) else
    let f1 := (f.tick tSend).1
    let fail1 := (f.tick tSend).2
    if fail1 then (s, f1, .rejected) else
    let f2 := (f1.tick tChainInfo).1
    let fail2 := (f1.tick tChainInfo).2
    if fail2 then (s, f2, .rejected) else
    ({ s with pool := s.pool.filter (fun x => x.id != id),
              bal := upd2 s.bal u t.token (s.bal u t.token + t.owed),
              escrow := upd s.escrow t.token (s.escrow t.token - t.owed),
              refunded := t :: s.refunded }, f2, .ok)

/-! ### keeper-level steps (each wrapped in CacheContext + commit-on-success) -/

/-- `BuildOutgoingTXBatch` for one token at block time `time` (seconds). -/
def buildOne (s : St) (f : Fault) (tok time : Nat) : St × Fault × Res :=
  let mine := sortDesc (s.pool.filter (fun t => t.token == tok))
  let selected := mine.take OutgoingTxBatchSize
  if selected.isEmpty then (s, f, .noop) else
  let f1 := (f.tick tChainInfo).1
  let fail1 := (f.tick tChainInfo).2
  if fail1 then (s, f1, .rejected) else
  let f2 := (f1.tick tPick).1
  let fail2 := (f1.tick tPick).2
  if fail2 then (s, f2, .rejected) else
  let f3 := (f2.tick tEthAddr).1
  let fail3 := (f2.tick tEthAddr).2
  if fail3 then (s, f3, .rejected) else
  let nonce := s.lastBatch + 1
  let b : Batch := { nonce := nonce, token := tok, txs := selected, timeout := time + 600, estimate := 0 }
  ({ s with pool := s.pool.filter (fun t => !(t.token == tok)) ++ mine.drop OutgoingTxBatchSize,
            batches := b :: s.batches,
            lastBatch := nonce,
            archive := (tok, nonce, 0, 0) :: s.archive,
            issued := (tok, nonce, 0, 0) :: s.issued }, f3, .ok)

/-- `CancelOutgoingTXBatch`. -/
def cancelBatch (s : St) (f : Fault) (tok nonce : Nat) : St × Fault × Res :=
  match findBatch s.batches tok nonce with
  | none => (s, f, .rejected)
  | some b =>
    let f1 := (f.tick tChainInfo).1
    let fail1 := (f.tick tChainInfo).2
    if fail1 then (s, f1, .rejected) else
    ({ s with pool := b.txs ++ s.pool, batches := removeBatch s.batches tok nonce }, f1, .ok)

/-- `OutgoingTxBatchExecuted` (through `handleBatchSendToRemote`). -/
def execBatch (s : St) (f : Fault) (tok nonce ethHeight : Nat) : St × Fault × Res :=
  match findBatch s.batches tok nonce with
  | none => (s, f, .rejected)
  | some b =>
    if b.timeout ≤ ethHeight then (s, f, .rejected) else
    let total := (b.txs.map Tx.owed).sum
    let f1 := (f.tick tBurn).1
    let fail1 := (f.tick tBurn).2
    if fail1 then (s, f1, .rejected) else
    -- the bank refuses to burn more than the module holds / more than exists
    if s.escrow tok < total || s.supply tok < total then (s, f1, .rejected) else
    ({ s with batches := removeBatch s.batches tok nonce,
              escrow := upd s.escrow tok (s.escrow tok - total),
              supply := upd s.supply tok (s.supply tok - total),
              burned := b.txs ++ s.burned }, f1, .ok)

/-- `handleSendToPaloma` inside `processAttestation`'s cached context. -/
def depositMinted (s : St) (tok amt : Nat) : St :=
  { s with supply := upd s.supply tok (s.supply tok + amt),
           minted := upd s.minted tok (s.minted tok + amt) }

def creditTo (s : St) (who tok amt : Nat) : St :=
  { s with bal := upd2 s.bal who tok (s.bal who tok + amt) }

/-- fallback of a deposit: the minted coins go to the community pool (`s` = state before the mint) -/
def depositToPool (s : St) (f : Fault) (tok amt : Nat) : St × Fault × Res :=
  if (f.tick tPool).2 then (s, (f.tick tPool).1, .rejected)
  else (creditTo (depositMinted s tok amt) communityPool tok amt, (f.tick tPool).1, .ok)

def deposit (s : St) (f : Fault) (tok amt : Nat) (receiver : Option Nat) (tokenKnown : Bool) :
    St × Fault × Res :=
  if !tokenKnown then (s, f, .rejected) else
  if (f.tick tMint).2 then (s, (f.tick tMint).1, .rejected) else
  match receiver with
  | none => depositToPool s (f.tick tMint).1 tok amt
  | some r =>
    if (((f.tick tMint).1).tick tSend).2 then depositToPool s (((f.tick tMint).1).tick tSend).1 tok amt
    else (creditTo (depositMinted s tok amt) r tok amt, (((f.tick tMint).1).tick tSend).1, .ok)

/-- `UpdateBatchGasEstimate` (archives the re-issued checkpoint — the C13 repair). -/
def setEstimate (s : St) (f : Fault) (tok nonce est : Nat) : St × Fault × Res :=
  match findBatch s.batches tok nonce with
  | none => (s, f, .rejected)
  | some b =>
    if b.estimate > 0 then (s, f, .rejected) else
    let f1 := (f.tick tChainInfo).1
    let fail1 := (f.tick tChainInfo).2
    if fail1 then (s, f1, .rejected) else
    ({ s with batches := s.batches.map (fun x => if x.token == tok && x.nonce == nonce then { x with estimate := est } else x),
              archive := (tok, nonce, est, 0) :: s.archive,
              issued := (tok, nonce, est, 0) :: s.issued }, f1, .ok)

/-- `MsgSubmitBadSignatureEvidence` → `checkBadSignatureEvidenceInternal`: `c` is the checkpoint of the
    submitted batch, `signer` the validator whose registered remote key signed it (if any). -/
def evidence (s : St) (c : Nat × Nat × Nat × Nat) (signer : Option Nat) : St × Res :=
  if s.archive.contains c then (s, .rejected) else
  match signer with
  | none => (s, .rejected)
  | some v => if s.jailed.contains v then (s, .ok) else ({ s with jailed := v :: s.jailed }, .ok)

/-- coins arriving from outside the bridge (faucet / native mint) -/
def fund (s : St) (u tok amt : Nat) : St :=
  { s with bal := upd2 s.bal u tok (s.bal u tok + amt),
           supply := upd s.supply tok (s.supply tok + amt),
           funded := upd s.funded tok (s.funded tok + amt) }

/-! ### end-block composite (x/skyway/abci.go:EndBlocker) -/

/-- `createBatch`: every 50th block, one build per token in store order, stop at the first error -/
def createBatches (s : St) (f : Fault) (time : Nat) : List Nat → St × Fault × List Res
  | [] => (s, f, [])
  | tok :: rest =>
    let (s', f', r) := buildOne s f tok time
    if r == .rejected then (s', f', [r])
    else
      let (s'', f'', rs) := createBatches s' f' time rest
      (s'', f'', r :: rs)

def applyClaim (s : St) (f : Fault) : Claim → St × Fault × Res
  | .executed tok nonce h => execBatch s f tok nonce h
  | .deposit tok amt r known => deposit s f tok amt r known

/-- `attestationTally` for fully-voted claims: apply the claim at `lastObserved+1`, advance the
    cursor whether or not the handler succeeded, emit the event (a failing `GetChainInfo` there
    aborts the rest of the tally with the state kept); fuel = number of stored claims. -/
def tally (s : St) (f : Fault) : Nat → St × Fault × List Res
  | 0 => (s, f, [])
  | fuel + 1 =>
    match s.claims.find? (fun c => c.1 == s.lastObserved + 1) with
    | none => (s, f, [])
    | some (n, c) =>
      let (s', f', r) := applyClaim { s with lastObserved := n } f c
      let (f'', fail) := f'.tick tChainInfo
      if fail then (s', f'', [r])
      else
        let (s'', f''', rs) := tally s' f'' fuel
        (s'', f''', r :: rs)

/-- `processGasEstimates`: for each batch (store order = descending (token, nonce)) whose
    validators all submitted `est`; errors are logged and the loop continues -/
def applyEstimates (s : St) (f : Fault) : List (Nat × Nat × Nat) → St × Fault × List Res
  | [] => (s, f, [])
  | (tok, nonce, est) :: rest =>
    let (s', f', r) := setEstimate s f tok nonce est
    let (s'', f'', rs) := applyEstimates s' f' rest
    (s'', f'', r :: rs)

def batchOrder (bs : List Batch) : List Batch :=
  let rec ins (b : Batch) : List Batch → List Batch
    | [] => [b]
    | x :: xs => if (x.token < b.token) || (x.token == b.token && x.nonce < b.nonce) then b :: x :: xs
                 else x :: ins b xs
  bs.foldr ins []

/-- `cleanupTimedOutBatches`: cancel each batch with `timeout < now`, stop at the first error -/
def timeouts (s : St) (f : Fault) (now : Nat) : List Batch → St × Fault × List Res
  | [] => (s, f, [])
  | b :: rest =>
    if b.timeout < now then
      let (s', f', r) := cancelBatch s f b.token b.nonce
      if r == .rejected then (s', f', [r])
      else
        let (s'', f'', rs) := timeouts s' f' now rest
        (s'', f'', r :: rs)
    else timeouts s f now rest

/-- the whole end-blocker at height `h`, block time `now`; `tokens` = registered tokens in store
    order, `ests` = batches for which a quorum of identical estimates is on record -/
def endBlock (s : St) (f : Fault) (h now : Nat) (tokens : List Nat) (ests : List (Nat × Nat × Nat)) :
    St × Fault × List Res :=
  let (s1, f1, r1) := if h % 50 == 0 then createBatches s f now tokens else (s, f, [])
  let (s2, f2, r2) := tally s1 f1 s1.claims.length
  let (s3, f3, r3) := applyEstimates s2 f2 ests
  let (s4, f4, r4) := timeouts s3 f3 now (batchOrder s3.batches)
  (s4, f4, r1 ++ r2 ++ r3 ++ r4)

/-- a fully-voted claim is stored under its nonce (first claim at a nonce wins) -/
def addClaim (s : St) (n : Nat) (c : Claim) : St :=
  if s.claims.any (fun x => x.1 == n) then s else { s with claims := s.claims ++ [(n, c)] }

end Paloma.Bridge
