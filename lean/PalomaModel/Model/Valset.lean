/-
Model of validator-set snapshots and of the validator set sent to a remote (EVM) chain:
  x/valset/keeper/keeper.go   createNewSnapshot, ValidatorSupportsAllChains, isNewSnapshotWorthy,
                              TriggerSnapshotBuild, setSnapshotAsCurrent, SetSnapshotOnChain,
                              GetCurrentSnapshot, FindSnapshotByID, GetLatestSnapshotOnChain,
                              SetExternalChainInfoState (registration of external accounts)
  x/evm/keeper/keeper.go      transformSnapshotToCompass, isEnoughToReachConsensus, thresholdForConsensus,
                              maxPower, PublishSnapshotToAllChains, PublishValsetToChain,
                              justInTimeValsetUpdate, msgSender.SendValsetMsgForChain, MissingChains
                              the SkywayBatchBuilt subscriber and AddJustInTimeValsetUpdates (end blocker)
Validators, chains, remote addresses, traits and chain types are naturals. The staking state
(status / jailed / tokens per validator, in store order) is an *input* (`setStaking`): the
Cosmos staking module is not modelled. Whether the relayer assignment
(`PickValidatorForMessage`) succeeds for a chain is an input of the publishing operations.
Powers are `⌊share · 2^32 / total⌋` (repo fix a6dfde52; the pinned tree computed them in float64)
and a validator is listed once per chain (repo fix 8962e1ca; the pinned tree listed it once per
matching account).
`isNewSnapshotWorthy` divides by the snapshots' totals (`QuoInt(TotalShares)`); a zero divisor is a
Go panic, modelled as an explicit outcome of `build` (`quoPanics`, `buildPanics`), not by `x/0 = 0`.
Core Lean only.
-/
namespace Paloma.Valset

inductive Status where
  | unbonded
  | unbonding
  | bonded
deriving Repr, DecidableEq

/-- an external account (`ExternalChainInfo`); `ctype` 0 = "evm", 1 = "EVM" (equal to the EVM
chain type after `strings.ToLower`), anything else = another chain type -/
structure Acct where
  ctype : Nat
  chain : Nat
  addr : Nat
  traits : List Nat
deriving Repr, DecidableEq

/-- a staking validator as `IterateValidators` shows it -/
structure SVal where
  id : Nat
  status : Status
  jailed : Bool
  tokens : Nat
deriving Repr, DecidableEq

/-- a snapshot member (`types.Validator`) -/
structure Val where
  id : Nat
  share : Nat
  accts : List Acct
deriving Repr, DecidableEq

structure Snapshot where
  id : Nat
  vals : List Val
  total : Nat
  createdAt : Nat            -- block time (seconds)
  chains : List Nat          -- chains on which this snapshot is live
deriving Repr, DecidableEq

/-- `evm/types.Valset`: remote addresses with their powers, in order -/
structure Valset where
  id : Nat
  members : List (Nat × Nat)
deriving Repr, DecidableEq

structure ChainInfo where
  ref : Nat
  active : Bool
deriving Repr, DecidableEq

structure St where
  staking : List SVal                 -- environment, store order
  accts : List (Nat × List Acct)      -- external-chain-info store
  chains : List ChainInfo             -- chain-info store, ascending reference id
  snaps : List Snapshot               -- snapshot store, ascending id
  lastId : Nat                        -- the "snapshot-id" counter
  queue : List (Nat × Valset)         -- pending UpdateValset message per chain queue
  sent : List (Nat × Valset)          -- ghost: every UpdateValset message ever enqueued
deriving Repr

def St.init : St :=
  { staking := [], accts := [], chains := [], snaps := [], lastId := 0, queue := [], sent := [] }

/-! ### constants -/

def maxPower : Nat := 2 ^ 32
def thresholdForConsensus : Nat := 2863311530
def keepWarm : Nat := 30 * 24 * 3600

/-! ### external accounts -/

/-- `GetValidatorChainInfos` (no record = no accounts) -/
def acctsOf (s : St) (v : Nat) : List Acct :=
  ((s.accts.find? (fun p => p.1 == v)).map (·.2)).getD []

def findStaking (s : St) (v : Nat) : Option SVal := s.staking.find? (fun sv => sv.id == v)

/-- `CanAcceptValidator` -/
def canAccept (s : St) (v : Nat) : Bool :=
  match findStaking s v with
  | none => false
  | some sv => !sv.jailed && sv.status == .bonded

/-- the collision test of `SetExternalChainInfoState` against the accounts of OTHER validators
(the harness ties the public key to the address, so `address equal ∨ pubkey equal` is address equality) -/
def collides (s : St) (v : Nat) (new : List Acct) : Bool :=
  s.accts.any (fun p => p.1 != v &&
    p.2.any (fun e => new.any (fun n => n.ctype == e.ctype && n.chain == e.chain && n.addr == e.addr)))

def putAccts (l : List (Nat × List Acct)) (v : Nat) (a : List Acct) : List (Nat × List Acct) :=
  if l.any (fun p => p.1 == v) then l.map (fun p => if p.1 == v then (v, a) else p) else l ++ [(v, a)]

inductive Res where
  | ok
  | rejected
deriving Repr, DecidableEq

/-- `AddExternalChainInfo` = `SetExternalChainInfoState` -/
def register (s : St) (v : Nat) (a : List Acct) : St × Res :=
  if a.length > 100 then (s, .rejected) else
  if !canAccept s v then (s, .rejected) else
  if collides s v a then (s, .rejected) else
  ({ s with accts := putAccts s.accts v a }, .ok)

/-! ### chains -/

def activeChains (s : St) : List Nat := (s.chains.filter (·.active)).map (·.ref)

def insertChain (c : ChainInfo) : List ChainInfo → List ChainInfo
  | [] => [c]
  | y :: ys => if c.ref < y.ref then c :: y :: ys else y :: insertChain c ys

/-- `AddSupportForNewChain` (rejected when the chain exists) -/
def support (s : St) (c : Nat) : St × Res :=
  if s.chains.any (fun ci => ci.ref == c) then (s, .rejected)
  else ({ s with chains := insertChain { ref := c, active := false } s.chains }, .ok)

/-- `ActivateChainReferenceID` with a newer smart contract -/
def activate (s : St) (c : Nat) : St × Res :=
  if !(s.chains.any (fun ci => ci.ref == c)) then (s, .rejected)
  else ({ s with chains := s.chains.map (fun ci => if ci.ref == c then { ci with active := true } else ci) }, .ok)

/-- `RemoveSupportForChain`. The chain record is deleted BEFORE `RemoveConsensusQueue` looks the
queue up (queues are derived from the chain records), so that call fails and the queued messages
stay in the store: they are invisible while the chain is unsupported and reappear when a chain
with the same reference id is added again. -/
def remove (s : St) (c : Nat) : St × Res :=
  if !(s.chains.any (fun ci => ci.ref == c)) then (s, .rejected)
  else ({ s with chains := s.chains.filter (fun ci => ci.ref != c) }, .ok)

/-- the queue as `GetMessagesFromQueue` shows it: only queues of supported chains exist -/
def visibleQueue (s : St) : List (Nat × Valset) :=
  s.queue.filter (fun p => s.chains.any (fun ci => ci.ref == p.1))

/-! ### building a snapshot -/

/-- `ValidatorSupportsAllChains`: an account (of any chain type) on every ACTIVE chain -/
def supportsAll (s : St) (v : Nat) : Bool :=
  (activeChains s).all (fun c => (acctsOf s v).any (fun a => a.chain == c))

def eligible (s : St) (sv : SVal) : Bool :=
  sv.status == .bonded && !sv.jailed && supportsAll s sv.id

def sumShares (l : List Val) : Nat := (l.map (·.share)).sum

/-- `createNewSnapshot` (id not yet assigned) -/
def createSnapshot (s : St) (now : Nat) : Snapshot :=
  { id := 0,
    vals := (s.staking.filter (eligible s)).map (fun sv => { id := sv.id, share := sv.tokens, accts := acctsOf s sv.id }),
    total := sumShares ((s.staking.filter (eligible s)).map (fun sv => { id := sv.id, share := sv.tokens, accts := acctsOf s sv.id })),
    createdAt := now, chains := [] }

def findSnapshot (s : St) (id : Nat) : Option Snapshot := s.snaps.find? (fun sn => sn.id == id)

/-- `GetCurrentSnapshot`: the record stored under the last issued id -/
def current (s : St) : Option Snapshot := findSnapshot s s.lastId

/-! ### isNewSnapshotWorthy -/

def insAsc (x : Val) : List Val → List Val
  | [] => [x]
  | y :: ys => if x.share < y.share then x :: y :: ys else y :: insAsc x ys

/-- `sort.SliceStable` with `less = ShareCount.LT` -/
def sortAsc (l : List Val) : List Val := l.foldl (fun acc x => insAsc x acc) []

/-- `LegacyNewDecFromInt(share).QuoInt(total)`: 18 decimals, truncated -/
def fraction18 (share total : Nat) : Nat := share * 10 ^ 18 / total

def absDiff (a b : Nat) : Nat := if a ≥ b then a - b else b - a

def sameKey (a b : Acct) : Bool := a.chain == b.chain && a.ctype == b.ctype && a.addr == b.addr

/-- the entry a Go map built by `MakeMapKeys` holds for the key of `a` (the last one wins) -/
def lastWithKey (l : List Acct) (a : Acct) : Option Acct := l.reverse.find? (fun b => sameKey b a)

def traitsDiffer (cur new : Acct) : Bool :=
  cur.traits.length != new.traits.length || cur.traits.any (fun t => !new.traits.contains t)

/-- the external-account comparison of one validator (old vs. new) -/
def acctsDiffer (cur new : List Acct) : Bool :=
  cur.length != new.length ||
  cur.any (fun c =>
    match lastWithKey new c with
    | none => true
    | some n => traitsDiffer ((lastWithKey cur c).getD c) n)

def zipAny (f : Val → Val → Bool) : List Val → List Val → Bool
  | a :: as, b :: bs => f a b || zipAny f as bs
  | _, _ => false

def worthyAgainst (cur new : Snapshot) : Bool :=
  if cur.vals.length != new.vals.length then true else
  if new.vals.any (fun v => !(cur.vals.any (fun w => w.id == v.id))) then true else
  if zipAny (fun a b => a.id != b.id) (sortAsc cur.vals) (sortAsc new.vals) then true else
  if zipAny (fun a b => absDiff (fraction18 a.share cur.total) (fraction18 b.share new.total) ≥ 10 ^ 16)
      (sortAsc cur.vals) (sortAsc new.vals) then true else
  zipAny (fun a b => acctsDiffer a.accts b.accts) (sortAsc cur.vals) (sortAsc new.vals)

def worthy (cur : Option Snapshot) (new : Snapshot) : Bool :=
  match cur with
  | none => true
  | some c => worthyAgainst c new

/-- where `isNewSnapshotWorthy` PANICS: when the three earlier tests (length, membership, order by
share) found no difference and the snapshots are not empty, the percentage loop evaluates
`LegacyNewDecFromInt(share).QuoInt(currentSnapshot.TotalShares)` and
`LegacyNewDecFromInt(share).QuoInt(newSnapshot.TotalShares)` for the first pair, and `QuoInt(0)`
is a `big.Int` division by zero. (`fraction18 _ 0` above is therefore never looked at by `build`:
see `buildPanics`.) -/
def quoPanics (cur new : Snapshot) : Bool :=
  if cur.vals.length != new.vals.length then false else
  if new.vals.any (fun v => !(cur.vals.any (fun w => w.id == v.id))) then false else
  if zipAny (fun a b => a.id != b.id) (sortAsc cur.vals) (sortAsc new.vals) then false else
  !cur.vals.isEmpty && (cur.total == 0 || new.total == 0)

/-! ### the validator set for one chain -/

def isEvm (t : Nat) : Bool := t == 0 || t == 1

def insDesc (x : Val) : List Val → List Val
  | [] => [x]
  | y :: ys => if y.share > x.share then y :: insDesc x ys else x :: y :: ys

/-- `sort.SliceStable` with `less = ShareCount.GTE` (not a strict order: equal shares end up in
REVERSE store order) -/
def sortDesc (l : List Val) : List Val := l.foldl (fun acc x => insDesc x acc) []

/-- power of one validator: `⌊share · 2^32 / total⌋` when `total > 0`; the Go code leaves the
power at 0 otherwise (`if totalPower.Sign() > 0 { … }`) — the branch is explicit here, it does not
rely on `x / 0 = 0` -/
def power (share total : Nat) : Nat := if total > 0 then share * maxPower / total else 0

/-- the validator's EVM accounts on `chain`, in registration order -/
def matching (chain : Nat) (v : Val) : List Acct :=
  v.accts.filter (fun a => isEvm a.ctype && a.chain == chain)

/-- the account that represents the validator on `chain`: the FIRST matching one (the loop over
the accounts `break`s after the first match, so a validator is listed at most once) -/
def chosen (chain : Nat) (v : Val) : List Acct := (matching chain v).take 1

def membersOf (chain total : Nat) (v : Val) : List (Nat × Nat) :=
  (chosen chain v).map (fun a => (a.addr, power v.share total))

/-- `transformSnapshotToCompass` -/
def transform (snap : Snapshot) (chain : Nat) : Valset :=
  { id := snap.id,
    members := (sortDesc snap.vals).flatMap (membersOf chain (sumShares (sortDesc snap.vals))) }

def powerSum (v : Valset) : Nat := (v.members.map (·.2)).sum

/-- `isEnoughToReachConsensus` (the sum is a uint64) -/
def enough (v : Valset) : Bool := powerSum v % 2 ^ 64 ≥ thresholdForConsensus

/-! ### publishing -/

/-- `GetLatestSnapshotOnChain` -/
def latestOnChain (s : St) (c : Nat) : Option Snapshot :=
  s.snaps.reverse.find? (fun sn => sn.chains.contains c)

/-- `SendValsetMsgForChain`: a message for the same valset id stays; otherwise older
UpdateValset messages of the queue are replaced -/
def send (s : St) (c : Nat) (v : Valset) : St :=
  if s.queue.any (fun p => p.1 == c && p.2.id == v.id) then s
  else { s with queue := s.queue.filter (fun p => p.1 != c) ++ [(c, v)], sent := s.sent ++ [(c, v)] }

/-- `PublishValsetToChain` -/
def publishValset (s : St) (ci : ChainInfo) (v : Valset) (pick : Bool) : St :=
  if !ci.active then s else
  if !enough v then s else
  if !pick then s else
  send s ci.ref v

/-- a snapshot went live on the chain less than 30 days ago -/
def warm (s : St) (c now : Nat) : Bool :=
  match latestOnChain s c with
  | none => false
  | some l => now - l.createdAt < keepWarm

def publishOne (snap : Snapshot) (now : Nat) (picks : List Nat) (s : St) (ci : ChainInfo) : St :=
  if warm s ci.ref now then s
  else publishValset s ci (transform snap ci.ref) (picks.contains ci.ref)

/-- `PublishSnapshotToAllChains` (forcePublish = false) -/
def publishAll (s : St) (snap : Snapshot) (now : Nat) (picks : List Nat) : St :=
  s.chains.foldl (publishOne snap now picks) s

/-- `setSnapshotAsCurrent`: the next id is issued and the snapshot is stored under it -/
def storeAsCurrent (s : St) (snap : Snapshot) : St :=
  { s with snaps := s.snaps ++ [{ snap with id := s.lastId + 1 }], lastId := s.lastId + 1 }

/-- `TriggerSnapshotBuild` panics (division by zero inside `isNewSnapshotWorthy`); the caller's
cache context is dropped, nothing is written -/
def buildPanics (s : St) (now : Nat) : Bool :=
  match current s with
  | none => false
  | some c => quoPanics c (createSnapshot s now)

/-- `TriggerSnapshotBuild`; `picks` = chains for which a relayer can be assigned. A panicking
build (`buildPanics`) and a build whose snapshot is not worthy leave the state unchanged and
return nothing. -/
def build (s : St) (now : Nat) (picks : List Nat) : St × Option Snapshot :=
  if buildPanics s now then (s, none) else
  if !worthy (current s) (createSnapshot s now) then (s, none) else
  (publishAll (storeAsCurrent s (createSnapshot s now)) { createSnapshot s now with id := s.lastId + 1 } now picks,
   some { createSnapshot s now with id := s.lastId + 1 })

/-- `SetSnapshotOnChain` -/
def setOnChain (s : St) (id c : Nat) : St × Res :=
  match findSnapshot s id with
  | none => (s, .rejected)
  | some _ =>
    ({ s with snaps := s.snaps.map (fun sn => if sn.id == id then { sn with chains := sn.chains ++ [c] } else sn) }, .ok)

def findChain (s : St) (c : Nat) : Option ChainInfo := s.chains.find? (fun ci => ci.ref == c)

/-- `PreJobExecution` → `justInTimeValsetUpdate` -/
def jit (s : St) (c : Nat) (pick : Bool) : St × Res :=
  match findChain s c, current s, latestOnChain s c with
  | none, _, _ => (s, .rejected)
  | some _, none, _ => (s, .rejected)
  | some _, some _, none => (s, .rejected)
  | some ci, some cur, some pub =>
    if pub.id == cur.id then (s, .ok) else
    if !ci.active then (s, .ok) else
    if !enough (transform cur c) then (s, .ok) else
    if !pick then (s, .rejected) else
    (send s c (transform cur c), .ok)

/-- the skyway `SkywayBatchBuilt` event: the evm keeper's subscriber runs `justInTimeValsetUpdate`
for the event's chain; the event bus logs and drops the handler's error -/
def jitBus (s : St) (c : Nat) (pick : Bool) : St := (jit s c pick).1

/-- an UpdateValset message is waiting in the chain's queue -/
def hasQueuedValset (s : St) (c : Nat) : Bool := (visibleQueue s).any (fun p => p.1 == c)

/-- `AddJustInTimeValsetUpdates` (x/evm end blocker) for ONE chain whose queue holds a fee-paying
message (`SubmitLogicCall` / `UploadUserSmartContract`): the just-in-time update is requested
unless an UpdateValset message is already queued; its error is logged and dropped. (`rejected`:
the chain is not supported, so there is no queue a fee-paying message could wait in.) -/
def jitEndBlock (s : St) (c : Nat) (pick : Bool) : St × Res :=
  match findChain s c with
  | none => (s, .rejected)
  | some _ => if hasQueuedValset s c then (s, .ok) else ((jit s c pick).1, .ok)

/-! ### histories -/

inductive Op where
  | setStaking (l : List SVal)
  | register (v : Nat) (a : List Acct)
  | support (c : Nat)
  | activate (c : Nat)
  | remove (c : Nat)
  | build (now : Nat) (picks : List Nat)
  | onChain (id c : Nat)
  | jit (c : Nat) (pick : Bool)
deriving Repr

def step (s : St) : Op → St
  | .setStaking l => { s with staking := l }
  | .register v a => (register s v a).1
  | .support c => (support s c).1
  | .activate c => (activate s c).1
  | .remove c => (remove s c).1
  | .build now picks => (build s now picks).1
  | .onChain id c => (setOnChain s id c).1
  | .jit c pick => (jit s c pick).1

def run (s : St) (ops : List Op) : St := ops.foldl step s

end Paloma.Valset
