/-
Executable Keccak-256 (the pre-NIST padding `0x01 … 0x80` used by Ethereum,
go-ethereum `crypto.Keccak256`), core Lean only.

EXECUTABLE ONLY: nothing is proved about this function and no theorem depends on it.
The property theorems (Props/C05, Props/C07) speak about an abstract hash `H` with
explicit collision-freedom hypotheses.  This file exists so that the compiled driver can
print the very 32 bytes the Go code returns (`Message.Keccak256WithSignedMessage`,
`OutgoingTxBatch.GetCheckpoint`), which the correspondence harness compares with the
output of the real functions.  It is validated by the `#guard` test vectors at the end
of the file (checked at build time) and by every line of the C05/C07 correspondence runs.

State: 25 lanes of 64 bits, lane `(x, y)` at index `x + 5*y`; rate 136 bytes.
-/
namespace Paloma.Keccak

def RC : Array UInt64 := #[
  0x0000000000000001, 0x0000000000008082, 0x800000000000808A, 0x8000000080008000,
  0x000000000000808B, 0x0000000080000001, 0x8000000080008081, 0x8000000000008009,
  0x000000000000008A, 0x0000000000000088, 0x0000000080008009, 0x000000008000000A,
  0x000000008000808B, 0x800000000000008B, 0x8000000000008089, 0x8000000000008003,
  0x8000000000008002, 0x8000000000000080, 0x000000000000800A, 0x800000008000000A,
  0x8000000080008081, 0x8000000000008080, 0x0000000080000001, 0x8000000080008008]

/-- rotation offsets `r[x, y]` at index `x + 5*y` -/
def ROT : Array Nat := #[
  0, 1, 62, 28, 27,
  36, 44, 6, 55, 20,
  3, 10, 43, 25, 39,
  41, 45, 15, 21, 8,
  18, 2, 61, 56, 14]

def rotl (x : UInt64) (n : Nat) : UInt64 :=
  if n % 64 == 0 then x
  else (x <<< UInt64.ofNat (n % 64)) ||| (x >>> UInt64.ofNat (64 - n % 64))

/-- one round: θ, ρ, π, χ, ι -/
def round (a : Array UInt64) (rc : UInt64) : Array UInt64 :=
  let g := fun (i : Nat) => a.getD i 0
  let c : Array UInt64 := Array.ofFn (n := 5) fun x =>
    g x.val ^^^ g (x.val + 5) ^^^ g (x.val + 10) ^^^ g (x.val + 15) ^^^ g (x.val + 20)
  let d : Array UInt64 := Array.ofFn (n := 5) fun x =>
    c.getD ((x.val + 4) % 5) 0 ^^^ rotl (c.getD ((x.val + 1) % 5) 0) 1
  let a1 : Array UInt64 := Array.ofFn (n := 25) fun i => g i.val ^^^ d.getD (i.val % 5) 0
  -- ρ and π: B[y, 2x+3y] = rot(A[x, y], r[x, y]); for the target (X, Y): y = X, x = X + 3Y (mod 5)
  let b : Array UInt64 := Array.ofFn (n := 25) fun j =>
    let src := (j.val % 5 + 3 * (j.val / 5)) % 5 + 5 * (j.val % 5)
    rotl (a1.getD src 0) (ROT.getD src 0)
  let a2 : Array UInt64 := Array.ofFn (n := 25) fun i =>
    let x := i.val % 5
    let y := i.val / 5
    b.getD i.val 0 ^^^ ((~~~ b.getD ((x + 1) % 5 + 5 * y) 0) &&& b.getD ((x + 2) % 5 + 5 * y) 0)
  a2.setIfInBounds 0 (a2.getD 0 0 ^^^ rc)

def keccakF (a : Array UInt64) : Array UInt64 := RC.foldl round a

/-- little-endian lane from (up to) 8 bytes -/
def lane (bs : List UInt8) : UInt64 :=
  bs.foldr (fun b acc => (acc <<< 8) ||| b.toUInt64) 0

/-- xor a block of (at most) 136 bytes into the first 17 lanes -/
def absorbBlock (a : Array UInt64) (blk : List UInt8) : Array UInt64 :=
  (List.range 17).foldl
    (fun st i => st.setIfInBounds i (st.getD i 0 ^^^ lane ((blk.drop (8 * i)).take 8))) a

/-- multi-rate padding `pad10*1` with the Keccak domain byte `0x01` -/
def pad (len : Nat) : List UInt8 :=
  let q := 136 - len % 136
  if q == 1 then [0x81] else [0x01] ++ List.replicate (q - 2) 0 ++ [0x80]

def absorb : Nat → Array UInt64 → List UInt8 → Array UInt64
  | 0, a, _ => a
  | fuel + 1, a, m =>
    if m.isEmpty then a
    else absorb fuel (keccakF (absorbBlock a (m.take 136))) (m.drop 136)

def laneBytes (w : UInt64) : List UInt8 :=
  (List.range 8).map fun i => (w >>> UInt64.ofNat (8 * i)).toUInt8

def keccak256 (m : List UInt8) : List UInt8 :=
  let p := m ++ pad m.length
  let a := absorb (p.length / 136 + 1) (Array.replicate 25 (0 : UInt64)) p
  (List.range 4).flatMap fun i => laneBytes (a.getD i 0)

/-! ### test vectors (checked when this file is built) -/

private def hexDigit (n : Nat) : Char :=
  if n < 10 then Char.ofNat (48 + n) else Char.ofNat (87 + n)

def hex (b : List UInt8) : String :=
  String.ofList (b.flatMap fun x => [hexDigit (x.toNat / 16), hexDigit (x.toNat % 16)])

-- keccak256("")
#guard hex (keccak256 []) = "c5d2460186f7233c927e7db2dcc703c0e500b653ca82273b7bfad8045d85a470"
-- keccak256("abc")
#guard hex (keccak256 "abc".toUTF8.toList) =
  "4e03657aea45a94fc7d47ba826c8d667c0d1e6e33a64a036ec44f58fa12d6c45"
-- keccak256("transfer(address,uint256)") starts with the well known selector a9059cbb
#guard hex ((keccak256 "transfer(address,uint256)".toUTF8.toList).take 4) = "a9059cbb"
-- 135, 136 and 137 bytes of 0x61 (padding boundary), values from go-ethereum crypto.Keccak256
#guard hex (keccak256 (List.replicate 135 0x61)) =
  "34367dc248bbd832f4e3e69dfaac2f92638bd0bbd18f2912ba4ef454919cf446"
#guard hex (keccak256 (List.replicate 136 0x61)) =
  "a6c4d403279fe3e0af03729caada8374b5ca54d8065329a3ebcaeb4b60aa386e"
#guard hex (keccak256 (List.replicate 137 0x61)) =
  "d869f639c7046b4929fc92a4d988a8b22c55fbadb802c0c66ebcd484f1915f39"

end Paloma.Keccak
