/-
Model of the scheduler job life-cycle (property C17):
  x/scheduler/keeper/keeper.go            AddNewJob, saveJob, JobIDExists, GetJob, ExecuteJob (PreJobExecution
                                          hook, then ScheduleNow), ScheduleNow (payload rule)
  x/scheduler/keeper/msg_server_*.go      CreateJob (owner := creator), ExecuteJob (sender := creator, no contract)
  x/scheduler/bindings/msg_plugin.go      createJob / executeJob of a CosmWasm contract (sender = contract = caller)
  x/scheduler/bindings/legacy.go          legacy `{job_id, payload}` custom message
  x/scheduler/types/job.go                ValidateBasic
  x/evm/keeper/scheduler_job.go           VerifyJob, ExecuteJob, injectSenderIntoPayload, zeroPadBytes
  x/evm/keeper/smart_contract_deployment.go  AddSmartContractExecutionToConsensus
  x/evm/keeper/keeper.go                  PickValidatorForMessage (as success/failure), PreJobExecution,
                                          justInTimeValsetUpdate, SendValsetMsgForChain, AddJustInTimeValsetUpdates
                                          (evm EndBlock), PublishSnapshotToAllChains (on a new snapshot)

What is modelled: the job store (insert-only), the turnstone consensus queue of every EVM chain as a list of
`UpdateValset id` / `SubmitLogicCall` messages, and the environment the enqueue step depends on (chain known,
chain active, relayers available, MEV relayers available, current snapshot id, snapshot id published on the
chain).  Job definition and payload are JSON documents wrapping hex strings; the model works on the decoded
bytes and represents an unparsable / empty document explicitly (`none`, `Supplied.bad`, `Supplied.empty`).

A message (`MsgCreateJob`, `MsgExecuteJob`, a wasm custom message) is atomic: baseapp / wasmd run it on a
branched store that is dropped on error.  `execRaw` is the keeper function *without* that wrapper (it can leave
a validator-set update behind when it fails after the PreJobExecution hook); `exec` adds the rollback.
Blocks end with the evm EndBlocker (`endBlock`); a history is any interleaving of messages and block ends.

Core Lean only.
-/
namespace Paloma.Scheduler

abbrev Bytes := List UInt8

/-! ### jobs -/

/-- a stored job (`types.Job`), definition and payload decoded.  `Routing.ChainType` is not a field: `saveJob`
    only stores jobs whose chain type is a registered bridge, i.e. `"evm"`. -/
structure Job where
  id : Bytes
  owner : Bytes
  chain : String
  /-- `JobDefinition.address`, the string as written by the creator (never validated) -/
  contract : Bytes
  abi : Bytes
  payload : Bytes
  modifiable : Bool
  mev : Bool
deriving DecidableEq, Repr

/-- what a creator submits.  `defn = none`: empty or malformed definition JSON; `payload = none`: empty or
    malformed payload JSON.  `owner` is NOT a free field of the request: it is the authenticated author of the
    message — `msgServer.CreateJob` overwrites `job.Owner` with `Metadata.Creator` (whatever the message body
    said; the harness sets a different `Job.Owner` in a quarter of its creates), and the wasm binding passes the
    calling contract's address as creator.  There is no other owner input in the code. -/
structure CreateIn where
  owner : Bytes
  id : Bytes
  chainType : String
  chain : String
  defn : Option (Bytes × Bytes)
  payload : Option Bytes
  modifiable : Bool
  mev : Bool
deriving Repr

def findJob (jobs : List Job) (id : Bytes) : Option Job := jobs.find? (fun j => j.id == id)

/-- `allowedJobIDCharacters = "abcdefghijklmnopqrstuvwxyz0123456789-_."` -/
def allowedByte (b : UInt8) : Bool :=
  (97 ≤ b && b ≤ 122) || (48 ≤ b && b ≤ 57) || b == 45 || b == 95 || b == 46

def isInfix (p : Bytes) : Bytes → Bool
  | [] => p.isEmpty
  | x :: xs => p.isPrefixOf (x :: xs) || isInfix p xs

def wPaloma : Bytes := [112, 97, 108, 111, 109, 97]
def wPigeon : Bytes := [112, 105, 103, 101, 111, 110]

/-- the job-id clauses of `Job.ValidateBasic` (the lower-case test is implied by the character test) -/
def idValid (id : Bytes) : Bool :=
  id.length != 0 && id.length ≤ 32 && !(isInfix wPaloma id) && !(isInfix wPigeon id) && id.all allowedByte

/-- `isTargetedAtChainWithMEVRelayingSupport` -/
def mevChain (c : String) : Bool := c == "eth-main" || c == "bnb-main" || c == "matic-main"

/-- `AddNewJob` + `saveJob` decision, in source order: `none` = rejected -/
def vetJob (jobs : List Job) (i : CreateIn) : Option Job :=
  if (findJob jobs i.id).isSome then none            -- ErrJobWithIDAlreadyExists
  else if i.owner.length == 0 then none               -- owner can't be empty
  else if !(idValid i.id) then none
  else if i.defn.isNone then none                     -- empty definition (ValidateBasic) / bad JSON (VerifyJob)
  else if i.chainType.length == 0 then none
  else if i.chain.length == 0 then none
  else if i.mev && !(mevChain i.chain) then none
  else if i.chainType != "evm" then none              -- chain type is not supported
  else if i.payload.isNone then none                  -- VerifyJob: payload JSON
  else some { id := i.id, owner := i.owner, chain := i.chain,
              contract := (i.defn.getD ([], [])).1, abi := (i.defn.getD ([], [])).2,
              payload := i.payload.getD [], modifiable := i.modifiable, mev := i.mev }

/-! ### consensus queue -/

/-- `evm/types.SubmitLogicCall` inside a `Message` for `chain` -/
structure Call where
  chain : String
  contract : Bytes
  abi : Bytes
  payload : Bytes
  sender : Option Bytes
  contractAddr : Option Bytes
  mev : Bool
deriving DecidableEq, Repr

inductive QMsg where
  | valset (id : Nat)
  | call (c : Call)
deriving DecidableEq, Repr

def QMsg.isCall : QMsg → Bool
  | .call _ => true
  | .valset _ => false

/-- the contract calls of a queue, in queue order -/
def calls : List QMsg → List Call
  | [] => []
  | .call c :: ms => c :: calls ms
  | .valset _ :: ms => calls ms

def hasValset : List QMsg → Bool
  | [] => false
  | .call _ :: ms => hasValset ms
  | .valset _ :: _ => true

/-- the queue scan of `SendValsetMsgForChain`: older `UpdateValset`s are deleted until one for the same
    valset id is met (then the function returns without enqueueing).  Result: (queue, same id met). -/
def clearValsets (snap : Nat) : List QMsg → List QMsg × Bool
  | [] => ([], false)
  | .valset id :: ms => if id = snap then (.valset id :: ms, true) else clearValsets snap ms
  | .call c :: ms =>
    let r := clearValsets snap ms
    (.call c :: r.1, r.2)

def sendValset (snap : Nat) (q : List QMsg) : List QMsg :=
  let r := clearValsets snap q
  if r.2 then r.1 else r.1 ++ [.valset snap]

/-! ### environment -/

structure Chain where
  /-- `ChainInfo.Status == ACTIVE` -/
  active : Bool
  /-- some snapshot validator has a relayer-fee and a metrics record for the chain -/
  relay : Bool
  /-- some of those validators carry the MEV trait on this chain -/
  mev : Bool
  /-- id of the latest snapshot marked as published on the chain -/
  onChain : Option Nat
  queue : List QMsg
deriving Repr

/-- the chain-info store with everything attached to a chain: a finite map, kept as a function.  (A structure
    and not a bare function type so that the compiled driver evaluates updates once instead of re-running
    them at every lookup.) -/
structure Env where
  get : String → Option Chain

instance : CoeFun Env (fun _ => String → Option Chain) := ⟨Env.get⟩

structure State where
  /-- ghost: insertion order; the store is the map `findJob` -/
  jobs : List Job
  /-- chain-info store keys in iteration order -/
  order : List String
  chain : Env
  /-- current snapshot id, 0 = no snapshot -/
  snap : Nat

def upd (f : Env) (k : String) (c : Chain) : Env :=
  ⟨fun x => if x = k then some c else f x⟩

@[simp] theorem upd_get (f : Env) (k : String) (c : Chain) (x : String) :
    (upd f k c) x = if x = k then some c else f x := rfl

/-- `PickValidatorForMessage` succeeds -/
def pick (snap : Nat) (c : Chain) (mevRequired : Bool) : Bool :=
  snap != 0 && c.relay && (!mevRequired || c.mev)

/-- `justInTimeValsetUpdate`: (chain afterwards, returned nil) -/
def jit (snap : Nat) (c : Chain) : Chain × Bool :=
  if snap = 0 then (c, false)                         -- no current snapshot
  else if c.onChain.isNone then (c, false)            -- GetLatestSnapshotOnChain: not found
  else if c.onChain == some snap then (c, true)       -- already most recent
  else if !c.active then (c, true)
  else if !(pick snap c false) then (c, false)
  else ({ c with queue := sendValset snap c.queue }, true)

/-- `PreJobExecution`: errors are logged and ignored by `ExecuteJob` -/
def preJob (s : State) (chain : String) : State :=
  match s.chain chain with
  | none => s
  | some c => { s with chain := upd s.chain chain (jit s.snap c).1 }

/-- evm `EndBlock` → `AddJustInTimeValsetUpdates`: chains in store order; a chain with a fee-paying message and no
    pending valset update gets `justInTimeValsetUpdate`; the first error ends the loop. -/
def endBlockGo (snap : Nat) : List String → Env → Env
  | [], f => f
  | n :: ns, f =>
    match f n with
    | none => endBlockGo snap ns f
    | some c =>
      if (calls c.queue).length != 0 && !(hasValset c.queue) then
        if (jit snap c).2 then endBlockGo snap ns (upd f n (jit snap c).1) else f
      else endBlockGo snap ns f

def endBlock (s : State) : State := { s with chain := endBlockGo s.snap s.order s.chain }

/-! ### execution -/

/-- the `in` argument of `ScheduleNow` -/
inductive Supplied where
  | absent              -- nil
  | empty               -- non-nil, length 0 (Go callers only; protobuf and the wasm bindings cannot produce it)
  | bad                 -- non-empty, not a JSON payload document
  | bytes (b : Bytes)   -- `{"hexPayload": hex(b)}`
deriving DecidableEq, Repr

/-- who asks: `senderAddress` / `contractAddress` of `Keeper.ExecuteJob` -/
structure Caller where
  sender : Option Bytes
  contract : Option Bytes
deriving DecidableEq, Repr

def Caller.account (a : Bytes) : Caller := { sender := some a, contract := none }
def Caller.wasm (c : Bytes) : Caller := { sender := some c, contract := some c }

/-- the address bytes `evm.ExecuteJob` injects: sender if set, else contract, else nothing -/
def Caller.bytes (c : Caller) : Bytes := ((c.sender.orElse fun _ => c.contract).getD [])

/-- `zeroPadBytes(b, 32)` for `len b ≤ 32` -/
def leftPad32 (b : Bytes) : Bytes := List.replicate (32 - b.length) 0 ++ b

/-- `injectSenderIntoPayload`; `none` = "Can not zero pad byte array" -/
def inject (payload caller : Bytes) : Option Bytes :=
  if caller.length > 32 then none else some (payload ++ leftPad32 caller)

/-- `len(in) > 0 && !job.IsPayloadModifiable` → ErrCannotModifyJobPayload -/
def cannotModify (j : Job) (sup : Supplied) : Bool :=
  !j.modifiable && (sup matches .bad | .bytes _)

/-- the payload document handed to `evm.ExecuteJob`, decoded; `none` = its JSON does not parse -/
def effective (j : Job) (sup : Supplied) : Option Bytes :=
  if j.modifiable then
    match sup with
    | .absent => some j.payload
    | .empty => none
    | .bad => none
    | .bytes b => some b
  else some j.payload

/-- `ScheduleNow` + `evm.ExecuteJob` + `AddSmartContractExecutionToConsensus` up to the enqueue: the message that
    will be put on the queue, `none` = an error is returned -/
def buildCall (s : State) (j : Job) (sup : Supplied) (caller : Caller) : Option Call :=
  if cannotModify j sup then none else
  match effective j sup, s.chain j.chain with
  | some p, some c =>
    match inject p caller.bytes with
    | some full =>
      if pick s.snap c j.mev then
        some { chain := j.chain, contract := j.contract, abi := j.abi, payload := full,
               sender := caller.sender, contractAddr := caller.contract, mev := j.mev }
      else none
    | none => none
  | _, _ => none

/-- `PutMessageInQueue` -/
def pushCall (c : Chain) (call : Call) : Chain := { c with queue := c.queue ++ [.call call] }

def enqueue (s : State) (call : Call) : State :=
  match s.chain call.chain with
  | none => s
  | some c => { s with chain := upd s.chain call.chain (pushCall c call) }

/-- `Keeper.ExecuteJob` on a plain context -/
def execRaw (s : State) (id : Bytes) (sup : Supplied) (caller : Caller) : State × Option Call :=
  match findJob s.jobs id with
  | none => (s, none)
  | some j =>
    match buildCall (preJob s j.chain) j sup caller with
    | none => (preJob s j.chain, none)
    | some call => (enqueue (preJob s j.chain) call, some call)

/-- the same as one atomic message -/
def exec (s : State) (id : Bytes) (sup : Supplied) (caller : Caller) : State × Option Call :=
  if (execRaw s id sup caller).2.isSome then execRaw s id sup caller else (s, none)

def create (s : State) (i : CreateIn) : State × Bool :=
  match vetJob s.jobs i with
  | none => (s, false)
  | some j => ({ s with jobs := s.jobs ++ [j] }, true)

/-! ### environment changes -/

/-- a new snapshot is built (`TriggerSnapshotBuild` → `OnSnapshotBuilt` → `PublishSnapshotToAllChains`, not
    forced): chains without a published snapshot get the valset at once; the others had one less than 30 days
    ago and are skipped. -/
def publishAll (snap : Nat) : List String → Env → Env
  | [], f => f
  | n :: ns, f =>
    match f n with
    | none => publishAll snap ns f
    | some c =>
      if c.onChain.isNone && c.active && pick snap c false then
        publishAll snap ns (upd f n { c with queue := sendValset snap c.queue })
      else publishAll snap ns f

def setMev (f : Env) (chain : String) (mev : Bool) : Env :=
  match f chain with
  | none => f
  | some c => upd f chain { c with mev := mev }

def setRelay (f : Env) (chain : String) (on : Bool) : Env :=
  match f chain with
  | none => f
  | some c => upd f chain { c with relay := on }

def setOnChain (f : Env) (chain : String) (snap : Nat) : Env :=
  match f chain with
  | none => f
  | some c => upd f chain { c with onChain := some snap }

/-! ### operations and histories -/

inductive Op where
  | create (i : CreateIn)
  /-- `MsgExecuteJob` (account), or `Keeper.ExecuteJob` inside any other atomic message -/
  | exec (id : Bytes) (sup : Supplied) (caller : Caller)
  /-- `scheduler_msg.execute_job` of contract `addr` with raw payload `b` -/
  | execWasm (addr id b : Bytes)
  /-- legacy custom message `{job_id, payload}` of contract `addr` -/
  | execLegacy (addr id b : Bytes)
  /-- validators drop / restore their relayer fee record for a chain -/
  | relay (chain : String) (on : Bool)
  /-- validators change their MEV trait on `chain`; a new snapshot is built -/
  | bump (chain : String) (mev : Bool)
  /-- the current snapshot is recorded as published on `chain` -/
  | publish (chain : String)
deriving Repr

/-- outcome of an operation: for executions the enqueued call -/
inductive Res where
  | ok
  | enqueued (c : Call)
  | rejected
deriving DecidableEq, Repr

def Res.ofCall : Option Call → Res
  | some c => .enqueued c
  | none => .rejected

/-- the transaction part of a block -/
def txStep (s : State) : Op → State × Res
  | .create i => ((create s i).1, if (create s i).2 then .ok else .rejected)
  | .exec id sup caller => ((exec s id sup caller).1, Res.ofCall (exec s id sup caller).2)
  | .execWasm addr id b =>
    if id.length == 0 || b.length == 0 then (s, .rejected)
    else ((exec s id (.bytes b) (Caller.wasm addr)).1, Res.ofCall (exec s id (.bytes b) (Caller.wasm addr)).2)
  | .execLegacy addr id b =>
    if id.length == 0 then (s, .rejected)
    else ((exec s id (.bytes b) (Caller.wasm addr)).1, Res.ofCall (exec s id (.bytes b) (Caller.wasm addr)).2)
  | .relay chain on => ({ s with chain := setRelay s.chain chain on }, .ok)
  | .bump chain mev =>
    ({ s with snap := s.snap + 1, chain := publishAll (s.snap + 1) s.order (setMev s.chain chain mev) }, .ok)
  | .publish chain => ({ s with chain := setOnChain s.chain chain s.snap }, .ok)

/-- what can happen to the chain state: a message is delivered, or a block ends -/
inductive Ev where
  | op (o : Op)
  | endBlock
deriving Repr

def stepEv (s : State) : Ev → State × Res
  | .op o => txStep s o
  | .endBlock => (endBlock s, .ok)

def run (s : State) : List Ev → State
  | [] => s
  | e :: es => run (stepEv s e).1 es

/-- results of a history, in order -/
def results (s : State) : List Ev → List Res
  | [] => []
  | e :: es => (stepEv s e).2 :: results (stepEv s e).1 es

/-- the contract calls pending on a chain, in queue order -/
def callsOf (f : Env) (chain : String) : List Call :=
  match f chain with
  | none => []
  | some c => calls c.queue

def callsOn (s : State) (chain : String) : List Call := callsOf s.chain chain

/-- the calls a list of results reports as enqueued on `chain` -/
def enqueuedOn (chain : String) : List Res → List Call
  | [] => []
  | .enqueued c :: rs => if c.chain = chain then c :: enqueuedOn chain rs else enqueuedOn chain rs
  | .ok :: rs => enqueuedOn chain rs
  | .rejected :: rs => enqueuedOn chain rs

/-! ### vocabulary of the property statements -/

/-- a chain state before any scheduler activity: no jobs; the environment (chains, their queues, the
    snapshot) is arbitrary -/
def State.init (order : List String) (chain : Env) (snap : Nat) : State :=
  { jobs := [], order := order, chain := chain, snap := snap }

/-- the address `evm.ExecuteJob` takes for the requester: `SenderAddress` if non-nil, else
    `ContractAddress` if non-nil, else none at all (`Caller.bytes` is this, with `[]` for none) -/
def Caller.addr (c : Caller) : Option Bytes := c.sender.orElse fun _ => c.contract

/-- the callers the three message-level entry points build: `MsgExecuteJob` → `Caller.account a` with
    `a` the signer's account address, the wasm bindings → `Caller.wasm a` with `a` the contract address;
    an SDK address is non-empty and at most 32 bytes long (20 for accounts, 32 for contracts) -/
def Caller.entryPoint (c : Caller) : Prop :=
  ∃ a : Bytes, a ≠ [] ∧ a.length ≤ 32 ∧ (c = Caller.account a ∨ c = Caller.wasm a)

/-- an address as the SDK / wasmd hand it to a message handler: non-empty, at most 32 bytes (20 for
    accounts, 32 for contracts) -/
def sdkAddr (a : Bytes) : Prop := a ≠ [] ∧ a.length ≤ 32

/-- the operation is one that a TRANSACTION or a CONTRACT can cause (as opposed to a Go caller of the keeper
    API): `MsgExecuteJob` runs `Keeper.ExecuteJob` with `senderAddress` = the signer's account address and no
    contract address; the two wasm bindings are called by wasmd with the calling contract's address.  The
    op alphabet itself is wider (`Op.exec` takes ANY `Caller`, `Op.execWasm` / `Op.execLegacy` ANY byte string
    as contract address — the harness drives the keeper entry point with such callers too), so the theorems
    about "the account or contract that requested the execution" carry this predicate as a hypothesis. -/
def Op.messageLevel : Op → Prop
  | .exec _ _ caller => ∃ a, sdkAddr a ∧ caller = Caller.account a
  | .execWasm addr _ _ => sdkAddr addr
  | .execLegacy addr _ _ => sdkAddr addr
  | _ => True

/-- the execution request an operation carries: job id, supplied payload, caller -/
def Op.request : Op → Option (Bytes × Supplied × Caller)
  | .exec id sup caller => some (id, sup, caller)
  | .execWasm addr id b => some (id, .bytes b, Caller.wasm addr)
  | .execLegacy addr id b => some (id, .bytes b, Caller.wasm addr)
  | _ => none

/-- the payload a successful request runs with: the supplied bytes if the job is modifiable and bytes were
    supplied, the stored payload otherwise -/
def chosen (j : Job) (sup : Supplied) : Bytes :=
  match j.modifiable, sup with
  | true, .bytes b => b
  | _, _ => j.payload

/-- "the message calls job `j` for the requester recorded in it": chain, contract, ABI and MEV flag are the
    job's; the payload is a payload `p` followed by the 32-byte left-padded address of the requester the
    message itself names (`SenderAddress`, else `ContractAddress`); `p` is the job's stored payload unless
    the job is modifiable (for a modifiable job this predicate leaves `p` open: which `p` it is — the bytes the
    requesting operation supplied, `chosen j sup` — is stated by `pending_call_provenance` and
    `every_enqueued_call_is_the_jobs`) -/
def Call.fromJob (c : Call) (j : Job) : Prop :=
  c.chain = j.chain ∧ c.contract = j.contract ∧ c.abi = j.abi ∧ c.mev = j.mev ∧
  ∃ p who : Bytes, who = ((c.sender.orElse fun _ => c.contractAddr).getD []) ∧ who.length ≤ 32 ∧
    c.payload = p ++ leftPad32 who ∧ (leftPad32 who).length = 32 ∧ (j.modifiable = false → p = j.payload)

end Paloma.Scheduler
