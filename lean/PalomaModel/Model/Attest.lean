/-
Model of the attestation of EVM consensus messages: "a remote transaction is accepted as
proof of delivery only if its call data is the compass encoding of exactly that message and its
receipt reports success".

Go sources modelled (statement order mirrored):
* x/evm/types/eth_txable.go   — `VerifyAgainstTX` of `UpdateValset`, `SubmitLogicCall`,
  `UploadUserSmartContract`, `CompassHandover` (loop `for i := len(sigs); i > 0; i--` over the
  signature prefixes `sigs[0:i]`, `bytes.Equal(tx.Data(), contractABI.Pack(method, args…))`)
  and of `UploadSmartContract` (`tx.Data() == bytecode ++ constructor input`);
  `BuildCompassConsensus` (turnstone_abi.go).  For `UploadSmartContract` the Go code compares
  `tx.Data()` with ONE byte string built as `bytecode`, followed — only when the message has a
  constructor input — by the re-packed constructor arguments; `upData` is that string for both
  shapes of the message (`ctor = []`: the bare bytecode, nothing may follow it).
* util/libcons/consensus.go + x/evm/types/proofs_hash_bytes.go — `VerifyEvidence` over the
  evidence of all validators (`winnerOfH hp`, built on `Model/Libcons.lean`): proofs are grouped by
  `sha256(BytesToHash())` — the hash is the PARAMETER `hp`, so that collision-freeness is a stated
  hypothesis of the theorems (`NoCollOn`) and not a property of the model; the winner is the first
  proof stored in the winning hash group — and `TxExecutedProof.BytesToHash` is the serialized
  transaction FOLLOWED BY the serialized receipt, so the receipt is part of a proof's identity.
  `winnerOf` / `attestEv` / `Op.attestEv` (what the driver runs) use the collision-free naming
  `idealHash`.
* the message id inside the call data of `SubmitLogicCall` / `UploadUserSmartContract` is
  `int64(msg.GetId())`, the id of the QUEUED message (`QMsg.id`), and the valset id inside an
  `UpdateValset` is that of the Go valset `SetSnapshotOnChain` is then called with: `Action.delivered`
  takes the queue id and overwrites the corresponding free fields of the ABI-level records.
* the used-transaction set (`isTxProcessed` / `setTxAsAlreadyProcessed`) is keyed by `tx.Hash()` of
  the DECODED transaction on both sides, so it identifies the remote transaction whatever encoding
  the evidence bytes used (`TxProof.hash` vs `TxProof.enc`).
* x/evm/keeper/attest.go      — `attestMessageWrapper` (cache context, committed iff the result is
  nil, `ErrEthTxNotVerified` or `ErrEthTxFailed`; the message is removed inside that cache
  context), `routerAttester` (receipt status gate, deferred `setTxAsAlreadyProcessed` inside the
  cache context), `attestTransactionIntegrity` (`isTxProcessed`, valset chosen by the public access
  data, `verifyTx`).
* attest_update_valset.go, attest_submit_logic_call.go, attest_upload_smart_contract.go,
  attest_compass_handover.go, attest_upload_user_smart_contract.go — what happens after a
  successful verification (`applySuccess`), on EXECUTABLE keeper state (`Chain`):
  x/valset/keeper `SetSnapshotOnChain` (`snapshot.Chains = append(…)`: `Chain.liveOn`, one entry per
  listing, no de-duplication — `markLive`), `GetLatestSnapshotOnChain` (walk down from the last
  snapshot id, a missing snapshot ends the walk: `latestOnChain` / `Chain.hasSnapshot`),
  x/evm/keeper `SetUserSmartContractDeploymentActive` (`Chain.userActive`, `markUserActive`),
  `updateSmartContractDeployment` / `SetSmartContractAsActive` (`Chain.deployments`,
  `Chain.activeContract`).

Abstracted: the retry logic of error proofs (only "message removed, no
success effect" is kept), metrics events, the content of the handover message that a compass
upload schedules (only the fact: `Effect.handoverScheduled`, the one effect tag with no executable
counterpart — the handover message itself is not put into the model's queue), the TEXT of the
stored compass ABI (kept: whether it parses and whether it declares each delivery method with the
parameter list the Go argument list packs to — `CompassAbi`, read from the LATEST compass at
attestation time; when the expected call data cannot be built `VerifyAgainstTX` returns a
non-sentinel error and nothing is committed: `buildable`, `Res.encodeErr`), the deployed address stored with a compass /
user deployment, the `(chain, block height)` key of a user deployment inside its contract (one
deployment per user contract on this chain), one chain — the state of ONE chain reference id is
modelled; what governance does to the SET of supported chains (`AddSupportForNewChain`,
`RemoveSupportForChain`, of this chain or of any other one) is `Gov` / `gov` at the end of this file:
the used-transaction store `tx-processed` is a store of the evm MODULE, not of a chain, and none of
these operations reads or writes it.  Core Lean only.
-/
import PalomaModel.Model.SignBytes
import PalomaModel.Model.Libcons

namespace Paloma.Attest
open Paloma.Abi Paloma.SignBytes

/-! ## delivery-side selectors (`abi.JSON(compassABI).Methods[name].ID`) -/

def selUpdateValsetD : Bytes := [0xf0, 0x64, 0xac, 0xb2]
def selSubmitLogicCallD : Bytes := [0xa9, 0x30, 0xe8, 0xdc]
def selDeployContractD : Bytes := [0x61, 0xba, 0xeb, 0x63]
def selCompassUpdateBatchD : Bytes := [0x08, 0xd2, 0xb3, 0xe3]

#guard sigSel "update_valset(((address[],uint256[],uint256),(uint256,uint256,uint256)[]),(address[],uint256[],uint256),address,uint256)" = selUpdateValsetD
#guard sigSel "submit_logic_call(((address[],uint256[],uint256),(uint256,uint256,uint256)[]),(address,bytes),(uint256,uint256,uint256,bytes32),uint256,uint256,address)" = selSubmitLogicCallD
#guard sigSel "deploy_contract(((address[],uint256[],uint256),(uint256,uint256,uint256)[]),address,bytes,(uint256,uint256,uint256,bytes32),uint256,uint256,address)" = selDeployContractD
#guard sigSel "compass_update_batch(((address[],uint256[],uint256),(uint256,uint256,uint256)[]),(address,bytes)[],uint256,uint256,address)" = selCompassUpdateBatchD

/-! ## consensus tuple -/

/-- `consensustypes.SignData` as far as `BuildCompassConsensus` reads it: the external account
    address STRING (map key) and the signature split into `V = sig[64] + 27`, `R`, `S`. -/
structure SignData where
  ext : Bytes
  v : Nat
  r : Nat
  s : Nat
deriving Repr, DecidableEq, Inhabited

/-- `slice.MakeMapKeys(signatures, ExternalAccountAddress)` then `signatureMap[validator]`:
    the LAST signature stored under that key wins. -/
def lookupSig (sd : List SignData) (key : Bytes) : Option SignData :=
  sd.foldl (fun acc s => if s.ext == key then some s else acc) none

def sigV (o : Option SignData) : V :=
  match o with
  | some s => .seq [.word s.v, .word s.r, .word s.s]
  | none => .seq [.word 0, .word 0, .word 0]

/-- `TransformValsetToCompassValset` -/
def compassValsetV (vs : GoValset) : V :=
  .seq [words (vs.validators.map hexToAddress), words (vs.powers.map castI64), .word (castI64 vs.valsetId)]

/-- `BuildCompassConsensus(valset, signatures)` as the ABI value of
    `((address[],uint256[],uint256),(uint256,uint256,uint256)[])` -/
def consensusV (vs : GoValset) (sd : List SignData) : V :=
  .seq [compassValsetV vs, .seq (vs.validators.map fun v => sigV (lookupSig sd v))]

/-! ## queued messages -/

inductive Action where
  | uv (f : UVFields) (valsetId : Nat)           -- fields + the Go `Valset.ValsetID` (snapshot id)
  | slc (f : SLCFields)
  | usc (f : USCFields) (contractId : Nat)      -- `UploadUserSmartContract.Id`
  | ch (f : CHFields) (contractId : Nat)        -- `CompassHandover.Id` (compass smart contract id)
  | up (bytecode ctor : Bytes) (contractId : Nat)  -- `UploadSmartContract` (Bytecode, ConstructorInput, Id)
deriving Repr, DecidableEq, Inhabited

structure QMsg where
  id : Nat
  action : Action
  /-- the valset `attestTransactionIntegrity` selects through `PublicAccessData.ValsetID`
      (the empty valset when the id is 0 or the snapshot does not exist) -/
  valset : GoValset
  sigs : List SignData
  /-- `UploadSmartContract` only (not read for the other actions): the message's own `Abi` parses
      (`abi.JSON(m.GetAbi())`) and its constructor input, when there is one, unpacks against the
      constructor of that ABI — i.e. the expected deployment call data exists.  Any string can be
      stored here: `AddUploadSmartContractToConsensus` checks nothing. -/
  upOk : Bool := true
deriving Repr, Inhabited

/-- selector, argument types and argument values `VerifyAgainstTX` packs after the consensus for the
    message stored under the queue id `id`; `none` only for `up`, which is not an ABI call.
    The message-id argument of the two fee-paying actions is `int64(msg.GetId())` — the id of the
    QUEUED message, not a field of the action — and the valset id inside the new valset of an
    update-valset is `int64(m.Valset.ValsetID)`, the same Go value `SetSnapshotOnChain` is called
    with afterwards.  So the free fields `SLCFields.id`, `USCFields.id` and `UVFields.valsetId` of
    the action are NOT read here: they are overwritten by `castI64 id` / `castI64 valsetId`.
    (Before /repo commit cab3e325 the two fee-paying actions had no argument list when
    `Fees == nil`: the Go code panicked.) -/
def Action.delivered (a : Action) (id : Nat) : Option (Bytes × List Ty × List V) :=
  match a with
  | .uv f vid => some (selUpdateValsetD, UV.deliveredTys, UV.deliveredVals { f with valsetId := castI64 vid })
  | .slc f => some (selSubmitLogicCallD, SLC.deliveredTys, SLC.deliveredVals { f with id := castI64 id })
  | .usc f _ => some (selDeployContractD, USC.deliveredTys, USC.deliveredVals { f with id := castI64 id })
  | .ch f _ => some (selCompassUpdateBatchD, CH.deliveredTys, CH.deliveredVals f)
  | .up _ _ _ => none

/-- `contractABI.Pack(method, consensus, args…)` -/
def calldata (sel : Bytes) (tys : List Ty) (vals : List V) (cons : V) : Bytes :=
  sel ++ encodeArgs (consensusTy :: tys) (cons :: vals)

/-- the Go loop `for i := len(sigs); i > 0; i--`: prefixes `n, n-1, …, 1`, never the empty one -/
def tryPrefixes (vs : GoValset) (sigs : List SignData) (sel : Bytes) (tys : List Ty) (vals : List V)
    (data : Bytes) : Nat → Bool
  | 0 => false
  | i + 1 =>
    if data = calldata sel tys vals (consensusV vs (sigs.take (i + 1))) then true
    else tryPrefixes vs sigs sel tys vals data i

inductive VerifyRes where
  | ok
  | notVerified     -- `ErrEthTxNotVerified`
deriving Repr, DecidableEq, Inhabited

/-- What `VerifyAgainstTX` needs of the ABI of the compass `GetLastCompassContract` returns — the
    compass saved LAST (governance proposal / genesis), which is not necessarily the one active on
    the chain the message was relayed to — in order to BUILD the expected call data:
    `abi.JSON(compass.AbiJSON)` must succeed and `contractABI.Pack(method, args…)` must find the
    method with a parameter list the Go argument list fits.  `true` for a method = declared with
    exactly the parameter list of the `#guard`s above (so the selector and the encoding are those of
    `calldata`); `false` = not declared, or declared with a parameter list `Pack` refuses the
    arguments for (count or kind mismatch).  A method that packs the same arguments to OTHER bytes is
    outside this model. -/
structure CompassAbi where
  parses : Bool := true
  uv : Bool := true      -- `update_valset`
  slc : Bool := true     -- `submit_logic_call`
  usc : Bool := true     -- `deploy_contract`
  ch : Bool := true      -- `compass_update_batch`
deriving Repr, DecidableEq, Inhabited

/-- `contractABI.Pack(method of the action, …)` does not fail -/
def CompassAbi.packs (c : CompassAbi) (a : Action) : Bool :=
  match a with
  | .uv _ _ => c.uv
  | .slc _ => c.slc
  | .usc _ _ => c.usc
  | .ch _ _ => c.ch
  | .up _ _ _ => true

def isUp (a : Action) : Bool :=
  match a with
  | .up _ _ _ => true
  | _ => false

def upData (a : Action) : Bytes :=
  match a with
  | .up bc ctor _ => bc ++ ctor
  | _ => []

/-- The expected call data of the stored message can be built, i.e. `VerifyAgainstTX` reaches its
    `bytes.Equal`: for a compass upload the message's own ABI / constructor input are usable; for the
    compass calls the latest compass ABI parses and — `Pack` is only called inside the loop over the
    signature prefixes, which does not run without signatures — declares the method.  When this is
    `false`, `VerifyAgainstTX` returns an error that is NOT `ErrEthTxNotVerified`. -/
def buildable (c : CompassAbi) (m : QMsg) : Bool :=
  if isUp m.action then m.upOk
  else c.parses && (m.sigs.isEmpty || c.packs m.action)

/-- `VerifyAgainstTX` -/
def verifyAgainstTx (m : QMsg) (data : Bytes) : VerifyRes :=
  if isUp m.action then
    (if data = upData m.action then .ok else .notVerified)
  else
    match m.action.delivered m.id with
    | none => .notVerified   -- unreachable: only `up` has no argument list
    | some d =>
      if tryPrefixes m.valset m.sigs d.1 d.2.1 d.2.2 data m.sigs.length then .ok else .notVerified

/-! ## receipts

`TxExecutedProof.GetReceipt` is go-ethereum's `Receipt.UnmarshalBinary`: the consensus encoding of a
receipt is `[type byte ‖] rlp([postStateOrStatus, cumulativeGasUsed, bloom, logs])`, and whether the
receipt REPORTS SUCCESS is read off its first field alone (`Receipt.setStatus`):

* the single byte `0x01`  → `Status = 1` (successful),
* the empty string        → `Status = 0` (failed),
* a 32-byte string        → `PostState` = that string, the post-transaction STATE ROOT of a receipt in
  the form used before EIP-658 (or emitted by a node that fills in both `root` and `status`:
  `statusEncoding` writes the root whenever there is one, whatever `Status` says — also for a
  REVERTED transaction).  Such a receipt carries NO status code; `Status` keeps its zero value,
* anything else           → decoding error.

The router's gate is `receipt.Status != ReceiptStatusSuccessful`, so only the first form passes. -/

/-- go-ethereum `Receipt.setStatus` on the first field of the serialized receipt: the `Status` the
    decoded receipt has (`none`: the receipt does not decode). -/
def receiptStatusOf (f : Bytes) : Option Nat :=
  if f = [1] then some 1
  else if f = [] then some 0
  else if f.length = 32 then some 0
  else none

/-- the `PostState` of the decoded receipt (`[]`: the receipt carries a status code, or nothing) -/
def receiptPostState (f : Bytes) : Bytes :=
  if f.length = 32 then f else []

/-! ## router -/

structure TxProof where
  hash : Nat               -- `tx.Hash()`
  data : Bytes             -- `tx.Data()`
  receipt : Option Nat     -- `none`: `GetReceipt` fails (no / undecodable receipt); else `Status`
  deployLog : Bool         -- the receipt carries a decodable `ContractDeployed` log
  variant : Nat := 0       -- everything else in the serialized receipt (gas used, other logs)
  enc : Nat := 0           -- which of the valid serializations of THIS transaction `SerializedTX` is:
                           -- 0 = the canonical EIP-2718 / legacy encoding (`keccak(bytes) = tx.Hash()`),
                           -- n > 0 = another encoding that `UnmarshalBinary` accepts and `MarshalBinary`
                           -- reproduces (EIP-4844 network form carrying blob sidecar n).  It is part of
                           -- the evidence bytes (`BytesToHash`), NOT of `tx.Hash()`:
                           -- two proofs are byte-identical iff all six fields agree
  sender : Option Nat := none
                           -- the account the transaction was sent from, as anybody can recover it from
                           -- the transaction itself (`ethtypes.Sender(LatestSignerForChainID(tx.ChainId()), tx)`);
                           -- `none`: the transaction carries no valid signature.  A function of the
                           -- transaction (same `hash` ⇒ same sender).  NOTHING below reads it:
                           -- `VerifyAgainstTX` looks at `tx.Data()` only, and the relayer the call data
                           -- must name is `Message.AssigneeRemoteAddress`, whoever sent the transaction
                           -- (`Props/C07.lean` §11: `attest_ignores_the_sender`,
                           -- `calldata_naming_another_relayer_rejected`).  (The compass-upload attester
                           -- derives the new contract address from the sender — abstracted, see below.)
  postState : Bytes := []  -- the 32-byte state root a receipt WITHOUT status code carries in place of it
                           -- (`Receipt.PostState`; `[]` for a receipt with a status code).  Part of the
                           -- evidence bytes: `BytesToHash` re-encodes the decoded receipt and
                           -- `statusEncoding` emits the root.  The router never reads it: the gate is
                           -- `receipt` (= `Status`), which go-ethereum leaves 0 for such a receipt —
                           -- `TxProof.ofReceiptField` builds both from the receipt's first field.
deriving Repr, DecidableEq, Inhabited

/-- The proof value of a `TxExecutedProof` whose serialized receipt has the first field `field`
    (`none`: no serialized receipt at all): status and post-state are DECODED from it, as
    `GetReceipt` does, not supplied. -/
def TxProof.ofReceiptField (hash : Nat) (data : Bytes) (field : Option Bytes) (deployLog : Bool)
    (variant enc : Nat) (sender : Option Nat) : TxProof :=
  { hash := hash, data := data, receipt := field.bind receiptStatusOf, deployLog := deployLog,
    variant := variant, enc := enc, sender := sender,
    postState := match field with
      | some f => receiptPostState f
      | none => [] }

inductive Winner where
  | none                   -- no evidence, or consensus not achieved
  | errorProof             -- `SmartContractExecutionErrorProof`
  | tx (p : TxProof)       -- `TxExecutedProof`
  | other                  -- any other `Hashable` proof type
deriving Repr, DecidableEq, Inhabited

inductive DepStatus where
  | inFlight
  | waiting                -- `WAITING_FOR_ERC20_OWNERSHIP_TRANSFER`
deriving Repr, DecidableEq, Inhabited

inductive Effect where
  | snapshotLive (msg valsetId : Nat)         -- `Valset.SetSnapshotOnChain`
  | deploymentRecorded (msg contractId : Nat) -- deployment address stored, status → waiting
  | activated (msg contractId : Nat)          -- `SetSmartContractAsActive` succeeded
  | handoverScheduled (msg contractId : Nat)  -- `scheduleCompassHandover`
  | userActive (msg contractId : Nat)         -- `SetUserSmartContractDeploymentActive`
deriving Repr, DecidableEq, Inhabited

def Effect.msg : Effect → Nat
  | .snapshotLive m _ | .deploymentRecorded m _ | .activated m _ | .handoverScheduled m _ | .userActive m _ => m

/-- keeper state outside the queue that the action attesters read AND write.  Everything the
    success effects of the property touch is an executable field here:
    * "validator snapshot marked live on the chain" = `liveOn` (one entry per listing of this chain in
      a snapshot's `Chains`, `SetSnapshotOnChain` APPENDS and never de-duplicates),
    * "new bridge contract recorded or activated" = `deployments` (status) and `activeContract`,
    * "user contract deployment recorded" = `userActive` (deployment status `ACTIVE`). -/
structure Chain where
  deployments : List (Nat × DepStatus) := []   -- compass deployments on this chain, by contract id
  activeContract : Nat := 0                    -- `ChainInfo.ActiveSmartContractID`
  liveOn : List Nat := []                      -- snapshot ids whose `Chains` lists this chain (with multiplicity)
  snapshots : List Nat := []                   -- ids of existing snapshots
  currentSnapshot : Nat := 0                   -- `GetCurrentSnapshot().Id` = the last snapshot id handed out
  userDeployments : List Nat := []             -- user contract ids with a deployment on this chain
  userActive : List Nat := []                  -- … whose deployment on this chain has status `ACTIVE`
  handoverOk : Bool := true                    -- `scheduleCompassHandover` can pick a relayer
  abi : CompassAbi := {}                       -- ABI of the LATEST compass (`GetLastCompassContract`)
deriving Repr, DecidableEq, Inhabited

/-- `GetLatestSnapshotOnChain`: walk down from the last snapshot id; a missing snapshot ends the walk
    with `ErrNotFound` (so does reaching id 0); the first snapshot that lists the chain is returned. -/
def latestOnChain (c : Chain) : Nat → Option Nat
  | 0 => none
  | id + 1 =>
    if !(c.snapshots.contains (id + 1)) then none
    else if c.liveOn.contains (id + 1) then some (id + 1)
    else latestOnChain c id

/-- `GetLatestSnapshotOnChain` finds a snapshot -/
def Chain.hasSnapshot (c : Chain) : Bool := (latestOnChain c c.currentSnapshot).isSome

/-- `SetSnapshotOnChain` on an existing snapshot: `snapshot.Chains = append(snapshot.Chains, chain)` -/
def markLive (c : Chain) (v : Nat) : Chain := { c with liveOn := c.liveOn ++ [v] }

/-- `SetUserSmartContractDeploymentActive`: `Deployments[i].Status = ACTIVE` -/
def markUserActive (c : Chain) (cid : Nat) : Chain :=
  { c with userActive := if c.userActive.contains cid then c.userActive else cid :: c.userActive }

structure St where
  queue : List QMsg := []
  processed : List Nat := []          -- store `tx-processed`
  chain : Chain := {}
  effects : List Effect := []         -- ghost log, newest first (tied to `chain` by Props/C07 §4b)
  accepted : List (Nat × Nat) := []   -- ghost log of (message id, tx hash), newest first
  nextId : Nat := 0                   -- the consensus id counter (C05)
deriving Repr, Inhabited

inductive Res where
  | noop               -- nothing happened (no winner)
  | unknownMsg         -- no such message in the queue
  | errorHandled       -- error proof: message removed, no success effect
  | ok                 -- accepted: success effects applied
  | txFailed           -- `ErrEthTxFailed`      (committed: removed, tx marked)
  | notVerified        -- `ErrEthTxNotVerified` (committed: removed, tx marked)
  | alreadyProcessed   -- `ErrUnexpectedError`  (not committed)
  | receiptErr         -- `GetReceipt` error    (not committed)
  | postErr            -- an error after verification (not committed)
  | encodeErr          -- the expected call data could not be built: ABI parse / `Pack` /
                       -- constructor-input unpack error of `VerifyAgainstTX` (not committed)
deriving Repr, DecidableEq, Inhabited

def findMsg (q : List QMsg) (id : Nat) : Option QMsg := q.find? fun m => m.id == id

def removeMsg (q : List QMsg) (id : Nat) : List QMsg := q.filter fun m => m.id != id

def isUv (a : Action) : Bool :=
  match a with
  | .uv _ _ => true
  | _ => false

/-- update-valset attester: "remove all older update valsets" -/
def removeOlderUv (q : List QMsg) (id : Nat) : List QMsg :=
  q.filter fun m => !(isUv m.action && decide (m.id < id))

def depStatus (c : Chain) (cid : Nat) : Option DepStatus :=
  (c.deployments.find? fun d => d.1 == cid).map (·.2)

def setDep (c : Chain) (cid : Nat) (st : DepStatus) : Chain :=
  { c with deployments := (cid, st) :: c.deployments.filter fun d => d.1 != cid }

def delDep (c : Chain) (cid : Nat) : Chain :=
  { c with deployments := c.deployments.filter fun d => d.1 != cid }

/-- `SetSmartContractAsActive`: the deployment must be waiting; then `ActivateChainReferenceID`
    (a no-op on the chain info when the chain already runs this or a newer contract) and the
    deployment record is deleted. -/
def setActive (c : Chain) (cid : Nat) : Option Chain :=
  if depStatus c cid = some .waiting then
    some (delDep { c with activeContract := if c.activeContract ≥ cid then c.activeContract else cid } cid)
  else none

/-- what the action attester does AFTER `attestTransactionIntegrity` succeeded.
    `none` = it returns an error (nothing is committed). -/
def applySuccess (c : Chain) (m : QMsg) (p : TxProof) : Option (Chain × List Effect) :=
  match m.action with
  | .uv _ vid =>
    -- `SetSnapshotOnChain` errors are logged and ignored
    if c.snapshots.contains vid then
      some (markLive c vid, [.snapshotLive m.id vid])
    else some (c, [])
  | .slc _ => some (c, [])
  | .usc _ cid =>
    if !p.deployLog then none
    else if !(c.userDeployments.contains cid) then none
    else some (markUserActive c cid, [.userActive m.id cid])
  | .ch _ cid =>
    match setActive c cid with
    | none => none
    | some c' => some (c', [.activated m.id cid])
  | .up _ _ cid =>
    if depStatus c cid ≠ some .inFlight then none
    else
      if !c.hasSnapshot then
        -- first deployment on this chain: current snapshot goes live, contract becomes active
        if !(c.snapshots.contains c.currentSnapshot) then none
        else
          match setActive (markLive (setDep c cid .waiting) c.currentSnapshot) cid with
          | none => none
          | some c2 =>
            some (c2, [.activated m.id cid, .snapshotLive m.id c.currentSnapshot, .deploymentRecorded m.id cid])
      else if !c.handoverOk then none
      else some (setDep c cid .waiting, [.handoverScheduled m.id cid, .deploymentRecorded m.id cid])

/-- committed removal of the message (and marking of the transaction) without success effects -/
def commitReject (s : St) (id hash : Nat) : St :=
  { s with queue := removeMsg s.queue id, processed := hash :: s.processed }

/-- `attestRouter` for the message `id` when the evidence winner is `w` -/
def attest (s : St) (id : Nat) (w : Winner) : St × Res :=
  match findMsg s.queue id with
  | none => (s, .unknownMsg)
  | some m =>
    match w with
    | .none => (s, .noop)
    | .errorProof => ({ s with queue := removeMsg s.queue id }, .errorHandled)
    | .other => (s, .postErr)   -- `ErrUnexpectedError` "unknown type"
    | .tx p =>
      if p.receipt = none then (s, .receiptErr)
      else if p.receipt ≠ some 1 then (commitReject s id p.hash, .txFailed)
      else if s.processed.contains p.hash then (s, .alreadyProcessed)
      else if !(buildable s.chain.abi m) then (s, .encodeErr)
      else
        match verifyAgainstTx m p.data with
        | .notVerified => (commitReject s id p.hash, .notVerified)
        | .ok =>
          match applySuccess s.chain m p with
          | none => (s, .postErr)
          | some ce =>
            ({ s with
                queue := removeMsg (if isUv m.action then removeOlderUv s.queue id else s.queue) id
                processed := p.hash :: s.processed
                chain := ce.1
                effects := ce.2 ++ s.effects
                accepted := (id, p.hash) :: s.accepted }, .ok)

/-! ## evidence of several validators

Each validator's evidence is a proof.  The Go code groups the proofs by
`hex(sha256(BytesToHash()))` (a map key) and keeps, per group, the FIRST proof it met
(`if val.evidence == nil { val.evidence = hashable }`).  The hash is a parameter here
(`hp : ProofV → Nat`, "sha256 of the proof bytes as a number"); `ProofV` values stand for the
byte strings (`DecidableEq` on the model value: transaction AND receipt).  `winnerOfH hp` is the
Go algorithm for an arbitrary hash, collisions included; `winnerOf` instantiates it with the
collision-free naming "position of the first occurrence in the evidence list" (`idealHash`), which
is what the compiled driver runs.  `Props/C07.lean` proves the vote theorems for EVERY `hp` under
the pointwise hypothesis that `hp` does not collide on the proofs actually submitted. -/

inductive ProofV where
  | tx (p : TxProof)            -- `TxExecutedProof{SerializedTX, SerializedReceipt}`
  | errorProof (msg : Nat)      -- `SmartContractExecutionErrorProof{ErrorMessage}`
  | other (n : Nat)             -- any other registered `Hashable`
deriving Repr, DecidableEq, Inhabited

def ProofV.toWinner : ProofV → Winner
  | .tx p => Winner.tx p
  | .errorProof _ => Winner.errorProof
  | .other _ => Winner.other

/-- position of the first occurrence (`l.length` when absent) -/
def firstIdx (l : List ProofV) (a : ProofV) : Nat :=
  match l with
  | [] => 0
  | x :: xs => if x = a then 0 else firstIdx xs a + 1

/-- evidence as stored on the message: (validator address, proof), in store order -/
abbrev EvidenceV := Nat × ProofV

/-- the evidence list in the vocabulary of `Model/Libcons.lean`: (validator, hash of the proof) -/
def toLibconsH (hp : ProofV → Nat) (evs : List EvidenceV) : List Libcons.Evidence :=
  evs.map fun e => (e.1, hp e.2)

/-- `groups[hash].evidence`: the first proof stored under that hash -/
def groupProof (hp : ProofV → Nat) (evs : List EvidenceV) (h : Nat) : Option ProofV :=
  (evs.find? fun e => hp e.2 == h).map (·.2)

/-- `ConsensusChecker.VerifyEvidence(...).Winner` for the proof hash `hp`: the first proof of the
    hash group that holds 2/3 of the snapshot's shares.  No evidence, no overall quorum or no group
    quorum: `Winner.none`. -/
def winnerOfH (hp : ProofV → Nat) (snap : Libcons.Snapshot) (evs : List EvidenceV) : Winner :=
  match Libcons.verifyEvidence snap (toLibconsH hp evs) with
  | .notAchieved => .none
  | .winnerIn ws =>
    match ws with
    | [] => .none
    | h :: _ =>
      match groupProof hp evs h with
      | some P => P.toWinner
      | none => .none          -- unreachable: `h` is the hash of some member

/-- the collision-free hash used by the driver: every proof is named by the position of its first
    occurrence in the evidence list -/
def idealHash (evs : List EvidenceV) : ProofV → Nat := firstIdx (evs.map (·.2))

def toLibcons (evs : List EvidenceV) : List Libcons.Evidence := toLibconsH (idealHash evs) evs

def winnerOf (snap : Libcons.Snapshot) (evs : List EvidenceV) : Winner :=
  winnerOfH (idealHash evs) snap evs

/-- `attestRouter` as the end blocker runs it, for the proof hash `hp`: vote, then route -/
def attestEvH (hp : ProofV → Nat) (s : St) (id : Nat) (snap : Libcons.Snapshot) (evs : List EvidenceV) :
    St × Res :=
  attest s id (winnerOfH hp snap evs)

/-- `attestRouter` as the end blocker runs it: vote, then route -/
def attestEv (s : St) (id : Nat) (snap : Libcons.Snapshot) (evs : List EvidenceV) : St × Res :=
  attest s id (winnerOf snap evs)

/-! ## histories -/

inductive Op where
  | enqueue (a : Action) (vs : GoValset) (sigs : List SignData)  -- `Put` (fresh id from the shared counter)
  | update (m : QMsg)          -- anything that rewrites a stored message under its id:
                               -- signatures, elected estimate + fees (`MsgIDToReplace`), public access data
  | remove (id : Nat)          -- `Remove` outside attestation (pruning, superseded valset updates)
  | setChain (c : Chain)       -- any other keeper activity
  | attest (id : Nat) (w : Winner)
  | attestEv (id : Nat) (snap : Libcons.Snapshot) (evs : List EvidenceV)
deriving Repr, Inhabited

def hasId (q : List QMsg) (id : Nat) : Bool := q.any fun m => m.id == id

def step (s : St) (op : Op) : St :=
  match op with
  | .enqueue a vs sigs =>
    { s with nextId := s.nextId + 1
             queue := s.queue ++ [{ id := s.nextId + 1, action := a, valset := vs, sigs := sigs }] }
  | .update m =>
    if hasId s.queue m.id then
      { s with queue := s.queue.map fun x => if x.id == m.id then m else x }
    else s
  | .remove id => { s with queue := removeMsg s.queue id }
  | .setChain c => { s with chain := c }
  | .attest id w => (attest s id w).1
  | .attestEv id snap evs => (attestEv s id snap evs).1

def run (s : St) : List Op → St
  | [] => s
  | op :: ops => run (step s op) ops

/-! ## governance over the set of supported chains

x/evm/keeper/keeper.go — `AddSupportForNewChain` (a new `ChainInfo` under a new chain reference id, then
`TryDeployingLastCompassContractToAllChains`) and `RemoveSupportForChain` (`chainInfoStore.Delete(id)`,
then `RemoveConsensusQueue` for each of that chain's consensus queues: every message stored there is
deleted).  Neither touches the store `tx-processed`: it is keyed by the transaction hash alone, under
the store key of the evm module, shared by all chains.  So for the state of THIS chain:

* another chain is added or removed: nothing the router reads changes (a compass deployment scheduled on
  this chain as a side effect is ordinary keeper activity: `Op.setChain` / `Op.enqueue`);
* this chain is removed: its queue is emptied — one `Remove` per stored message — and the
  used-transaction set STAYS;
* this chain is added again: keeper activity (`Op.setChain` tells the new chain record).

`gov` is therefore DEFINED as a run of existing history ops (`govOps`), so that every theorem over
histories (`tx_single_use`, `used_tx_never_accepted_again`, …) covers histories with chain governance in
them (`Props/C07.lean` §13). -/

inductive Gov where
  | addOther       -- `AddSupportForNewChain` for another chain reference id
  | removeOther    -- `RemoveSupportForChain` of another chain
  | removeThis     -- `RemoveSupportForChain` of this chain
  | addThis        -- `AddSupportForNewChain` of this chain reference id after it was removed
deriving Repr, DecidableEq, Inhabited

/-- the history ops a governance operation amounts to, in the state it meets -/
def govOps (s : St) (g : Gov) : List Op :=
  match g with
  | .removeThis => s.queue.map fun m => Op.remove m.id
  | _ => []

def gov (s : St) (g : Gov) : St := run s (govOps s g)

/-- histories with chain governance in them -/
inductive Ev where
  | op (o : Op)
  | gov (g : Gov)
deriving Repr, Inhabited

def stepE (s : St) (e : Ev) : St :=
  match e with
  | .op o => step s o
  | .gov g => gov s g

def runE (s : St) : List Ev → St
  | [] => s
  | e :: es => runE (stepE s e) es

end Paloma.Attest
