/-
Model of the Skyway oracle of one remote chain (every chain has its own store prefix,
`GetStore(ctx, chainReferenceID)`; `Props/C02.lean` builds the product over chains), with the bridge
deployment (compass) id of the chain and its change by a chain activation:
  x/skyway/keeper/attestation.go  Attest, TryAttestation, processAttestation, GetAttestationMapping
                                  (incl. the `lastCompassID` filter), GetLatestCompassID
  x/skyway/abci.go                attestationTally
  x/skyway/keeper/keeper.go       overrideNonce, UpdateValidatorNoncesToLatest, the `EVMActivatedChain`
                                  subscriber (`setLatestCompassID` then `overrideNonce 0`)
Compass ids are naturals; 0 is the empty string (no deployment recorded: nothing is filtered).
Validators, claim hashes and nonces are naturals. A claim hash is used both as identity and as
the store order of competing attestations at one nonce (the harness passes the real 32-byte
tmhash as a number). Voting power is an *argument of each tally* (`GetLastValidatorPower`,
`GetLastTotalPower` are read at tally time), so it may change arbitrarily between vote and tally.
The functions below take the total as a parameter, like the Go code reads it from a separate
store key; the histories of `Props/C02.lean` pass `totalOf table` (ASSUMPTION on x/staking:
`LastTotalPower` is the sum of the `LastValidatorPower` records, see `totalOf`).

Ghost state (never read by the executable ORACLE part, never printed by the driver): `epoch`,
`epochStart` and `log`, the list of every observation made by `TryAttestation` since genesis. (The one
reader is the bridge layer at the end of this file: `endBlock` takes the entries a tally appended to the
log as the list of `processAttestation` calls of that block, in order.)
`Props/C02.lean` ties the log to the executable state (observed flags, cursor, `minted`) and to the op
history, and `epoch` / `epochStart` to the reset ops of the history (`epoch_is_number_of_resets`,
`epochStart_is_last_reset`).
Core Lean only.
-/
namespace Paloma.Oracle

structure Att where
  nonce : Nat
  hash : Nat
  eth : Nat              -- remote block height of the stored (first submitted) claim
  votes : List Nat
  observed : Bool
  applicable : Bool      -- does the attestation handler succeed on this claim?
  amount : Nat := 0      -- what the claim mints when applied (part of the claim, covered by the hash)
  compass : Nat := 0     -- `GetCompassID()` of the stored (first submitted) claim (covered by the hash)
deriving Repr, DecidableEq

/-- ghost: one observation made by `TryAttestation`: claim `(nonce, hash)` was marked observed and handed
to the attestation handler (its effect is applied iff `applicable`) when the cursor stood at `cursorBefore`. -/
structure Obs where
  epoch : Nat
  nonce : Nat
  hash : Nat
  cursorBefore : Nat
  eth : Nat
  applicable : Bool
  amount : Nat
  /-- the vote list of the attestation at that moment -/
  voters : List Nat
  /-- the compass id of the observed claim -/
  compass : Nat := 0
  /-- the latest compass id of the chain at that moment (0: none recorded) -/
  deployment : Nat := 0
deriving Repr, DecidableEq

/-- what an observation minted -/
def Obs.mint (o : Obs) : Nat := if o.applicable then o.amount else 0

structure St where
  lastObserved : Nat
  lastEth : Nat
  valNonce : List (Nat × Nat)     -- validators that have a stored nonce record
  atts : List Att
  /-- total minted by applied claims since genesis (the observable effect) -/
  minted : Nat := 0
  /-- `LatestCompassIDKey`: the bridge deployment whose claims are tallied; 0 = "" (none recorded) -/
  compassId : Nat := 0
  /-- ghost: number of governance resets so far -/
  epoch : Nat := 0
  /-- ghost: the cursor value installed by the last governance reset (0 at genesis) -/
  epochStart : Nat := 0
  /-- ghost: every observation since genesis, oldest first -/
  log : List Obs := []
deriving Repr

def St.init : St :=
  { lastObserved := 0, lastEth := 0, valNonce := [], atts := [] }

/-- claims that took effect (were observed) since the last governance reset -/
def St.observations (s : St) : List Obs := s.log.filter (fun o => o.epoch == s.epoch)

/-- observed claims whose effect the handler could apply, since the last governance reset -/
def St.effects (s : St) : List Obs := s.observations.filter (fun o => o.applicable)

def lookupNonce (l : List (Nat × Nat)) (v : Nat) : Option Nat :=
  (l.find? (fun p => p.1 == v)).map (·.2)

/-- `GetLastSkywayNonceByValidator`: a validator without a record starts at `lastObserved - 1` -/
def lastNonceOf (s : St) (v : Nat) : Nat :=
  match lookupNonce s.valNonce v with
  | some n => n
  | none => if s.lastObserved ≥ 1 then s.lastObserved - 1 else 0

def setNonce (l : List (Nat × Nat)) (v n : Nat) : List (Nat × Nat) :=
  if l.any (fun p => p.1 == v) then l.map (fun p => if p.1 == v then (v, n) else p) else l ++ [(v, n)]

def findAtt (l : List Att) (n h : Nat) : Option Att := l.find? (fun a => a.nonce == n && a.hash == h)

def addVote (votes : List Nat) (v : Nat) : List Nat := if votes.contains v then votes else votes ++ [v]

def putAtt (l : List Att) (a : Att) : List Att :=
  if l.any (fun x => x.nonce == a.nonce && x.hash == a.hash)
  then l.map (fun x => if x.nonce == a.nonce && x.hash == a.hash then a else x)
  else l ++ [a]

inductive Res where
  | ok
  | rejected
deriving Repr, DecidableEq

/-- the stored attestation for `(n, h)`, or a fresh one carrying the submitted claim -/
def attFor (s : St) (n h eth : Nat) (applicable : Bool) (amount : Nat) (compass : Nat := 0) : Att :=
  (findAtt s.atts n h).getD
    { nonce := n, hash := h, eth := eth, votes := [], observed := false, applicable := applicable, amount := amount,
      compass := compass }

/-- `Attest` (through a claim message of a bonded validator). The claim's compass id is not looked at here:
a vote for a claim of any deployment is stored. -/
def vote (s : St) (v n h eth : Nat) (applicable : Bool) (amount : Nat := 0) (compass : Nat := 0) : St × Res :=
  if n ≠ lastNonceOf s v + 1 then (s, .rejected) else
  if (attFor s n h eth applicable amount compass).eth ≠ eth then (s, .rejected) else
  ({ s with atts := putAtt s.atts { attFor s n h eth applicable amount compass with
                                     votes := addVote (attFor s n h eth applicable amount compass).votes v },
            valNonce := setNonce s.valNonce v n }, .ok)

/-- running sum with early exit: does some prefix of `votes` exceed `required`? -/
def reaches (power : Nat → Nat) (required : Nat) : List Nat → Nat → Bool
  | [], _ => false
  | v :: vs, acc => if acc + power v > required then true else reaches power required vs (acc + power v)

inductive TryRes where
  | nothing        -- not enough power (or nothing to do)
  | observedOk     -- marked observed (effect applied iff applicable)
  | abort          -- TryAttestation returned an error: the tally of this chain stops
  | eventFailed    -- observed and applied like `observedOk`, but emitting the observation event failed
                   -- (chain-info lookup): TryAttestation returns that error, the tally of this chain stops
deriving Repr, DecidableEq

/-- collaborator fault: for which attestations (nonce, hash) does the observation event fail? -/
abbrev EventFault := Nat → Nat → Bool

def noFault : EventFault := fun _ _ => false

def faultOf (l : List (Nat × Nat)) : EventFault := fun n h => l.any (fun p => p.1 == n && p.2 == h)

/-- `types.AttestationVotesPowerThreshold` and the divisor in `TryAttestation`; `Props/C02.lean`
(`threshold_as_in_source`) proves them equal to the constants extracted from the current source -/
def votesPowerThreshold : Nat := 66
def powerDivisor : Nat := 100

/-- `requiredPower := AttestationVotesPowerThreshold.Mul(totalPower).Quo(100)` -/
def requiredPower (total : Nat) : Nat := votesPowerThreshold * total / powerDivisor

/-- ghost record of the observation of attestation `a` out of state `s` -/
def mkObs (s : St) (a : Att) : Obs :=
  { epoch := s.epoch, nonce := a.nonce, hash := a.hash, cursorBefore := s.lastObserved, eth := a.eth,
    applicable := a.applicable, amount := a.amount, voters := a.votes, compass := a.compass,
    deployment := s.compassId }

/-- the state change of a successful `TryAttestation`: height recorded, cursor moved, attestation stored as
observed, claim handed to the handler (`processAttestation`; the effect is `minted`) -/
def observe (s : St) (a : Att) : St :=
  { s with lastObserved := a.nonce, lastEth := a.eth,
           atts := putAtt s.atts { a with observed := true },
           minted := if a.applicable then s.minted + a.amount else s.minted,
           log := s.log ++ [mkObs s a] }

/-- `TryAttestation` on a (snapshot of an) attestation at nonce `lastObserved+1`. -/
def tryAtt (s : St) (a : Att) (power : Nat → Nat) (total : Nat) (ef : EventFault := noFault) : St × TryRes :=
  if a.observed then (s, .abort) else
  if !(reaches power (requiredPower total) a.votes 0) then (s, .nothing) else
  if a.nonce ≠ s.lastObserved + 1 then (s, .abort) else
  -- `SetLastObservedEthereumBlockHeight` runs first: a refused remote height leaves the oracle untouched
  -- (before 5e19ceda the cursor had already been moved here: the nonce was consumed without an observation)
  if s.lastEth > a.eth then (s, .abort) else
  (observe s a,
   -- the event is emitted AFTER the claim was applied: a failure there loses nothing but the event
   if ef a.nonce a.hash then .eventFailed else .observedOk)

def insertAsc (x : Nat) : List Nat → List Nat
  | [] => [x]
  | y :: ys => if x < y then x :: y :: ys else if x == y then y :: ys else y :: insertAsc x ys

/-- distinct nonces, ascending (`orderedKeys`) -/
def nonceKeys (l : List Att) : List Nat := l.foldr (fun a acc => insertAsc a.nonce acc) []

def insertByHash (a : Att) : List Att → List Att
  | [] => [a]
  | y :: ys => if a.hash < y.hash then a :: y :: ys else y :: insertByHash a ys

/-- attestations at nonce `n` in store (hash) order -/
def attsAt (l : List Att) (n : Nat) : List Att :=
  (l.filter (fun a => a.nonce == n)).foldr insertByHash []

/-- inner loop of `attestationTally` over the attestations of one nonce (snapshot values) -/
def stops (r : TryRes) : Bool := r == .abort || r == .eventFailed

def tallyAtts (s : St) (power : Nat → Nat) (total : Nat) (n : Nat) (ef : EventFault := noFault) : List Att → St × Bool
  | [] => (s, false)
  | a :: rest =>
    if n = s.lastObserved + 1 then
      if stops (tryAtt s a power total ef).2 then ((tryAtt s a power total ef).1, true)
      else tallyAtts (tryAtt s a power total ef).1 power total n ef rest
    else tallyAtts s power total n ef rest

/-- outer loop over the ordered nonces; `snap` is the mapping read at the start -/
def tallyKeys (s : St) (snap : List Att) (power : Nat → Nat) (total : Nat) (ef : EventFault := noFault) : List Nat → St
  | [] => s
  | n :: rest =>
    if (tallyAtts s power total n ef (attsAt snap n)).2 then (tallyAtts s power total n ef (attsAt snap n)).1
    else tallyKeys (tallyAtts s power total n ef (attsAt snap n)).1 snap power total ef rest

/-- `GetAttestationMapping`: with a latest compass id on record, attestations whose stored claim comes from
another bridge deployment are left out of the mapping (and so are never tallied) -/
def visible (s : St) : List Att := s.atts.filter (fun a => s.compassId == 0 || a.compass == s.compassId)

def tally (s : St) (power : Nat → Nat) (total : Nat) (ef : EventFault := noFault) : St :=
  tallyKeys s (visible s) power total ef (nonceKeys (visible s))

/-- `UpdateValidatorNoncesToLatest` (every 50th block) -/
def catchUp (s : St) : St :=
  { s with valNonce := s.valNonce.map (fun p => if s.lastObserved > p.2 then (p.1, s.lastObserved) else p) }

/-- `overrideNonce` (governance proposal or chain activation): a new epoch -/
def override (s : St) (n : Nat) : St :=
  { s with lastObserved := n, valNonce := s.valNonce.map (fun p => (p.1, n)),
           epoch := s.epoch + 1, epochStart := n }

/-- the `EVMActivatedChain` subscriber of the skyway keeper (chain activation / bridge re-deployment):
`setLatestCompassID`, then `overrideNonce(…, 0)` — a deployment switch is always a reset of the cursor -/
def activate (s : St) (c : Nat) : St := override { s with compassId := c } 0

def powerOf (tbl : List (Nat × Nat)) (v : Nat) : Nat :=
  match tbl.find? (fun p => p.1 == v) with
  | some p => p.2
  | none => 0

/-- `GetLastTotalPower`. ASSUMPTION (x/staking, `ApplyAndReturnValidatorSetUpdates`): the stored total
is the sum of the stored `LastValidatorPower` records; bonded validators that never vote are simply
further rows of the table. -/
def totalOf (tbl : List (Nat × Nat)) : Nat := (tbl.map (·.2)).sum

/-! ## Claim identity

The oracle keys an attestation by `(nonce, ClaimHash)`; everything above takes that key as the claim's
identity. The property speaks of the *identical claim*: every field of the reported event, the bridge
deployment id included. The harness therefore passes, next to the implementation's hash, its own identity
of the submitted claim (a number per distinct tuple of ALL claim fields, computed without `ClaimHash`).
`register` is the run-time form of the assumption `NoCollisionAt` of `Props/C02.lean`: it refuses a
submission whose key is already held by a different claim (`Props/C02.lean`: `registry_identifies`,
`checked_history_identifies_claim`). -/

def regLookup (r : List (Nat × Nat)) (h : Nat) : Option Nat := (r.find? (fun p => p.1 == h)).map (·.2)

/-- `none`: the key `h` is already held by a different claim -/
def register (r : List (Nat × Nat)) (h c : Nat) : Option (List (Nat × Nat)) :=
  match regLookup r h with
  | some c' => if c' = c then some r else none
  | none => some (r ++ [(h, c)])

def registerAll (r : List (Nat × Nat)) : List (Nat × Nat) → Option (List (Nat × Nat))
  | [] => some r
  | p :: rest =>
    match register r p.1 p.2 with
    | some r' => registerAll r' rest
    | none => none

/-! ## The bridge side of an executed-batch claim

  x/skyway/keeper/batch.go         BuildOutgoingTXBatch, OutgoingTxBatchExecuted, CancelOutgoingTXBatch
  x/skyway/keeper/msg_server.go    additionalPatchChecks (BatchSendToRemoteClaim)
  x/skyway/abci.go                 EndBlocker: createBatch, per chain attestationTally (+ catch-up),
                                   cleanupTimedOutBatches LAST

Whether the handler can apply an executed-batch claim is not a property of the claim (like the token of a
deposit) but of the batch store at the moment the claim is observed, and the same end blocker that
observes the claim also cancels expired batches. `Bridge` is the part of the store these claims act on:
the open batches of one token (value = Σ amount + tax of its transfers), the value waiting in the
unbatched pool, the vouchers burned by executed batches. The handler calls of a tally are exactly its new
log entries, in order (`observe` appends one per `processAttestation` call), and the handler never feeds
back into the oracle, so `endBlock` runs them after `tally`. -/

structure Batch where
  id : Nat          -- batch nonce
  amount : Nat      -- what executing it burns / cancelling it hands back to the pool
  timeout : Nat     -- `BatchTimeout` (unix seconds): build time + 10 min
deriving Repr, DecidableEq

structure Bridge where
  batches : List Batch := []
  pool : Nat := 0
  burned : Nat := 0
  /-- vouchers that entered through `send` (the harness mints what a user sends) -/
  funded : Nat := 0
  lastId : Nat := 0
  /-- claim hash ↦ batch nonce the claim reports as executed (what the stored claim carries) -/
  execClaims : List (Nat × Nat) := []
deriving Repr

/-- `getBatchTimeoutHeight`: block time + 10 minutes -/
def batchLifetime : Nat := 600

/-- a user's `SendToRemote` of `amt` (fresh vouchers) -/
def send (b : Bridge) (amt : Nat) : Bridge := { b with pool := b.pool + amt, funded := b.funded + amt }

/-- `BuildOutgoingTXBatch` at block time `now`: everything in the pool (the harness stays far below
`OutgoingTxBatchSize`) becomes one batch; nothing to batch = nothing happens -/
def build (b : Bridge) (now : Nat) : Bridge :=
  if b.pool = 0 then b else
  { b with batches := b.batches ++ [{ id := b.lastId + 1, amount := b.pool, timeout := now + batchLifetime }],
           pool := 0, lastId := b.lastId + 1 }

def findBatch (b : Bridge) (id : Nat) : Option Batch := b.batches.find? (fun x => x.id == id)

/-- can `OutgoingTxBatchExecuted` apply a claim for batch `id` reported at remote height `eth`? -/
def canExecute (b : Bridge) (id eth : Nat) : Bool :=
  match findBatch b id with
  | some x => eth < x.timeout
  | none => false

/-- `OutgoingTxBatchExecuted`: unknown batch / `BatchTimeout <= EthBlockHeight` → error, nothing written
(`processAttestation` logs it, the claim stays observed); otherwise the vouchers are burned and the batch
is deleted for good -/
def execBatch (b : Bridge) (id eth : Nat) : Bridge :=
  match findBatch b id with
  | some x =>
    if eth < x.timeout then
      { b with batches := b.batches.filter (fun y => y.id != id), burned := b.burned + x.amount }
    else b
  | none => b

/-- `cleanupTimedOutBatches` at block time `now`: every batch with `BatchTimeout < now` is cancelled, its
transfers go back to the pool -/
def cancelExpired (b : Bridge) (now : Nat) : Bridge :=
  { b with batches := b.batches.filter (fun x => !(x.timeout < now)),
           pool := b.pool + ((b.batches.filter (fun x => x.timeout < now)).map (·.amount)).sum }

/-- the handler call of one observation -/
def handle (b : Bridge) (o : Obs) : Bridge :=
  match regLookup b.execClaims o.hash with
  | some id => execBatch b id o.eth
  | none => b

def handlerEffects (b : Bridge) (obs : List Obs) : Bridge := obs.foldl handle b

/-- oracle + bridge of one chain -/
structure Sky where
  o : St
  b : Bridge := {}
deriving Repr

/-- a validator's `MsgBatchSendToRemoteClaim` for batch `id`: `additionalPatchChecks` refuses it while the
batch is in the store with `BatchTimeout <= EthBlockHeight`; then `Attest`. The static `applicable` /
`amount` of the oracle model are not used for these claims (false / 0: nothing is minted). -/
def voteExec (s : Sky) (v n h eth id compass : Nat) : Sky × Res :=
  if (match findBatch s.b id with | some x => decide (x.timeout ≤ eth) | none => false) then (s, .rejected) else
  if (vote s.o v n h eth false 0 compass).2 = .ok then
    ({ o := (vote s.o v n h eth false 0 compass).1,
       b := if (regLookup s.b.execClaims h).isSome then s.b
            else { s.b with execClaims := s.b.execClaims ++ [(h, id)] } }, .ok)
  else (s, .rejected)

/-- `skyway.EndBlocker` at block time `now`; `fifty`: the height is a multiple of 50 (batches are built,
validator nonces catch up) -/
def endBlock (s : Sky) (power : Nat → Nat) (total : Nat) (ef : EventFault) (now : Nat) (fifty : Bool) : Sky :=
  { o := if fifty then catchUp (tally s.o power total ef) else tally s.o power total ef,
    b := cancelExpired
           (handlerEffects (if fifty then build s.b now else s.b)
             ((tally s.o power total ef).log.drop s.o.log.length))
           now }

/-- what the bank reports as supply of the bridged denom -/
def Sky.supply (s : Sky) : Nat := s.b.funded + s.o.minted - s.b.burned

/-! ## Who casts a vote: the claim message

  x/skyway/keeper/msg_server.go   SendToPalomaClaim, BatchSendToRemoteClaim, LightNodeSaleClaim:
                                  checkOrchestratorIsCreator, checkOrchestratorValidatorInSet, then (batch
                                  claims) additionalPatchChecks, then claimHandlerCommon → Attest

Everything above starts at `Attest`, with the voting validator as an argument. A validator does not call
`Attest`: an ACCOUNT sends a claim message. Accounts are naturals; a validator is identified with its
orchestrator account (`GetOrchestratorValidator`: the validator whose operator address has the account's
bytes), so validator `v` has account `v` and every other number is an account that is no validator.
`creator` is `Metadata.Creator`, the account the transaction was authenticated for (the ante handler: signed
by that account, or by an account holding its fee grant — C03's subject). `orch` is the `Orchestrator`
field of the message body: text chosen by whoever builds the message, and the validator `Attest` records
the vote for. `bonded` are the validators of the active set (`checkOrchestratorValidatorInSet`). -/

/-- the gate the three claim handlers put in front of `Attest`: the orchestrator named in the message is
the authenticated creator, and it is a bonded validator -/
def claimGate (bonded : List Nat) (creator orch : Nat) : Bool := creator == orch && bonded.contains orch

/-- `SendToPalomaClaim` / `LightNodeSaleClaim` (a light-node sale mints nothing: `amount = 0`) delivered
for account `creator`, naming `orch` -/
def voteMsg (bonded : List Nat) (s : St) (creator orch n h eth : Nat) (applicable : Bool) (amount : Nat := 0)
    (compass : Nat := 0) : St × Res :=
  if creator ≠ orch then (s, .rejected) else          -- checkOrchestratorIsCreator
  if !bonded.contains orch then (s, .rejected) else   -- checkOrchestratorValidatorInSet
  vote s orch n h eth applicable amount compass

/-- `BatchSendToRemoteClaim` delivered for account `creator`, naming `orch` -/
def voteExecMsg (bonded : List Nat) (s : Sky) (creator orch n h eth id compass : Nat) : Sky × Res :=
  if creator ≠ orch then (s, .rejected) else
  if !bonded.contains orch then (s, .rejected) else
  voteExec s orch n h eth id compass

end Paloma.Oracle
