/-
Model of the Skyway oracle for one remote chain and one bridge deployment (compass id):
  x/skyway/keeper/attestation.go  Attest, TryAttestation, processAttestation, GetAttestationMapping
  x/skyway/abci.go                attestationTally
  x/skyway/keeper/keeper.go       overrideNonce, UpdateValidatorNoncesToLatest
Validators, claim hashes and nonces are naturals. A claim hash is used both as identity and as
the store order of competing attestations at one nonce (the harness passes the real 32-byte
tmhash as a number). Voting power is an *argument of each tally* (`GetLastValidatorPower`,
`GetLastTotalPower` are read at tally time), so it may change arbitrarily between vote and tally.
Core Lean only.
-/
namespace Paloma.Oracle

structure Att where
  nonce : Nat
  hash : Nat
  eth : Nat              -- remote block height of the stored (first submitted) claim
  votes : List Nat
  observed : Bool
  applicable : Bool      -- does the attestation handler succeed on this claim?
  amount : Nat := 0      -- what the claim mints when applied (part of the claim, covered by the hash)
deriving Repr, DecidableEq

/-- one applied effect: claim `(nonce, hash)` applied when the cursor stood at `cursorBefore` -/
structure Effect where
  nonce : Nat
  hash : Nat
  cursorBefore : Nat
deriving Repr, DecidableEq

structure St where
  lastObserved : Nat
  lastEth : Nat
  valNonce : List (Nat × Nat)     -- validators that have a stored nonce record
  atts : List Att
  /-- ghost: effects applied / observations made since the last governance reset -/
  effects : List Effect
  observations : List Effect
  epoch : Nat
  /-- total minted by applied claims since genesis (the observable effect) -/
  minted : Nat := 0
deriving Repr

def St.init : St :=
  { lastObserved := 0, lastEth := 0, valNonce := [], atts := [], effects := [], observations := [], epoch := 0 }

def lookupNonce (l : List (Nat × Nat)) (v : Nat) : Option Nat :=
  (l.find? (fun p => p.1 == v)).map (·.2)

/-- `GetLastSkywayNonceByValidator`: a validator without a record starts at `lastObserved - 1` -/
def lastNonceOf (s : St) (v : Nat) : Nat :=
  match lookupNonce s.valNonce v with
  | some n => n
  | none => if s.lastObserved ≥ 1 then s.lastObserved - 1 else 0

def setNonce (l : List (Nat × Nat)) (v n : Nat) : List (Nat × Nat) :=
  if l.any (fun p => p.1 == v) then l.map (fun p => if p.1 == v then (v, n) else p) else l ++ [(v, n)]

def findAtt (l : List Att) (n h : Nat) : Option Att := l.find? (fun a => a.nonce == n && a.hash == h)

def addVote (votes : List Nat) (v : Nat) : List Nat := if votes.contains v then votes else votes ++ [v]

def putAtt (l : List Att) (a : Att) : List Att :=
  if l.any (fun x => x.nonce == a.nonce && x.hash == a.hash)
  then l.map (fun x => if x.nonce == a.nonce && x.hash == a.hash then a else x)
  else l ++ [a]

inductive Res where
  | ok
  | rejected
deriving Repr, DecidableEq

/-- the stored attestation for `(n, h)`, or a fresh one carrying the submitted claim -/
def attFor (s : St) (n h eth : Nat) (applicable : Bool) (amount : Nat) : Att :=
  (findAtt s.atts n h).getD
    { nonce := n, hash := h, eth := eth, votes := [], observed := false, applicable := applicable, amount := amount }

/-- `Attest` (through a claim message of a bonded validator). -/
def vote (s : St) (v n h eth : Nat) (applicable : Bool) (amount : Nat := 0) : St × Res :=
  if n ≠ lastNonceOf s v + 1 then (s, .rejected) else
  if (attFor s n h eth applicable amount).eth ≠ eth then (s, .rejected) else
  ({ s with atts := putAtt s.atts { attFor s n h eth applicable amount with
                                     votes := addVote (attFor s n h eth applicable amount).votes v },
            valNonce := setNonce s.valNonce v n }, .ok)

/-- running sum with early exit: does some prefix of `votes` exceed `required`? -/
def reaches (power : Nat → Nat) (required : Nat) : List Nat → Nat → Bool
  | [], _ => false
  | v :: vs, acc => if acc + power v > required then true else reaches power required vs (acc + power v)

inductive TryRes where
  | nothing        -- not enough power (or nothing to do)
  | observedOk     -- marked observed (effect applied iff applicable)
  | abort          -- TryAttestation returned an error: the tally of this chain stops
  | eventFailed    -- observed and applied like `observedOk`, but emitting the observation event failed
                   -- (chain-info lookup): TryAttestation returns that error, the tally of this chain stops
deriving Repr, DecidableEq

/-- collaborator fault: for which attestations (nonce, hash) does the observation event fail? -/
abbrev EventFault := Nat → Nat → Bool

def noFault : EventFault := fun _ _ => false

def faultOf (l : List (Nat × Nat)) : EventFault := fun n h => l.any (fun p => p.1 == n && p.2 == h)

/-- `TryAttestation` on a (snapshot of an) attestation at nonce `lastObserved+1`. -/
def tryAtt (s : St) (a : Att) (power : Nat → Nat) (total : Nat) (ef : EventFault := noFault) : St × TryRes :=
  if a.observed then (s, .abort) else
  if !(reaches power (66 * total / 100) a.votes 0) then (s, .nothing) else
  if a.nonce ≠ s.lastObserved + 1 then (s, .abort) else
  -- the remote height is checked before the cursor moves (since /repo 5e19ceda): a refusal changes nothing
  if s.lastEth > a.eth then (s, .abort) else
  let e : Effect := { nonce := a.nonce, hash := a.hash, cursorBefore := s.lastObserved }
  ({ s with lastObserved := a.nonce, lastEth := a.eth,
            atts := putAtt s.atts { a with observed := true },
            effects := if a.applicable then s.effects ++ [e] else s.effects,
            observations := s.observations ++ [e],
            minted := if a.applicable then s.minted + a.amount else s.minted },
   -- the event is emitted AFTER the claim was applied: a failure there loses nothing but the event
   if ef a.nonce a.hash then .eventFailed else .observedOk)

def insertAsc (x : Nat) : List Nat → List Nat
  | [] => [x]
  | y :: ys => if x < y then x :: y :: ys else if x == y then y :: ys else y :: insertAsc x ys

/-- distinct nonces, ascending (`orderedKeys`) -/
def nonceKeys (l : List Att) : List Nat := l.foldr (fun a acc => insertAsc a.nonce acc) []

def insertByHash (a : Att) : List Att → List Att
  | [] => [a]
  | y :: ys => if a.hash < y.hash then a :: y :: ys else y :: insertByHash a ys

/-- attestations at nonce `n` in store (hash) order -/
def attsAt (l : List Att) (n : Nat) : List Att :=
  (l.filter (fun a => a.nonce == n)).foldr insertByHash []

/-- inner loop of `attestationTally` over the attestations of one nonce (snapshot values) -/
def stops (r : TryRes) : Bool := r == .abort || r == .eventFailed

def tallyAtts (s : St) (power : Nat → Nat) (total : Nat) (n : Nat) (ef : EventFault := noFault) : List Att → St × Bool
  | [] => (s, false)
  | a :: rest =>
    if n = s.lastObserved + 1 then
      if stops (tryAtt s a power total ef).2 then ((tryAtt s a power total ef).1, true)
      else tallyAtts (tryAtt s a power total ef).1 power total n ef rest
    else tallyAtts s power total n ef rest

/-- outer loop over the ordered nonces; `snap` is the mapping read at the start -/
def tallyKeys (s : St) (snap : List Att) (power : Nat → Nat) (total : Nat) (ef : EventFault := noFault) : List Nat → St
  | [] => s
  | n :: rest =>
    if (tallyAtts s power total n ef (attsAt snap n)).2 then (tallyAtts s power total n ef (attsAt snap n)).1
    else tallyKeys (tallyAtts s power total n ef (attsAt snap n)).1 snap power total ef rest

def tally (s : St) (power : Nat → Nat) (total : Nat) (ef : EventFault := noFault) : St :=
  tallyKeys s s.atts power total ef (nonceKeys s.atts)

/-- `UpdateValidatorNoncesToLatest` (every 50th block) -/
def catchUp (s : St) : St :=
  { s with valNonce := s.valNonce.map (fun p => if s.lastObserved > p.2 then (p.1, s.lastObserved) else p) }

/-- `overrideNonce` (governance proposal or chain activation): a new epoch -/
def override (s : St) (n : Nat) : St :=
  { s with lastObserved := n, valNonce := s.valNonce.map (fun p => (p.1, n)),
           effects := [], observations := [], epoch := s.epoch + 1 }

def powerOf (tbl : List (Nat × Nat)) (v : Nat) : Nat :=
  match tbl.find? (fun p => p.1 == v) with
  | some p => p.2
  | none => 0

end Paloma.Oracle
