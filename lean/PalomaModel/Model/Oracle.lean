/-
Model of the Skyway oracle of one remote chain (every chain has its own store prefix,
`GetStore(ctx, chainReferenceID)`; `Props/C02.lean` builds the product over chains), with the bridge
deployment (compass) id of the chain and its change by a chain activation:
  x/skyway/keeper/attestation.go  Attest, TryAttestation, processAttestation, GetAttestationMapping
                                  (incl. the `lastCompassID` filter), GetLatestCompassID
  x/skyway/abci.go                attestationTally
  x/skyway/keeper/keeper.go       overrideNonce, UpdateValidatorNoncesToLatest, the `EVMActivatedChain`
                                  subscriber (`setLatestCompassID` then `overrideNonce 0`)
Compass ids are naturals; 0 is the empty string (no deployment recorded: nothing is filtered).
Validators, claim hashes and nonces are naturals. A claim hash is used both as identity and as
the store order of competing attestations at one nonce (the harness passes the real 32-byte
tmhash as a number). Voting power is an *argument of each tally* (`GetLastValidatorPower`,
`GetLastTotalPower` are read at tally time), so it may change arbitrarily between vote and tally.
The functions below take the total as a parameter, like the Go code reads it from a separate
store key; the histories of `Props/C02.lean` pass `totalOf table` (ASSUMPTION on x/staking:
`LastTotalPower` is the sum of the `LastValidatorPower` records, see `totalOf`).

Ghost state (never read by the executable part, never printed by the driver): `epoch`,
`epochStart` and `log`, the list of every observation made by `TryAttestation` since genesis.
`Props/C02.lean` ties the log to the executable state (observed flags, cursor, `minted`) and to the op
history, and `epoch` / `epochStart` to the reset ops of the history (`epoch_is_number_of_resets`,
`epochStart_is_last_reset`).
Core Lean only.
-/
namespace Paloma.Oracle

structure Att where
  nonce : Nat
  hash : Nat
  eth : Nat              -- remote block height of the stored (first submitted) claim
  votes : List Nat
  observed : Bool
  applicable : Bool      -- does the attestation handler succeed on this claim?
  amount : Nat := 0      -- what the claim mints when applied (part of the claim, covered by the hash)
  compass : Nat := 0     -- `GetCompassID()` of the stored (first submitted) claim (covered by the hash)
deriving Repr, DecidableEq

/-- ghost: one observation made by `TryAttestation`: claim `(nonce, hash)` was marked observed and handed
to the attestation handler (its effect is applied iff `applicable`) when the cursor stood at `cursorBefore`. -/
structure Obs where
  epoch : Nat
  nonce : Nat
  hash : Nat
  cursorBefore : Nat
  eth : Nat
  applicable : Bool
  amount : Nat
  /-- the vote list of the attestation at that moment -/
  voters : List Nat
  /-- the compass id of the observed claim -/
  compass : Nat := 0
  /-- the latest compass id of the chain at that moment (0: none recorded) -/
  deployment : Nat := 0
deriving Repr, DecidableEq

/-- what an observation minted -/
def Obs.mint (o : Obs) : Nat := if o.applicable then o.amount else 0

structure St where
  lastObserved : Nat
  lastEth : Nat
  valNonce : List (Nat × Nat)     -- validators that have a stored nonce record
  atts : List Att
  /-- total minted by applied claims since genesis (the observable effect) -/
  minted : Nat := 0
  /-- `LatestCompassIDKey`: the bridge deployment whose claims are tallied; 0 = "" (none recorded) -/
  compassId : Nat := 0
  /-- ghost: number of governance resets so far -/
  epoch : Nat := 0
  /-- ghost: the cursor value installed by the last governance reset (0 at genesis) -/
  epochStart : Nat := 0
  /-- ghost: every observation since genesis, oldest first -/
  log : List Obs := []
deriving Repr

def St.init : St :=
  { lastObserved := 0, lastEth := 0, valNonce := [], atts := [] }

/-- claims that took effect (were observed) since the last governance reset -/
def St.observations (s : St) : List Obs := s.log.filter (fun o => o.epoch == s.epoch)

/-- observed claims whose effect the handler could apply, since the last governance reset -/
def St.effects (s : St) : List Obs := s.observations.filter (fun o => o.applicable)

def lookupNonce (l : List (Nat × Nat)) (v : Nat) : Option Nat :=
  (l.find? (fun p => p.1 == v)).map (·.2)

/-- `GetLastSkywayNonceByValidator`: a validator without a record starts at `lastObserved - 1` -/
def lastNonceOf (s : St) (v : Nat) : Nat :=
  match lookupNonce s.valNonce v with
  | some n => n
  | none => if s.lastObserved ≥ 1 then s.lastObserved - 1 else 0

def setNonce (l : List (Nat × Nat)) (v n : Nat) : List (Nat × Nat) :=
  if l.any (fun p => p.1 == v) then l.map (fun p => if p.1 == v then (v, n) else p) else l ++ [(v, n)]

def findAtt (l : List Att) (n h : Nat) : Option Att := l.find? (fun a => a.nonce == n && a.hash == h)

def addVote (votes : List Nat) (v : Nat) : List Nat := if votes.contains v then votes else votes ++ [v]

def putAtt (l : List Att) (a : Att) : List Att :=
  if l.any (fun x => x.nonce == a.nonce && x.hash == a.hash)
  then l.map (fun x => if x.nonce == a.nonce && x.hash == a.hash then a else x)
  else l ++ [a]

inductive Res where
  | ok
  | rejected
deriving Repr, DecidableEq

/-- the stored attestation for `(n, h)`, or a fresh one carrying the submitted claim -/
def attFor (s : St) (n h eth : Nat) (applicable : Bool) (amount : Nat) (compass : Nat := 0) : Att :=
  (findAtt s.atts n h).getD
    { nonce := n, hash := h, eth := eth, votes := [], observed := false, applicable := applicable, amount := amount,
      compass := compass }

/-- `Attest` (through a claim message of a bonded validator). The claim's compass id is not looked at here:
a vote for a claim of any deployment is stored. -/
def vote (s : St) (v n h eth : Nat) (applicable : Bool) (amount : Nat := 0) (compass : Nat := 0) : St × Res :=
  if n ≠ lastNonceOf s v + 1 then (s, .rejected) else
  if (attFor s n h eth applicable amount compass).eth ≠ eth then (s, .rejected) else
  ({ s with atts := putAtt s.atts { attFor s n h eth applicable amount compass with
                                     votes := addVote (attFor s n h eth applicable amount compass).votes v },
            valNonce := setNonce s.valNonce v n }, .ok)

/-- running sum with early exit: does some prefix of `votes` exceed `required`? -/
def reaches (power : Nat → Nat) (required : Nat) : List Nat → Nat → Bool
  | [], _ => false
  | v :: vs, acc => if acc + power v > required then true else reaches power required vs (acc + power v)

inductive TryRes where
  | nothing        -- not enough power (or nothing to do)
  | observedOk     -- marked observed (effect applied iff applicable)
  | abort          -- TryAttestation returned an error: the tally of this chain stops
  | eventFailed    -- observed and applied like `observedOk`, but emitting the observation event failed
                   -- (chain-info lookup): TryAttestation returns that error, the tally of this chain stops
deriving Repr, DecidableEq

/-- collaborator fault: for which attestations (nonce, hash) does the observation event fail? -/
abbrev EventFault := Nat → Nat → Bool

def noFault : EventFault := fun _ _ => false

def faultOf (l : List (Nat × Nat)) : EventFault := fun n h => l.any (fun p => p.1 == n && p.2 == h)

/-- `types.AttestationVotesPowerThreshold` and the divisor in `TryAttestation`; `Props/C02.lean`
(`threshold_as_in_source`) proves them equal to the constants extracted from the current source -/
def votesPowerThreshold : Nat := 66
def powerDivisor : Nat := 100

/-- `requiredPower := AttestationVotesPowerThreshold.Mul(totalPower).Quo(100)` -/
def requiredPower (total : Nat) : Nat := votesPowerThreshold * total / powerDivisor

/-- ghost record of the observation of attestation `a` out of state `s` -/
def mkObs (s : St) (a : Att) : Obs :=
  { epoch := s.epoch, nonce := a.nonce, hash := a.hash, cursorBefore := s.lastObserved, eth := a.eth,
    applicable := a.applicable, amount := a.amount, voters := a.votes, compass := a.compass,
    deployment := s.compassId }

/-- the state change of a successful `TryAttestation`: height recorded, cursor moved, attestation stored as
observed, claim handed to the handler (`processAttestation`; the effect is `minted`) -/
def observe (s : St) (a : Att) : St :=
  { s with lastObserved := a.nonce, lastEth := a.eth,
           atts := putAtt s.atts { a with observed := true },
           minted := if a.applicable then s.minted + a.amount else s.minted,
           log := s.log ++ [mkObs s a] }

/-- `TryAttestation` on a (snapshot of an) attestation at nonce `lastObserved+1`. -/
def tryAtt (s : St) (a : Att) (power : Nat → Nat) (total : Nat) (ef : EventFault := noFault) : St × TryRes :=
  if a.observed then (s, .abort) else
  if !(reaches power (requiredPower total) a.votes 0) then (s, .nothing) else
  if a.nonce ≠ s.lastObserved + 1 then (s, .abort) else
  -- `SetLastObservedEthereumBlockHeight` runs first: a refused remote height leaves the oracle untouched
  -- (before 5e19ceda the cursor had already been moved here: the nonce was consumed without an observation)
  if s.lastEth > a.eth then (s, .abort) else
  (observe s a,
   -- the event is emitted AFTER the claim was applied: a failure there loses nothing but the event
   if ef a.nonce a.hash then .eventFailed else .observedOk)

def insertAsc (x : Nat) : List Nat → List Nat
  | [] => [x]
  | y :: ys => if x < y then x :: y :: ys else if x == y then y :: ys else y :: insertAsc x ys

/-- distinct nonces, ascending (`orderedKeys`) -/
def nonceKeys (l : List Att) : List Nat := l.foldr (fun a acc => insertAsc a.nonce acc) []

def insertByHash (a : Att) : List Att → List Att
  | [] => [a]
  | y :: ys => if a.hash < y.hash then a :: y :: ys else y :: insertByHash a ys

/-- attestations at nonce `n` in store (hash) order -/
def attsAt (l : List Att) (n : Nat) : List Att :=
  (l.filter (fun a => a.nonce == n)).foldr insertByHash []

/-- inner loop of `attestationTally` over the attestations of one nonce (snapshot values) -/
def stops (r : TryRes) : Bool := r == .abort || r == .eventFailed

def tallyAtts (s : St) (power : Nat → Nat) (total : Nat) (n : Nat) (ef : EventFault := noFault) : List Att → St × Bool
  | [] => (s, false)
  | a :: rest =>
    if n = s.lastObserved + 1 then
      if stops (tryAtt s a power total ef).2 then ((tryAtt s a power total ef).1, true)
      else tallyAtts (tryAtt s a power total ef).1 power total n ef rest
    else tallyAtts s power total n ef rest

/-- outer loop over the ordered nonces; `snap` is the mapping read at the start -/
def tallyKeys (s : St) (snap : List Att) (power : Nat → Nat) (total : Nat) (ef : EventFault := noFault) : List Nat → St
  | [] => s
  | n :: rest =>
    if (tallyAtts s power total n ef (attsAt snap n)).2 then (tallyAtts s power total n ef (attsAt snap n)).1
    else tallyKeys (tallyAtts s power total n ef (attsAt snap n)).1 snap power total ef rest

/-- `GetAttestationMapping`: with a latest compass id on record, attestations whose stored claim comes from
another bridge deployment are left out of the mapping (and so are never tallied) -/
def visible (s : St) : List Att := s.atts.filter (fun a => s.compassId == 0 || a.compass == s.compassId)

def tally (s : St) (power : Nat → Nat) (total : Nat) (ef : EventFault := noFault) : St :=
  tallyKeys s (visible s) power total ef (nonceKeys (visible s))

/-- `UpdateValidatorNoncesToLatest` (every 50th block) -/
def catchUp (s : St) : St :=
  { s with valNonce := s.valNonce.map (fun p => if s.lastObserved > p.2 then (p.1, s.lastObserved) else p) }

/-- `overrideNonce` (governance proposal or chain activation): a new epoch -/
def override (s : St) (n : Nat) : St :=
  { s with lastObserved := n, valNonce := s.valNonce.map (fun p => (p.1, n)),
           epoch := s.epoch + 1, epochStart := n }

/-- the `EVMActivatedChain` subscriber of the skyway keeper (chain activation / bridge re-deployment):
`setLatestCompassID`, then `overrideNonce(…, 0)` — a deployment switch is always a reset of the cursor -/
def activate (s : St) (c : Nat) : St := override { s with compassId := c } 0

def powerOf (tbl : List (Nat × Nat)) (v : Nat) : Nat :=
  match tbl.find? (fun p => p.1 == v) with
  | some p => p.2
  | none => 0

/-- `GetLastTotalPower`. ASSUMPTION (x/staking, `ApplyAndReturnValidatorSetUpdates`): the stored total
is the sum of the stored `LastValidatorPower` records; bonded validators that never vote are simply
further rows of the table. -/
def totalOf (tbl : List (Nat × Nat)) : Nat := (tbl.map (·.2)).sum

end Paloma.Oracle
