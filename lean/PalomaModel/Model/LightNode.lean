/-
Model of the light-node licence life-cycle (property C18):
  x/paloma/keeper/keeper.go       CreateLightNodeClientLicense, CreateSaleLightNodeClientLicense,
                                  CreateLightNodeClientAccount, GetLegacyLightNodeClients,
                                  SetLightNodeClientFeegranter / SetLightNodeClientFunders
  x/paloma/keeper/msg_server.go   AddLightNodeClientLicense, RegisterLightNodeClient, AuthLightNodeClient,
                                  SetLegacyLightNodeClients
  x/paloma/ante.go                VerifyAuthorisedSignatureDecorator (creator signs, or a signer holds a fee
                                  grant issued by the creator)
  x/paloma/gov_handler.go, x/skyway/keeper/governance_proposals.go   the three configuration proposals
  x/skyway/keeper/attestation_handler.go  handleLightNodeSale, run by attestation.go processAttestation in a
                                  cache context that is committed only when the handler returns nil
  cosmos-sdk x/bank (SendCoins, spendable = balance − locked), x/auth (account creation, account-number
  counter), x/auth/vesting ContinuousVestingAccount.GetVestedCoins (LegacyDec arithmetic: banker's rounding
  at 18 decimals), x/feegrant GrantAllowance (creates the grantee account when missing).

Every message-level step is atomic (baseapp runs a message on a cached store), and so is the sale path
(processAttestation): a rejected step returns the input state.  Inside a step the Go statement order is
kept as an `if`-chain, so each error branch of the code is a branch of the model.

Addresses, denominations, bridge chains and sale-contract address STRINGS are naturals (a contract string is
compared byte for byte by the code, so distinct strings are distinct naturals; `0` stands for the EMPTY string,
which `MsgLightNodeSaleClaim.ValidateBasic` does not refuse); an address STRING (`AddrStr`) additionally records
whether it is the upper-case bech32 spelling, because the licence and client stores are keyed by the string
while accounts are looked up by the decoded bytes; amounts are unbounded `Nat`/`Int` with the
`sdkmath.Int` 256-bit panic of the sale path made explicit; times are Unix seconds (UTC, as block times are).
The end of the vesting period is DERIVED from the stored licence: `addMonths now months` re-implements Go's
`time.Time.AddDate(0, months, 0)` (proleptic Gregorian calendar, month overflow carried into the year, day
overflow rolling into the next month), so the driver/harness diff compares it with the `EndTime` the real
code stores.
Core Lean only.
-/
namespace Paloma.LightNode

abbrev Addr := Nat
abbrev Denom := Nat
/-- a chain reference id -/
abbrev Chain := Nat
/-- a smart-contract address STRING as carried by a claim / stored by governance; `emptyStr` is `""` -/
abbrev CStr := Nat
def emptyStr : CStr := 0

/-- the staking denomination (`ugrain`), used by the sale path -/
def bondDenom : Denom := 0
/-- denomination index `2` stands for a string that is not a valid coin denomination -/
def denomValid (d : Denom) : Bool := d != 2

def maxInt : Nat := 2 ^ 256
def saleMonths : Nat := 24
def grain : Nat := 1000000

/-- an address STRING as it appears in a message: the account it decodes to, and whether it is the
all-upper-case bech32 spelling (which decodes to the same bytes; stores keyed by the string tell them apart) -/
structure AddrStr where
  addr : Addr
  upper : Bool
deriving DecidableEq, Repr

structure Lic where
  amount : Nat
  denom : Denom
  months : Nat
deriving DecidableEq, Repr

inductive Acct where
  | none
  | base
  /-- continuous vesting account: original vesting coin, start and end time -/
  | vesting (orig : Nat) (denom : Denom) (start stop : Nat)
deriving DecidableEq, Repr

inductive Res where
  | ok
  | rejected
deriving DecidableEq, Repr

structure State where
  bal : Addr → Denom → Nat
  /-- balance of the `paloma` module account -/
  escrow : Denom → Nat
  /-- ghost: coins that reached the module account other than through a licence -/
  gifts : Denom → Nat
  /-- not-yet-activated licences, keyed by the client address STRING -/
  lics : List (AddrStr × Lic)
  acct : Addr → Acct
  /-- x/auth's global account-number counter (accounts ever created) -/
  nacc : Nat
  feegranter : Option Addr
  /-- `none`: never set; `some []`: set to the empty list -/
  funders : Option (List Addr)
  /-- the `LightNodeSaleContracts` store: authorised sale-contract address string per bridge chain
  (`none`: no record under that chain reference id) -/
  contracts : Chain → Option CStr
  /-- fee allowances `(granter, grantee)` -/
  grants : List (Addr × Addr)
  /-- registered light-node clients (activated or legacy), keyed by address string -/
  clients : List AddrStr

def State.init : State :=
  { bal := fun _ _ => 0, escrow := fun _ => 0, gifts := fun _ => 0, lics := [], acct := fun _ => .none,
    nacc := 0, feegranter := none, funders := none, contracts := fun _ => none, grants := [], clients := [] }

/-! ### small helpers -/

def upd (f : Nat → Nat) (k v : Nat) : Nat → Nat := fun x => if x = k then v else f x
def upd2 (f : Nat → Nat → Nat) (a k v : Nat) : Nat → Nat → Nat :=
  fun x y => if x = a ∧ y = k then v else f x y
def updA (f : Addr → Acct) (a : Addr) (v : Acct) : Addr → Acct := fun x => if x = a then v else f x

def lookupLic : List (AddrStr × Lic) → AddrStr → Option Lic
  | [], _ => none
  | (k, l) :: rest, a => if k = a then some l else lookupLic rest a

/-- removes the first entry for `a` (there is at most one, see `Inv`) -/
def eraseLic : List (AddrStr × Lic) → AddrStr → List (AddrStr × Lic)
  | [], _ => []
  | (k, l) :: rest, a => if k = a then rest else (k, l) :: eraseLic rest a

/-- total amount of denomination `d` promised by the licence table -/
def sumLic (d : Denom) : List (AddrStr × Lic) → Nat
  | [] => 0
  | (_, l) :: rest => (if l.denom = d then l.amount else 0) + sumLic d rest

/-! ### calendar: Go `time.Time.AddDate(0, months, 0)` on UTC Unix seconds

Days are counted from 0000-01-01 of the proleptic Gregorian calendar (year 0 is a leap year), so that no
subtraction below zero occurs; `epochDays` is the day number of 1970-01-01. -/

def isLeap (y : Nat) : Bool := y % 4 == 0 && (y % 100 != 0 || y % 400 == 0)

/-- number of days in the years `0 … y-1` -/
def daysBeforeYear (y : Nat) : Nat := 365 * y + (y + 3) / 4 - (y + 99) / 100 + (y + 399) / 400

/-- days before month `m` (1 … 13) of a non-leap year: 0 31 59 90 120 151 181 212 243 273 304 334 365 -/
def cumDays (m : Nat) : Nat := (367 * m - 362) / 12 - (if m ≤ 2 then 0 else 2)

def daysBeforeMonth (y m : Nat) : Nat := cumDays m + (if 2 < m ∧ isLeap y = true then 1 else 0)

/-- day number of the first day of month `n % 12 + 1` of year `n / 12` (`n` = months since 0000-01);
this is Go's `Date(year, month, 1, …)` after its normalisation of the month into `[1, 12]` -/
def monthStart (n : Nat) : Nat := daysBeforeYear (n / 12) + daysBeforeMonth (n / 12) (n % 12 + 1)

/-- the civil year of day number `z`: the estimate `z / 365.2425` is off by at most one -/
def yearOf (z : Nat) : Nat :=
  if z < daysBeforeYear (z * 400 / 146097) then z * 400 / 146097 - 1
  else if daysBeforeYear (z * 400 / 146097 + 1) ≤ z then z * 400 / 146097 + 1
  else z * 400 / 146097

/-- the civil month (1 … 12) of the `doy`-th day (0-based) of year `y` -/
def monthOf (y doy : Nat) : Nat :=
  if doy < daysBeforeMonth y 2 then 1 else if doy < daysBeforeMonth y 3 then 2
  else if doy < daysBeforeMonth y 4 then 3 else if doy < daysBeforeMonth y 5 then 4
  else if doy < daysBeforeMonth y 6 then 5 else if doy < daysBeforeMonth y 7 then 6
  else if doy < daysBeforeMonth y 8 then 7 else if doy < daysBeforeMonth y 9 then 8
  else if doy < daysBeforeMonth y 10 then 9 else if doy < daysBeforeMonth y 11 then 10
  else if doy < daysBeforeMonth y 12 then 11 else 12

def epochDays : Nat := 719528
def daySecs : Nat := 86400

/-- day number of Unix time `t` -/
def dayNo (t : Nat) : Nat := t / daySecs + epochDays
/-- `t.Date()`: year, month (1 … 12) and day of the month MINUS ONE of Unix time `t` -/
def yearAt (t : Nat) : Nat := yearOf (dayNo t)
def monthAt (t : Nat) : Nat := monthOf (yearAt t) (dayNo t - daysBeforeYear (yearAt t))
def domAt (t : Nat) : Nat := dayNo t - daysBeforeYear (yearAt t) - daysBeforeMonth (yearAt t) (monthAt t)
/-- months since 0000-01 of Unix time `t` -/
def monthIdxAt (t : Nat) : Nat := 12 * yearAt t + (monthAt t - 1)

/-- `time.Unix(t, 0).UTC().AddDate(0, months, 0).Unix()`: `Date(y, m + months, d, hh, mm, ss)` — the month
is normalised into the year, then the day of the month is ADDED to the first of that month, so the 31st plus
one month rolls into the month after next -/
def addMonths (t months : Nat) : Nat :=
  (monthStart (monthIdxAt t + months) + domAt t - epochDays) * daySecs + t % daySecs

/-! ### vesting (cosmos-sdk `ContinuousVestingAccount`) -/

def prec : Nat := 1000000000000000000

/-- `chopPrecisionAndRound`: `n / p` rounded half-to-even -/
def roundHE (n p : Nat) : Nat :=
  if 2 * (n % p) < p then n / p
  else if p < 2 * (n % p) then n / p + 1
  else if (n / p) % 2 = 0 then n / p else n / p + 1

/-- `GetVestedCoins`: `s = Dec(x).Quo(Dec(y))`, `vested = Dec(orig).Mul(s).RoundInt()` -/
def vestedAt (orig start stop t : Nat) : Nat :=
  if t ≤ start then 0
  else if stop ≤ t then orig
  else roundHE (orig * roundHE ((t - start) * (prec * prec) / (stop - start)) prec) prec

/-- `LockedCoins` of an account without delegations -/
def lockedAt (orig start stop t : Nat) : Nat := orig - vestedAt orig start stop t

def lockedOf (ac : Acct) (d : Denom) (t : Nat) : Nat :=
  match ac with
  | .vesting o dn st en => if dn = d then lockedAt o st en t else 0
  | _ => 0

def locked (s : State) (a : Addr) (d : Denom) (t : Nat) : Nat := lockedOf (s.acct a) d t

/-- x/bank `subUnlockedCoins`: what `a` may send at time `t` -/
def spendable (s : State) (a : Addr) (d : Denom) (t : Nat) : Nat := s.bal a d - locked s a d t

/-! ### ante handler -/

/-- signature verification needs an account for the signer; `VerifyAuthorisedSignatureDecorator`
wants the creator among the signers or a fee grant creator → signer -/
def authorised (s : State) (signer creator : Addr) : Bool :=
  s.acct signer != .none && (signer == creator || s.grants.contains (creator, signer))

/-- the same with the creator given as a string: `signer.String() == creator` compares with the canonical
lower-case spelling, so an upper-case creator string is only ever authorised through a fee grant -/
def authorisedStr (s : State) (signer : Addr) (creator : AddrStr) : Bool :=
  s.acct signer != .none &&
    ((creator.upper == false && signer == creator.addr) || s.grants.contains (creator.addr, signer))

/-- account creation on first use (x/bank SendCoins, x/feegrant GrantAllowance) -/
def touchAcct (s : State) (a : Addr) : State :=
  if s.acct a = .none then { s with acct := updA s.acct a .base, nacc := s.nacc + 1 } else s

/-! ### keeper functions -/

/-- `CreateLightNodeClientLicense(ctx, creator, client, amount, months)` at block time `now`;
`client = none` is an address string that does not parse; `none` result = error (caller rolls back). -/
def createLic (s : State) (creator : Addr) (client : Option AddrStr) (amt : Int) (d : Denom)
    (months now : Nat) : Option State :=
  if amt < 0 ∨ denomValid d = false then none else          -- !amount.IsValid()
  match client with
  | none => none                                             -- no licence under that key; StringToBytes fails
  | some c =>
    if (lookupLic s.lics c).isSome then none else            -- ErrLicenseExists (looked up by STRING)
    if s.acct c.addr ≠ .none then none else                  -- ErrAccountExists (looked up by BYTES)
    -- base account created here (NewAccount + SetAccount); then the escrow transfer
    if amt = 0 then none else                                -- sdk.Coins validation refuses a zero coin
    if spendable s creator d now < amt.toNat then none else  -- insufficient (unlocked) funds
    some { s with acct := updA s.acct c.addr .base, nacc := s.nacc + 1,
                  bal := upd2 s.bal creator d (s.bal creator d - amt.toNat),
                  escrow := upd s.escrow d (s.escrow d + amt.toNat),
                  lics := s.lics ++ [(c, { amount := amt.toNat, denom := d, months := months })] }

/-- the funder loop of `CreateSaleLightNodeClientLicense`: the LAST account whose total balance covers the coin -/
def pickFunder (s : State) (amt : Int) : List Addr → Option Addr
  | [] => none
  | f :: rest =>
    match pickFunder s amt rest with
    | some g => some g
    | none => if amt ≤ (s.bal f bondDenom : Int) then some f else none

/-- `SetAllLighNodeSaleContracts`: every existing record is deleted, then the proposal's records are saved in
order under their chain reference id — a later record for the same chain overwrites an earlier one -/
def contractTable : List (Chain × CStr) → Chain → Option CStr
  | [], _ => none
  | (ch, c) :: rest, x =>
    if (contractTable rest x).isSome then contractTable rest x else if ch = x then some c else none

/-! ### operations -/

/-- `MsgAddLightNodeClientLicense` signed by `signer` with `Metadata.Creator = creator` -/
def create (s : State) (signer creator : Addr) (client : Option AddrStr) (amt : Int) (d : Denom)
    (months now : Nat) : State × Res :=
  if authorised s signer creator = false then (s, .rejected) else
  match createLic s creator client amt d months now with
  | none => (s, .rejected)
  | some s' => (s', .ok)

/-- an attested `MsgLightNodeSaleClaim` of bridge chain `chain` (amount in GRAIN, claimed contract address
string — possibly the empty one) handled by `processAttestation` -/
def sale (s : State) (chain : Chain) (client : Option AddrStr) (grains : Int) (contract : CStr) (now : Nat) :
    State × Res :=
  if s.contracts chain = none then (s, .rejected) else          -- `err != nil || contract == nil`: no record for the chain
  if s.contracts chain ≠ some contract then (s, .rejected) else -- wrong smart contract address (string comparison)
  if grains * (grain : Int) ≥ (maxInt : Int) ∨ grains * (grain : Int) ≤ -(maxInt : Int) then (s, .rejected) else  -- Int.Mul panics
  if grains < 0 then (s, .rejected) else                        -- sdk.NewCoin panics on a negative amount
  match s.feegranter with
  | none => (s, .rejected)                                      -- ErrNoFeegranter
  | some fg =>
    if (s.funders.getD []).isEmpty then (s, .rejected) else     -- ErrNoFunder (unset or empty)
    match pickFunder s (grains * (grain : Int)) (s.funders.getD []) with
    | none => (s, .rejected)                                    -- ErrInsufficientBalance
    | some funder =>
      match createLic s funder client (grains * (grain : Int)) bondDenom saleMonths now with
      | none => (s, .rejected)                                  -- rolled back, incl. the new base account
      | some s1 =>
        if s1.grants.contains (fg, (client.getD ⟨0, false⟩).addr) then (s, .rejected) else   -- "fee allowance already exists"
        ({ s1 with grants := s1.grants ++ [(fg, (client.getD ⟨0, false⟩).addr)] }, .ok)

/-- `MsgRegisterLightNodeClient` at block time `now`; the vesting period ends at
`now.AddDate(0, license.VestingMonths, 0)` -/
def activate (s : State) (signer : Addr) (creator : AddrStr) (now : Nat) : State × Res :=
  if authorisedStr s signer creator = false then (s, .rejected) else
  match lookupLic s.lics creator with
  | none => (s, .rejected)                                      -- ErrNoLicense
  | some l =>
    if s.acct creator.addr ≠ .base then (s, .rejected) else     -- ErrNoAccount
    if l.amount = 0 then (s, .rejected) else                    -- BaseVestingAccount.Validate
    if s.escrow l.denom < l.amount then (s, .rejected) else     -- module account cannot pay
    ({ s with acct := updA s.acct creator.addr (.vesting l.amount l.denom now (addMonths now l.months)),
              bal := upd2 s.bal creator.addr l.denom (s.bal creator.addr l.denom + l.amount),
              escrow := upd s.escrow l.denom (s.escrow l.denom - l.amount),
              lics := eraseLic s.lics creator,
              clients := if s.clients.contains creator then s.clients else s.clients ++ [creator] }, .ok)

/-- `MsgAuthLightNodeClient` (only `LastAuthAt` changes, which is not modelled) -/
def auth (s : State) (signer : Addr) (creator : AddrStr) : State × Res :=
  if authorisedStr s signer creator = false then (s, .rejected) else
  if s.clients.contains creator then (s, .ok) else (s, .rejected)

/-- `GetLegacyLightNodeClients`: grantees of `fg` that are neither registered nor waiting for activation -/
def legacyNew (fg : Addr) (lics : List (AddrStr × Lic)) (cl : List AddrStr) (gr : List (Addr × Addr)) :
    List AddrStr :=
  (gr.filter (fun p => p.1 == fg && !cl.contains ⟨p.2, false⟩ && (lookupLic lics ⟨p.2, false⟩).isNone)).map
    (fun p => ⟨p.2, false⟩)

/-- `MsgSetLegacyLightNodeClients` -/
def legacy (s : State) (signer creator : Addr) : State × Res :=
  if authorised s signer creator = false then (s, .rejected) else
  match s.feegranter with
  | none => (s, .ok)
  | some fg => ({ s with clients := s.clients ++ legacyNew fg s.lics s.clients s.grants }, .ok)

/-- x/bank `MsgSend`; `to = none` is a blocked (module) address.  This and `create` / `sale` / `gift` are the only
debits in the op alphabet: staking (delegate / undelegate), fees, deposits and bridge transfers are NOT modelled
(see the EXCLUSION note of `locked_enforced` in Props/C18.lean). -/
def send (s : State) (src : Addr) (dst : Option Addr) (d : Denom) (amt : Int) (now : Nat) : State × Res :=
  if s.acct src = .none then (s, .rejected) else
  if amt ≤ 0 ∨ denomValid d = false then (s, .rejected) else
  match dst with
  | none => (s, .rejected)
  | some t =>
    if spendable s src d now < amt.toNat then (s, .rejected) else
    (touchAcct { s with bal := upd2 (upd2 s.bal src d (s.bal src d - amt.toNat)) t d
                               (upd2 s.bal src d (s.bal src d - amt.toNat) t d + amt.toNat) } t, .ok)

/-- x/feegrant `MsgGrantAllowance`.  The granter IS the signer (x/auth verifies the granter's signature), so the
operation carries no separate signer.  The model has no `MsgRevokeAllowance` and no allowance expiry: the grant
table only grows (the harness never revokes). -/
def grant (s : State) (granter grantee : Addr) : State × Res :=
  if s.acct granter = .none then (s, .rejected) else
  if granter = grantee then (s, .rejected) else
  if s.grants.contains (granter, grantee) then (s, .rejected) else
  (touchAcct { s with grants := s.grants ++ [(granter, grantee)] } grantee, .ok)

/-- coins reaching the escrow account from outside the licence flow (keeper-level `SendCoins`;
user `MsgSend`s to the module address are refused by the bank, see `send`) -/
def gift (s : State) (src : Addr) (d : Denom) (amt now : Nat) : State × Res :=
  if amt = 0 ∨ denomValid d = false then (s, .rejected) else
  if spendable s src d now < amt then (s, .rejected) else
  ({ s with bal := upd2 s.bal src d (s.bal src d - amt),
            escrow := upd s.escrow d (s.escrow d + amt),
            gifts := upd s.gifts d (s.gifts d + amt) }, .ok)

/-- coins minted to an account outside the modelled flows (test set-up, other modules) -/
def fund (s : State) (a : Addr) (d : Denom) (amt : Nat) : State × Res :=
  (touchAcct { s with bal := upd2 s.bal a d (s.bal a d + amt) } a, .ok)

inductive Op where
  | create (signer creator : Addr) (client : Option AddrStr) (amt : Int) (d : Denom) (months now : Nat)
  | sale (chain : Chain) (client : Option AddrStr) (grains : Int) (contract : CStr) (now : Nat)
  | activate (signer : Addr) (creator : AddrStr) (now : Nat)
  | auth (signer : Addr) (creator : AddrStr)
  | legacy (signer creator : Addr)
  | send (src : Addr) (dst : Option Addr) (d : Denom) (amt : Int) (now : Nat)
  | grant (granter grantee : Addr)
  | gift (src : Addr) (d : Denom) (amt now : Nat)
  | fund (a : Addr) (d : Denom) (amt : Nat)
  | setFeegranter (a : Addr)
  | setFunders (l : List Addr)
  | setContracts (l : List (Chain × CStr))
deriving Repr

def step (s : State) : Op → State × Res
  | .create sg cr cl amt d m now => create s sg cr cl amt d m now
  | .sale ch cl g c now => sale s ch cl g c now
  | .activate sg cr now => activate s sg cr now
  | .auth sg cr => auth s sg cr
  | .legacy sg cr => legacy s sg cr
  | .send a b d amt now => send s a b d amt now
  | .grant g e => grant s g e
  | .gift a d amt now => gift s a d amt now
  | .fund a d amt => fund s a d amt
  | .setFeegranter a => ({ s with feegranter := some a }, .ok)
  | .setFunders l => ({ s with funders := some l }, .ok)
  | .setContracts l => ({ s with contracts := contractTable l }, .ok)

/-- the block time an operation is executed at (`none`: the operation reads no clock and debits nobody).
Block times are INPUTS of the operations: `run` accepts any sequence of time stamps, also non-monotone ones; the
theorems of Props/C18.lean hold for all of them and hence for the non-decreasing block times of a chain. -/
def Op.time : Op → Option Nat
  | .create _ _ _ _ _ _ now => some now
  | .sale _ _ _ _ now => some now
  | .activate _ _ now => some now
  | .send _ _ _ _ now => some now
  | .gift _ _ _ now => some now
  | _ => none

def run (s : State) : List Op → State
  | [] => s
  | op :: ops => run (step s op).1 ops

/-- states reachable from the empty chain state -/
def Reachable (s : State) : Prop := ∃ ops, s = run State.init ops

/-! ### transactions that carry SEVERAL messages

`baseapp.runTx`: the ante chain runs ONCE, on the state before the transaction, over ALL messages of the
transaction (x/auth: every declared signer of every message has an account and signed;
`VerifyAuthorisedSignatureDecorator`: a `for` loop over `tx.GetMsgs()` — flattened through authz `MsgExec`
wrappers by `ownershipScope` — that `continue`s after a message without metadata or signed by its creator and
returns an error at the first message that is neither creator-signed nor signed by a fee-grantee of its
creator).  Only when the ante chain accepted are the messages handed to their msg-server handlers, in order, on
ONE cached store that is written back only when every handler succeeded.

A message is an `Op` of the user-message kinds (`Op.isMsg`); its own `signer` field is the `Metadata.Signers`
entry the message declares (for `send` / `grant` the sender / granter).  The ownership check of message `i`
therefore does NOT see what messages `< i` of the same transaction wrote (a fee grant issued by message 1 does
not authorise message 2), and no message is exempt because another message of the transaction was in order.

A message wrapped in `authz.MsgExec{grantee = the message's declared signer}` is checked by the decorator like
a top-level one (`ownershipScope`) and dispatched by authz without any authorisation (the grantee's own message),
i.e. it behaves exactly like the bare message; the line protocol marks the wrapping, the model has no separate
constructor for it. -/

/-- the kinds of `Op` that are messages a user can put into a transaction -/
def Op.isMsg : Op → Bool
  | .create _ _ _ _ _ _ _ => true
  | .activate _ _ _ => true
  | .auth _ _ => true
  | .legacy _ _ => true
  | .send _ _ _ _ _ => true
  | .grant _ _ => true
  | _ => false

/-- the verdict of the ante chain on ONE message, on the state `s` before the transaction -/
def anteOk (s : State) : Op → Bool
  | .create sg cr _ _ _ _ _ => authorised s sg cr
  | .activate sg cr _ => authorisedStr s sg cr
  | .auth sg cr => authorisedStr s sg cr
  | .legacy sg cr => authorised s sg cr
  | .send a _ _ _ _ => s.acct a != .none
  | .grant g _ => s.acct g != .none
  | _ => false

/-- `RegisterLightNodeClient` → `CreateLightNodeClientAccount`: the msg-server handler ALONE (the part of
`activate` after the ante check; `activate_eq_ante_then_handler` in Props/C18.lean) -/
def registerH (s : State) (creator : AddrStr) (now : Nat) : State × Res :=
  match lookupLic s.lics creator with
  | none => (s, .rejected)                                      -- ErrNoLicense
  | some l =>
    if s.acct creator.addr ≠ .base then (s, .rejected) else     -- ErrNoAccount
    if l.amount = 0 then (s, .rejected) else                    -- BaseVestingAccount.Validate
    if s.escrow l.denom < l.amount then (s, .rejected) else     -- module account cannot pay
    ({ s with acct := updA s.acct creator.addr (.vesting l.amount l.denom now (addMonths now l.months)),
              bal := upd2 s.bal creator.addr l.denom (s.bal creator.addr l.denom + l.amount),
              escrow := upd s.escrow l.denom (s.escrow l.denom - l.amount),
              lics := eraseLic s.lics creator,
              clients := if s.clients.contains creator then s.clients else s.clients ++ [creator] }, .ok)

/-- the msg-server handler of one message WITHOUT the ante chain (what the msg router runs once the ante chain
accepted the transaction).  The handlers never look at the signer: they trust `Metadata.Creator`.
(`send` / `grant`: the only ante-level condition of the single-message model, "the sender has an account", is
re-evaluated harmlessly — accounts never disappear.) -/
def handle (s : State) : Op → State × Res
  | .create _ cr cl amt d m now =>
    match createLic s cr cl amt d m now with
    | none => (s, .rejected)
    | some s' => (s', .ok)
  | .activate _ cr now => registerH s cr now
  | .auth _ cr => if s.clients.contains cr then (s, .ok) else (s, .rejected)
  | .legacy _ _ =>
    match s.feegranter with
    | none => (s, .ok)
    | some fg => ({ s with clients := s.clients ++ legacyNew fg s.lics s.clients s.grants }, .ok)
  | .send a b d amt now => send s a b d amt now
  | .grant g e => grant s g e
  | _ => (s, .rejected)

/-- the handlers of the messages in order on one cached store; `none`: some handler failed (nothing is written) -/
def execAll (s : State) : List Op → Option State
  | [] => some s
  | m :: rest => if (handle s m).2 = .ok then execAll (handle s m).1 rest else none

/-- one transaction with the messages `msgs` (all executed at the same block time, which each message carries) -/
def tx (s : State) (msgs : List Op) : State × Res :=
  if msgs.isEmpty then (s, .rejected) else                       -- "must contain at least one message"
  if msgs.all (anteOk s) = false then (s, .rejected) else        -- the ante chain, on the state BEFORE the transaction
  match execAll s msgs with
  | none => (s, .rejected)                                       -- a handler failed: the cached store is dropped
  | some s' => (s', .ok)

/-- an event of a chain history: a single operation (a one-message transaction, an attested sale, a governance
handler, test set-up) or a transaction with several messages -/
inductive Ev where
  | op (o : Op)
  | tx (msgs : List Op)
deriving Repr

def stepEv (s : State) : Ev → State × Res
  | .op o => step s o
  | .tx msgs => tx s msgs

def runEv (s : State) : List Ev → State
  | [] => s
  | e :: es => runEv (stepEv s e).1 es

/-- the single operations a history with multi-message transactions amounts to: the messages of every ACCEPTED
transaction in order (a rejected transaction contributes nothing); `runEv_eq_run_flatten` in Props/C18.lean -/
def flatten (s : State) : List Ev → List Op
  | [] => []
  | .op o :: es => o :: flatten (step s o).1 es
  | .tx msgs :: es => if (tx s msgs).2 = .ok then msgs ++ flatten (tx s msgs).1 es else flatten s es

/-! ### messages a CONTRACT dispatches (CosmosMsg::Any / Stargate): the wasm route

No ante handler ever sees a message a CosmWasm contract dispatches.  What stands between the contract and the
msg-server handlers (which act for `Metadata.Creator`) is
  * util/libwasm/plugin.go `router.DispatchMsg` → `verifyCreator` / `verifyCreatorOf`: the protobuf message is decoded
    and, descending through authz `MsgExec` wrappers (at most `cMaxNestedMsgDepth` of them), EVERY message with Paloma
    metadata must name the dispatching contract — `contractAddr.String()`, the canonical spelling — as its creator;
    messages without metadata (bank, feegrant) pass.  The router keeps NO state between dispatches: the verdict is a
    function of the contract address and the message alone, whatever went through the router before;
  * wasmd `handleSdkMessage`: every declared signer of the dispatched message is the contract (for `MsgExec`: its
    grantee);
  * authz `DispatchActions`: an inner message whose single declared signer is the grantee is executed without any
    authorisation, any other one needs an authz grant (the harness issues none: `ErrNoAuthorizationFound`);
  * the handlers, in order, on the cached store of the dispatch (wasmd `DispatchSubmessages`): all or nothing.

`wasm s c depth g msgs`: contract `c` dispatches ONE Any message — `depth = 0`: the single message of `msgs` bare;
`depth > 0`: `depth` nested `MsgExec{grantee = g}` wrappers around the list `msgs`.  Environment assumption: the
address of a contract has an account (wasmd creates it at instantiation); the harness only lets account holders stand
for a contract. -/

/-- `verifyCreatorOf` on one message that is not a `MsgExec`: Paloma metadata names `c` (canonical spelling) as creator -/
def creatorIs (c : Addr) : Op → Bool
  | .create _ cr _ _ _ _ _ => cr == c
  | .activate _ cr _ => cr.upper == false && cr.addr == c
  | .auth _ cr => cr.upper == false && cr.addr == c
  | .legacy _ cr => cr == c
  | _ => true

/-- the single declared signer of the message is `c` -/
def signerIs (c : Addr) : Op → Bool
  | .create sg _ _ _ _ _ _ => sg == c
  | .activate sg _ _ => sg == c
  | .auth sg _ => sg == c
  | .legacy sg _ => sg == c
  | .send a _ _ _ _ => a == c
  | .grant g _ => g == c
  | _ => false

/-- `cMaxNestedMsgDepth` -/
def maxExecDepth : Nat := 6

def wasm (s : State) (c : Addr) (depth : Nat) (g : Addr) (msgs : List Op) : State × Res :=
  if s.acct c = .none then (s, .rejected) else                   -- (environment: a contract address has an account)
  if msgs.isEmpty then (s, .rejected) else                       -- MsgExec.ValidateBasic: no messages
  if depth = 0 ∧ msgs.length ≠ 1 then (s, .rejected) else        -- a bare dispatch is ONE message
  if maxExecDepth < depth then (s, .rejected) else               -- router: "authz messages nested too deeply"
  if msgs.all (creatorIs c) = false then (s, .rejected) else     -- router: "contract … cannot dispatch a message created by …"
  if 0 < depth ∧ g ≠ c then (s, .rejected) else                  -- wasmd: the signer of MsgExec (its grantee) is not the contract
  if msgs.all (signerIs c) = false then (s, .rejected) else      -- wasmd (bare) / authz (no authorisation found)
  match execAll s msgs with
  | none => (s, .rejected)                                       -- a handler failed: the cached store is dropped
  | some s' => (s', .ok)

/-- an event of a chain history with contracts: an `Ev`, or one dispatch of a contract -/
inductive WEv where
  | ev (e : Ev)
  | wasm (c : Addr) (depth : Nat) (g : Addr) (msgs : List Op)
deriving Repr

def stepW (s : State) : WEv → State × Res
  | .ev e => stepEv s e
  | .wasm c depth g msgs => wasm s c depth g msgs

def runW (s : State) : List WEv → State
  | [] => s
  | e :: es => runW (stepW s e).1 es

end Paloma.LightNode
