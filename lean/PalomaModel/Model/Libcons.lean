/-
Model of util/libcons/consensus.go (VerifyEvidence, VerifyGasEstimates),
util/palomath/median.go (Median on uint64) and
x/consensus/types/consensus.go (AddEvidence, SetElectedGasEstimate guard).

Core Lean only. Addresses and evidence hashes are natural numbers (the harness
maps distinct addresses / distinct proof byte strings to distinct numbers);
shares are unbounded `Nat` as `sdkmath.Int` is a big integer.
-/
namespace Paloma.Libcons

/-- A snapshot: validators `(address, share)` in store order, and the total. -/
structure Snapshot where
  vals  : List (Nat × Nat)
  total : Nat
deriving Repr

/-- `Snapshot.GetValidator`: first entry with the address. -/
def lookup (vs : List (Nat × Nat)) (a : Nat) : Option Nat :=
  (vs.find? (fun v => v.1 == a)).map (·.2)

def Snapshot.share? (s : Snapshot) (a : Nat) : Option Nat := lookup s.vals a

/-- `consensusPower`: `runningSum` is the Go zero value (`none`) until the first `add`. -/
structure Power where
  sum   : Option Nat
  total : Nat

/-- `consensusPower.consensus`: false if nothing was ever added, else `3*sum ≥ 2*total`. -/
def Power.consensus (p : Power) : Bool :=
  match p.sum with
  | none => false
  | some s => decide (3 * s ≥ 2 * p.total)

/-- shares of the addresses found in the snapshot, in submission order (with multiplicity) -/
def foundShares (s : Snapshot) (addrs : List Nat) : List Nat := addrs.filterMap s.share?

/-- the loop `for … { val, found := snapshot.GetValidator(…); if !found {continue}; cp.add(val.ShareCount) }`:
    `runningSum` stays the Go zero value unless at least one address was found. -/
def tally (s : Snapshot) (addrs : List Nat) : Power :=
  let f := foundShares s addrs
  { sum := if f.isEmpty then none else some f.sum, total := s.total }

/-- Evidence: `(validator address, hash of proof bytes)`. -/
abbrev Evidence := Nat × Nat

/-- distinct hashes in order of first appearance -/
def hashes : List Evidence → List Nat
  | [] => []
  | e :: es => e.2 :: (hashes es).filter (· != e.2)

def groupOf (evs : List Evidence) (h : Nat) : List Nat :=
  (evs.filter (fun e => e.2 == h)).map (·.1)

/-- all hash groups that reach consensus; Go iterates a map and returns the first
    one it meets, so the implementation's winner is *some* member of this list. -/
def winners (s : Snapshot) (evs : List Evidence) : List Nat :=
  (hashes evs).filter (fun h => (tally s (groupOf evs h)).consensus)

inductive Verdict where
  | notAchieved
  | winnerIn (ws : List Nat)
deriving Repr, DecidableEq

def verifyEvidence (s : Snapshot) (evs : List Evidence) : Verdict :=
  if !(tally s (evs.map (·.1))).consensus then .notAchieved
  else match winners s evs with
       | [] => .notAchieved
       | ws => .winnerIn ws

/-- `QueuedSignedMessage.AddEvidence`: replace the proof of an existing validator, else append. -/
def addEvidence : List Evidence → Evidence → List Evidence
  | [], e => [e]
  | x :: xs, e => if x.1 == e.1 then (x.1, e.2) :: xs else x :: addEvidence xs e

/-! ### Evidence bytes (`x/evm/types/proofs_hash_bytes.go`)

`VerifyEvidence` groups evidence by `sha256(BytesToHash(proof))`. Up to here a group key is an
abstract natural; this layer models where the key comes from: the proof *content* and the bytes
`BytesToHash` derives from it, so that "byte-identical evidence" is a statement about what the
validators submitted and not about the grouping key. A byte is a `Fin 256`; every string field of a
proof is an arbitrary byte list. `TxExecutedProof` (RLP of transaction and receipt, geth) is not
modelled here; the harness evaluates the clause on it directly.

`Proof.bytes` is the encoding of repo commit d674fa52 (a tag per proof type, every free-form field
hex encoded); `Proof.bytesOld` is the encoding before it, kept to state the defect it repaired. -/
namespace Enc

abbrev Byte := Fin 256
abbrev Bytes := List Byte

def ofChar (c : Char) : Byte := Fin.ofNat 256 c.toNat

/-- an ASCII literal as bytes (for readable examples) -/
def str (s : String) : Bytes := s.toList.map ofChar

/-- `fmt.Sprintf("%d", n)` -/
def decimal (n : Nat) : Bytes := (Nat.toDigits 10 n).map ofChar

inductive Proof where
  /-- `SmartContractExecutionErrorProof{ErrorMessage}` -/
  | err (msg : Bytes)
  /-- `ValidatorBalancesAttestationRes{BlockHeight, Balances}` -/
  | balances (height : Nat) (bals : List Bytes)
  /-- `ReferenceBlockAttestationRes{BlockHeight, BlockHash}` -/
  | refBlock (height : Nat) (hash : Bytes)
deriving Repr, DecidableEq

/-- one lower-case hex digit -/
def hexDigit (n : Nat) : Byte := if n < 10 then Fin.ofNat 256 (48 + n) else Fin.ofNat 256 (87 + n)

/-- `fmt.Sprintf("%x", s)` of a Go string: two lower-case hex digits per byte -/
def hexStr : Bytes → Bytes
  | [] => []
  | b :: bs => hexDigit (b.val / 16) :: hexDigit (b.val % 16) :: hexStr bs

/-- `/` -/
def slash : Byte := 47

/-- `for _, val := range h.Balances { res = append(res, fmt.Sprintf("/%x", val)...) }` -/
def joinSlash : List Bytes → Bytes
  | [] => []
  | b :: bs => slash :: (hexStr b ++ joinSlash bs)

/-- `error/` -/
def tagErr : Bytes := [101, 114, 114, 111, 114, 47]
/-- `balances/` -/
def tagBal : Bytes := [98, 97, 108, 97, 110, 99, 101, 115, 47]
/-- `refblock/` -/
def tagRef : Bytes := [114, 101, 102, 98, 108, 111, 99, 107, 47]

/-- `BytesToHash`: `error/%x`, `balances/%d` + `/%x` per balance, `refblock/%d/%x` -/
def Proof.bytes : Proof → Bytes
  | .err m => tagErr ++ hexStr m
  | .balances h bs => tagBal ++ (decimal h ++ joinSlash bs)
  | .refBlock h x => tagRef ++ (decimal h ++ slash :: hexStr x)

/-- `for _, val := range h.Balances { res = append(res, []byte("\n"+val)...) }` (old) -/
def joinNl : List Bytes → Bytes
  | [] => []
  | b :: bs => (10 : Byte) :: (b ++ joinNl bs)

/-- `BytesToHash` before d674fa52: the fields written one after the other -/
def Proof.bytesOld : Proof → Bytes
  | .err m => m
  | .balances h bs => decimal h ++ joinNl bs
  | .refBlock h x => decimal h ++ x

/-- position of the first entry equal to `b` (`length` if none) -/
def firstIdx (b : Bytes) : List Bytes → Nat
  | [] => 0
  | x :: xs => if x = b then 0 else firstIdx b xs + 1

/-- the group key of a proof among `all` submitted byte strings: 1 + the position of the first
    submission with the same bytes (SHA-256 of equal bytes is equal; of different bytes different:
    the trusted hypothesis). The representative Go keeps for a group (`val.evidence`, set once) is the
    proof at that position. -/
def keyIn (all : List Bytes) (b : Bytes) : Nat := firstIdx b all + 1

/-- evidence with proof content → evidence with group keys, under encoding `enc` -/
def keysWith (enc : Proof → Bytes) (evs : List (Nat × Proof)) : List Evidence :=
  evs.map (fun e => (e.1, keyIn (evs.map (fun x => enc x.2)) (enc e.2)))

def keys (evs : List (Nat × Proof)) : List Evidence := keysWith Proof.bytes evs

/-- `VerifyEvidence` on proof content; a winner `k` stands for the proof of the `k`-th entry -/
def verifyProofs (s : Snapshot) (evs : List (Nat × Proof)) : Verdict :=
  verifyEvidence s (keys evs)

/-- `VerifyEvidence` as it grouped before d674fa52 -/
def verifyProofsOld (s : Snapshot) (evs : List (Nat × Proof)) : Verdict :=
  verifyEvidence s (keysWith Proof.bytesOld evs)

/-- the addresses that supplied exactly proof `p` -/
def suppliers (evs : List (Nat × Proof)) (p : Proof) : List Nat :=
  (evs.filter (fun e => e.2 = p)).map (·.1)

end Enc

/-! ### Median on `uint64` -/

def U64 : Nat := 18446744073709551616

/-- insertion into an ascending list -/
def insertSorted (x : Nat) : List Nat → List Nat
  | [] => [x]
  | y :: ys => if x ≤ y then x :: y :: ys else y :: insertSorted x ys

def sortAsc : List Nat → List Nat
  | [] => []
  | x :: xs => insertSorted x (sortAsc xs)

/-- midpoint as the (repaired) Go code computes it on `uint64`:
    `w[c-1] + (w[c]-w[c-1])/2`, every operation modulo 2^64. -/
def midpoint (lo hi : Nat) : Nat :=
  (lo + ((hi + U64 - lo) % U64) / 2) % U64

/-- the pre-repair formula `(w[c-1] + w[c]) / 2` on `uint64` (kept to state the defect). -/
def midpointWrapping (lo hi : Nat) : Nat :=
  ((lo + hi) % U64) / 2

def medianWith (mid : Nat → Nat → Nat) (s : List Nat) : Nat :=
  if s.length < 1 then 0
  else
    let w := sortAsc s
    let c := w.length / 2
    if w.length % 2 == 0 then mid (w.getD (c - 1) 0) (w.getD c 0) else w.getD c 0

def median (s : List Nat) : Nat := medianWith midpoint s
def medianWrapping (s : List Nat) : Nat := medianWith midpointWrapping s

inductive GasVerdict where
  | notAchieved
  | zero
  | elected (v : Nat)
deriving Repr, DecidableEq

/-- `VerifyGasEstimates`: quorum over submitters found in the snapshot, then the
    median of *all* submitted values, refusing 0. -/
def verifyGasEstimates (s : Snapshot) (ests : List (Nat × Nat)) : GasVerdict :=
  if !(tally s (ests.map (·.1))).consensus then .notAchieved
  else
    let m := median (ests.map (·.2))
    if m == 0 then .zero else .elected m

/-- `Queue.SetElectedGasEstimate`: refuses when an estimate is already set (non-zero). -/
def setElected (current new : Nat) : Option Nat :=
  if current != 0 then none else some new

/-- `Queue.AddGasEstimate`: refuse a second estimate by the same validator. -/
def addGasEstimate (ests : List (Nat × Nat)) (e : Nat × Nat) : Option (List (Nat × Nat)) :=
  if ests.any (fun x => x.1 == e.1) then none else some (ests ++ [e])

/-! ## C04 history model

One consensus queue, the *current* snapshot (`SnapshotProvider`), and the log of applied
attestation effects, driven by the operations that exist in the Go code:

* `snap`   — the valset keeper publishes a new current snapshot (arbitrary: C10's subject);
* `put`    — `Queue.Put` with a fresh id (`IncrementNextID`);
* `ev`     — `Queue.AddEvidence` (`QueuedSignedMessage.AddEvidence`: replace or append);
* `est`    — `MsgAddMessageGasEstimates` handler (refuses a value below 1) + `Queue.AddGasEstimate`
             (refused: unknown id, no estimation required, second estimate of the validator);
* `elect`  — `checkAndProcessEstimatedMessage` for one message inside its `CacheContext`
             (`feeOk = false`: `checkAndProcessEstimatedFeePayer` failed, nothing is committed);
* `attest` — `attestMessageWrapper` for one message; `hint` is the group Go's map iteration meets
             first; the result of the type-specific attester depends on the winning evidence:
             `hard` / `soft` list the proof hashes on which it fails (`ok` = nil, `soft` =
             `ErrEthTxNotVerified` / `ErrEthTxFailed`: cache written; `hard` = any other error:
             cache dropped, message stays);
* `prune`  — `DeleteJob` (`PruneJob`, superseded valset updates): removal without any declaration.

The end-blocker loops `CheckAndProcessEstimatedMessages` / `CheckAndProcessAttestedMessages` are the
sequences of `elect` / `attest` over the queue (errors are logged and the loop carries on).
Attesters that themselves enqueue or delete messages (retry of a `SubmitLogicCall`, clean-up of older
valset updates) appear as separate `put` / `prune` operations. -/
namespace Hist

deriving instance DecidableEq for Snapshot

structure Item where
  id      : Nat
  /-- `RequireGasEstimation` (flag mask bit) -/
  req     : Bool
  /-- `GasEstimates`: `(validator, value)` in submission order -/
  ests    : List (Nat × Nat) := []
  /-- `GasEstimate`: the elected value, `0` = none -/
  elected : Nat := 0
  /-- `Evidence`: `(validator, proof hash)` -/
  evs     : List Evidence := []
deriving Repr, DecidableEq

/-- result of the type-specific attester -/
inductive Outcome where
  | ok | soft | hard
deriving Repr, DecidableEq

structure St where
  /-- what `SnapshotProvider` returns now -/
  snap     : Snapshot
  nextId   : Nat
  queue    : List Item
  /-- applied attestation effects, oldest first: `(message id, winning proof hash, attester
      returned a soft error)`; written in the same cache as the removal -/
  declared : List (Nat × Nat × Bool)
deriving Repr, DecidableEq

def St.init : St := { snap := ⟨[], 0⟩, nextId := 0, queue := [], declared := [] }

/-- `GetMsgByID` -/
def get (q : List Item) (id : Nat) : Option Item := q.find? (fun x => x.id == id)
/-- `save` under the item's id -/
def set (q : List Item) (it : Item) : List Item := q.map (fun x => if x.id == it.id then it else x)
/-- `queue.Delete` -/
def del (q : List Item) (id : Nat) : List Item := q.filter (fun x => x.id != id)

inductive Op where
  | snap (s : Snapshot)
  | put (req : Bool)
  | ev (id a h : Nat)
  | est (id a v : Nat)
  | elect (id : Nat) (feeOk : Bool)
  | attest (id hint : Nat) (hard soft : List Nat)
  | prune (id : Nat)
deriving Repr, DecidableEq

inductive Res where
  | ok | rejected | absent
  | newId (id : Nat)
  | skipped | notAchieved | zero | refused | feeFailed
  | elected (v : Nat)
  | noEvidence
  | declared (h : Nat) (soft : Bool)
  | hardFail (h : Nat)
deriving Repr, DecidableEq

/-- the winner Go returns: the first quorum group in map order (`hint`), which is one of the
    quorum groups; a hint that is not one of them is replaced by the first in evidence order -/
def pickWinner (ws : List Nat) (hint : Nat) : Nat := if ws.contains hint then hint else ws.headD 0

/-- `Queue.AddEvidence` -/
def evStep (s : St) (id a h : Nat) : St × Res :=
  match get s.queue id with
  | none => (s, .rejected)
  | some it => ({ s with queue := set s.queue { it with evs := addEvidence it.evs (a, h) } }, .ok)

/-- `msgServer.AddMessageEstimates` (value below 1 refused) + `Queue.AddGasEstimate`; a value outside
    `uint64` is not representable and refused -/
def estStep (s : St) (id a v : Nat) : St × Res :=
  if v < 1 then (s, .rejected) else
  match get s.queue id with
  | none => (s, .rejected)
  | some it =>
    if !it.req then (s, .rejected)
    else if !(decide (v < U64)) then (s, .rejected)
    else match addGasEstimate it.ests (a, v) with
      | none => (s, .rejected)
      | some es => ({ s with queue := set s.queue { it with ests := es } }, .ok)

/-- `checkAndProcessEstimatedMessage` (+ the `SetElectedGasEstimate` guards) in its cache context -/
def electStep (s : St) (id : Nat) (feeOk : Bool) : St × Res :=
  match get s.queue id with
  | none => (s, .absent)
  | some it =>
    if !it.req then (s, .skipped)
    else if it.ests.length < 1 then (s, .skipped)
    else if it.elected > 0 then (s, .skipped)
    else match verifyGasEstimates s.snap it.ests with
      | .notAchieved => (s, .notAchieved)
      | .zero => (s, .zero)
      | .elected g =>
        match setElected it.elected g with
        | none => (s, .refused)
        | some g' =>
          if feeOk then ({ s with queue := set s.queue { it with elected := g' } }, .elected g')
          else (s, .feeFailed)

/-- what the type-specific attester returns for winning proof `w` -/
def outcomeOf (hard soft : List Nat) (w : Nat) : Outcome :=
  if hard.contains w then .hard else if soft.contains w then .soft else .ok

/-- `attestMessageWrapper` -/
def attestStep (s : St) (id hint : Nat) (hard soft : List Nat) : St × Res :=
  match get s.queue id with
  | none => (s, .absent)
  | some it =>
    if it.evs.length == 0 then (s, .noEvidence)
    else match verifyEvidence s.snap it.evs with
      | .notAchieved => (s, .notAchieved)
      | .winnerIn ws =>
        match outcomeOf hard soft (pickWinner ws hint) with
        | .hard => (s, .hardFail (pickWinner ws hint))
        | .ok => ({ s with queue := del s.queue id,
                           declared := s.declared ++ [(id, pickWinner ws hint, false)] },
                  .declared (pickWinner ws hint) false)
        | .soft => ({ s with queue := del s.queue id,
                             declared := s.declared ++ [(id, pickWinner ws hint, true)] },
                    .declared (pickWinner ws hint) true)

def step (s : St) : Op → St × Res
  | .snap sn => ({ s with snap := sn }, .ok)
  | .put req =>
    ({ s with nextId := s.nextId + 1,
              queue := s.queue ++ [{ id := s.nextId + 1, req := req }] }, .newId (s.nextId + 1))
  | .ev id a h => evStep s id a h
  | .est id a v => estStep s id a v
  | .elect id feeOk => electStep s id feeOk
  | .attest id hint hard soft => attestStep s id hint hard soft
  | .prune id =>
    match get s.queue id with
    | none => (s, .rejected)
    | some _ => ({ s with queue := del s.queue id }, .ok)

def apply (s : St) (op : Op) : St := (step s op).1

def runFrom (s : St) (ops : List Op) : St := ops.foldl apply s

def run (ops : List Op) : St := runFrom St.init ops

/-- the results, in order -/
def traceFrom (s : St) : List Op → List Res
  | [] => []
  | op :: ops => (step s op).2 :: traceFrom (apply s op) ops

def trace (ops : List Op) : List Res := traceFrom St.init ops

end Hist

end Paloma.Libcons
