/-
Model of util/libcons/consensus.go (VerifyEvidence, VerifyGasEstimates),
util/palomath/median.go (Median on uint64) and
x/consensus/types/consensus.go (AddEvidence, SetElectedGasEstimate guard).

Core Lean only. Addresses and evidence hashes are natural numbers (the harness
maps distinct addresses / distinct proof byte strings to distinct numbers);
shares are unbounded `Nat` as `sdkmath.Int` is a big integer.
-/
namespace Paloma.Libcons

/-- A snapshot: validators `(address, share)` in store order, and the total. -/
structure Snapshot where
  vals  : List (Nat × Nat)
  total : Nat
deriving Repr

/-- `Snapshot.GetValidator`: first entry with the address. -/
def lookup (vs : List (Nat × Nat)) (a : Nat) : Option Nat :=
  (vs.find? (fun v => v.1 == a)).map (·.2)

def Snapshot.share? (s : Snapshot) (a : Nat) : Option Nat := lookup s.vals a

/-- `consensusPower`: `runningSum` is the Go zero value (`none`) until the first `add`. -/
structure Power where
  sum   : Option Nat
  total : Nat

/-- `consensusPower.consensus`: false if nothing was ever added, else `3*sum ≥ 2*total`. -/
def Power.consensus (p : Power) : Bool :=
  match p.sum with
  | none => false
  | some s => decide (3 * s ≥ 2 * p.total)

/-- shares of the addresses found in the snapshot, in submission order (with multiplicity) -/
def foundShares (s : Snapshot) (addrs : List Nat) : List Nat := addrs.filterMap s.share?

/-- the loop `for … { val, found := snapshot.GetValidator(…); if !found {continue}; cp.add(val.ShareCount) }`:
    `runningSum` stays the Go zero value unless at least one address was found. -/
def tally (s : Snapshot) (addrs : List Nat) : Power :=
  let f := foundShares s addrs
  { sum := if f.isEmpty then none else some f.sum, total := s.total }

/-- Evidence: `(validator address, hash of proof bytes)`. -/
abbrev Evidence := Nat × Nat

/-- distinct hashes in order of first appearance -/
def hashes : List Evidence → List Nat
  | [] => []
  | e :: es => e.2 :: (hashes es).filter (· != e.2)

def groupOf (evs : List Evidence) (h : Nat) : List Nat :=
  (evs.filter (fun e => e.2 == h)).map (·.1)

/-- all hash groups that reach consensus; Go iterates a map and returns the first
    one it meets, so the implementation's winner is *some* member of this list. -/
def winners (s : Snapshot) (evs : List Evidence) : List Nat :=
  (hashes evs).filter (fun h => (tally s (groupOf evs h)).consensus)

inductive Verdict where
  | notAchieved
  | winnerIn (ws : List Nat)
deriving Repr, DecidableEq

def verifyEvidence (s : Snapshot) (evs : List Evidence) : Verdict :=
  if !(tally s (evs.map (·.1))).consensus then .notAchieved
  else match winners s evs with
       | [] => .notAchieved
       | ws => .winnerIn ws

/-- `QueuedSignedMessage.AddEvidence`: replace the proof of an existing validator, else append. -/
def addEvidence : List Evidence → Evidence → List Evidence
  | [], e => [e]
  | x :: xs, e => if x.1 == e.1 then (x.1, e.2) :: xs else x :: addEvidence xs e

/-! ### Median on `uint64` -/

def U64 : Nat := 18446744073709551616

/-- insertion into an ascending list -/
def insertSorted (x : Nat) : List Nat → List Nat
  | [] => [x]
  | y :: ys => if x ≤ y then x :: y :: ys else y :: insertSorted x ys

def sortAsc : List Nat → List Nat
  | [] => []
  | x :: xs => insertSorted x (sortAsc xs)

/-- midpoint as the (repaired) Go code computes it on `uint64`:
    `w[c-1] + (w[c]-w[c-1])/2`, every operation modulo 2^64. -/
def midpoint (lo hi : Nat) : Nat :=
  (lo + ((hi + U64 - lo) % U64) / 2) % U64

/-- the pre-repair formula `(w[c-1] + w[c]) / 2` on `uint64` (kept to state the defect). -/
def midpointWrapping (lo hi : Nat) : Nat :=
  ((lo + hi) % U64) / 2

def medianWith (mid : Nat → Nat → Nat) (s : List Nat) : Nat :=
  if s.length < 1 then 0
  else
    let w := sortAsc s
    let c := w.length / 2
    if w.length % 2 == 0 then mid (w.getD (c - 1) 0) (w.getD c 0) else w.getD c 0

def median (s : List Nat) : Nat := medianWith midpoint s
def medianWrapping (s : List Nat) : Nat := medianWith midpointWrapping s

inductive GasVerdict where
  | notAchieved
  | zero
  | elected (v : Nat)
deriving Repr, DecidableEq

/-- `VerifyGasEstimates`: quorum over submitters found in the snapshot, then the
    median of *all* submitted values, refusing 0. -/
def verifyGasEstimates (s : Snapshot) (ests : List (Nat × Nat)) : GasVerdict :=
  if !(tally s (ests.map (·.1))).consensus then .notAchieved
  else
    let m := median (ests.map (·.2))
    if m == 0 then .zero else .elected m

/-- `Queue.SetElectedGasEstimate`: refuses when an estimate is already set (non-zero). -/
def setElected (current new : Nat) : Option Nat :=
  if current != 0 then none else some new

/-- `Queue.AddGasEstimate`: refuse a second estimate by the same validator. -/
def addGasEstimate (ests : List (Nat × Nat)) (e : Nat × Nat) : Option (List (Nat × Nat)) :=
  if ests.any (fun x => x.1 == e.1) then none else some (ests ++ [e])

end Paloma.Libcons
