/-
Model of WHO may make a paloma message take effect (property C03).

Code modelled (as it is, not as it should be):
* the SDK signature verification, as far as the property needs it: a transaction is signed by
  exactly the (de-duplicated) signers its messages declare (`cosmos.msg.v1.signer = "metadata"` →
  `MsgMetadata.signers`; three `MsgUpdateParams` declare their `Authority` field instead);
* `x/paloma/ante.go` `VerifyAuthorisedSignatureDecorator.AnteHandle`: for every message with
  paloma metadata, `creator` must be one of `metadata.signers` or one of `metadata.signers` must
  hold a fee allowance granted BY `creator` (`AllowancesByGranter(creator)` looked up by grantee),
  message by message.  The `simulate` bypass is irrelevant to delivery;
* every `msg_server*.go` handler, abstracted to its authorisation semantics `Sem`: which
  principals key what it writes (the metadata creator, identity-bearing request fields), which
  comparisons it makes before writing (field = creator, field / creator = keeper authority,
  external-chain signature of the named validator), which fields only name a beneficiary.  The
  delivery functions below INTERPRET a `Sem`; `Props/C03.lean` computes the `Sem` of every handler
  from facts extracted from the Go source (`Gen/Auth.lean`) — not from the hand-written `rules`
  table, which is proved to agree with it.

The hand-written tables (`rules`, `roles`, …) are DATA keyed by "<module>.<RPC method>" (the names
the Go message zoo uses); they drive the verdicts of the driver and are checked against the
generated facts in `Props/C03.lean`.  Core Lean only.
-/
namespace Paloma.Auth

abbrev Addr := Nat

/-- what the chain keeps on behalf of ONE principal: a list of records.  Handlers may add,
    alter and remove records (any function `Val → Val`). -/
abbrev Val := List Nat

/-- a paloma message as the authorisation layer sees it -/
structure Msg where
  typ : String
  /-- `metadata.signers` -/
  signers : List Addr
  /-- `metadata.creator` -/
  creator : Addr
  /-- the principal every identity-bearing request field denotes, by field path (`none`: the
      type has no such field, or its content is not an address — a handler that needs it errs) -/
  field : String → Option Addr
  /-- the external-chain signature carried by the message, abstractly: the key that made it
      (0: nobody's) … -/
  sigKey : Nat := 0
  /-- … and the item it was made over -/
  sigItem : Nat := 0
  /-- the item the message is about (the batch it confirms, the checkpoint it accuses) -/
  item : Nat := 0

/-- in whose name a handler writes -/
inductive Rule where
  /-- everything the handler writes is attributed to `metadata.creator` -/
  | actsFor
  /-- the handler rejects unless creator / authority is the governance authority -/
  | authorityOnly
  /-- the handler writes in the name of identity field `field`, which must be backed by that
      principal's own external-chain signature carried in the message -/
  | sigProven (field : Nat)
  /-- anybody may send it; what it writes is not derived from the sender (see the reason) -/
  | open_ (reason : String)
deriving Repr, DecidableEq

/-- what an identity-like request field means to the handler -/
inductive Role where
  /-- names another principal as recipient / beneficiary of something the creator gives from its
      own state; may create state mentioning that principal, never alters its existing state -/
  | target
  /-- must denote the creator (compared with it, resolved among the creator's own records, or
      overwritten by it); anything else is rejected -/
  | equatedWithCreator
  /-- the principal it denotes is bound by an external-chain signature inside the message -/
  | sigProven
  /-- must equal the governance authority (compared with the keeper's authority) -/
  | authorityField
  /-- not interpreted as a paloma principal -/
  | freeText
deriving Repr, DecidableEq

/-! ## The rule table (hand-written, checked against the generated facts) -/

/-- Rule of every message type the chain accepts, keyed by "<module>.<RPC>".

`open_` entries, each checked against the handler:
* `evm.RemoveSmartContractDeployment` — `DeleteSmartContractDeploymentByContractID(req.SmartContractID,
  req.ChainReferenceID)` with no check at all: ANY account can delete the in-flight deployment
  record of a governance-approved compass contract.  The record is workflow state (pigeon's
  escape hatch for a stuck deployment), re-created by the end blocker while the chain does not
  run the latest compass; it is not attributed to a principal.  Borderline w.r.t. "governance-
  controlled settings" — reported in Props/C03.md.
* `paloma.SetLegacyLightNodeClients` — ignores the message; registers every grantee of the
  (governance-configured) light-node feegranter that has neither a client record nor a pending
  licence.  Idempotent migration helper: WHAT is written is determined by chain state, only the
  activation timestamp depends on when somebody runs it.

Not `open_` although anybody may name somebody else's object:
* `scheduler.ExecuteJob` — any account may trigger any job (jobs are public by design); the job
  is not modified, the queued message records the CREATOR as sender: `actsFor`.
* `skyway.SubmitBadSignatureEvidence` — anybody may submit; the validator that gets jailed is the
  one whose eth key signed a checkpoint that never existed: `sigProven`. -/
def rules : List (String × Rule) := [
  ("consensus.AddMessagesSignatures", .actsFor),
  ("consensus.AddMessageEstimates", .actsFor),
  ("consensus.AddEvidence", .actsFor),
  ("consensus.SetPublicAccessData", .actsFor),
  ("consensus.SetErrorData", .actsFor),
  ("evm.RemoveSmartContractDeployment", .open_ "deletes an in-flight compass deployment record; no sender check"),
  ("evm.ProposeNewSmartContractDeployment", .authorityOnly),
  ("evm.ProposeNewReferenceBlockAttestation", .authorityOnly),
  ("evm.UploadUserSmartContract", .actsFor),
  ("evm.RemoveUserSmartContract", .actsFor),
  ("evm.DeployUserSmartContract", .actsFor),
  ("paloma.AddStatusUpdate", .actsFor),
  ("paloma.RegisterLightNodeClient", .actsFor),
  ("paloma.AddLightNodeClientLicense", .actsFor),
  ("paloma.AuthLightNodeClient", .actsFor),
  ("paloma.SetLegacyLightNodeClients", .open_ "idempotent migration of feegranter grantees to client records; ignores the sender"),
  ("paloma.UpdateParams", .authorityOnly),
  ("scheduler.CreateJob", .actsFor),
  ("scheduler.ExecuteJob", .actsFor),
  ("tokenfactory.CreateDenom", .actsFor),
  ("tokenfactory.SetDenomMetadata", .actsFor),
  ("tokenfactory.Mint", .actsFor),
  ("tokenfactory.Burn", .actsFor),
  ("tokenfactory.ChangeAdmin", .actsFor),
  ("tokenfactory.UpdateParams", .authorityOnly),
  ("treasury.UpsertRelayerFee", .actsFor),
  ("valset.AddExternalChainInfoForValidator", .actsFor),
  ("valset.KeepAlive", .actsFor),
  ("skyway.SendToRemote", .actsFor),
  ("skyway.ConfirmBatch", .sigProven 0),
  ("skyway.EstimateBatchGas", .actsFor),
  ("skyway.SendToPalomaClaim", .actsFor),
  ("skyway.BatchSendToRemoteClaim", .actsFor),
  ("skyway.CancelSendToRemote", .actsFor),
  ("skyway.SubmitBadSignatureEvidence", .sigProven 0),
  ("skyway.UpdateParams", .authorityOnly),
  ("skyway.LightNodeSaleClaim", .actsFor),
  ("skyway.SetERC20ToTokenDenom", .actsFor),
  ("skyway.ReplenishLostGrainsProposal", .authorityOnly),
  ("skyway.SetERC20MappingProposal", .authorityOnly),
  ("skyway.OverrideNonceProposal", .authorityOnly)
]

/-- `actsFor` types whose creator check lives in the request's `ValidateBasic` (run by baseapp
    before the handler) instead of in the handler body. -/
def creatorCheckedInValidateBasic : List String := ["treasury.UpsertRelayerFee"]

/-- types whose transaction signer is the `Authority` field (`cosmos.msg.v1.signer = "authority"`) -/
def authoritySigned : List String := ["paloma.UpdateParams", "skyway.UpdateParams", "tokenfactory.UpdateParams"]

/-- identity field index 0 of the `sigProven` types, by name (for the driver / the harness) -/
def sigProvenField : List (String × String) := [
  ("skyway.ConfirmBatch", "Orchestrator"),
  ("skyway.SubmitBadSignatureEvidence", "Signature")
]

/-- governance-gated handlers that compare only the `Authority` field (the transaction signer)
    with the keeper's authority and never look at `metadata.creator` -/
def authorityIgnoresCreator : List String := ["skyway.UpdateParams"]

/-- the state-keyed handler: registers every grantee of the light-node feegranter -/
def legacyType : String := "paloma.SetLegacyLightNodeClients"

/-- identity-LOOKING request fields (address-typed, parsed as an address, or named like one — see
    `idFields` in Gen/Auth.lean) that do NOT denote a paloma principal the handler writes for.
    Every entry is a trusted reading of the handler, exercised by harness scenario `c1`. -/
def notPrincipal : List (String × String × String) := [
  ("consensus.AddMessageEstimates", "Estimates.EstimatedByAddress", "carried, never read: the estimate is filed under the creator's validator address"),
  ("consensus.AddMessagesSignatures", "SignedMessages.SignedByAddress", "an external-chain address, resolved by valset.GetSigningKey among the CREATOR validator's own accounts"),
  ("skyway.ConfirmBatch", "EthSigner", "an external-chain key; must equal the key registered by the ORCHESTRATOR (Batch confirmations below)"),
  ("skyway.EstimateBatchGas", "EthSigner", "an external-chain address stored inside the creator's own estimate, format-checked only"),
  ("skyway.LightNodeSaleClaim", "SmartContractAddress", "an external-chain contract address, part of the attested event"),
  ("skyway.SendToPalomaClaim", "EthereumSender", "an external-chain address, part of the attested event"),
  ("skyway.SubmitBadSignatureEvidence", "Sender", "deprecated, never read"),
  ("valset.AddExternalChainInfoForValidator", "ChainInfos.Address", "the creator's claimed external account; a collision with another validator's is rejected")
]

/-- `equatedWithCreator` roles that are NOT backed by a syntactic comparison / overwrite in the
    handler but by a lookup among the creator's own records -/
def equatedByLookup : List (String × String) := [
  ("consensus.AddMessagesSignatures", "SignedMessages.SignedByAddress")
]

/-- Role of EVERY string / bytes field of every request type (path as in Gen/Auth.lean). -/
def roles : List (String × String × Role) := [
  ("consensus.AddEvidence", "QueueTypeName", .freeText),
  ("consensus.AddMessageEstimates", "Estimates.QueueTypeName", .freeText),
  -- carried but never read: the estimate is stored under the creator's validator address
  ("consensus.AddMessageEstimates", "Estimates.EstimatedByAddress", .freeText),
  ("consensus.AddMessagesSignatures", "SignedMessages.QueueTypeName", .freeText),
  ("consensus.AddMessagesSignatures", "SignedMessages.Signature", .freeText),
  -- resolved by valset.GetSigningKey among the CREATOR validator's own external accounts
  ("consensus.AddMessagesSignatures", "SignedMessages.SignedByAddress", .equatedWithCreator),
  ("consensus.SetErrorData", "QueueTypeName", .freeText),
  ("consensus.SetErrorData", "Data", .freeText),
  ("consensus.SetPublicAccessData", "QueueTypeName", .freeText),
  ("consensus.SetPublicAccessData", "Data", .freeText),
  ("evm.DeployUserSmartContract", "TargetChain", .freeText),
  ("evm.ProposeNewReferenceBlockAttestation", "Authority", .equatedWithCreator),
  ("evm.ProposeNewReferenceBlockAttestation", "ChainReferenceId", .freeText),
  ("evm.ProposeNewReferenceBlockAttestation", "BlockHash", .freeText),
  ("evm.ProposeNewSmartContractDeployment", "Authority", .equatedWithCreator),
  ("evm.ProposeNewSmartContractDeployment", "AbiJSON", .freeText),
  ("evm.ProposeNewSmartContractDeployment", "BytecodeHex", .freeText),
  ("evm.RemoveSmartContractDeployment", "ChainReferenceID", .freeText),
  ("evm.UploadUserSmartContract", "Title", .freeText),
  ("evm.UploadUserSmartContract", "AbiJson", .freeText),
  ("evm.UploadUserSmartContract", "Bytecode", .freeText),
  ("evm.UploadUserSmartContract", "ConstructorInput", .freeText),
  -- licence paid from the creator's balance for an address that has NO account yet
  ("paloma.AddLightNodeClientLicense", "ClientAddress", .target),
  ("paloma.AddStatusUpdate", "Status", .freeText),
  ("paloma.AddStatusUpdate", "Args.Key", .freeText),
  ("paloma.AddStatusUpdate", "Args.Value", .freeText),
  -- compared with the keeper's authority by the handler AND with the creator by ValidateBasic
  -- (which baseapp runs for transactions and the handler calls itself)
  ("paloma.UpdateParams", "Authority", .equatedWithCreator),
  ("paloma.UpdateParams", "Params.GasExemptAddresses", .target),
  ("scheduler.CreateJob", "Job.ID", .freeText),
  -- overwritten with the creator before the job is stored
  ("scheduler.CreateJob", "Job.Owner", .equatedWithCreator),
  ("scheduler.CreateJob", "Job.Routing.ChainType", .freeText),
  ("scheduler.CreateJob", "Job.Routing.ChainReferenceID", .freeText),
  ("scheduler.CreateJob", "Job.Definition", .freeText),
  ("scheduler.CreateJob", "Job.Payload", .freeText),
  ("scheduler.CreateJob", "Job.Permissions.Whitelist.ChainType", .freeText),
  ("scheduler.CreateJob", "Job.Permissions.Whitelist.ChainReferenceID", .freeText),
  ("scheduler.CreateJob", "Job.Permissions.Whitelist.Address", .target),
  ("scheduler.CreateJob", "Job.Permissions.Blacklist.ChainType", .freeText),
  ("scheduler.CreateJob", "Job.Permissions.Blacklist.ChainReferenceID", .freeText),
  ("scheduler.CreateJob", "Job.Permissions.Blacklist.Address", .target),
  -- names a (public) job, possibly somebody else's; the job itself is not modified
  ("scheduler.ExecuteJob", "JobID", .freeText),
  ("scheduler.ExecuteJob", "Payload", .freeText),
  ("skyway.BatchSendToRemoteClaim", "TokenContract", .freeText),
  ("skyway.BatchSendToRemoteClaim", "ChainReferenceId", .freeText),
  ("skyway.BatchSendToRemoteClaim", "Orchestrator", .equatedWithCreator),
  ("skyway.BatchSendToRemoteClaim", "CompassId", .freeText),
  ("skyway.ConfirmBatch", "TokenContract", .freeText),
  ("skyway.ConfirmBatch", "EthSigner", .sigProven),
  ("skyway.ConfirmBatch", "Orchestrator", .sigProven),
  ("skyway.ConfirmBatch", "Signature", .freeText),
  ("skyway.EstimateBatchGas", "TokenContract", .freeText),
  -- stored inside the creator's estimate, validated as an eth address only
  ("skyway.EstimateBatchGas", "EthSigner", .freeText),
  ("skyway.LightNodeSaleClaim", "Orchestrator", .equatedWithCreator),
  ("skyway.LightNodeSaleClaim", "ChainReferenceId", .freeText),
  ("skyway.LightNodeSaleClaim", "ClientAddress", .target),
  ("skyway.LightNodeSaleClaim", "SmartContractAddress", .freeText),
  ("skyway.LightNodeSaleClaim", "CompassId", .freeText),
  ("skyway.OverrideNonceProposal", "ChainReferenceId", .freeText),
  ("skyway.SendToPalomaClaim", "TokenContract", .freeText),
  ("skyway.SendToPalomaClaim", "EthereumSender", .freeText),
  ("skyway.SendToPalomaClaim", "PalomaReceiver", .target),
  ("skyway.SendToPalomaClaim", "Orchestrator", .equatedWithCreator),
  ("skyway.SendToPalomaClaim", "ChainReferenceId", .freeText),
  ("skyway.SendToPalomaClaim", "CompassId", .freeText),
  ("skyway.SendToRemote", "EthDest", .target),
  ("skyway.SendToRemote", "ChainReferenceId", .freeText),
  ("skyway.SetERC20MappingProposal", "Authority", .equatedWithCreator),
  ("skyway.SetERC20MappingProposal", "Mappings.ChainReferenceId", .freeText),
  ("skyway.SetERC20MappingProposal", "Mappings.Erc20", .freeText),
  ("skyway.SetERC20MappingProposal", "Mappings.Denom", .freeText),
  ("skyway.SetERC20ToTokenDenom", "Denom", .freeText),
  ("skyway.SetERC20ToTokenDenom", "ChainReferenceId", .freeText),
  ("skyway.SetERC20ToTokenDenom", "Erc20", .freeText),
  ("skyway.SubmitBadSignatureEvidence", "Signature", .sigProven),
  -- deprecated, never read
  ("skyway.SubmitBadSignatureEvidence", "Sender", .freeText),
  ("skyway.SubmitBadSignatureEvidence", "ChainReferenceId", .freeText),
  ("skyway.UpdateParams", "Authority", .authorityField),
  ("tokenfactory.ChangeAdmin", "Denom", .freeText),
  ("tokenfactory.ChangeAdmin", "NewAdmin", .target),
  ("tokenfactory.CreateDenom", "Subdenom", .freeText),
  ("tokenfactory.UpdateParams", "Authority", .equatedWithCreator),
  ("treasury.UpsertRelayerFee", "FeeSetting.ValAddress", .equatedWithCreator),
  ("treasury.UpsertRelayerFee", "FeeSetting.Fees.ChainReferenceId", .freeText),
  ("valset.AddExternalChainInfoForValidator", "ChainInfos.ChainType", .freeText),
  ("valset.AddExternalChainInfoForValidator", "ChainInfos.ChainReferenceID", .freeText),
  -- claimed external account: an address / pubkey already registered by ANOTHER validator on
  -- the same chain is rejected (exact string / byte comparison)
  ("valset.AddExternalChainInfoForValidator", "ChainInfos.Address", .freeText),
  ("valset.AddExternalChainInfoForValidator", "ChainInfos.Pubkey", .freeText),
  ("valset.AddExternalChainInfoForValidator", "ChainInfos.Balance", .freeText),
  ("valset.AddExternalChainInfoForValidator", "ChainInfos.Traits", .freeText),
  ("valset.KeepAlive", "PigeonVersion", .freeText)
]

def ruleOf (typ : String) : Option Rule := (rules.find? (·.1 == typ)).map (·.2)

def roleOf (typ field : String) : Option Role :=
  (roles.find? (fun r => r.1 == typ && r.2.1 == field)).map (·.2.2)

/-! ## Signature verification and the decorator -/

/-- Does the SDK signature check pass?  `txSigners` signed the transaction; the message demands
    `m.signers` (metadata) or, for the authority-signed types, the `Authority` field. -/
def sigCheck (typ : String) (txSigners declared : List Addr) (authorityField : Option Addr) : Bool :=
  if authoritySigned.contains typ then
    match authorityField with
    | some a => txSigners == [a]
    | none => false
  else txSigners == declared

/-- the signers a message demands: its metadata signers, or its `Authority` field -/
def declaredSigners (typ : String) (metaSigners : List Addr) (authorityField : Option Addr) : List Addr :=
  if authoritySigned.contains typ then authorityField.toList else metaSigners

/-- SDK signature check of a transaction: it must be signed by exactly the de-duplicated
    concatenation of the signers its messages demand (in order of appearance).
    ASSUMPTION (SDK): every account in `txSigners` really signed the transaction bytes. -/
def sigCheckTx (txSigners : List Addr) (declared : List (List Addr)) : Bool :=
  txSigners == (declared.flatten).eraseDups

/-- exactly `VerifyAuthorisedSignatureDecorator` for one message: the creator is among
    `metadata.signers`, or one of them holds a fee allowance granted by the creator
    (`grants granter grantee`) -/
def anteOk (m : Msg) (grants : Addr → Addr → Bool) : Bool :=
  m.signers.contains m.creator || m.signers.any (fun s => grants m.creator s)

/-- The decorator loops over `tx.GetMsgs()` and checks EVERY message on its own: the message's
    creator against the message's signers, and otherwise the allowances granted by THAT creator
    (`grantsLkUp` is built afresh from `AllowancesByGranter(creator)` inside the loop).  A grant
    from the creator of one message says nothing about the creator of another. -/
def anteOkTx (msgs : List Msg) (grants : Addr → Addr → Bool) : Bool :=
  msgs.all (fun m => anteOk m grants)

/-! ## Handlers -/

/-- state attributed to principals and the fee grants in force -/
structure State where
  slots : Addr → Val
  grants : Addr → Addr → Bool

/-- Authorisation semantics of one handler (data; computed from the Go source in Props/C03):
* `usesCreator`  it writes in the name of `metadata.creator`;
* `keyed`        identity-bearing request fields whose principal keys something it writes;
* `eqCreator`    fields it (or the request's ValidateBasic) compares with `metadata.creator`,
                 returning an error on a mismatch;
* `sigFields`    fields whose principal must have made the external-chain signature the message
                 carries, over exactly the item the message is about;
* `eqAuthority`  fields it compares with the keeper's governance authority;
* `creatorIsAuthority` it compares `metadata.creator` with the governance authority;
* `targets`      fields that only name a beneficiary: records are ADDED for it;
* `stateKeyed`   it writes for principals computed from chain state, not from the message (the
                 light-node migration: every pending grantee of the light-node feegranter). -/
structure Sem where
  usesCreator : Bool := false
  keyed : List String := []
  eqCreator : List String := []
  sigFields : List String := []
  eqAuthority : List String := []
  creatorIsAuthority : Bool := false
  targets : List String := []
  stateKeyed : Bool := false
deriving Repr, DecidableEq

/-- what the model leaves abstract -/
structure Env where
  /-- the governance authority (gov module account) -/
  authority : Addr
  /-- the governance-configured light-node feegranter account -/
  lightFeegranter : Addr
  semOf : String → Option Sem
  /-- the external-chain key each validator registered (`none`: no validator / no key / unbonded);
      registration itself is modelled in "Batch confirmations" below -/
  regKey : Addr → Option Nat
  /-- the handler's remaining (state dependent) checks pass -/
  handlerOk : State → Msg → Bool
  /-- what the handler does to the records of a principal it writes FOR: anything — add, alter,
      remove -/
  eff : State → Msg → Addr → Val → Val
  /-- the records it adds for a beneficiary -/
  gift : State → Msg → Addr → Val
  /-- what a governance-gated handler does: anything, to anybody's records -/
  govEff : State → Msg → (Addr → Val) → (Addr → Val)
  /-- light-node migration: the grantee has neither a client record nor a pending licence -/
  pending : State → Addr → Bool

/-- "carrying the validator's own external-chain signature over the exact item": the signature in
    `m` was made by the key principal `p` registered, over exactly the item `m` is about.
    ASSUMPTION: ECDSA recovery is sound (a signature is the abstract pair (key, item)). -/
def extSigOk (env : Env) (m : Msg) (p : Addr) : Bool :=
  env.regKey p == some m.sigKey && m.sigItem == m.item

/-- the comparisons the handler makes before it writes; `false` = it returns an error -/
def guardsOk (env : Env) (m : Msg) (sem : Sem) : Bool :=
  sem.eqCreator.all (fun f => m.field f == some m.creator)
  && sem.eqAuthority.all (fun f => m.field f == some env.authority)
  && (!sem.creatorIsAuthority || m.creator == env.authority)
  && sem.sigFields.all (fun f => match m.field f with
      | some p => extSigOk env m p
      | none => false)
  && sem.keyed.all (fun f => (m.field f).isSome)

/-- the handler is gated on the governance authority -/
def isGov (sem : Sem) : Bool := sem.creatorIsAuthority || !sem.eqAuthority.isEmpty

/-- the principals the handler writes for -/
def writeKeys (m : Msg) (sem : Sem) : List Addr :=
  (if sem.usesCreator then [m.creator] else []) ++ sem.keyed.filterMap m.field

/-- the beneficiaries it names -/
def giftKeys (m : Msg) (sem : Sem) : List Addr := sem.targets.filterMap m.field

/-- the records of `x` after the handler wrote for it (if it does) -/
def own (env : Env) (s : State) (m : Msg) (sem : Sem) (x : Addr) : Val :=
  if (writeKeys m sem).contains x then env.eff s m x (s.slots x) else s.slots x

/-- the records ADDED for `x`: as a named beneficiary, and by the state-keyed migration -/
def added (env : Env) (s : State) (m : Msg) (sem : Sem) (x : Addr) : Val :=
  (if (giftKeys m sem).contains x then env.gift s m x else [])
  ++ (if (sem.stateKeyed && s.grants env.lightFeegranter x && env.pending s x) = true then env.gift s m x else [])

/-- everybody's records after an accepted message -/
def newSlots (env : Env) (s : State) (m : Msg) (sem : Sem) : Addr → Val :=
  if isGov sem = true then env.govEff s m s.slots
  else fun x => own env s m sem x ++ added env s m sem x

/-- handler of one message; `none` = it returns an error (also: unknown message type — the router
    refuses it) -/
def handle (env : Env) (s : State) (m : Msg) : Option State :=
  match env.semOf m.typ with
  | none => none
  | some sem =>
    if (env.handlerOk s m && guardsOk env m sem) = true then some { s with slots := newSlots env s m sem }
    else none

/-- the messages of a transaction run in order on the same branch; the first error aborts -/
def handleAll (env : Env) : State → List Msg → Option State
  | s, [] => some s
  | s, m :: ms =>
    match handle env s m with
    | none => none
    | some s' => handleAll env s' ms

/-! ## Transactions and histories -/

/-- a transaction: the accounts whose signatures the SDK verified, and its messages -/
structure Tx where
  signers : List Addr
  msgs : List Msg

/-- the signers message `m` demands -/
def declared (m : Msg) : List Addr := declaredSigners m.typ m.signers (m.field "Authority")

/-- accepted iff it carries a message, the signature check passes, the decorator lets every
    message through and no handler errs -/
def txAccepted (env : Env) (s : State) (tx : Tx) : Bool :=
  !tx.msgs.isEmpty && sigCheckTx tx.signers (tx.msgs.map declared) && anteOkTx tx.msgs s.grants
    && (handleAll env s tx.msgs).isSome

/-- one delivered transaction: atomic (a rejected transaction's writes, including those of the
    messages before the failing one, are discarded) -/
def deliverTx (env : Env) (s : State) (tx : Tx) : State :=
  if tx.msgs.isEmpty = true then s
  else if sigCheckTx tx.signers (tx.msgs.map declared) = false then s
  else if anteOkTx tx.msgs s.grants = false then s
  else match handleAll env s tx.msgs with
    | none => s
    | some s' => s'

/-- a transaction with one message -/
def deliver (env : Env) (s : State) (signers : List Addr) (m : Msg) : State := deliverTx env s ⟨signers, [m]⟩

/-- Histories.  Fee grants are themselves transactions.  ASSUMPTION (x/feegrant): a
    `MsgGrantAllowance` / `MsgRevokeAllowance` is signed by the granter; the only grants paloma
    creates itself are those of the governance-configured light-node feegranter to the buyer of an
    attested light-node sale (property C18). -/
inductive Op where
  | grant (granter grantee : Addr)
  | revoke (granter grantee : Addr)
  | tx (t : Tx)
  /-- a message executed as part of a governance proposal: through the message router, without
      the ante chain.  ASSUMPTION (x/gov): only proposals that passed the vote are executed — this
      IS "the governance authority" acting, whatever creator the message names. -/
  | gov (m : Msg)

def setGrant (g : Addr → Addr → Bool) (a b : Addr) (v : Bool) : Addr → Addr → Bool :=
  fun x y => if x = a ∧ y = b then v else g x y

/-- a message of an executed proposal: the handler alone decides (its error leaves the state) -/
def deliverGov (env : Env) (s : State) (m : Msg) : State :=
  match handle env s m with
  | none => s
  | some s' => s'

def step (env : Env) (s : State) : Op → State
  | .grant a b => { s with grants := setGrant s.grants a b true }
  | .revoke a b => { s with grants := setGrant s.grants a b false }
  | .tx t => deliverTx env s t
  | .gov m => deliverGov env s m

def run (env : Env) (s : State) (ops : List Op) : State := ops.foldl (step env) s

/-- nothing attributed to anybody, no grants -/
def init : State := { slots := fun _ => [], grants := fun _ _ => false }

/-! ## Executable verdicts used by the driver -/

/-- may a governance-gated handler accept?  (`authorityField`: the `Authority` field, if any) -/
def authorityOkOf (authority : Addr) (typ : String) (creator : Addr) (authorityField : Option Addr) : Bool :=
  (authorityField == none || authorityField == some authority)
  && (authorityIgnoresCreator.contains typ || creator == authority)

/-- May delivering a message of type `typ` legitimately change state attributed to `victim`?
`alteration = false`: only NEW records that mention the victim appeared; `true`: something that
already was the victim's got altered or removed. -/
def mayTouch (authority : Addr) (typ : String) (signers : List Addr) (creator : Addr)
    (grants : Addr → Addr → Bool) (victim : Addr) (redirected : List String) (alteration : Bool) : Bool :=
  -- the victim authorised it: it is the creator and signed or granted to a signer
  (victim == creator && (signers.contains victim || signers.any (fun s => grants victim s)))
  || (match ruleOf typ with
      | some (.open_ _) => true
      | some .authorityOnly => creator == authority
      | _ => false)
  -- an identity field that was pointed at the victim is a `target` / `sigProven` one, or the
  -- creator merely wrote the victim's address as free text into its own new record
  || redirected.any (fun f => roleOf typ f == some .target || roleOf typ f == some .sigProven
      || (!alteration && roleOf typ f == some .freeText))

/-! ## Transferable ownership: token-factory denoms

`x/tokenfactory/keeper/msg_server.go` (`CreateDenom`, `ChangeAdmin`, `Mint`, `Burn`,
`SetDenomMetadata`), `x/skyway/keeper/msg_server.go` `SetERC20ToTokenDenom`, and the wasm bindings
`x/tokenfactory/bindings`, `x/skyway/bindings` (which call the same servers with the contract
address as creator; `PerformSetMetadata` repeats the admin comparison itself).  A denom
`factory/<addr>/<sub>` is NAMED after its creator for ever, but what the chain keeps for it
(authority metadata, bank metadata, supply, ERC20 bridge bindings) belongs to its CURRENT admin:
every handler compares `metadata.creator` with `GetAuthorityMetadata(denom).Admin`, never with the
address in the name.  `ChangeAdmin` may name anybody, or nobody (the denom is frozen for good). -/

/-- what a message does to a denom -/
inductive DAct where
  | create
  /-- `none`: the admin renounces -/
  | changeAdmin (newAdmin : Option Addr)
  /-- any other admin-gated write: Mint / Burn / SetERC20ToTokenDenom -/
  | write
  /-- `SetDenomMetadata` and the wasm binding `set_metadata`.  The bank record is keyed by
      `metadata.base`; `MsgSetDenomMetadata` has no other denom field (the handler looks the admin
      up under `metadata.base`, so `base = some m.denom`), the binding message carries BOTH a
      `denom` (whose admin is compared with the contract) and a `metadata.base` (`none` = "": the
      binding fills in `denom`; `some b`: the denom spelled there, which may be another one) -/
  | setMeta (base : Option Nat)
  /-- the wasm binding `create_denom` carrying `metadata`: `CreateDenom` followed by
      `PerformSetMetadata(newDenom, metadata)` in the same (atomic) contract call -/
  | createMeta (base : Option Nat)
deriving Repr, DecidableEq

structure DMsg where
  signers : List Addr
  creator : Addr
  denom : Nat
  act : DAct

structure DState where
  /-- `none`: the denom does not exist (no bank metadata; `validateCreateDenom` refuses a second
      creation); `some a`: it exists and `DenomAuthorityMetadata.Admin` is `a` (`none` = "") -/
  den : Nat → Option (Option Addr)
  /-- abstraction of supply / bridge binding: number of admin-gated writes so far -/
  writes : Nat → Nat
  grants : Addr → Addr → Bool
  /-- the bank's metadata record of the denom: 0 = the default record `createDenomAfterValidation`
      writes (or no record: the denom does not exist), n > 0 = the n-th custom record an admin set
      since -/
  dmeta : Nat → Nat := fun _ => 0

/-- the decorator's check for a denom message (same rule as `anteOk`) -/
def dAnteOk (m : DMsg) (g : Addr → Addr → Bool) : Bool :=
  m.signers.contains m.creator || m.signers.any (fun s => g m.creator s)

def setAt {α : Type} (f : Nat → α) (d : Nat) (v : α) : Nat → α := fun x => if x = d then v else f x

/-- the handlers; `namer d` is the account denom `d` is named after (`GetTokenDenom(creator, sub)`:
    a creator can only ever create denoms named after itself); `none` = the handler errs -/
def dHandle (namer : Nat → Addr) (s : DState) (m : DMsg) : Option DState :=
  match m.act with
  | .create =>
    if s.den m.denom = none ∧ namer m.denom = m.creator then
      some { s with den := setAt s.den m.denom (some (some m.creator)) }
    else none
  | .changeAdmin n =>
    if s.den m.denom = some (some m.creator) then some { s with den := setAt s.den m.denom (some n) } else none
  | .write =>
    if s.den m.denom = some (some m.creator) then
      some { s with writes := setAt s.writes m.denom (s.writes m.denom + 1) }
    else none
  | .setMeta base =>
    -- `PerformSetMetadata`: admin of `denom`; "Base must be the same as denom"; the record is
    -- written under the key `metadata.base`
    if s.den m.denom = some (some m.creator) then
      if base.getD m.denom = m.denom then
        some { s with dmeta := setAt s.dmeta (base.getD m.denom) (s.dmeta (base.getD m.denom) + 1) }
      else none
    else none
  | .createMeta base =>
    if s.den m.denom = none ∧ namer m.denom = m.creator then
      if base.getD m.denom = m.denom then
        some { s with den := setAt s.den m.denom (some (some m.creator)),
                      dmeta := setAt s.dmeta (base.getD m.denom) 1 }
      else none
    else none

def dAccepted (namer : Nat → Addr) (s : DState) (m : DMsg) : Bool :=
  dAnteOk m s.grants && (dHandle namer s m).isSome

/-- one delivered transaction carrying a denom message -/
def dDeliver (namer : Nat → Addr) (s : DState) (m : DMsg) : DState :=
  if dAnteOk m s.grants = false then s
  else match dHandle namer s m with
    | none => s
    | some s' => s'

/-- what the chain keeps for denom `d` apart from the bank's metadata record: existence, admin,
    supply / bridge bindings -/
def dView (s : DState) (d : Nat) : Option (Option Addr) × Nat := (s.den d, s.writes d)

/-- everything the chain keeps for denom `d`, the bank's metadata record included -/
def dFull (s : DState) (d : Nat) : (Option (Option Addr) × Nat) × Nat := (dView s d, s.dmeta d)

/-- the principal denom `d`'s state is attributed to: its current admin; before it exists, the
    account it is named after; `none`: renounced -/
def dOwner (namer : Nat → Addr) (s : DState) (d : Nat) : Option Addr :=
  match s.den d with
  | none => some (namer d)
  | some a => a

/-- A chain export followed by an import of the token factory's genesis
    (`x/tokenfactory/keeper/genesis.go`): `ExportGenesis` lists every denom with its authority
    metadata; `InitGenesis` runs, per exported denom, `createDenomAfterValidation` (default bank
    record, admin := the account in the name) and THEN `setAuthorityMetadata` with the exported
    admin — so who controls a denom (handed over or renounced) survives, and so do supply and bridge
    bindings (bank / skyway state).  The custom bank record an admin had set does NOT: it is replaced
    by the default one (as built; the same observation as C16 `reimport_resets_custom_metadata`). -/
def dReimport (s : DState) : DState :=
  { s with dmeta := fun d => if (s.den d).isSome then 0 else s.dmeta d }

inductive DOp where
  | grant (granter grantee : Addr)
  | revoke (granter grantee : Addr)
  | msg (m : DMsg)
  /-- no transaction at all: the chain is exported and started again from the export -/
  | reimport

def dStep (namer : Nat → Addr) (s : DState) : DOp → DState
  | .grant a b => { s with grants := setGrant s.grants a b true }
  | .revoke a b => { s with grants := setGrant s.grants a b false }
  | .msg m => dDeliver namer s m
  | .reimport => dReimport s

def dRun (namer : Nat → Addr) (s : DState) (ops : List DOp) : DState := ops.foldl (dStep namer) s

def dInit : DState := { den := fun _ => none, writes := fun _ => 0, grants := fun _ _ => false, dmeta := fun _ => 0 }

/-! ## Batch confirmations

`x/skyway/keeper/msg_server.go` `ConfirmBatch` + `confirmHandlerCommon`, in statement order: the
batch named by (token contract, nonce) must exist; the validator is looked up from the
ORCHESTRATOR field (never from the sender); its registered key on the batch's chain must equal the
`eth_signer` field (both parsed to 20-byte accounts); the signature must recover to that key over
the batch's checkpoint; one confirmation per (batch, orchestrator) and per (batch, key);
`SetBatchConfirm` files the message under the orchestrator.  The sender (`metadata.creator`) is
not looked at by the handler at all: relaying a validator's signature is legitimate, filing one's
own under another validator is not.

The key a validator "owns" is the one IT registered: `valset.AddExternalChainInfoForValidator`
(`SetExternalChainInfoState`), a handler that acts for `metadata.creator` and refuses an address
STRING another validator already holds (exact string comparison, `cRegister`).  Registered
address strings are naturals `x` whose 20-byte account is `x / 4` and whose spelling (hex case)
is `x % 4` — the same convention as Model/Queue.lean (`register` / `collides` there, tied to the
implementation by the C06 harness); one chain, the public-key bytes are left out.

Signatures are abstract: a signature is the pair (key that made it, item it was made over) —
ECDSA recovery soundness is trusted (the harness re-verifies with go-ethereum). -/

structure CAttempt where
  signers : List Addr
  creator : Addr
  batchExists : Bool
  batch : Nat
  orch : Addr
  /-- the key (account) named in `eth_signer` -/
  ethSigner : Nat
  /-- the key that made the signature (0: nobody's) -/
  sigKey : Nat
  /-- the item the signature was made over -/
  sigItem : Nat

structure CConfirm where
  batch : Nat
  orch : Addr
  key : Nat
  sigKey : Nat
  sigItem : Nat
deriving Repr, DecidableEq

structure CState where
  confirms : List CConfirm
  grants : Addr → Addr → Bool
  /-- the address string each validator registered for the batch's chain (`none`: no validator /
      nothing registered / unbonded) -/
  keys : Addr → Option Nat

/-- the 20-byte account an address string denotes (`common.HexToAddress` is case-insensitive) -/
def acctOf (x : Nat) : Nat := x / 4

/-- `GetEthAddressByValidator`, parsed -/
def regAcct (s : CState) (v : Addr) : Option Nat := (s.keys v).map acctOf

def cAnteOk (a : CAttempt) (g : Addr → Addr → Bool) : Bool :=
  a.signers.contains a.creator || a.signers.any (fun s => g a.creator s)

def cHandle (s : CState) (a : CAttempt) : Option CState :=
  if a.batchExists = false then none
  else if regAcct s a.orch ≠ some a.ethSigner then none
  else if a.sigKey ≠ a.ethSigner then none
  else if a.sigItem ≠ a.batch then none
  else if s.confirms.any (fun c => c.batch == a.batch && c.orch == a.orch) = true then none
  else if s.confirms.any (fun c => c.batch == a.batch && c.key == a.ethSigner) = true then none
  else some { s with confirms := s.confirms ++ [⟨a.batch, a.orch, a.ethSigner, a.sigKey, a.sigItem⟩] }

def cAccepted (s : CState) (a : CAttempt) : Bool :=
  cAnteOk a s.grants && (cHandle s a).isSome

def cDeliver (s : CState) (a : CAttempt) : CState :=
  if cAnteOk a s.grants = false then s
  else match cHandle s a with
    | none => s
    | some s' => s'

/-- a registration: `valset.AddExternalChainInfoForValidator` with one account on the chain -/
structure CReg where
  signers : List Addr
  creator : Addr
  /-- the address string -/
  addr : Nat

def cRegAnteOk (r : CReg) (g : Addr → Addr → Bool) : Bool :=
  r.signers.contains r.creator || r.signers.any (fun s => g r.creator s)

/-- `vals`: the staking validators (`CanAcceptValidator` refuses everybody else; the collision
    loop runs over their stored chain infos).  Files the address under the CREATOR. -/
def cRegister (vals : List Addr) (s : CState) (r : CReg) : Option CState :=
  if vals.contains r.creator = false then none
  else if vals.any (fun w => w != r.creator && s.keys w == some r.addr) = true then none
  else some { s with keys := fun v => if v = r.creator then some r.addr else s.keys v }

def cRegDeliver (vals : List Addr) (s : CState) (r : CReg) : CState :=
  if cRegAnteOk r s.grants = false then s
  else match cRegister vals s r with
    | none => s
    | some s' => s'

inductive COp where
  | attempt (a : CAttempt)
  | register (r : CReg)

def cStep (vals : List Addr) (s : CState) : COp → CState
  | .attempt a => cDeliver s a
  | .register r => cRegDeliver vals s r

def cRun (vals : List Addr) (s : CState) (ops : List COp) : CState := ops.foldl (cStep vals) s

def cInit : CState := { confirms := [], grants := fun _ _ => false, keys := fun _ => none }

/-! ## Light-node licences and client records

`x/paloma/keeper/msg_server.go` (`AddLightNodeClientLicense`, `RegisterLightNodeClient`,
`AuthLightNodeClient`, `SetLegacyLightNodeClients`) and `x/paloma/keeper/keeper.go`
(`CreateLightNodeClientLicense`, `CreateSaleLightNodeClientLicense`, `CreateLightNodeClientAccount`,
`GetLegacyLightNodeClients`).  What the chain keeps for a light-node principal `B`: a pending
LICENCE (bought for `B` while `B` has no account yet; the funds are C18) and a CLIENT RECORD
(activation time, time of the last authentication), written when `B` registers its licence and
when `B` authenticates.  `SetLegacyLightNodeClients` ignores its sender: it walks the allowances
of the governance-configured light-node feegranter and gives every grantee that has NEITHER a
client record NOR a pending licence a fresh record (the one-off migration of nodes that existed
before records were kept).  Every client of the sale keeps the feegranter's allowance after it
registered, so "grantee of the feegranter" does not mean "unregistered": the two skips are what
keeps the migration — which anybody may trigger, at any time, again and again — away from the
records the clients wrote themselves.  Times are naturals (block times). -/

structure LRec where
  activatedAt : Nat
  lastAuthAt : Nat
deriving Repr, DecidableEq

inductive LAct where
  /-- `MsgAddLightNodeClientLicense`: the creator pays a licence for `client` -/
  | addLicence (client : Addr)
  /-- `MsgRegisterLightNodeClient` -/
  | register
  /-- `MsgAuthLightNodeClient` -/
  | auth
  /-- `MsgSetLegacyLightNodeClients` -/
  | setLegacy
deriving Repr, DecidableEq

structure LMsg where
  signers : List Addr
  creator : Addr
  act : LAct

structure LState where
  /-- `lightNodeClientStore` -/
  client : Addr → Option LRec
  /-- `lightNodeClientLicenseStore`: a licence is pending -/
  licence : Addr → Bool
  /-- x/auth: the address has an account -/
  account : Addr → Bool
  grants : Addr → Addr → Bool

/-- the decorator's check (same rule as `anteOk`) -/
def lAnteOk (m : LMsg) (g : Addr → Addr → Bool) : Bool :=
  m.signers.contains m.creator || m.signers.any (fun s => g m.creator s)

/-- `GetLegacyLightNodeClients` followed by the `SetLightNodeClient` loop of the handler, `F` the
    light-node feegranter: for every grantee — already registered: skip; a licence is pending:
    skip; otherwise a record activated now. -/
def lLegacy (F : Addr) (now : Nat) (s : LState) : Addr → Option LRec :=
  fun x =>
    if s.grants F x = false then s.client x
    else if (s.client x).isSome = true then s.client x
    else if s.licence x = true then s.client x
    else some ⟨now, now⟩

/-- the handlers at block time `now`; `none` = the handler errs.  (The licence amount / the
    creator's balance are left out: C18.) -/
def lHandle (F : Addr) (now : Nat) (s : LState) (m : LMsg) : Option LState :=
  match m.act with
  | .addLicence c =>
    if s.licence c = true then none          -- ErrLicenseExists
    else if s.account c = true then none     -- ErrAccountExists
    else some { s with licence := setAt s.licence c true, account := setAt s.account c true }
  | .register =>
    if s.licence m.creator = true then
      some { s with licence := setAt s.licence m.creator false,
                    client := setAt s.client m.creator (some ⟨now, now⟩) }
    else none                                -- ErrNoLicense
  | .auth =>
    match s.client m.creator with
    | none => none
    | some r => some { s with client := setAt s.client m.creator (some { r with lastAuthAt := now }) }
  | .setLegacy => some { s with client := lLegacy F now s }

def lAccepted (F : Addr) (now : Nat) (s : LState) (m : LMsg) : Bool :=
  lAnteOk m s.grants && (lHandle F now s m).isSome

/-- one delivered transaction carrying a light-node message -/
def lDeliver (F : Addr) (now : Nat) (s : LState) (m : LMsg) : LState :=
  if lAnteOk m s.grants = false then s
  else match lHandle F now s m with
    | none => s
    | some s' => s'

/-- `CreateSaleLightNodeClientLicense` (called for an ATTESTED light-node sale — the validators'
    oracle votes, C02 — not by a transaction of one principal): a licence for `c` like
    `addLicence`, then an allowance of the feegranter for `c`; an error leaves nothing behind. -/
def lSale (F : Addr) (s : LState) (c : Addr) : LState :=
  if s.licence c = true then s
  else if s.account c = true then s
  else { s with licence := setAt s.licence c true, account := setAt s.account c true,
                grants := setGrant s.grants F c true }

inductive LOp where
  /-- x/feegrant `MsgGrantAllowance`, signed by the granter; creates the grantee's account -/
  | grant (granter grantee : Addr)
  | revoke (granter grantee : Addr)
  | sale (client : Addr)
  | msg (now : Nat) (m : LMsg)

def lStep (F : Addr) (s : LState) : LOp → LState
  | .grant a b => { s with grants := setGrant s.grants a b true, account := setAt s.account b true }
  | .revoke a b => { s with grants := setGrant s.grants a b false }
  | .sale c => lSale F s c
  | .msg now m => lDeliver F now s m

def lRun (F : Addr) (s : LState) (ops : List LOp) : LState := ops.foldl (lStep F) s

/-- A chain export followed by an import of the paloma module's genesis (`x/paloma/genesis.go`):
    `ExportGenesis` lists every pending licence and every client record (and the feegranter / funders
    configuration), `InitGenesis` stores each of them again under its client address; fee grants are
    x/feegrant's own genesis.  Nothing the model keeps changes — no transaction of anybody. -/
def lReimport (s : LState) : LState := s

/-- no records, no licences, no grants; `accounts` exist already -/
def lInit (accounts : List Addr) : LState :=
  { client := fun _ => none, licence := fun _ => false, account := fun x => accounts.contains x,
    grants := fun _ _ => false }

/-! ## Nested messages (`authz.MsgExec`)

A transaction's message is a paloma message, or an authz `MsgExec` that carries messages (which may be `MsgExec`
again).  authz hands an inner message to its handler without looking at any authorisation when the message's declared
signer is the grantee itself; so whatever the decorator does not check is not checked by anybody.

`anteOkTop` is the decorator since /repo `ce5cc2b3`: it walks into `MsgExec` (`ownershipScope`) and applies `anteOk` to
every message found.  `anteOkTopOld` is the decorator before: messages without metadata — `MsgExec` among them — were
skipped, and what they carry with them. -/

inductive Top where
  | plain (m : Msg)
  | exec (grantee : Addr) (inner : List Top)

mutual
/-- `ownershipScope`: the paloma messages a top-level message brings with it, wrappers unfolded -/
def Top.scope : Top → List Msg
  | .plain m => [m]
  | .exec _ inner => scopeList inner
def scopeList : List Top → List Msg
  | [] => []
  | t :: ts => t.scope ++ scopeList ts
end

def anteOkTop (tops : List Top) (grants : Addr → Addr → Bool) : Bool := anteOkTx (scopeList tops) grants

/-- `cMaxNestedMsgDepth` (x/paloma/ante.go and util/libwasm/plugin.go): wrappers are unfolded to this depth; a transaction or
    a contract dispatch nested more deeply is refused as a whole — no message inside it is run -/
def maxNesting : Nat := 6

mutual
/-- number of `MsgExec` layers around the most deeply wrapped message -/
def Top.depth : Top → Nat
  | .plain _ => 0
  | .exec _ inner => 1 + depthList inner
def depthList : List Top → Nat
  | [] => 0
  | t :: ts => max t.depth (depthList ts)
end

/-- the decorator with its depth bound: `ownershipScope` fails at an `MsgExec` met at depth `cMaxNestedMsgDepth` -/
def anteOkTopBounded (tops : List Top) (grants : Addr → Addr → Bool) : Bool :=
  decide (depthList tops ≤ maxNesting) && anteOkTop tops grants

/-- a message wrapped `k` times by the grantee `g` -/
def wrapN (g : Addr) (m : Msg) : Nat → Top
  | 0 => .plain m
  | k + 1 => .exec g [wrapN g m k]

/-- the decorator before the repair: only the transaction's own paloma messages -/
def anteOkTopOld (tops : List Top) (grants : Addr → Addr → Bool) : Bool :=
  tops.all fun t => match t with
    | .plain m => anteOk m grants
    | .exec _ _ => true

/-- the messages authz runs on the grantee's word alone: declared signer = grantee (no authorisation record is read) -/
def execNeedsNoAuthorisation (grantee : Addr) (m : Msg) : Bool := m.signers == [grantee]

/-! ## Messages dispatched by a contract (`CosmosMsg::Any`)

wasmd runs a protobuf message of a contract when the message's declared signers are the contract itself
(`handleAnyMsg`: every signer must equal the contract address); no ante handler is involved.  Since /repo `72c8766b`
Paloma's message router in front of it (`libwasm.router.verifyCreator`) also demands that a message with metadata
names the contract as its creator. -/

/-- wasmd's own condition -/
def wasmSignerOk (contract : Addr) (m : Msg) : Bool := m.signers.all (· == contract) && !m.signers.isEmpty

/-- the router's gate plus wasmd's condition (current tree) -/
def wasmDispatchOk (contract : Addr) (m : Msg) : Bool := m.creator == contract && wasmSignerOk contract m

/-- A contract may also dispatch an `authz.MsgExec`.  wasmd demands that the grantee is the contract; authz then runs every
    inner message whose declared signer is the grantee without reading any authorisation.  Since /repo's second repair of the
    router (`verifyCreatorOf`) the gate descends into the wrapper: EVERY message in scope must name the contract as creator.
    `wasmDispatchTopOld` is the gate before that repair: only a dispatched message that itself carries metadata was looked at. -/
def wasmDispatchTop (contract : Addr) (t : Top) : Bool := t.scope.all (fun m => m.creator == contract)

def wasmDispatchTopOld (contract : Addr) : Top → Bool
  | .plain m => m.creator == contract
  | .exec _ _ => true

/-! ## Several messages in one wrapper, and sequences of dispatches

A `MsgExec` carries a LIST of messages, and a contract (or an account) sends many of them over the life of the node.  The
gate is a function of the one dispatch in front of it: `verifyCreatorOf` returns the FIRST refusal met while walking the
list (a refusal anywhere in the list refuses the whole dispatch, whatever follows it), and the router keeps nothing from
one dispatch to the next. -/

/-- `t` wrapped `k` more times by the grantee `g` -/
def wrapTop (g : Addr) (t : Top) : Nat → Top
  | 0 => t
  | k + 1 => .exec g [wrapTop g t k]

/-- the router's gate with its depth bound (`verifyCreatorOf` fails at an `MsgExec` met at depth `cMaxNestedMsgDepth`) -/
def wasmDispatchTopBounded (contract : Addr) (t : Top) : Bool :=
  decide (t.depth ≤ maxNesting) && wasmDispatchTop contract t

/-- the gate over the life of a router value: the verdicts on a sequence of dispatches (the router has no memory) -/
def wasmRouterRun (contract : Addr) (ts : List Top) : List Bool := ts.map (wasmDispatchTopBounded contract)

/-- the decorator over a sequence of transactions (one top-level message each; the grants may differ per transaction) -/
def anteRun (txs : List (List Top × (Addr → Addr → Bool))) : List Bool := txs.map fun x => anteOkTopBounded x.1 x.2

end Paloma.Auth
