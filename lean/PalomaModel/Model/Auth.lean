/-
Model of WHO may make a paloma message take effect (property C03).

Code modelled (as it is, not as it should be):
* `x/paloma/ante.go` `VerifyAuthorisedSignatureDecorator.AnteHandle`: for every message with
  paloma metadata, `creator` must be one of `metadata.signers` or one of the signers must hold a
  fee allowance granted BY `creator` (`AllowancesByGranter(creator)` looked up by grantee).  The
  `simulate` bypass is irrelevant to delivery.  `metadata.signers` are the transaction's required
  signers (`cosmos.msg.v1.signer = "metadata"` → `MsgMetadata.signers`), checked by the SDK's
  signature verification which runs first; three `MsgUpdateParams` are signed by their `authority`
  field instead.
* every `msg_server*.go` handler, abstracted to the principal in whose name it writes (`Rule`),
  and every string / bytes field of the request types, abstracted to a `Role`.

The two tables are DATA keyed by "<module>.<RPC method>" (the names the Go message zoo uses) and
are checked against facts extracted from the Go source in `Props/C03.lean` (`Gen/Auth.lean`).
Core Lean only.
-/
namespace Paloma.Auth

abbrev Addr := Nat

/-- a paloma message as the authorisation layer sees it -/
structure Msg where
  typ : String
  /-- `metadata.signers` = the signers the transaction must carry -/
  signers : List Addr
  /-- `metadata.creator` -/
  creator : Addr
  /-- the other identity-bearing fields, by index -/
  idField : Nat → Addr

/-- in whose name a handler writes -/
inductive Rule where
  /-- everything the handler writes is attributed to `metadata.creator` -/
  | actsFor
  /-- the handler rejects unless creator / authority is the governance authority -/
  | authorityOnly
  /-- the handler writes in the name of identity field `field`, which must be backed by that
      principal's own external-chain signature carried in the message -/
  | sigProven (field : Nat)
  /-- anybody may send it; what it writes is not derived from the sender (see the reason) -/
  | open_ (reason : String)
deriving Repr, DecidableEq

/-- what an identity-like request field means to the handler -/
inductive Role where
  /-- names another principal as recipient / beneficiary of something the creator gives from its
      own state; may create state mentioning that principal, never alters its existing state -/
  | target
  /-- must denote the creator (compared with it, resolved among the creator's own records, or
      overwritten by it); anything else is rejected -/
  | equatedWithCreator
  /-- the principal it denotes is bound by an external-chain signature inside the message -/
  | sigProven
  /-- must equal the governance authority (compared with the keeper's authority) -/
  | authorityField
  /-- not interpreted as a paloma principal -/
  | freeText
deriving Repr, DecidableEq

/-! ## The rule table (hand-written, checked against the generated facts) -/

/-- Rule of every message type the chain accepts, keyed by "<module>.<RPC>".

`open_` entries, each checked against the handler:
* `evm.RemoveSmartContractDeployment` — `DeleteSmartContractDeploymentByContractID(req.SmartContractID,
  req.ChainReferenceID)` with no check at all: ANY account can delete the in-flight deployment
  record of a governance-approved compass contract.  The record is workflow state (pigeon's
  escape hatch for a stuck deployment), re-created by the end blocker while the chain does not
  run the latest compass; it is not attributed to a principal.  Borderline w.r.t. "governance-
  controlled settings" — reported in Props/C03.md.
* `paloma.SetLegacyLightNodeClients` — ignores the message; registers every grantee of the
  (governance-configured) light-node feegranter that has neither a client record nor a pending
  licence.  Idempotent migration helper: WHAT is written is determined by chain state, only the
  activation timestamp depends on when somebody runs it.

Not `open_` although anybody may name somebody else's object:
* `scheduler.ExecuteJob` — any account may trigger any job (jobs are public by design); the job
  is not modified, the queued message records the CREATOR as sender: `actsFor`.
* `skyway.SubmitBadSignatureEvidence` — anybody may submit; the validator that gets jailed is the
  one whose eth key signed a checkpoint that never existed: `sigProven`. -/
def rules : List (String × Rule) := [
  ("consensus.AddMessagesSignatures", .actsFor),
  ("consensus.AddMessageEstimates", .actsFor),
  ("consensus.AddEvidence", .actsFor),
  ("consensus.SetPublicAccessData", .actsFor),
  ("consensus.SetErrorData", .actsFor),
  ("evm.RemoveSmartContractDeployment", .open_ "deletes an in-flight compass deployment record; no sender check"),
  ("evm.ProposeNewSmartContractDeployment", .authorityOnly),
  ("evm.ProposeNewReferenceBlockAttestation", .authorityOnly),
  ("evm.UploadUserSmartContract", .actsFor),
  ("evm.RemoveUserSmartContract", .actsFor),
  ("evm.DeployUserSmartContract", .actsFor),
  ("paloma.AddStatusUpdate", .actsFor),
  ("paloma.RegisterLightNodeClient", .actsFor),
  ("paloma.AddLightNodeClientLicense", .actsFor),
  ("paloma.AuthLightNodeClient", .actsFor),
  ("paloma.SetLegacyLightNodeClients", .open_ "idempotent migration of feegranter grantees to client records; ignores the sender"),
  ("paloma.UpdateParams", .authorityOnly),
  ("scheduler.CreateJob", .actsFor),
  ("scheduler.ExecuteJob", .actsFor),
  ("tokenfactory.CreateDenom", .actsFor),
  ("tokenfactory.SetDenomMetadata", .actsFor),
  ("tokenfactory.Mint", .actsFor),
  ("tokenfactory.Burn", .actsFor),
  ("tokenfactory.ChangeAdmin", .actsFor),
  ("tokenfactory.UpdateParams", .authorityOnly),
  ("treasury.UpsertRelayerFee", .actsFor),
  ("valset.AddExternalChainInfoForValidator", .actsFor),
  ("valset.KeepAlive", .actsFor),
  ("skyway.SendToRemote", .actsFor),
  ("skyway.ConfirmBatch", .sigProven 0),
  ("skyway.EstimateBatchGas", .actsFor),
  ("skyway.SendToPalomaClaim", .actsFor),
  ("skyway.BatchSendToRemoteClaim", .actsFor),
  ("skyway.CancelSendToRemote", .actsFor),
  ("skyway.SubmitBadSignatureEvidence", .sigProven 0),
  ("skyway.UpdateParams", .authorityOnly),
  ("skyway.LightNodeSaleClaim", .actsFor),
  ("skyway.SetERC20ToTokenDenom", .actsFor),
  ("skyway.ReplenishLostGrainsProposal", .authorityOnly),
  ("skyway.SetERC20MappingProposal", .authorityOnly),
  ("skyway.OverrideNonceProposal", .authorityOnly)
]

/-- `actsFor` types whose creator check lives in the request's `ValidateBasic` (run by baseapp
    before the handler) instead of in the handler body. -/
def creatorCheckedInValidateBasic : List String := ["treasury.UpsertRelayerFee"]

/-- types whose transaction signer is the `Authority` field (`cosmos.msg.v1.signer = "authority"`) -/
def authoritySigned : List String := ["paloma.UpdateParams", "tokenfactory.UpdateParams", "skyway.UpdateParams"]

/-- identity field index 0 of the `sigProven` types, by name (for the driver / the harness) -/
def sigProvenField : List (String × String) := [
  ("skyway.ConfirmBatch", "Orchestrator"),
  ("skyway.SubmitBadSignatureEvidence", "Signature")
]

/-- Role of EVERY string / bytes field of every request type (path as in Gen/Auth.lean). -/
def roles : List (String × String × Role) := [
  ("consensus.AddEvidence", "QueueTypeName", .freeText),
  ("consensus.AddMessageEstimates", "Estimates.QueueTypeName", .freeText),
  -- carried but never read: the estimate is stored under the creator's validator address
  ("consensus.AddMessageEstimates", "Estimates.EstimatedByAddress", .freeText),
  ("consensus.AddMessagesSignatures", "SignedMessages.QueueTypeName", .freeText),
  ("consensus.AddMessagesSignatures", "SignedMessages.Signature", .freeText),
  -- resolved by valset.GetSigningKey among the CREATOR validator's own external accounts
  ("consensus.AddMessagesSignatures", "SignedMessages.SignedByAddress", .equatedWithCreator),
  ("consensus.SetErrorData", "QueueTypeName", .freeText),
  ("consensus.SetErrorData", "Data", .freeText),
  ("consensus.SetPublicAccessData", "QueueTypeName", .freeText),
  ("consensus.SetPublicAccessData", "Data", .freeText),
  ("evm.DeployUserSmartContract", "TargetChain", .freeText),
  ("evm.ProposeNewReferenceBlockAttestation", "Authority", .equatedWithCreator),
  ("evm.ProposeNewReferenceBlockAttestation", "ChainReferenceId", .freeText),
  ("evm.ProposeNewReferenceBlockAttestation", "BlockHash", .freeText),
  ("evm.ProposeNewSmartContractDeployment", "Authority", .equatedWithCreator),
  ("evm.ProposeNewSmartContractDeployment", "AbiJSON", .freeText),
  ("evm.ProposeNewSmartContractDeployment", "BytecodeHex", .freeText),
  ("evm.RemoveSmartContractDeployment", "ChainReferenceID", .freeText),
  ("evm.UploadUserSmartContract", "Title", .freeText),
  ("evm.UploadUserSmartContract", "AbiJson", .freeText),
  ("evm.UploadUserSmartContract", "Bytecode", .freeText),
  ("evm.UploadUserSmartContract", "ConstructorInput", .freeText),
  -- licence paid from the creator's balance for an address that has NO account yet
  ("paloma.AddLightNodeClientLicense", "ClientAddress", .target),
  ("paloma.AddStatusUpdate", "Status", .freeText),
  ("paloma.AddStatusUpdate", "Args.Key", .freeText),
  ("paloma.AddStatusUpdate", "Args.Value", .freeText),
  ("paloma.UpdateParams", "Authority", .authorityField),
  ("paloma.UpdateParams", "Params.GasExemptAddresses", .target),
  ("scheduler.CreateJob", "Job.ID", .freeText),
  -- overwritten with the creator before the job is stored
  ("scheduler.CreateJob", "Job.Owner", .equatedWithCreator),
  ("scheduler.CreateJob", "Job.Routing.ChainType", .freeText),
  ("scheduler.CreateJob", "Job.Routing.ChainReferenceID", .freeText),
  ("scheduler.CreateJob", "Job.Definition", .freeText),
  ("scheduler.CreateJob", "Job.Payload", .freeText),
  ("scheduler.CreateJob", "Job.Permissions.Whitelist.ChainType", .freeText),
  ("scheduler.CreateJob", "Job.Permissions.Whitelist.ChainReferenceID", .freeText),
  ("scheduler.CreateJob", "Job.Permissions.Whitelist.Address", .target),
  ("scheduler.CreateJob", "Job.Permissions.Blacklist.ChainType", .freeText),
  ("scheduler.CreateJob", "Job.Permissions.Blacklist.ChainReferenceID", .freeText),
  ("scheduler.CreateJob", "Job.Permissions.Blacklist.Address", .target),
  -- names a (public) job, possibly somebody else's; the job itself is not modified
  ("scheduler.ExecuteJob", "JobID", .freeText),
  ("scheduler.ExecuteJob", "Payload", .freeText),
  ("skyway.BatchSendToRemoteClaim", "TokenContract", .freeText),
  ("skyway.BatchSendToRemoteClaim", "ChainReferenceId", .freeText),
  ("skyway.BatchSendToRemoteClaim", "Orchestrator", .equatedWithCreator),
  ("skyway.BatchSendToRemoteClaim", "CompassId", .freeText),
  ("skyway.ConfirmBatch", "TokenContract", .freeText),
  ("skyway.ConfirmBatch", "EthSigner", .sigProven),
  ("skyway.ConfirmBatch", "Orchestrator", .sigProven),
  ("skyway.ConfirmBatch", "Signature", .freeText),
  ("skyway.EstimateBatchGas", "TokenContract", .freeText),
  -- stored inside the creator's estimate, validated as an eth address only
  ("skyway.EstimateBatchGas", "EthSigner", .freeText),
  ("skyway.LightNodeSaleClaim", "Orchestrator", .equatedWithCreator),
  ("skyway.LightNodeSaleClaim", "ChainReferenceId", .freeText),
  ("skyway.LightNodeSaleClaim", "ClientAddress", .target),
  ("skyway.LightNodeSaleClaim", "SmartContractAddress", .freeText),
  ("skyway.LightNodeSaleClaim", "CompassId", .freeText),
  ("skyway.OverrideNonceProposal", "ChainReferenceId", .freeText),
  ("skyway.SendToPalomaClaim", "TokenContract", .freeText),
  ("skyway.SendToPalomaClaim", "EthereumSender", .freeText),
  ("skyway.SendToPalomaClaim", "PalomaReceiver", .target),
  ("skyway.SendToPalomaClaim", "Orchestrator", .equatedWithCreator),
  ("skyway.SendToPalomaClaim", "ChainReferenceId", .freeText),
  ("skyway.SendToPalomaClaim", "CompassId", .freeText),
  ("skyway.SendToRemote", "EthDest", .target),
  ("skyway.SendToRemote", "ChainReferenceId", .freeText),
  ("skyway.SetERC20MappingProposal", "Authority", .equatedWithCreator),
  ("skyway.SetERC20MappingProposal", "Mappings.ChainReferenceId", .freeText),
  ("skyway.SetERC20MappingProposal", "Mappings.Erc20", .freeText),
  ("skyway.SetERC20MappingProposal", "Mappings.Denom", .freeText),
  ("skyway.SetERC20ToTokenDenom", "Denom", .freeText),
  ("skyway.SetERC20ToTokenDenom", "ChainReferenceId", .freeText),
  ("skyway.SetERC20ToTokenDenom", "Erc20", .freeText),
  ("skyway.SubmitBadSignatureEvidence", "Signature", .sigProven),
  -- deprecated, never read
  ("skyway.SubmitBadSignatureEvidence", "Sender", .freeText),
  ("skyway.SubmitBadSignatureEvidence", "ChainReferenceId", .freeText),
  ("skyway.UpdateParams", "Authority", .authorityField),
  ("tokenfactory.ChangeAdmin", "Denom", .freeText),
  ("tokenfactory.ChangeAdmin", "NewAdmin", .target),
  ("tokenfactory.CreateDenom", "Subdenom", .freeText),
  ("tokenfactory.UpdateParams", "Authority", .equatedWithCreator),
  ("treasury.UpsertRelayerFee", "FeeSetting.ValAddress", .equatedWithCreator),
  ("treasury.UpsertRelayerFee", "FeeSetting.Fees.ChainReferenceId", .freeText),
  ("valset.AddExternalChainInfoForValidator", "ChainInfos.ChainType", .freeText),
  ("valset.AddExternalChainInfoForValidator", "ChainInfos.ChainReferenceID", .freeText),
  -- claimed external account: an address / pubkey already registered by ANOTHER validator on
  -- the same chain is rejected (exact string / byte comparison)
  ("valset.AddExternalChainInfoForValidator", "ChainInfos.Address", .freeText),
  ("valset.AddExternalChainInfoForValidator", "ChainInfos.Pubkey", .freeText),
  ("valset.AddExternalChainInfoForValidator", "ChainInfos.Balance", .freeText),
  ("valset.AddExternalChainInfoForValidator", "ChainInfos.Traits", .freeText),
  ("valset.KeepAlive", "PigeonVersion", .freeText)
]

def ruleOf (typ : String) : Option Rule := (rules.find? (·.1 == typ)).map (·.2)

def roleOf (typ field : String) : Option Role :=
  (roles.find? (fun r => r.1 == typ && r.2.1 == field)).map (·.2.2)

/-! ## Delivery -/

/-- exactly `VerifyAuthorisedSignatureDecorator`: the creator signed, or a signer holds a fee
    allowance granted by the creator (`grants granter grantee`) -/
def anteOk (m : Msg) (grants : Addr → Addr → Bool) : Bool :=
  m.signers.contains m.creator || m.signers.any (fun s => grants m.creator s)

/-- state attributed to principals (abstract: a counter per principal) and the fee grants -/
structure State where
  slots : Addr → Nat
  grants : Addr → Addr → Bool

/-- what the model leaves abstract -/
structure Cfg where
  /-- the governance authority -/
  authority : Addr
  ruleOf : String → Option Rule
  /-- identity field `f` of `m` is backed by that principal's own external-chain signature -/
  sigOk : Msg → Nat → Bool
  /-- the handler's remaining (state dependent) checks pass -/
  handlerOk : State → Msg → Bool
  /-- effect of an `open_` message: nothing is claimed about it -/
  openEffect : Msg → (Addr → Nat) → (Addr → Nat)

def bump (slots : Addr → Nat) (a : Addr) : Addr → Nat :=
  fun x => if x = a then slots x + 1 else slots x

/-- the handler of a message whose type has rule `r`, after the ante chain let it through -/
def applyRule (cfg : Cfg) (s : State) (m : Msg) : Rule → State
  | .actsFor => { s with slots := bump s.slots m.creator }
  | .authorityOnly =>
    if m.creator = cfg.authority then { s with slots := bump s.slots cfg.authority } else s
  | .sigProven f =>
    if cfg.sigOk m f = true then { s with slots := bump s.slots (m.idField f) } else s
  | .open_ _ => { s with slots := cfg.openEffect m s.slots }

/-- one delivered transaction carrying `m`: ante chain, then the handler (rejections leave the
    state untouched: a failed transaction's writes are discarded) -/
def deliver (cfg : Cfg) (s : State) (m : Msg) : State :=
  if anteOk m s.grants = false then s
  else if cfg.handlerOk s m = false then s
  else match cfg.ruleOf m.typ with
    | none => s
    | some r => applyRule cfg s m r

/-! ## Multi-message transactions -/

/-- The decorator loops over `tx.GetMsgs()` and checks EVERY message on its own: the message's
    creator against the message's signers, and otherwise the allowances granted by THAT creator
    (`grantsLkUp` is built afresh from `AllowancesByGranter(creator)` inside the loop).  A grant
    from the creator of one message says nothing about the creator of another. -/
def anteOkTx (msgs : List Msg) (grants : Addr → Addr → Bool) : Bool :=
  msgs.all (fun m => anteOk m grants)

/-- does the handler of a message with rule `r` accept (its authorisation part)? -/
def accepts (cfg : Cfg) (m : Msg) : Rule → Bool
  | .actsFor => true
  | .authorityOnly => m.creator == cfg.authority
  | .sigProven f => cfg.sigOk m f
  | .open_ _ => true

/-- handler of one message inside a transaction; `none` = the handler returns an error -/
def handle (cfg : Cfg) (s : State) (m : Msg) : Option State :=
  if cfg.handlerOk s m = false then none
  else match cfg.ruleOf m.typ with
    | none => none
    | some r => if accepts cfg m r = true then some (applyRule cfg s m r) else none

/-- the messages of a transaction run in order on the same branch; the first error aborts -/
def handleAll (cfg : Cfg) : State → List Msg → Option State
  | s, [] => some s
  | s, m :: ms =>
    match handle cfg s m with
    | none => none
    | some s' => handleAll cfg s' ms

/-- a transaction is accepted iff the ante chain lets every message through and no handler errs -/
def txAccepted (cfg : Cfg) (s : State) (msgs : List Msg) : Bool :=
  anteOkTx msgs s.grants && (handleAll cfg s msgs).isSome

/-- one delivered transaction with several messages: atomic (a rejected transaction's writes,
    including those of the messages before the failing one, are discarded) -/
def deliverTx (cfg : Cfg) (s : State) (msgs : List Msg) : State :=
  if anteOkTx msgs s.grants = false then s
  else match handleAll cfg s msgs with
    | none => s
    | some s' => s'

/-- histories: fee grants are themselves transactions (feegrant's MsgGrantAllowance /
    MsgRevokeAllowance are signed by the granter) -/
inductive Op where
  | grant (granter grantee : Addr)
  | revoke (granter grantee : Addr)
  | tx (m : Msg)
  | mtx (ms : List Msg)

def setGrant (g : Addr → Addr → Bool) (a b : Addr) (v : Bool) : Addr → Addr → Bool :=
  fun x y => if x = a ∧ y = b then v else g x y

def step (cfg : Cfg) (s : State) : Op → State
  | .grant a b => { s with grants := setGrant s.grants a b true }
  | .revoke a b => { s with grants := setGrant s.grants a b false }
  | .tx m => deliver cfg s m
  | .mtx ms => deliverTx cfg s ms

def run (cfg : Cfg) (s : State) (ops : List Op) : State := ops.foldl (step cfg) s

/-! ## Executable verdicts used by the driver -/

/-- Does the SDK signature check pass?  `txSigners` signed the transaction; the message demands
    `m.signers` (metadata) or, for the authority-signed types, the `Authority` field. -/
def sigCheck (typ : String) (txSigners declared : List Addr) (authorityField : Option Addr) : Bool :=
  if authoritySigned.contains typ then
    match authorityField with
    | some a => txSigners == [a]
    | none => false
  else txSigners == declared

/-- the signers a message demands: its metadata signers, or its `Authority` field -/
def declaredSigners (typ : String) (metaSigners : List Addr) (authorityField : Option Addr) : List Addr :=
  if authoritySigned.contains typ then authorityField.toList else metaSigners

/-- SDK signature check of a multi-message transaction: the transaction must be signed by exactly
    the de-duplicated concatenation of the signers its messages demand (in order of appearance). -/
def sigCheckTx (txSigners : List Addr) (declared : List (List Addr)) : Bool :=
  txSigners == (declared.flatten).eraseDups

/-- May delivering a message of type `typ` legitimately change state attributed to `victim`?
`alteration = false`: only NEW records that mention the victim appeared; `true`: something that
already was the victim's got altered or removed. -/
def mayTouch (authority : Addr) (typ : String) (signers : List Addr) (creator : Addr)
    (grants : Addr → Addr → Bool) (victim : Addr) (redirected : List String) (alteration : Bool) : Bool :=
  -- the victim authorised it: it is the creator and signed or granted to a signer
  (victim == creator && (signers.contains victim || signers.any (fun s => grants victim s)))
  || (match ruleOf typ with
      | some (.open_ _) => true
      | some .authorityOnly => creator == authority
      | _ => false)
  -- an identity field that was pointed at the victim is a `target` / `sigProven` one, or the
  -- creator merely wrote the victim's address as free text into its own new record
  || redirected.any (fun f => roleOf typ f == some .target || roleOf typ f == some .sigProven
      || (!alteration && roleOf typ f == some .freeText))

/-! ## Transferable ownership: token-factory denoms

`x/tokenfactory/keeper/msg_server.go` (`CreateDenom`, `ChangeAdmin`, `Mint`, `Burn`,
`SetDenomMetadata`), `x/skyway/keeper/msg_server.go` `SetERC20ToTokenDenom`, and the wasm bindings
`x/tokenfactory/bindings`, `x/skyway/bindings` (which call the same servers with the contract
address as creator; `PerformSetMetadata` repeats the admin comparison itself).  A denom
`factory/<addr>/<sub>` is NAMED after its creator for ever, but what the chain keeps for it
(authority metadata, bank metadata, supply, ERC20 bridge bindings) belongs to its CURRENT admin:
every handler compares `metadata.creator` with `GetAuthorityMetadata(denom).Admin`, never with the
address in the name.  `ChangeAdmin` may name anybody, or nobody (the denom is frozen for good). -/

/-- what a message does to a denom -/
inductive DAct where
  | create
  /-- `none`: the admin renounces -/
  | changeAdmin (newAdmin : Option Addr)
  /-- any other admin-gated write: Mint / Burn / SetDenomMetadata / SetERC20ToTokenDenom -/
  | write
deriving Repr, DecidableEq

structure DMsg where
  signers : List Addr
  creator : Addr
  denom : Nat
  act : DAct

structure DState where
  /-- `none`: the denom does not exist (no bank metadata; `validateCreateDenom` refuses a second
      creation); `some a`: it exists and `DenomAuthorityMetadata.Admin` is `a` (`none` = "") -/
  den : Nat → Option (Option Addr)
  /-- abstraction of supply / metadata / bridge binding: number of admin-gated writes so far -/
  writes : Nat → Nat
  grants : Addr → Addr → Bool

/-- the decorator's check for a denom message (same rule as `anteOk`) -/
def dAnteOk (m : DMsg) (g : Addr → Addr → Bool) : Bool :=
  m.signers.contains m.creator || m.signers.any (fun s => g m.creator s)

def setAt {α : Type} (f : Nat → α) (d : Nat) (v : α) : Nat → α := fun x => if x = d then v else f x

/-- the handlers; `namer d` is the account denom `d` is named after (`GetTokenDenom(creator, sub)`:
    a creator can only ever create denoms named after itself); `none` = the handler errs -/
def dHandle (namer : Nat → Addr) (s : DState) (m : DMsg) : Option DState :=
  match m.act with
  | .create =>
    if s.den m.denom = none ∧ namer m.denom = m.creator then
      some { s with den := setAt s.den m.denom (some (some m.creator)) }
    else none
  | .changeAdmin n =>
    if s.den m.denom = some (some m.creator) then some { s with den := setAt s.den m.denom (some n) } else none
  | .write =>
    if s.den m.denom = some (some m.creator) then
      some { s with writes := setAt s.writes m.denom (s.writes m.denom + 1) }
    else none

def dAccepted (namer : Nat → Addr) (s : DState) (m : DMsg) : Bool :=
  dAnteOk m s.grants && (dHandle namer s m).isSome

/-- one delivered transaction carrying a denom message -/
def dDeliver (namer : Nat → Addr) (s : DState) (m : DMsg) : DState :=
  if dAnteOk m s.grants = false then s
  else match dHandle namer s m with
    | none => s
    | some s' => s'

/-- everything the chain keeps for denom `d` -/
def dView (s : DState) (d : Nat) : Option (Option Addr) × Nat := (s.den d, s.writes d)

/-- the principal denom `d`'s state is attributed to: its current admin; before it exists, the
    account it is named after; `none`: renounced -/
def dOwner (namer : Nat → Addr) (s : DState) (d : Nat) : Option Addr :=
  match s.den d with
  | none => some (namer d)
  | some a => a

inductive DOp where
  | grant (granter grantee : Addr)
  | revoke (granter grantee : Addr)
  | msg (m : DMsg)

def dStep (namer : Nat → Addr) (s : DState) : DOp → DState
  | .grant a b => { s with grants := setGrant s.grants a b true }
  | .revoke a b => { s with grants := setGrant s.grants a b false }
  | .msg m => dDeliver namer s m

def dRun (namer : Nat → Addr) (s : DState) (ops : List DOp) : DState := ops.foldl (dStep namer) s

def dInit : DState := { den := fun _ => none, writes := fun _ => 0, grants := fun _ _ => false }

/-! ## Batch confirmations

`x/skyway/keeper/msg_server.go` `ConfirmBatch` + `confirmHandlerCommon`, in statement order: the
batch named by (token contract, nonce) must exist; the validator is looked up from the
ORCHESTRATOR field (never from the sender); its registered key on the batch's chain must equal the
`eth_signer` field; the signature must recover to that key over the batch's checkpoint; one
confirmation per (batch, orchestrator) and per (batch, key); `SetBatchConfirm` files the message
under the orchestrator.  The sender (`metadata.creator`) is not looked at by the handler at all:
relaying a validator's signature is legitimate, filing one's own under another validator is not.

Signatures are abstract: a signature is the pair (key that made it, item it was made over) —
ECDSA recovery soundness is trusted (the harness re-verifies with go-ethereum). -/

structure CAttempt where
  signers : List Addr
  creator : Addr
  batchExists : Bool
  batch : Nat
  orch : Addr
  /-- the key named in `eth_signer` -/
  ethSigner : Nat
  /-- the key that made the signature (0: nobody's) -/
  sigKey : Nat
  /-- the item the signature was made over -/
  sigItem : Nat

structure CConfirm where
  batch : Nat
  orch : Addr
  key : Nat
  sigKey : Nat
  sigItem : Nat
deriving Repr, DecidableEq

structure CState where
  confirms : List CConfirm
  grants : Addr → Addr → Bool

def cAnteOk (a : CAttempt) (g : Addr → Addr → Bool) : Bool :=
  a.signers.contains a.creator || a.signers.any (fun s => g a.creator s)

/-- `regKey v` = the key validator `v` registered for the chain (`none`: no validator / no key /
    unbonded) -/
def cHandle (regKey : Addr → Option Nat) (s : CState) (a : CAttempt) : Option CState :=
  if a.batchExists = false then none
  else if regKey a.orch ≠ some a.ethSigner then none
  else if a.sigKey ≠ a.ethSigner then none
  else if a.sigItem ≠ a.batch then none
  else if s.confirms.any (fun c => c.batch == a.batch && c.orch == a.orch) = true then none
  else if s.confirms.any (fun c => c.batch == a.batch && c.key == a.ethSigner) = true then none
  else some { s with confirms := s.confirms ++ [⟨a.batch, a.orch, a.ethSigner, a.sigKey, a.sigItem⟩] }

def cAccepted (regKey : Addr → Option Nat) (s : CState) (a : CAttempt) : Bool :=
  cAnteOk a s.grants && (cHandle regKey s a).isSome

def cDeliver (regKey : Addr → Option Nat) (s : CState) (a : CAttempt) : CState :=
  if cAnteOk a s.grants = false then s
  else match cHandle regKey s a with
    | none => s
    | some s' => s'

def cRun (regKey : Addr → Option Nat) (s : CState) (as : List CAttempt) : CState :=
  as.foldl (cDeliver regKey) s

end Paloma.Auth
