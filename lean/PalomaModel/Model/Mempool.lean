/-
Model of app/mempool/priority_nonce.go (`PriorityNonceMempool[int64]` as built by
`DefaultPriorityMempool()` in app/app.go: no `TxReplacement`, `MaxTx = 0`).

Core Lean only. What is mirrored, field by field:

* `priorityIndex`  — a `huandu/skiplist` whose comparator is
  `skiplist.LessThanFunc(f)`, i.e. `Compare = -f`, with `f` comparing priority, then
  weight, then sender, then nonce.  The list is therefore kept in *descending* order of
  `f` on all four components (priority desc, weight desc, sender desc, nonce desc).
  The skip list is abstracted as a `List PNode` kept sorted by that comparator;
  `Set`/`Remove`/`Front`/`Next` become `pset`/`perase`/head/tail.
* `senderIndices[s]` — a skip list with `LessThanFunc(compare(b.nonce, a.nonce))`,
  i.e. ascending nonce; abstracted as `List Tx` (`sset`/`serase`).  `SkipList.Set` on a key
  that compares equal only replaces the element's *value*; the element keeps its old *key*,
  so after re-inserting an existing (sender, nonce) the sender-index key still carries the
  priority of the first insertion (`Tx.prio` of a sender-index entry is that key priority).
* `scores`, `priorityCounts` — Go maps, modelled as total functions
  (`none` / `0` = absent).
* `txMeta.senderElement` — pointer to the sender-index element of the same (sender, nonce);
  modelled by looking the nonce up in the sender list (`cursorAt`).
* the iterator (`iteratePriority` / `Next`) — `iter`/`drain`, structurally recursive over
  the priority index; `senderCursors` is the per-sender list of not yet yielded entries.
* the iterator one call at a time — `advance` is `Next()`/`iteratePriority()` literally (mutual
  recursion unrolled over the remaining priority elements), `Iter` the iterator object,
  `runIter k` the caller's loop that takes at most `k` transactions and abandons the iterator,
  `Pool.selectN` = `Select` + that loop.  An `Iter` is a *snapshot* (remaining elements as lists);
  the Go iterator holds pointers into the live skip lists, so the model is valid as long as no
  `Insert`/`Remove` happens between `Select` and the last `Next()` — which is how `baseapp`
  uses it (`mempool.SelectBy`: `for iter != nil && callback(iter.Tx()) { iter = iter.Next() }`,
  invalid transactions are removed after the loop).
* `i.priorityNode.Next().Key()` in `Next` dereferences nil when the current node is the last
  one and the candidate's key priority equals `MinValue`; this is the `panic` outcome.

Priorities are `Int` (Go `int64`; only comparisons and the constants below are used),
nonces `Nat` (Go `uint64`), senders `String` (bech32 text, compared bytewise in Go).
-/
namespace Paloma.Mempool

def maxInt64 : Int := 9223372036854775807
def minInt64 : Int := -9223372036854775808

/-! ### `NewDefaultTxPriority` -/

/-- the `switch` in `GetTxPriority`: type-URL prefix ↦ priority, in source order -/
def classTable : List (String × Int) :=
  [ ("/palomachain.paloma.consensus.", maxInt64),
    ("/palomachain.paloma.scheduler.", maxInt64 - 1),
    ("/palomachain.paloma.evm.",       maxInt64 - 2),
    ("/palomachain.paloma.valset.",    maxInt64 - 3) ]

/-- `strings.HasPrefix` -/
def hasPrefix (url pre : String) : Bool := pre.toList.isPrefixOf url.toList

/-- first matching `case` of the switch -/
def classRank (url : String) : Option Int :=
  (classTable.find? (fun e => hasPrefix url e.1)).map (·.2)

/-- `GetTxPriority`: `urls` are the type URLs of `tx.GetMsgs()`, `ctxPrio` is `ctx.Priority()` -/
def txPriority (urls : List String) (ctxPrio : Int) : Int :=
  match urls with
  | [u] => (classRank u).getD ctxPrio
  | _ => ctxPrio

/-! ### data -/

/-- a transaction as the mempool sees it; in a sender-index entry `prio` is the priority
    stored in the element's *key* -/
structure Tx where
  sender : String
  nonce  : Nat
  prio   : Int
  id     : Nat
deriving DecidableEq, Repr

/-- an element of the priority index: key `(prio, weight, sender, nonce)` and value (`id`) -/
structure PNode where
  prio   : Int
  weight : Int
  sender : String
  nonce  : Nat
  id     : Nat
deriving DecidableEq, Repr

def PNode.tx (k : PNode) : Tx := ⟨k.sender, k.nonce, k.prio, k.id⟩
def PNode.skey (k : PNode) : String × Nat := (k.sender, k.nonce)
def Tx.skey (t : Tx) : String × Nat := (t.sender, t.nonce)

/-- the value type of the `scores` map (only `priority` and `weight` are ever read) -/
structure Score where
  prio   : Int
  weight : Int
deriving DecidableEq, Repr

/-- the function `f` handed to `skiplist.LessThanFunc` in `skiplistComparable` -/
def keyCmp : PNode → PNode → Ordering :=
  compareLex (compareOn (·.prio))
    (compareLex (compareOn (·.weight))
      (compareLex (compareOn (·.sender)) (compareOn (·.nonce))))

/-- `priorityIndex.Set(key, tx)`: walk while `-f(key, next) > 0`; on an equal key only the
    value is replaced; otherwise a new element is linked in front of `next`. -/
def pset (k : PNode) : List PNode → List PNode
  | [] => [k]
  | x :: xs =>
    match keyCmp k x with
    | .lt => x :: pset k xs
    | .eq => { x with id := k.id } :: xs
    | .gt => k :: x :: xs

/-- `priorityIndex.Remove(key)` = `Get` (first element not before `key`, must compare equal)
    then unlink -/
def perase (k : PNode) : List PNode → List PNode
  | [] => []
  | x :: xs =>
    match keyCmp k x with
    | .lt => x :: perase k xs
    | .eq => xs
    | .gt => x :: xs

/-- `senderIndex.Set(key, tx)`, comparator: nonce ascending.  On an existing nonce the
    element keeps its key (hence its key priority) and only the value changes. -/
def sset (t : Tx) : List Tx → List Tx
  | [] => [t]
  | x :: xs =>
    if t.nonce < x.nonce then t :: x :: xs
    else if t.nonce = x.nonce then { x with id := t.id } :: xs
    else x :: sset t xs

/-- `senderTxs.Remove(tk)` -/
def serase (n : Nat) : List Tx → List Tx
  | [] => []
  | x :: xs =>
    if x.nonce < n then x :: serase n xs
    else if x.nonce = n then xs
    else x :: xs

structure Pool where
  pidx    : List PNode
  sidx    : String → List Tx
  scores  : String → Nat → Option Score
  pcounts : Int → Int

def Pool.empty : Pool := ⟨[], fun _ => [], fun _ _ => none, fun _ => 0⟩

def upd {α : Type} (f : String → α) (s : String) (v : α) : String → α :=
  fun x => if x = s then v else f x

def upd2 {α : Type} (f : String → Nat → α) (s : String) (n : Nat) (v : α) : String → Nat → α :=
  fun x y => if x = s ∧ y = n then v else f x y

def bump (f : Int → Int) (p : Int) (d : Int) : Int → Int :=
  fun x => if x = p then f x + d else f x

/-- `CountTx` -/
def Pool.count (mp : Pool) : Nat := mp.pidx.length

/-- `Insert` (after sender, nonce and priority have been derived from the tx) -/
def Pool.insert (mp : Pool) (s : String) (n : Nat) (p : Int) (id : Nat) : Pool :=
  let pre : List PNode × (Int → Int) :=
    match mp.scores s n with
    | some old => (perase ⟨old.prio, old.weight, s, n, 0⟩ mp.pidx, bump mp.pcounts old.prio (-1))
    | none => (mp.pidx, mp.pcounts)
  { pidx    := pset ⟨p, 0, s, n, id⟩ pre.1
    sidx    := upd mp.sidx s (sset ⟨s, n, p, id⟩ (mp.sidx s))
    scores  := upd2 mp.scores s n (some ⟨p, 0⟩)
    pcounts := bump pre.2 p 1 }

/-- `Remove`; the flag is `false` for `ErrTxNotFound` -/
def Pool.remove (mp : Pool) (s : String) (n : Nat) : Pool × Bool :=
  match mp.scores s n with
  | none => (mp, false)
  | some sc =>
    ({ pidx    := perase ⟨sc.prio, sc.weight, s, n, 0⟩ mp.pidx
       sidx    := upd mp.sidx s (serase n (mp.sidx s))
       scores  := upd2 mp.scores s n none
       pcounts := bump mp.pcounts sc.prio (-1) }, true)

/-- the sender list from the element with nonce `n` on (`key.senderElement` and its `Next()`s) -/
def cursorAt (l : List Tx) (n : Nat) : List Tx := l.dropWhile (fun t => t.nonce != n)

/-- `senderWeight`: starts from the element's key priority and overwrites it with every later
    key priority that differs — i.e. it ends as the key priority of the sender's last element -/
def senderWeight : List Tx → Int
  | [] => minInt64
  | e :: rest => rest.foldl (fun w x => if x.prio ≠ w then x.prio else w) e.prio

/-- first loop of `reorderPriorityTies`: the `(deleteKey, insertKey)` pairs -/
def Pool.reorderKeys (mp : Pool) : List (PNode × PNode) :=
  (mp.pidx.filter (fun k => decide (mp.pcounts k.prio > 1))).map
    (fun k => (k, { k with weight := senderWeight (cursorAt (mp.sidx k.sender) k.nonce) }))

/-- one round of the second loop of `reorderPriorityTies` -/
def Pool.reweigh (mp : Pool) (di : PNode × PNode) : Pool :=
  { mp with
    pidx   := pset di.2 (perase di.1 mp.pidx)
    scores := upd2 mp.scores di.2.sender di.2.nonce (some ⟨di.2.prio, di.2.weight⟩) }

def Pool.reorder (mp : Pool) : Pool := mp.reorderKeys.foldl Pool.reweigh mp

def weightOf (scores : String → Nat → Option Score) (s : String) (n : Nat) : Int :=
  match scores s n with
  | some sc => sc.weight
  | none => 0

inductive Verdict where
  | pass | stop | panic
deriving DecidableEq, Repr

/-- the tests in `Next()` for the candidate `e` of sender `s`; `next` is `priorityNode.Next()` -/
def passes (scores : String → Nat → Option Score) (next : Option PNode) (s : String) (e : Tx) : Verdict :=
  match next with
  | none =>
    if e.prio < minInt64 then .stop
    else if e.prio = minInt64 then .panic   -- `i.priorityNode.Next().Key()` on nil
    else .pass
  | some m =>
    if e.prio < m.prio then .stop
    else if e.prio = m.prio ∧ weightOf scores s e.nonce < m.weight then .stop
    else .pass

/-- repeated `Next()` while the priority node stays the same: yields the sender's remaining
    entries while they pass; returns (yielded, remaining, panicked) -/
def drain (scores : String → Nat → Option Score) (next : Option PNode) (s : String) :
    List Tx → List Tx × List Tx × Bool
  | [] => ([], [], false)
  | e :: es =>
    match passes scores next s e with
    | .stop => ([], e :: es, false)
    | .panic => ([], e :: es, true)
    | .pass =>
      let r := drain scores next s es
      (e :: r.1, r.2.1, r.2.2)

/-- `iteratePriority`/`Next` over the remaining priority nodes; `rem s` is what is left of
    sender `s` (`senderCursors`).  Returns (yielded, panicked). -/
def iter (scores : String → Nat → Option Score) :
    List PNode → (String → List Tx) → List Tx × Bool
  | [], _ => ([], false)
  | m :: rest, rem =>
    let r := drain scores rest.head? m.sender (rem m.sender)
    if r.2.2 then (r.1, true)
    else
      let r' := iter scores rest (upd rem m.sender r.2.1)
      (r.1 ++ r'.1, r'.2)

/-- `Select` followed by exhausting the iterator: new pool, yielded transactions, panicked -/
def Pool.select (mp : Pool) : Pool × List Tx × Bool :=
  if mp.pidx.isEmpty then (mp, [], false)
  else
    let mp' := mp.reorder
    (mp', iter mp'.scores mp'.pidx mp'.sidx)

/-! ### the iterator, one `Next()` at a time

`Select` hands out an iterator that the caller advances with `Next()` and may abandon at any
point (`baseapp`'s `PrepareProposal` stops when the block is full: `mempool.SelectBy` falls back
to `for iter != nil && callback(iter.Tx()) { iter = iter.Next() }` for this mempool, without
touching the pool inside the loop).  `advance` is `Next()`/`iteratePriority` literally; `iter`
above is what exhausting it produces (`runIter_eq_iter` in Props/C19). -/

/-- a non-nil `*PriorityNonceIterator` -/
structure Iter where
  /-- `priorityNode` followed by the elements behind it (`priorityNode.Next()`, …) -/
  nodes : List PNode
  /-- per sender the entries behind `senderCursors[s]` (the whole sender index if absent) -/
  rem   : String → List Tx
  /-- `Tx()` = `senderCursors[sender].Value` -/
  cur   : Tx

/-- what `Select` / `Next()` return: `nil`, a nil-dereference panic, or the iterator -/
inductive IterResult where
  | done
  | panic
  | at (it : Iter)

/-- the iterator value is `nil` -/
def IterResult.isDone : IterResult → Bool
  | .done => true
  | _ => false

/-- the call dereferenced nil -/
def IterResult.isPanic : IterResult → Bool
  | .panic => true
  | _ => false

/-- `Tx()` of a non-nil iterator -/
def IterResult.cur? : IterResult → Option Tx
  | .at it => some it.cur
  | _ => none

/-- `Next()` with `priorityNode` = head of the list (`nil` if empty); the recursive calls are
    `iteratePriority()` (advance `priorityNode`, set `sender`/`nextPriority`, call `Next()`). -/
def advance (scores : String → Nat → Option Score) :
    List PNode → (String → List Tx) → IterResult
  | [], _ => .done
  | m :: rest, rem =>
    match rem m.sender with
    | [] => advance scores rest rem
    | e :: es =>
      match passes scores rest.head? m.sender e with
      | .stop => advance scores rest rem
      | .panic => .panic
      | .pass => .at ⟨m :: rest, upd rem m.sender es, e⟩

/-- `it.Next()` -/
def Iter.next (scores : String → Nat → Option Score) (it : Iter) : IterResult :=
  advance scores it.nodes it.rem

/-- `for it != nil && n < k { out = append(out, it.Tx()); n++; it = it.Next() }`:
    what was yielded and the iterator value the loop ends with -/
def runIter (scores : String → Nat → Option Score) : Nat → IterResult → List Tx × IterResult
  | _, .done => ([], .done)
  | _, .panic => ([], .panic)
  | 0, .at it => ([], .at it)
  | k + 1, .at it =>
    let r := runIter scores k (it.next scores)
    (it.cur :: r.1, r.2)

/-- `Select` alone: the pool after `reorderPriorityTies` and the iterator it returns -/
def Pool.selectStart (mp : Pool) : Pool × IterResult :=
  if mp.pidx.isEmpty then (mp, .done)
  else
    let mp' := mp.reorder
    (mp', advance mp'.scores mp'.pidx mp'.sidx)

/-- `Select`, then at most `k` transactions taken from the iterator -/
def Pool.selectN (mp : Pool) (k : Nat) : Pool × List Tx × IterResult :=
  let r := mp.selectStart
  (r.1, runIter r.1.scores k r.2)

/-! ### `TxFeeSkipper` -/

/-- `x/paloma/ante.go: TxFeeSkipper`, the `TxFeeChecker` that `app/app.go` hands to the SDK ante
    handler: `DeductFeeDecorator` puts this value into `ctx.WithPriority` for every CheckTx -/
def appCtxPriority : Int := 42

/-! ### histories -/

inductive Op where
  | insert (s : String) (n : Nat) (p : Int) (id : Nat)
  | remove (s : String) (n : Nat)
  | select
deriving Repr

def Pool.step (mp : Pool) : Op → Pool
  | .insert s n p id => mp.insert s n p id
  | .remove s n => (mp.remove s n).1
  | .select => mp.select.1

def run (ops : List Op) : Pool := ops.foldl Pool.step Pool.empty

/-- an operation as the application issues it: `Insert(ctx, tx)` derives the priority from the
    type URLs of `tx.GetMsgs()` and `ctx.Priority()` -/
inductive TxOp where
  | insert (s : String) (n : Nat) (urls : List String) (ctxPrio : Int) (id : Nat)
  | remove (s : String) (n : Nat)
  | select
deriving Repr

def TxOp.toOp : TxOp → Op
  | .insert s n urls c id => .insert s n (txPriority urls c) id
  | .remove s n => .remove s n
  | .select => .select

end Paloma.Mempool
