/-
Model of app/mempool/priority_nonce.go (`PriorityNonceMempool[int64]` as built by
`DefaultPriorityMempool()` in app/app.go: no `TxReplacement`, `MaxTx = 0`).

Core Lean only. What is mirrored, field by field:

* `priorityIndex`  — a `huandu/skiplist` whose comparator is
  `skiplist.LessThanFunc(f)`, i.e. `Compare = -f`, with `f` comparing priority, then
  weight, then sender, then nonce.  The list is therefore kept in *descending* order of
  `f` on all four components (priority desc, weight desc, sender desc, nonce desc).
  The skip list is abstracted as a `List PNode` kept sorted by that comparator;
  `Set`/`Remove`/`Front`/`Next` become `pset`/`perase`/head/tail.
* `senderIndices[s]` — a skip list with `LessThanFunc(compare(b.nonce, a.nonce))`,
  i.e. ascending nonce; abstracted as `List Tx` (`sset`/`serase`).  `SkipList.Set` on a key
  that compares equal only replaces the element's *value*; the element keeps its old *key*,
  so after re-inserting an existing (sender, nonce) the sender-index key still carries the
  priority of the first insertion (`Tx.prio` of a sender-index entry is that key priority).
* `scores`, `priorityCounts` — Go maps, modelled as total functions
  (`none` / `0` = absent).
* `txMeta.senderElement` — pointer to the sender-index element of the same (sender, nonce);
  modelled by looking the nonce up in the sender list (`cursorAt`).
* the iterator (`iteratePriority` / `Next`) — `iter`/`drain`, structurally recursive over
  the priority index; `senderCursors` is the per-sender list of not yet yielded entries.
* the iterator one call at a time — `advance` is `Next()`/`iteratePriority()` literally (mutual
  recursion unrolled over the remaining priority elements), `Iter` the iterator object,
  `runIter k` the caller's loop that takes at most `k` transactions and abandons the iterator,
  `Pool.selectN` = `Select` + that loop.  An `Iter` is a *snapshot* (remaining elements as lists);
  it describes the Go iterator as long as no `Insert`/`Remove`/`Select` happens between `Select` and
  the last `Next()` — which is how `baseapp` uses it (`mempool.SelectBy`:
  `for iter != nil && callback(iter.Tx()) { iter = iter.Next() }`, invalid transactions are removed
  after the loop).
* the iterator while the pool DOES change under it — the Go iterator holds pointers into the live
  skip lists and the value `nextPriority` — is `LiveIter` / `LState` at the end of this file
  (`iopen`, `inext` interleaved with pool operations); Props/C19 proves that it coincides with `Iter`
  when undisturbed.
* `i.priorityNode.Next().Key()` in `Next` dereferences nil when the current node is the last
  one and the candidate's key priority equals `MinValue`; this is the `panic` outcome.

Priorities are `Int` (Go `int64`; only comparisons and the constants below are used),
nonces `Nat` (Go `uint64`), senders `String` (bech32 text, compared bytewise in Go).
-/
namespace Paloma.Mempool

def maxInt64 : Int := 9223372036854775807
def minInt64 : Int := -9223372036854775808

/-! ### `NewDefaultTxPriority` -/

/-- the `switch` in `GetTxPriority`: type-URL prefix ↦ priority, in source order -/
def classTable : List (String × Int) :=
  [ ("/palomachain.paloma.consensus.", maxInt64),
    ("/palomachain.paloma.scheduler.", maxInt64 - 1),
    ("/palomachain.paloma.evm.",       maxInt64 - 2),
    ("/palomachain.paloma.valset.",    maxInt64 - 3) ]

/-- `strings.HasPrefix` -/
def hasPrefix (url pre : String) : Bool := pre.toList.isPrefixOf url.toList

/-- first matching `case` of the switch -/
def classRank (url : String) : Option Int :=
  (classTable.find? (fun e => hasPrefix url e.1)).map (·.2)

/-- `GetTxPriority`: `urls` are the type URLs of `tx.GetMsgs()`, `ctxPrio` is `ctx.Priority()` -/
def txPriority (urls : List String) (ctxPrio : Int) : Int :=
  match urls with
  | [u] => (classRank u).getD ctxPrio
  | _ => ctxPrio

/-! ### data -/

/-- a transaction as the mempool sees it; in a sender-index entry `prio` is the priority
    stored in the element's *key* -/
structure Tx where
  sender : String
  nonce  : Nat
  prio   : Int
  id     : Nat
deriving DecidableEq, Repr

/-- an element of the priority index: key `(prio, weight, sender, nonce)` and value (`id`) -/
structure PNode where
  prio   : Int
  weight : Int
  sender : String
  nonce  : Nat
  id     : Nat
deriving DecidableEq, Repr

def PNode.tx (k : PNode) : Tx := ⟨k.sender, k.nonce, k.prio, k.id⟩
def PNode.skey (k : PNode) : String × Nat := (k.sender, k.nonce)
def Tx.skey (t : Tx) : String × Nat := (t.sender, t.nonce)

/-- the value type of the `scores` map (only `priority` and `weight` are ever read) -/
structure Score where
  prio   : Int
  weight : Int
deriving DecidableEq, Repr

/-- the function `f` handed to `skiplist.LessThanFunc` in `skiplistComparable` -/
def keyCmp : PNode → PNode → Ordering :=
  compareLex (compareOn (·.prio))
    (compareLex (compareOn (·.weight))
      (compareLex (compareOn (·.sender)) (compareOn (·.nonce))))

/-- `priorityIndex.Set(key, tx)`: walk while `-f(key, next) > 0`; on an equal key only the
    value is replaced; otherwise a new element is linked in front of `next`. -/
def pset (k : PNode) : List PNode → List PNode
  | [] => [k]
  | x :: xs =>
    match keyCmp k x with
    | .lt => x :: pset k xs
    | .eq => { x with id := k.id } :: xs
    | .gt => k :: x :: xs

/-- `priorityIndex.Remove(key)` = `Get` (first element not before `key`, must compare equal)
    then unlink -/
def perase (k : PNode) : List PNode → List PNode
  | [] => []
  | x :: xs =>
    match keyCmp k x with
    | .lt => x :: perase k xs
    | .eq => xs
    | .gt => x :: xs

/-- `senderIndex.Set(key, tx)`, comparator: nonce ascending.  On an existing nonce the
    element keeps its key (hence its key priority) and only the value changes. -/
def sset (t : Tx) : List Tx → List Tx
  | [] => [t]
  | x :: xs =>
    if t.nonce < x.nonce then t :: x :: xs
    else if t.nonce = x.nonce then { x with id := t.id } :: xs
    else x :: sset t xs

/-- `senderTxs.Remove(tk)` -/
def serase (n : Nat) : List Tx → List Tx
  | [] => []
  | x :: xs =>
    if x.nonce < n then x :: serase n xs
    else if x.nonce = n then xs
    else x :: xs

structure Pool where
  pidx    : List PNode
  sidx    : String → List Tx
  scores  : String → Nat → Option Score
  pcounts : Int → Int

def Pool.empty : Pool := ⟨[], fun _ => [], fun _ _ => none, fun _ => 0⟩

def upd {α : Type} (f : String → α) (s : String) (v : α) : String → α :=
  fun x => if x = s then v else f x

def upd2 {α : Type} (f : String → Nat → α) (s : String) (n : Nat) (v : α) : String → Nat → α :=
  fun x y => if x = s ∧ y = n then v else f x y

def bump (f : Int → Int) (p : Int) (d : Int) : Int → Int :=
  fun x => if x = p then f x + d else f x

/-- `CountTx` -/
def Pool.count (mp : Pool) : Nat := mp.pidx.length

/-- `Insert` (after sender, nonce and priority have been derived from the tx) -/
def Pool.insert (mp : Pool) (s : String) (n : Nat) (p : Int) (id : Nat) : Pool :=
  let pre : List PNode × (Int → Int) :=
    match mp.scores s n with
    | some old => (perase ⟨old.prio, old.weight, s, n, 0⟩ mp.pidx, bump mp.pcounts old.prio (-1))
    | none => (mp.pidx, mp.pcounts)
  { pidx    := pset ⟨p, 0, s, n, id⟩ pre.1
    sidx    := upd mp.sidx s (sset ⟨s, n, p, id⟩ (mp.sidx s))
    scores  := upd2 mp.scores s n (some ⟨p, 0⟩)
    pcounts := bump pre.2 p 1 }

/-- `Remove`; the flag is `false` for `ErrTxNotFound` -/
def Pool.remove (mp : Pool) (s : String) (n : Nat) : Pool × Bool :=
  match mp.scores s n with
  | none => (mp, false)
  | some sc =>
    ({ pidx    := perase ⟨sc.prio, sc.weight, s, n, 0⟩ mp.pidx
       sidx    := upd mp.sidx s (serase n (mp.sidx s))
       scores  := upd2 mp.scores s n none
       pcounts := bump mp.pcounts sc.prio (-1) }, true)

/-- the sender list from the element with nonce `n` on (`key.senderElement` and its `Next()`s) -/
def cursorAt (l : List Tx) (n : Nat) : List Tx := l.dropWhile (fun t => t.nonce != n)

/-- `senderWeight`: starts from the element's key priority and overwrites it with every later
    key priority that differs — i.e. it ends as the key priority of the sender's last element -/
def senderWeight : List Tx → Int
  | [] => minInt64
  | e :: rest => rest.foldl (fun w x => if x.prio ≠ w then x.prio else w) e.prio

/-- first loop of `reorderPriorityTies`: the `(deleteKey, insertKey)` pairs -/
def Pool.reorderKeys (mp : Pool) : List (PNode × PNode) :=
  (mp.pidx.filter (fun k => decide (mp.pcounts k.prio > 1))).map
    (fun k => (k, { k with weight := senderWeight (cursorAt (mp.sidx k.sender) k.nonce) }))

/-- one round of the second loop of `reorderPriorityTies` -/
def Pool.reweigh (mp : Pool) (di : PNode × PNode) : Pool :=
  { mp with
    pidx   := pset di.2 (perase di.1 mp.pidx)
    scores := upd2 mp.scores di.2.sender di.2.nonce (some ⟨di.2.prio, di.2.weight⟩) }

def Pool.reorder (mp : Pool) : Pool := mp.reorderKeys.foldl Pool.reweigh mp

def weightOf (scores : String → Nat → Option Score) (s : String) (n : Nat) : Int :=
  match scores s n with
  | some sc => sc.weight
  | none => 0

inductive Verdict where
  | pass | stop | panic
deriving DecidableEq, Repr

/-- the tests in `Next()` for the candidate `e` of sender `s`; `next` is `priorityNode.Next()` -/
def passes (scores : String → Nat → Option Score) (next : Option PNode) (s : String) (e : Tx) : Verdict :=
  match next with
  | none =>
    if e.prio < minInt64 then .stop
    else if e.prio = minInt64 then .panic   -- `i.priorityNode.Next().Key()` on nil
    else .pass
  | some m =>
    if e.prio < m.prio then .stop
    else if e.prio = m.prio ∧ weightOf scores s e.nonce < m.weight then .stop
    else .pass

/-- repeated `Next()` while the priority node stays the same: yields the sender's remaining
    entries while they pass; returns (yielded, remaining, panicked) -/
def drain (scores : String → Nat → Option Score) (next : Option PNode) (s : String) :
    List Tx → List Tx × List Tx × Bool
  | [] => ([], [], false)
  | e :: es =>
    match passes scores next s e with
    | .stop => ([], e :: es, false)
    | .panic => ([], e :: es, true)
    | .pass =>
      let r := drain scores next s es
      (e :: r.1, r.2.1, r.2.2)

/-- `iteratePriority`/`Next` over the remaining priority nodes; `rem s` is what is left of
    sender `s` (`senderCursors`).  Returns (yielded, panicked). -/
def iter (scores : String → Nat → Option Score) :
    List PNode → (String → List Tx) → List Tx × Bool
  | [], _ => ([], false)
  | m :: rest, rem =>
    let r := drain scores rest.head? m.sender (rem m.sender)
    if r.2.2 then (r.1, true)
    else
      let r' := iter scores rest (upd rem m.sender r.2.1)
      (r.1 ++ r'.1, r'.2)

/-- `Select` followed by exhausting the iterator: new pool, yielded transactions, panicked -/
def Pool.select (mp : Pool) : Pool × List Tx × Bool :=
  if mp.pidx.isEmpty then (mp, [], false)
  else
    let mp' := mp.reorder
    (mp', iter mp'.scores mp'.pidx mp'.sidx)

/-! ### the iterator, one `Next()` at a time

`Select` hands out an iterator that the caller advances with `Next()` and may abandon at any
point (`baseapp`'s `PrepareProposal` stops when the block is full: `mempool.SelectBy` falls back
to `for iter != nil && callback(iter.Tx()) { iter = iter.Next() }` for this mempool, without
touching the pool inside the loop).  `advance` is `Next()`/`iteratePriority` literally; `iter`
above is what exhausting it produces (`runIter_eq_iter` in Props/C19). -/

/-- a non-nil `*PriorityNonceIterator` -/
structure Iter where
  /-- `priorityNode` followed by the elements behind it (`priorityNode.Next()`, …) -/
  nodes : List PNode
  /-- per sender the entries behind `senderCursors[s]` (the whole sender index if absent) -/
  rem   : String → List Tx
  /-- `Tx()` = `senderCursors[sender].Value` -/
  cur   : Tx

/-- what `Select` / `Next()` return: `nil`, a nil-dereference panic, or the iterator -/
inductive IterResult where
  | done
  | panic
  | at (it : Iter)

/-- the iterator value is `nil` -/
def IterResult.isDone : IterResult → Bool
  | .done => true
  | _ => false

/-- the call dereferenced nil -/
def IterResult.isPanic : IterResult → Bool
  | .panic => true
  | _ => false

/-- `Tx()` of a non-nil iterator -/
def IterResult.cur? : IterResult → Option Tx
  | .at it => some it.cur
  | _ => none

/-- `Next()` with `priorityNode` = head of the list (`nil` if empty); the recursive calls are
    `iteratePriority()` (advance `priorityNode`, set `sender`/`nextPriority`, call `Next()`). -/
def advance (scores : String → Nat → Option Score) :
    List PNode → (String → List Tx) → IterResult
  | [], _ => .done
  | m :: rest, rem =>
    match rem m.sender with
    | [] => advance scores rest rem
    | e :: es =>
      match passes scores rest.head? m.sender e with
      | .stop => advance scores rest rem
      | .panic => .panic
      | .pass => .at ⟨m :: rest, upd rem m.sender es, e⟩

/-- `it.Next()` -/
def Iter.next (scores : String → Nat → Option Score) (it : Iter) : IterResult :=
  advance scores it.nodes it.rem

/-- `for it != nil && n < k { out = append(out, it.Tx()); n++; it = it.Next() }`:
    what was yielded and the iterator value the loop ends with -/
def runIter (scores : String → Nat → Option Score) : Nat → IterResult → List Tx × IterResult
  | _, .done => ([], .done)
  | _, .panic => ([], .panic)
  | 0, .at it => ([], .at it)
  | k + 1, .at it =>
    let r := runIter scores k (it.next scores)
    (it.cur :: r.1, r.2)

/-- `Select` alone: the pool after `reorderPriorityTies` and the iterator it returns -/
def Pool.selectStart (mp : Pool) : Pool × IterResult :=
  if mp.pidx.isEmpty then (mp, .done)
  else
    let mp' := mp.reorder
    (mp', advance mp'.scores mp'.pidx mp'.sidx)

/-- `Select`, then at most `k` transactions taken from the iterator -/
def Pool.selectN (mp : Pool) (k : Nat) : Pool × List Tx × IterResult :=
  let r := mp.selectStart
  (r.1, runIter r.1.scores k r.2)

/-! ### `TxFeeSkipper` -/

/-- `x/paloma/ante.go: TxFeeSkipper`, the `TxFeeChecker` that `app/app.go` hands to the SDK ante
    handler: `DeductFeeDecorator` puts this value into `ctx.WithPriority` for every CheckTx -/
def appCtxPriority : Int := 42

/-! ### histories -/

inductive Op where
  | insert (s : String) (n : Nat) (p : Int) (id : Nat)
  | remove (s : String) (n : Nat)
  | select
deriving DecidableEq, Repr

def Pool.step (mp : Pool) : Op → Pool
  | .insert s n p id => mp.insert s n p id
  | .remove s n => (mp.remove s n).1
  | .select => mp.select.1

def run (ops : List Op) : Pool := ops.foldl Pool.step Pool.empty

/-- an operation as the application issues it: `Insert(ctx, tx)` derives the priority from the
    type URLs of `tx.GetMsgs()` and `ctx.Priority()` -/
inductive TxOp where
  | insert (s : String) (n : Nat) (urls : List String) (ctxPrio : Int) (id : Nat)
  | remove (s : String) (n : Nat)
  | select
deriving DecidableEq, Repr

def TxOp.toOp : TxOp → Op
  | .insert s n urls c id => .insert s n (txPriority urls c) id
  | .remove s n => .remove s n
  | .select => .select

/-! ### the iterator against the LIVE pool (Insert / Remove / Select while an iterator is in use)

The Go iterator holds pointers: `priorityNode` into the priority index, `senderCursors[s]` into the
sender indices, and the value `nextPriority` it computed when `priorityNode` was last set.  An element
that is unlinked (`skiplist.RemoveElement` → `elem.reset()`) answers `Next() = nil` from then on, but
keeps its key and value; `Set` on an existing key only replaces the value of the SAME element.
`Iter` above is the special case in which the pool does not change while the iterator lives. -/

/-- `nextPriority` as `iteratePriority` sets it -/
def nextPriority : Option PNode → Int
  | none => minInt64
  | some m => m.prio

/-- the tests of `Next()` with the STORED `nextPriority` and the LIVE `priorityNode.Next()` -/
def passesLive (scores : String → Nat → Option Score) (nextPrio : Int) (liveNext : Option PNode)
    (s : String) (e : Tx) : Verdict :=
  if e.prio < nextPrio then .stop
  else if e.prio = nextPrio then
    match liveNext with
    | none => .panic   -- `i.priorityNode.Next().Key()` on nil
    | some m => if weightOf scores s e.nonce < m.weight then .stop else .pass
  else .pass

/-- `senderCursors[s]`: key and current value of the element pointed to; `dead` = unlinked -/
structure Cursor where
  tx   : Tx
  dead : Bool
deriving DecidableEq, Repr

/-- a non-nil `*PriorityNonceIterator` over a pool that may change under it; `sender` is
    `pnode.sender` -/
structure LiveIter where
  /-- key of the element `priorityNode` points to -/
  pnode    : PNode
  /-- that element has been unlinked from the priority index -/
  pdead    : Bool
  /-- `nextPriority` -/
  nextPrio : Int
  /-- `senderCursors`, latest first, one entry per sender -/
  cursors  : List (String × Cursor)
deriving Repr

inductive LiveResult where
  | done
  | panic
  | at (it : LiveIter)
deriving Repr

def cursorOf (cs : List (String × Cursor)) (s : String) : Option Cursor :=
  (cs.find? (fun p => p.1 == s)).map (·.2)

def setCursor (cs : List (String × Cursor)) (s : String) (c : Cursor) : List (String × Cursor) :=
  (s, c) :: cs.filter (fun p => p.1 != s)

/-- what `cursor.Next()`, `cursor.Next().Next()`, … will give for sender `s`: the whole sender index
    if there is no cursor yet, nothing if the cursor element was unlinked, else the elements behind it -/
def liveRem (sidx : String → List Tx) (cs : List (String × Cursor)) (s : String) : List Tx :=
  match cursorOf cs s with
  | none => sidx s
  | some c => if c.dead then [] else (sidx s).dropWhile (fun x => decide (x.nonce ≤ c.tx.nonce))

/-- `priorityNode.Next()`, `.Next().Next()`, …: nothing if the element was unlinked -/
def liveSucc (pidx : List PNode) (it : LiveIter) : List PNode :=
  if it.pdead then [] else (pidx.dropWhile (fun k => keyCmp k it.pnode != .eq)).drop 1

/-- `Tx()` -/
def LiveIter.cur? (it : LiveIter) : Option Tx := (cursorOf it.cursors it.pnode.sender).map (·.tx)

def LiveResult.cur? : LiveResult → Option Tx
  | .at it => it.cur?
  | _ => none

def LiveResult.isPanic : LiveResult → Bool
  | .panic => true
  | _ => false

def LiveResult.iter? : LiveResult → Option LiveIter
  | .at it => some it
  | _ => none

/-- the iterator after `iteratePriority()` found its place (`advance` on the live remainder) -/
def liveOfAdvance (cs : List (String × Cursor)) : IterResult → LiveResult
  | .done => .done
  | .panic => .panic
  | .at x =>
    match x.nodes with
    | [] => .done
    | m :: rest =>
      .at { pnode := m, pdead := false, nextPrio := nextPriority rest.head?,
            cursors := setCursor cs m.sender ⟨x.cur, false⟩ }

/-- `it.Next()` on the pool as it is NOW -/
def LiveIter.next (mp : Pool) (it : LiveIter) : LiveResult :=
  match liveRem mp.sidx it.cursors it.pnode.sender with
  | [] => liveOfAdvance it.cursors (advance mp.scores (liveSucc mp.pidx it) (liveRem mp.sidx it.cursors))
  | e :: _ =>
    match passesLive mp.scores it.nextPrio (liveSucc mp.pidx it).head? it.pnode.sender e with
    | .stop => liveOfAdvance it.cursors (advance mp.scores (liveSucc mp.pidx it) (liveRem mp.sidx it.cursors))
    | .panic => .panic
    | .pass => .at { it with cursors := setCursor it.cursors it.pnode.sender ⟨e, false⟩ }

/-- `Select`: the pool after `reorderPriorityTies` and the live iterator -/
def Pool.liveOpen (mp : Pool) : Pool × LiveResult :=
  (mp.selectStart.1, liveOfAdvance [] mp.selectStart.2)

/-- `priorityIndex.Remove(key)` seen from an iterator: its `priorityNode` dies iff it is the
    element that was unlinked -/
def LiveIter.pErased (it : LiveIter) (pidx : List PNode) (key : PNode) : LiveIter :=
  { it with pdead := it.pdead ||
      (decide ((perase key pidx).length < pidx.length) && keyCmp key it.pnode == .eq) }

/-- `senderTxs.Remove(tk)` seen from the cursors: a cursor on the unlinked element dies -/
def killCursor (s : String) (n : Nat) (present : Bool) (p : String × Cursor) : String × Cursor :=
  if p.1 = s ∧ p.2.tx.nonce = n ∧ present = true then (p.1, { p.2 with dead := true }) else p

/-- `senderIndex.Set(key, tx)` on an existing nonce seen from the cursors: same element, new value -/
def revalueCursor (s : String) (n : Nat) (id : Nat) (p : String × Cursor) : String × Cursor :=
  if p.1 = s ∧ p.2.tx.nonce = n ∧ p.2.dead = false
  then (p.1, { p.2 with tx := { p.2.tx with id := id } }) else p

/-- what `Remove(s, n)` does to an iterator (`mp` is the pool BEFORE the call) -/
def LiveIter.onRemove (it : LiveIter) (mp : Pool) (s : String) (n : Nat) : LiveIter :=
  match mp.scores s n with
  | none => it
  | some sc =>
    { it.pErased mp.pidx ⟨sc.prio, sc.weight, s, n, 0⟩ with
      cursors := it.cursors.map (killCursor s n ((mp.sidx s).any (fun x => x.nonce == n))) }

/-- what `Insert(s, n, …, id)` does to an iterator (`mp` is the pool BEFORE the call): the old
    priority element is unlinked if the key was pending; the sender element of an existing nonce
    keeps its identity and key and gets the new value -/
def LiveIter.onInsert (it : LiveIter) (mp : Pool) (s : String) (n : Nat) (id : Nat) : LiveIter :=
  { (match mp.scores s n with
      | none => it
      | some old => it.pErased mp.pidx ⟨old.prio, old.weight, s, n, 0⟩) with
    cursors := it.cursors.map (revalueCursor s n id) }

/-- `reorderPriorityTies` (second loop) seen from an iterator: every re-weighed element is unlinked
    and linked again as a NEW element -/
def liveReweigh (st : Pool × LiveIter) (di : PNode × PNode) : Pool × LiveIter :=
  (st.1.reweigh di, st.2.pErased st.1.pidx di.1)

/-- what another `Select` does to an iterator (`mp` is the pool BEFORE the call) -/
def LiveIter.onSelect (it : LiveIter) (mp : Pool) : LiveIter :=
  if mp.pidx.isEmpty then it else (mp.reorderKeys.foldl liveReweigh (mp, it)).2

/-- a pool together with at most one iterator in use (`none`: nil, or none taken yet) -/
structure LState where
  pool : Pool
  it   : Option LiveIter

def LState.init : LState := ⟨Pool.empty, none⟩

/-- operations of a caller that interleaves pool operations with the use of an iterator -/
inductive LOp where
  | pool (op : Op)
  | iopen
  | inext
deriving DecidableEq, Repr

/-- the outcome of `iopen` / `inext` as the caller sees it -/
inductive Yield where
  | none            -- pool operation, or no iterator to advance
  | nil             -- the iterator is (now) nil
  | panic
  | tx (t : Tx)     -- `Tx()` of the (new) position
deriving DecidableEq, Repr

def LiveResult.yield : LiveResult → Yield
  | .done => .nil
  | .panic => .panic
  | .at it => match it.cur? with
    | some t => .tx t
    | none => .nil

def LState.step (st : LState) : LOp → LState × Yield
  | .pool (.insert s n p id) =>
    (⟨st.pool.insert s n p id, st.it.map (fun it => it.onInsert st.pool s n id)⟩, .none)
  | .pool (.remove s n) =>
    (⟨(st.pool.remove s n).1, st.it.map (fun it => it.onRemove st.pool s n)⟩, .none)
  | .pool .select =>
    (⟨st.pool.select.1, st.it.map (fun it => it.onSelect st.pool)⟩, .none)
  | .iopen =>
    let r := st.pool.liveOpen
    (⟨r.1, r.2.iter?⟩, r.2.yield)
  | .inext =>
    match st.it with
    | none => (st, .none)
    | some it =>
      let r := it.next st.pool
      (⟨st.pool, r.iter?⟩, r.yield)

/-- state and the list of outcomes (oldest first) after a history -/
def lrunFrom (st : LState) : List LOp → LState × List Yield
  | [] => (st, [])
  | op :: rest =>
    let r := st.step op
    let q := lrunFrom r.1 rest
    (q.1, r.2 :: q.2)

def lrun (ops : List LOp) : LState × List Yield := lrunFrom LState.init ops

end Paloma.Mempool
