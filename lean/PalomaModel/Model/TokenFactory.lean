/-
Model of the token factory (C16):
  x/tokenfactory/types/denoms.go     GetTokenDenom, DeconstructDenom (+ sdk.ValidateDenom)
  x/tokenfactory/types/msgs.go       ValidateBasic of the five messages (libmeta.ValidateBasic)
  x/tokenfactory/keeper/msg_server.go CreateDenom, Mint, Burn, ChangeAdmin, SetDenomMetadata
  x/tokenfactory/keeper/denom.go     validateCreateDenom, chargeForCreateDenom, createDenomAfterValidation
  x/tokenfactory/keeper/bank.go      mintTo, burnFrom
  x/tokenfactory/keeper/admins.go    GetAuthorityMetadata, setAdmin
  x/tokenfactory/bindings/msg_plugin.go PerformCreateDenom, PerformMint, PerformBurn, ChangeAdmin,
                                     PerformSetMetadata (the entry points wasm contracts reach)
  x/paloma/ante.go                   VerifyAuthorisedSignatureDecorator (creator must sign, or must have
                                     granted a fee allowance to a signer)
plus the collaborators the messages touch: the bank ledger (balances, supply, denom metadata,
`MintCoins`/`BurnCoins`/`SendCoins*`, blocked addresses, `MsgSend`), `FundCommunityPool` for the
creation fee, and x/feegrant grant/revoke.

A message is atomic (baseapp runs it on a cached store; a wasm custom message runs inside the
calling message): every step either returns the new state with `Res.ok` or the *unchanged* state
with the error class.  The statement order of the Go code is kept, so that the error class of a
rejected message is predicted as well.

Denominations are strings in Go.  Here a denomination is the list of its `/`-separated parts,
where a part is either the canonical bech32 text of an account (`Part.addr i`, 45 bytes long in
Paloma: `paloma1` + 38) or any other text.  A text part is never a valid bech32 account address
(the harness only uses the addresses of its address table and replaces all of them).
Core Lean only.
-/
namespace Paloma.TokenFactory

abbrev Addr := Nat

inductive Part where
  | addr (a : Addr)
  | txt (s : String)
deriving DecidableEq, Repr

/-- a denomination string, split at `/` (`[]` is not a string; `""` is `[txt ""]`) -/
abbrev Denom := List Part

/-- length of `paloma1…` for a 20 byte address -/
def addrLen : Nat := 45

/-- the tokenfactory module account -/
def moduleAcc : Addr := 100
/-- the distribution module account (community pool) -/
def poolAcc : Addr := 101
/-- `BlockedAddresses()`: module accounts (the harness numbers them from 100) -/
def blocked (a : Addr) : Bool := decide (a ≥ 100)

/-! ### `sdk.ValidateDenom`: `^[a-zA-Z][a-zA-Z0-9/:._-]{2,127}$` -/

def denomCharOk (c : Char) : Bool :=
  c.isAlphanum || c == ':' || c == '.' || c == '_' || c == '-'

def Part.len : Part → Nat
  | .addr _ => addrLen
  | .txt s => s.length

def Part.charsOk : Part → Bool
  | .addr _ => true
  | .txt s => s.toList.all denomCharOk

def Part.startsAlpha : Part → Bool
  | .addr _ => true
  | .txt s => (s.toList.head?.map Char.isAlpha).getD false

/-- byte length of the joined string -/
def denomLen : Denom → Nat
  | [] => 0
  | [p] => p.len
  | p :: q :: ps => p.len + 1 + denomLen (q :: ps)

def validDenom (d : Denom) : Bool :=
  (d.head?.map Part.startsAlpha).getD false && d.all Part.charsOk &&
    decide (3 ≤ denomLen d) && decide (denomLen d ≤ 128)

def factoryPart : Part := .txt "factory"

/-- `DeconstructDenom`: valid denom, at least three parts, prefix `factory`, bech32 creator. -/
def deconstruct (d : Denom) : Option (Addr × Denom) :=
  if !validDenom d then none else
  match d with
  | p0 :: .addr a :: p2 :: rest => if p0 = factoryPart then some (a, p2 :: rest) else none
  | _ => none

def MaxSubdenomLength : Nat := 44

/-- a subdenom argument as a string (`[]` is read as the empty string) -/
def normSub (sub : Denom) : Denom := if sub = [] then [.txt ""] else sub

/-- `factory/{creator}/{subdenom}` -/
def tokenDenom (c : Addr) (sub : Denom) : Denom := factoryPart :: .addr c :: normSub sub

inductive Rej where
  | denomExists   -- tokenfactory 2
  | unauth        -- tokenfactory 3
  | invDenom      -- tokenfactory 4
  | subTooLong    -- tokenfactory 8
  | noDenom       -- tokenfactory 10
  | coins         -- sdk 10 (invalid coins)
  | funds         -- sdk 5 (insufficient funds)
  | pubkey        -- sdk 8 (signature by somebody else than the declared signer)
  | blocked       -- sdk 4 (recipient is a blocked address)
  | other         -- unregistered error (code 1)
deriving DecidableEq, Repr

inductive Res where
  | ok
  | panic
  | rej (r : Rej)
deriving DecidableEq, Repr

/-- `GetTokenDenom` (creator is a valid bech32 address here: ≤ 75 bytes, no `/`) -/
def getTokenDenom (c : Addr) (sub : Denom) : Except Rej Denom :=
  if denomLen (normSub sub) > MaxSubdenomLength then .error .subTooLong
  else if !validDenom (tokenDenom c sub) then .error .other
  else .ok (tokenDenom c sub)

/-! ### state -/

def maxInt : Nat := 2 ^ 256

structure St where
  /-- bank balances -/
  bal : Addr → Denom → Nat
  /-- bank supply (`HasSupply d ↔ supply d > 0`) -/
  supply : Denom → Nat
  /-- `DenomAuthorityMetadata.Admin` (`none` = empty string: never created, or renounced) -/
  admin : Denom → Option Addr
  /-- bank denom metadata: `none` = absent, `some 0` = as written by CreateDenom, `some k` = tag of
      the last SetDenomMetadata -/
  dmeta : Denom → Option Nat
  /-- fee allowances `granter grantee` -/
  grant : Addr → Addr → Bool
  /-- `Params.DenomCreationFee` in ugrain (0 = no fee) -/
  fee : Nat
  /-- ghost: sum of successful mints / burns per denom, denoms created through the factory -/
  minted : Denom → Nat
  burned : Denom → Nat
  created : List Denom

def feeDenom : Denom := [.txt "ugrain"]

def updD {β : Type} (f : Denom → β) (k : Denom) (v : β) : Denom → β :=
  fun x => if x = k then v else f x
def updB (f : Addr → Denom → Nat) (a : Addr) (k : Denom) (v : Nat) : Addr → Denom → Nat :=
  fun x y => if x = a ∧ y = k then v else f x y
def updG (f : Addr → Addr → Bool) (c s : Addr) (v : Bool) : Addr → Addr → Bool :=
  fun x y => if x = c ∧ y = s then v else f x y

/-- `subUnlockedCoins` then `addCoins` (also correct for `a = b`) -/
def St.move (st : St) (a b : Addr) (d : Denom) (n : Nat) : St :=
  let b1 := updB st.bal a d (st.bal a d - n)
  { st with bal := updB b1 b d (b1 b d + n) }

/-- `SendCoins` / `SendCoinsFromAccountToModule` / `SendCoinsFromModuleToAccount` (no blocked check here) -/
def bankSend (st : St) (a b : Addr) (d : Denom) (n : Nat) : St × Res :=
  if st.bal a d < n then (st, .rej .funds) else (st.move a b d n, .ok)

/-- `MintCoins` into a module account -/
def St.mintCoins (st : St) (m : Addr) (d : Denom) (n : Nat) : St :=
  { st with bal := updB st.bal m d (st.bal m d + n), supply := updD st.supply d (st.supply d + n) }

/-- `BurnCoins` from a module account (balance and supply are known to suffice) -/
def St.burnCoins (st : St) (m : Addr) (d : Denom) (n : Nat) : St :=
  { st with bal := updB st.bal m d (st.bal m d - n), supply := updD st.supply d (st.supply d - n) }

/-! ### keeper / message server (the creator `c` is already authenticated) -/

/-- `Keeper.CreateDenom` -/
def hCreate (st : St) (c : Addr) (sub : Denom) : St × Res :=
  if st.supply (normSub sub) > 0 then (st, .rej .other) else     -- HasSupply(subdenom)
  match getTokenDenom c sub with
  | .error e => (st, .rej e)
  | .ok d =>
    if (st.dmeta d).isSome then (st, .rej .denomExists) else
    -- chargeForCreateDenom: FundCommunityPool(fee, creator)
    if st.bal c feeDenom < st.fee then (st, .rej .funds) else
    let s1 := st.move c poolAcc feeDenom st.fee
    -- createDenomAfterValidation
    ({ s1 with dmeta := updD s1.dmeta d (some 0), admin := updD s1.admin d (some c),
               created := d :: s1.created }, .ok)

/-- `msgServer.Mint` + `mintTo` (amount already validated positive) -/
def hMint (st : St) (c : Addr) (d : Denom) (n : Nat) : St × Res :=
  if (st.dmeta d).isNone then (st, .rej .noDenom) else
  if st.admin d ≠ some c then (st, .rej .unauth) else
  if (deconstruct d).isNone then (st, .rej .invDenom) else
  if st.supply d + n ≥ maxInt then (st, .panic) else          -- sdkmath.Int overflow in MintCoins
  if blocked c then (st, .rej .blocked) else                  -- SendCoinsFromModuleToAccount
  let s1 := st.mintCoins moduleAcc d n
  let s2 := s1.move moduleAcc c d n
  ({ s2 with minted := updD s2.minted d (s2.minted d + n) }, .ok)

/-- `msgServer.Burn` + `burnFrom` -/
def hBurn (st : St) (c : Addr) (d : Denom) (n : Nat) : St × Res :=
  if st.admin d ≠ some c then (st, .rej .unauth) else
  if (deconstruct d).isNone then (st, .rej .invDenom) else
  if st.bal c d < n then (st, .rej .funds) else               -- SendCoinsFromAccountToModule
  if st.supply d < n then (st, .panic) else                   -- negative supply in BurnCoins
  let s1 := st.move c moduleAcc d n
  let s2 := s1.burnCoins moduleAcc d n
  ({ s2 with burned := updD s2.burned d (s2.burned d + n) }, .ok)

/-- an address-valued string argument -/
inductive AddrArg where
  | empty
  | bad
  | addr (a : Addr)
deriving DecidableEq, Repr

/-- `msgServer.ChangeAdmin` + `setAdmin` (`DenomAuthorityMetadata.Validate` accepts "" and bech32) -/
def hChAdmin (st : St) (c : Addr) (d : Denom) (new : AddrArg) : St × Res :=
  if st.admin d ≠ some c then (st, .rej .unauth) else
  match new with
  | .bad => (st, .rej .other)
  | .empty => ({ st with admin := updD st.admin d none }, .ok)
  | .addr a => ({ st with admin := updD st.admin d (some a) }, .ok)

/-- `msgServer.SetDenomMetadata` (`mdOk`: the remaining fields of the bank metadata validate) -/
def hSetMeta (st : St) (c : Addr) (d : Denom) (mdOk : Bool) (tag : Nat) : St × Res :=
  if !(mdOk && validDenom d) then (st, .rej .other) else
  if st.admin d ≠ some c then (st, .rej .unauth) else
  ({ st with dmeta := updD st.dmeta d (some tag) }, .ok)

/-! ### transactions: `ValidateBasic`, then the ante chain, then the handler -/

/-- Signature verification and `VerifyAuthorisedSignatureDecorator`.  The transaction is signed by
`s`.  `mode = 0`: `Metadata.Signers = [s]`; `mode = 1`: `Metadata.Signers = [c]` (a forged claim
unless `s = c`). -/
def ante (st : St) (mode : Nat) (s c : Addr) : Option Rej :=
  if mode = 1 then (if s = c then none else some .pubkey)
  else if s = c then none
  else if st.grant c s then none
  else some .other

/-- run `k` behind `ValidateBasic` (`basic = none` means it passes) and the ante chain -/
def gate (st : St) (basic : Option Rej) (mode : Nat) (s c : Addr) (k : St × Res) : St × Res :=
  match basic with
  | some e => (st, .rej e)
  | none =>
    match ante st mode s c with
    | some e => (st, .rej e)
    | none => k

def basicCreate (c : Addr) (sub : Denom) : Option Rej :=
  match getTokenDenom c sub with
  | .error _ => some .invDenom
  | .ok _ => none

/-- `Amount.IsValid() && !Amount.IsZero()` -/
def basicCoin (d : Denom) (amt : Int) : Option Rej :=
  if validDenom d && decide (amt > 0) then none else some .coins

/-- `DeconstructDenom` as a check: the `sdk.ValidateDenom` error is returned unwrapped, the other
failures are wrapped in `ErrInvalidDenom` -/
def basicDenom (d : Denom) : Option Rej :=
  if !validDenom d then some .other
  else if (deconstruct d).isSome then none else some .invDenom

def basicSetMeta (d : Denom) (mdOk : Bool) : Option Rej :=
  if !(mdOk && validDenom d) then some .other
  else if (deconstruct d).isSome then none else some .invDenom

/-! ### wasm bindings (`contractAddr = a`; no ante chain, the contract *is* the sender) -/

/-- `parseAddress` -/
def AddrArg.parse : AddrArg → Option Addr
  | .addr a => some a
  | _ => none

/-- the bank metadata a contract hands to the bindings (`bindings/types.Metadata`), reduced to what
`PerformSetMetadata` and `banktypes.Metadata.Validate` look at:
`base` = `metadata.base` (`none`: the empty string), `body` = the denomination the record describes
itself as (`display` and `denom_units[0].denom`), `ok` = the remaining fields validate (name, symbol,
exponent 0 of the first unit), `tag` = the `Name`.  A contract is free to send a record whose `base`
and `body` name a denomination different from the `denom` field of the message. -/
structure WMeta where
  base : Option Denom
  body : Denom
  ok : Bool
  tag : Nat
deriving Repr

/-- `banktypes.Metadata.Validate` of the record that will be stored under `key` (= `Base`):
name / symbol non-blank, `Base` and `Display` valid denominations, `DenomUnits[0].Denom == Base`
with exponent 0, `Display` among the units.  Every failure is an unregistered error. -/
def bankMetaOk (key body : Denom) (ok : Bool) : Bool :=
  ok && validDenom key && validDenom body && decide (body = key)

/-- `PerformSetMetadata`.  The admin check is on `d` (the `denom` field of the message); the record
that `bank.SetDenomMetaData` writes is keyed by `metadata.Base` — so the code fills an empty base
with `d` and refuses any other base.  The model keeps the write keyed by the base, as the code does:
that it can only ever be `d` is a theorem (`wasm_setmeta_key_is_checked_denom`), not a definition. -/
def wSetMeta (st : St) (a : Addr) (d : Denom) (base : Option Denom) (body : Denom) (mdOk : Bool) (tag : Nat) :
    St × Res :=
  if st.admin d ≠ some a then (st, .rej .other) else
  if base.isSome && base ≠ some d then (st, .rej .other) else
  if !(bankMetaOk (base.getD d) body mdOk) then (st, .rej .other) else
  ({ st with dmeta := updD st.dmeta (base.getD d) (some tag) }, .ok)

/-- `PerformCreateDenom` with optional metadata (`PerformSetMetadata` on the new denomination) -/
def wCreate (st : St) (a : Addr) (sub : Denom) (md : Option WMeta) : St × Res :=
  match basicCreate a sub with
  | some e => (st, .rej e)
  | none =>
    if (hCreate st a sub).2 ≠ .ok then (st, (hCreate st a sub).2) else
    match md with
    | none => hCreate st a sub
    | some m =>
      if (wSetMeta (hCreate st a sub).1 a (tokenDenom a sub) m.base m.body m.ok m.tag).2 ≠ .ok
      then (st, (wSetMeta (hCreate st a sub).1 a (tokenDenom a sub) m.base m.body m.ok m.tag).2)
      else wSetMeta (hCreate st a sub).1 a (tokenDenom a sub) m.base m.body m.ok m.tag

/-- `PerformMint`: mint to the contract, then `bank.SendCoins(contract, recipient)` -/
def wMint (st : St) (a : Addr) (d : Denom) (amt : Int) (to : AddrArg) : St × Res :=
  match to.parse with
  | none => (st, .rej .other)
  | some r =>
    match basicCoin d amt with
    | some e => (st, .rej e)
    | none =>
      if (hMint st a d amt.toNat).2 ≠ .ok then (st, (hMint st a d amt.toNat).2) else
      if (bankSend (hMint st a d amt.toNat).1 a r d amt.toNat).2 ≠ .ok
      then (st, (bankSend (hMint st a d amt.toNat).1 a r d amt.toNat).2)
      else bankSend (hMint st a d amt.toNat).1 a r d amt.toNat

/-- `PerformBurn`: `BurnFromAddress` must be "" or the contract itself -/
def wBurn (st : St) (a : Addr) (d : Denom) (amt : Int) (frm : AddrArg) : St × Res :=
  if frm ≠ .empty ∧ frm ≠ .addr a then (st, .rej .other) else
  match basicCoin d amt with
  | some e => (st, .rej e)
  | none => hBurn st a d amt.toNat

/-- bindings `ChangeAdmin`: the new admin must parse (cannot renounce through the binding) -/
def wChAdmin (st : St) (a : Addr) (d : Denom) (new : AddrArg) : St × Res :=
  match new.parse with
  | none => (st, .rej .other)
  | some n =>
    match basicDenom d with
    | some e => (st, .rej e)
    | none => hChAdmin st a d (.addr n)

/-! ### the other messages of the histories -/

/-- bank `MsgSend` signed by `a` -/
def txSend (st : St) (a b : Addr) (d : Denom) (amt : Int) : St × Res :=
  if !(validDenom d && decide (amt > 0)) then (st, .rej .coins) else
  if blocked b then (st, .rej .blocked) else
  bankSend st a b d amt.toNat

/-- feegrant `MsgGrantAllowance` signed by the granter -/
def txGrant (st : St) (c s : Addr) : St × Res :=
  if c = s then (st, .rej .other) else
  if st.grant c s then (st, .rej .other) else
  ({ st with grant := updG st.grant c s true }, .ok)

/-- feegrant `MsgRevokeAllowance` signed by the granter -/
def txRevoke (st : St) (c s : Addr) : St × Res :=
  if c = s then (st, .rej .other) else
  if !st.grant c s then (st, .rej .other) else
  ({ st with grant := updG st.grant c s false }, .ok)

inductive Op where
  | create (mode : Nat) (s c : Addr) (sub : Denom)
  | mint (mode : Nat) (s c : Addr) (d : Denom) (amt : Int)
  | burn (mode : Nat) (s c : Addr) (d : Denom) (amt : Int)
  | chadmin (mode : Nat) (s c : Addr) (d : Denom) (new : AddrArg)
  | setmeta (mode : Nat) (s c : Addr) (d : Denom) (mdOk : Bool) (tag : Nat)
  | wcreate (a : Addr) (sub : Denom) (md : Option WMeta)
  | wmint (a : Addr) (d : Denom) (amt : Int) (to : AddrArg)
  | wburn (a : Addr) (d : Denom) (amt : Int) (frm : AddrArg)
  | wchadmin (a : Addr) (d : Denom) (new : AddrArg)
  | wsetmeta (a : Addr) (d : Denom) (base : Option Denom) (body : Denom) (mdOk : Bool) (tag : Nat)
  | send (a b : Addr) (d : Denom) (amt : Int)
  | grant (c s : Addr)
  | revoke (c s : Addr)
  | setfee (n : Nat)
deriving Repr

def step (st : St) : Op → St × Res
  | .create mode s c sub => gate st (basicCreate c sub) mode s c (hCreate st c sub)
  | .mint mode s c d amt => gate st (basicCoin d amt) mode s c (hMint st c d amt.toNat)
  | .burn mode s c d amt => gate st (basicCoin d amt) mode s c (hBurn st c d amt.toNat)
  | .chadmin mode s c d new => gate st (basicDenom d) mode s c (hChAdmin st c d new)
  | .setmeta mode s c d mdOk tag => gate st (basicSetMeta d mdOk) mode s c (hSetMeta st c d mdOk tag)
  | .wcreate a sub md => wCreate st a sub md
  | .wmint a d amt to => wMint st a d amt to
  | .wburn a d amt frm => wBurn st a d amt frm
  | .wchadmin a d new => wChAdmin st a d new
  | .wsetmeta a d base body mdOk tag => wSetMeta st a d base body mdOk tag
  | .send a b d amt => txSend st a b d amt
  | .grant c s => txGrant st c s
  | .revoke c s => txRevoke st c s
  | .setfee n => ({ st with fee := n }, .ok)

def run (st : St) : List Op → St
  | [] => st
  | op :: ops => run (step st op).1 ops

/-- a chain state before any factory activity: `bal`, `supply`, `dmeta` of the bank, the creation fee
and the table `gr` of fee allowances that exist already are arbitrary; only the factory's own records
(authority metadata, and the ghost fields) are empty -/
def St.genesis (bal : Addr → Denom → Nat) (supply : Denom → Nat) (dmeta : Denom → Option Nat) (fee : Nat)
    (gr : Addr → Addr → Bool) : St :=
  { bal := bal, supply := supply, admin := fun _ => none, dmeta := dmeta, grant := gr,
    fee := fee, minted := fun _ => 0, burned := fun _ => 0, created := [] }

/-- no fee allowance at all -/
def noGrants : Addr → Addr → Bool := fun _ _ => false

/-! ### vocabulary of the property statements -/

/-- the admin-only actions (message or wasm binding): `(acting account, denomination)` -/
def Op.adminAct : Op → Option (Addr × Denom)
  | .mint _ _ c d _ => some (c, d)
  | .burn _ _ c d _ => some (c, d)
  | .chadmin _ _ c d _ => some (c, d)
  | .setmeta _ _ c d _ _ => some (c, d)
  | .wmint a d _ _ => some (a, d)
  | .wburn a d _ _ => some (a, d)
  | .wchadmin a d _ => some (a, d)
  | .wsetmeta a d _ _ _ _ => some (a, d)
  | _ => none

/-- `(signer, declared creator)` of the tokenfactory transactions -/
def Op.signed : Op → Option (Addr × Addr)
  | .create _ s c _ => some (s, c)
  | .mint _ s c _ _ => some (s, c)
  | .burn _ s c _ _ => some (s, c)
  | .chadmin _ s c _ _ => some (s, c)
  | .setmeta _ s c _ _ _ => some (s, c)
  | _ => none

/-- `(creator, subdenom)` of the create operations -/
def Op.creates : Op → Option (Addr × Denom)
  | .create _ _ c sub => some (c, sub)
  | .wcreate a sub _ => some (a, sub)
  | _ => none

/-- the denomination a create operation is about to create -/
def Op.newDenom (op : Op) : Option Denom := op.creates.map fun p => tokenDenom p.1 p.2

/-- amount a mint operation asks to mint of `d` -/
def Op.mintAmt (op : Op) (d : Denom) : Nat :=
  match op with
  | .mint _ _ _ d' amt => if d' = d then amt.toNat else 0
  | .wmint _ d' amt _ => if d' = d then amt.toNat else 0
  | _ => 0

/-- amount a burn operation asks to burn of `d` -/
def Op.burnAmt (op : Op) (d : Denom) : Nat :=
  match op with
  | .burn _ _ _ d' amt => if d' = d then amt.toNat else 0
  | .wburn _ d' amt _ => if d' = d then amt.toNat else 0
  | _ => 0

/-- the recipient named by the wasm mint binding (`mint_to_address`) -/
def Op.mintTo : Op → Option Addr
  | .wmint _ _ _ (.addr r) => some r
  | _ => none

/-- the denomination a mint / burn operation is aimed at -/
def Op.mintBurnDenom : Op → Option Denom
  | .mint _ _ _ d _ => some d
  | .burn _ _ _ d _ => some d
  | .wmint _ d _ _ => some d
  | .wburn _ d _ _ => some d
  | _ => none

/-- A chain export followed by an import of the token factory's genesis (x/tokenfactory/keeper/genesis.go): for every exported
denomination `InitGenesis` runs `createDenomAfterValidation`, which writes the DEFAULT bank metadata again — a record the
admin had set is lost — and then restores the exported authority metadata.  Balances and supply belong to the bank's own
genesis.  Not an `Op` of the history machine (the property quantifies over messages); the driver applies it for the
harness's `reimport` lines, and Props/C16.lean states what it keeps. -/
def reimport (st : St) : St :=
  -- exported = registered with the factory: factory-shaped and known to the bank (a created denomination always has bank
  -- metadata, and nothing else can give a factory-shaped name one: `wasm_setmeta_key_is_checked_denom`)
  { st with dmeta := fun d => if (deconstruct d).isSome && (st.dmeta d).isSome then some 0 else st.dmeta d }

/-! ### protobuf messages a contract dispatches itself (`CosmosMsg::Any` / Stargate)

Besides the custom bindings above, a contract reaches the token factory by dispatching the protobuf
messages themselves — bare, or inside an `authz.MsgExec` (possibly nested, holding SEVERAL messages):
  util/libwasm/plugin.go      router.DispatchMsg → verifyCreator → verifyCreatorOf (every message, at
                              every position of every MsgExec, must name the contract as metadata.creator;
                              nesting bounded by cMaxNestedMsgDepth = 6), then the wrapped messenger
  wasmd handler_plugin.go     SDKMessageHandler.handleSdkMessage: ValidateBasic, every declared signer must be
                              the contract, msg service router (ValidateBasic again, handler)
  x/authz keeper              Exec / DispatchActions: messages non-empty, every inner message has exactly one
                              signer; if it is the grantee the message runs WITHOUT a grant, else a grant is
                              looked up (the histories contain no authz grant: refused)
No ante handler runs on this path: behind the router the token factory acts for `metadata.creator`
unauthenticated (`TfMsg.exec`); that the creator is the contract is the router's check alone. -/

/-- a token factory message in protobuf form: `sg` = the one entry of `metadata.signers`, `c` = `metadata.creator` -/
inductive TfMsg where
  | create (sg c : Addr) (sub : Denom)
  | mint (sg c : Addr) (d : Denom) (amt : Int)
  | burn (sg c : Addr) (d : Denom) (amt : Int)
  | chadmin (sg c : Addr) (d : Denom) (new : AddrArg)
  | setmeta (sg c : Addr) (d : Denom) (mdOk : Bool) (tag : Nat)
deriving Repr

def TfMsg.signer : TfMsg → Addr
  | .create sg _ _ => sg
  | .mint sg _ _ _ => sg
  | .burn sg _ _ _ => sg
  | .chadmin sg _ _ _ => sg
  | .setmeta sg _ _ _ _ => sg

def TfMsg.creator : TfMsg → Addr
  | .create _ c _ => c
  | .mint _ c _ _ => c
  | .burn _ c _ _ => c
  | .chadmin _ c _ _ => c
  | .setmeta _ c _ _ _ => c

/-- the same message as a transaction signed by its declared signer -/
def TfMsg.op : TfMsg → Op
  | .create sg c sub => .create 0 sg c sub
  | .mint sg c d amt => .mint 0 sg c d amt
  | .burn sg c d amt => .burn 0 sg c d amt
  | .chadmin sg c d new => .chadmin 0 sg c d new
  | .setmeta sg c d mdOk tag => .setmeta 0 sg c d mdOk tag

/-- run `k` behind `ValidateBasic` only (msg service router; no ante chain) -/
def noAnte (st : St) (basic : Option Rej) (k : St × Res) : St × Res :=
  match basic with
  | some e => (st, .rej e)
  | none => k

/-- msg service router: `ValidateBasic`, then the handler acting for `metadata.creator` -/
def TfMsg.exec (st : St) : TfMsg → St × Res
  | .create _ c sub => noAnte st (basicCreate c sub) (hCreate st c sub)
  | .mint _ c d amt => noAnte st (basicCoin d amt) (hMint st c d amt.toNat)
  | .burn _ c d amt => noAnte st (basicCoin d amt) (hBurn st c d amt.toNat)
  | .chadmin _ c d new => noAnte st (basicDenom d) (hChAdmin st c d new)
  | .setmeta _ c d mdOk tag => noAnte st (basicSetMeta d mdOk) (hSetMeta st c d mdOk tag)

mutual
/-- what a contract can put into `CosmosMsg::Any`: a token factory message or an `authz.MsgExec` -/
inductive PMsg where
  | tf (m : TfMsg)
  | exec (grantee : Addr) (msgs : PMsgs)
/-- `MsgExec.Msgs` -/
inductive PMsgs where
  | nil
  | cons (m : PMsg) (ms : PMsgs)
end

def PMsgs.isNil : PMsgs → Bool
  | .nil => true
  | .cons _ _ => false

/-- `cMaxNestedMsgDepth` -/
def maxNest : Nat := 6

mutual
/-- `verifyCreatorOf(contractAddr = a, msg, depth)` (`true` = nil error) -/
def PMsg.verify (a : Addr) : PMsg → Nat → Bool
  | .tf m, _ => decide (m.creator = a)
  | .exec _ ms, depth => if depth ≥ maxNest then false else ms.verify a (depth + 1)
/-- its loop over the inner messages: the first refusal is returned -/
def PMsgs.verify (a : Addr) : PMsgs → Nat → Bool
  | .nil, _ => true
  | .cons m ms, depth => if !(m.verify a depth) then false else ms.verify a depth
end

mutual
/-- one message sent by `sender` (wasmd `handleSdkMessage` for the outermost message, authz `DispatchActions`
for an inner one: the declared signer — `metadata.signers[0]`, the grantee of a `MsgExec` — must be the sender) -/
def PMsg.dispatch (sender : Addr) : PMsg → St → St × Res
  | .tf m, st => if m.signer ≠ sender then (st, .rej .unauth) else m.exec st
  | .exec g ms, st =>
    if g ≠ sender then (st, .rej .unauth) else
    if ms.isNil then (st, .rej .other) else ms.dispatch g st
/-- `DispatchActions`: in order, stopping at the first failure (the caller drops the cached store) -/
def PMsgs.dispatch (sender : Addr) : PMsgs → St → St × Res
  | .nil, st => (st, .ok)
  | .cons m ms, st =>
    if (m.dispatch sender st).2 ≠ .ok then (st, (m.dispatch sender st).2)
    else ms.dispatch sender (m.dispatch sender st).1
end

/-- the contract `a` dispatches `m` as `CosmosMsg::Any`: router check, then the chain; atomic -/
def anyStep (st : St) (a : Addr) (m : PMsg) : St × Res :=
  if !(m.verify a 0) then (st, .rej .unauth) else
  if (m.dispatch a st).2 ≠ .ok then (st, (m.dispatch a st).2) else m.dispatch a st

mutual
/-- the token factory messages of a dispatch, in execution order -/
def PMsg.leaves : PMsg → List TfMsg
  | .tf m => [m]
  | .exec _ ms => ms.leaves
def PMsgs.leaves : PMsgs → List TfMsg
  | .nil => []
  | .cons m ms => m.leaves ++ ms.leaves
end

/-- histories that interleave transactions / binding calls with protobuf dispatches of contracts -/
inductive XOp where
  | op (o : Op)
  | any (a : Addr) (m : PMsg)

def xstep (st : St) : XOp → St × Res
  | .op o => step st o
  | .any a m => anyStep st a m

def xrun (st : St) : List XOp → St
  | [] => st
  | x :: xs => xrun (xstep st x).1 xs

end Paloma.TokenFactory
