//go:build verif

// C14 / C04: assignments OTHER than the first one, and a snapshot that changes between two assignments of
// the same message.
//
// The queue harness only ever looked at the assignment made when a message is first enqueued, under an
// environment that stays fixed for the whole case.  A queued message is assigned again (a) when the evm attester
// retries a failed logic call (an error proof reaches consensus with retries left: the job is enqueued anew
// through the relayer pick) and (b) when Keeper.ReassignOrphanedMessages hands a stale message to the relayer
// picked now (no caller in /repo, but an exported keeper method: the harness calls it as a step of a history, in
// the implementation and in the model).  In between, validators change their accounts, lose or gain the MEV
// trait, leave the snapshot; estimates keep arriving after an election.
//
// Ops (model: `reassign`, `attest` in Model/Queue.lean):
//
//	reassign <ts> <id:mev,…>        ReassignOrphanedMessages at block time ts; the list = messages older than the
//	                                block age (computed here from the heights), each with the MEV demand of its JOB
//	attest <ts> <id:mev:retry,…>    CheckAndProcessAttestedMessages at block time ts; per evidence-bearing logic call
//	                                what its JOB demands and whether retries are left
//
// What a job demands is what this harness asked for when it created the job (keyed by the payload it made up), never
// what the stored message says.  Monitors (the property, evaluated on what the implementation stored):
//
//	C14  reassigned_relayer_is_current_account / retry_relayer_is_current_account: after a (re)assignment the assignee
//	     is in the CURRENT snapshot with a target-chain account (MEV trait when the job demands it), fee and metrics,
//	     and the relayer address the message carries is that account
//	C04  elected_never_changes: the elected estimate of a message, once non-zero, is the same at every later step
package harness

import (
	"fmt"
	"sort"
	"testing"
	"time"

	sdk "github.com/cosmos/cosmos-sdk/types"
	consensustypes "github.com/palomachain/paloma/v2/x/consensus/types"
)

const c14rMaxRetries = 2 // cMaxSubmitLogicCallRetries

type c14rJob struct {
	mev     bool
	retries uint32
}

type c14rCase struct {
	*q06Case
	jobs    map[string]*c14rJob // payload -> what the job demands, as created here
	elected map[uint64]uint64   // message id -> first non-zero elected estimate observed
	known   map[uint64]bool
	reasg   int
	retried int
}

func c14rWrap(c *q06Case) *c14rCase {
	return &c14rCase{q06Case: c, jobs: map[string]*c14rJob{}, elected: map[uint64]uint64{}, known: map[uint64]bool{}}
}

// watch evaluates the C04 clause "once elected never changes" on the stored queue; called after every op.
func (x *c14rCase) watch() {
	for _, m := range x.msgs() {
		id, g := m.GetId(), m.GetGasEstimate()
		x.known[id] = true
		if was, ok := x.elected[id]; ok {
			if g != was {
				x.hit("elected_never_changes", fmt.Sprintf("msg %d: elected estimate was %d, is now %d", id, was, g))
				x.elected[id] = g
				if g == 0 {
					delete(x.elected, id)
				}
			}
		} else if g != 0 {
			x.elected[id] = g
		}
	}
}

func (x *c14rCase) enqJob(sender int, mev bool, retries uint32, ts int64) {
	before := len(x.ids)
	x.opEnqR("s", sender, mev, ts, retries)
	x.jobs[fmt.Sprintf("payload-%d", x.content)] = &c14rJob{mev: mev, retries: retries}
	if len(x.ids) > before {
		x.r.Stat(fmt.Sprintf("c14r.job.mev%s.retries%d", q06B(mev), retries))
	}
	x.watch()
}

// jobOf: what the job behind a stored message demands (mev) and how many attempts it has behind it.
func (x *c14rCase) jobOf(m consensustypes.QueuedSignedMessageI) (bool, uint32) {
	if slc := x.evm(m).GetSubmitLogicCall(); slc != nil {
		if j, ok := x.jobs[string(slc.Payload)]; ok {
			return j.mev, j.retries
		}
	}
	return x.mevOf[m.GetId()], c14rMaxRetries
}

// newEnv: another snapshot / metrics / fee table becomes current (told to the model as it is read back).
func (x *c14rCase) newEnv(e q06Env) {
	if err := x.fx.writeEnv(x.ctx, e); err != nil {
		x.fx.t.Fatal(err)
	}
	x.log = append(x.log, "(new environment)")
	x.obs = x.fx.emitEnv(x.ctx, x.r)
	x.changed = true
	x.r.Stat("c14r.new_env")
}

// age lets k blocks pass without running anything: messages enqueued afterwards are younger.
func (x *c14rCase) age(k int64) {
	x.ctx = x.ctx.WithBlockHeight(x.ctx.BlockHeight() + k)
}

// checkAssigned: the assignment clause of C14 for one message, against the environment as it is NOW.
func (x *c14rCase) checkAssigned(monitor string, id uint64, mev bool) {
	m := x.msg(id)
	if m == nil {
		return
	}
	em := x.evm(m)
	aid := x.fx.idOfValStr(em.Assignee)
	ok, remotes := x.eligible(aid, mev)
	if !ok {
		x.hit(monitor, fmt.Sprintf("msg %d is assigned to %d which is not in the current snapshot with a chain account%s, fee and metrics",
			id, aid, map[bool]string{true: " carrying the MEV trait the job demands", false: ""}[mev]))
		return
	}
	for _, a := range remotes {
		if x.fx.addrStr[a] == em.AssigneeRemoteAddress {
			return
		}
	}
	x.hit(monitor, fmt.Sprintf("msg %d carries relayer address %s which is not the account of its assignee %d in the current snapshot", id, em.AssigneeRemoteAddress, aid))
}

// opReassign: Keeper.ReassignOrphanedMessages(blockAge) at block time ts.
func (x *c14rCase) opReassign(blockAge, ts int64) {
	ctx := x.ctx.WithBlockTime(time.Unix(ts, 0).UTC())
	type due struct {
		id  uint64
		mev bool
	}
	var fl []string
	var dues []due
	for _, m := range x.msgs() {
		if ctx.BlockHeight()-m.GetAddedAtBlockHeight() <= blockAge {
			continue
		}
		mev, _ := x.jobOf(m)
		fl = append(fl, fmt.Sprintf("%d:%s", m.GetId(), q06B(mev)))
		if m.GetPublicAccessData() == nil && m.GetErrorData() == nil {
			dues = append(dues, due{m.GetId(), mev})
		}
	}
	err := x.fx.fa.App().ConsensusKeeper.ReassignOrphanedMessages(ctx, blockAge)
	res := "ok"
	if err != nil {
		res = "fail"
	}
	x.changed = true
	x.op(fmt.Sprintf("reassign %d %s", ts, q06Join(fl, ",")), res+" "+x.queueLine())
	x.r.Stat("c14r.reassign." + res)
	if err == nil {
		for _, d := range dues {
			x.checkAssigned("reassigned_relayer_is_current_account", d.id, d.mev)
			x.reasg++
		}
		if len(dues) > 0 {
			x.r.Stat("c14r.reassign.nonempty")
		}
	}
	x.watch()
}

// opAttest: CheckAndProcessAttestedMessages at block time ts.  Evidence exists on logic calls only (see evidenceOn).
func (x *c14rCase) opAttest(ts int64) {
	ctx := x.ctx.WithBlockTime(time.Unix(ts, 0).UTC())
	var fl []string
	for _, m := range x.msgs() {
		if len(m.GetEvidence()) == 0 {
			continue
		}
		if q06Kind(x.evm(m)) != "s" {
			x.fx.t.Fatalf("c14r: evidence on a message that is not a logic call")
		}
		mev, retries := x.jobOf(m)
		fl = append(fl, fmt.Sprintf("%d:%s:%s", m.GetId(), q06B(mev), q06B(retries < c14rMaxRetries)))
	}
	before := map[uint64]bool{}
	for _, m := range x.msgs() {
		before[m.GetId()] = true
	}
	if err := x.fx.fa.App().ConsensusKeeper.CheckAndProcessAttestedMessages(ctx); err != nil {
		x.fx.t.Fatalf("CheckAndProcessAttestedMessages: %v", err)
	}
	x.changed = true
	x.op(fmt.Sprintf("attest %d %s", ts, q06Join(fl, ",")), x.queueLine())
	x.r.Stat("c14r.attest")
	for _, m := range x.msgs() {
		id := m.GetId()
		if before[id] {
			continue
		}
		// a message this step enqueued: the retry of a job
		x.ids = append(x.ids, id)
		slc := x.evm(m).GetSubmitLogicCall()
		if slc == nil {
			x.hit("retry_is_the_same_job", fmt.Sprintf("msg %d appeared during attestation and is not a logic call", id))
			continue
		}
		j, ok := x.jobs[string(slc.Payload)]
		if !ok {
			x.hit("retry_is_the_same_job", fmt.Sprintf("msg %d appeared during attestation with a payload no job has", id))
			continue
		}
		j.retries++
		x.mevOf[id] = j.mev
		x.retried++
		x.r.Stat("c14r.retry.mev" + q06B(j.mev))
		x.checkAssigned("retry_relayer_is_current_account", id, j.mev)
	}
	x.watch()
}

// evidenceOn: every validator of `who` reports the failed execution of logic call id (error proof h).
func (x *c14rCase) evidenceOn(id uint64, who []int, h int) {
	for _, vi := range who {
		x.opEvid(id, vi, h)
	}
	x.watch()
}

func (x *c14rCase) logicCalls() []uint64 {
	var out []uint64
	for _, m := range x.msgs() {
		if q06Kind(x.evm(m)) == "s" {
			out = append(out, m.GetId())
		}
	}
	return out
}

func (x *c14rCase) estimables() []uint64 {
	var out []uint64
	for _, m := range x.msgs() {
		if m.GetRequireGasEstimation() {
			out = append(out, m.GetId())
		}
	}
	return out
}

// c14rShift derives the environment of a later moment: validators re-register their target-chain account
// (another spelling, another key), gain or lose the MEV trait, leave; sometimes fees or shares move.
func c14rShift(r *Rec, fx *q06Fix, e q06Env) q06Env {
	out := q06Env{metrics: map[int][4]string{}, fees: map[int]string{}, weights: e.weights, community: e.community, security: e.security}
	for k, v := range e.metrics {
		out.metrics[k] = v
	}
	for k, v := range e.fees {
		out.fees[k] = v
	}
	for _, v := range e.vals {
		nv := q06SnapVal{id: v.id, share: v.share, accts: append([]q06Acct(nil), v.accts...)}
		vi, isVal := fx.idVal[v.id]
		switch x := r.Rng.Intn(10); {
		case x < 4 && isVal: // the account on the target chain changes
			for j := range nv.accts {
				if nv.accts[j].chain != 0 {
					continue
				}
				switch r.Rng.Intn(3) {
				case 0: // another spelling of the same address
					nv.accts[j].addr = nv.accts[j].addr/4*4 + (nv.accts[j].addr%4+1)%3
				default: // another key
					k := fx.n + 1 + (vi+r.Rng.Intn(2))%q06ExtraKeys
					nv.accts[j].addr, nv.accts[j].raw = 4*k, 4*k
				}
				break
			}
		case x < 6:
			for j := range nv.accts {
				if nv.accts[j].chain == 0 {
					nv.accts[j].mev = !nv.accts[j].mev
					break
				}
			}
		case x == 6 && len(e.vals) > 1:
			continue // left the snapshot
		case x == 7:
			nv.share = int64(1 + r.Rng.Intn(6))
		}
		out.vals = append(out.vals, nv)
		out.total += nv.share
	}
	if r.Rng.Intn(4) == 0 {
		ids := make([]int, 0, len(out.fees))
		for id := range out.fees {
			ids = append(ids, id)
		}
		sort.Ints(ids)
		if len(ids) > 0 {
			out.fees[ids[r.Rng.Intn(len(ids))]] = r.q06Pick(q06Mults)
		}
	}
	return out
}

// c14rWalk: one random history.  focus "C04": elections, estimates after the election, reassignments; "C14": jobs with
// and without MEV demand, failures with retries left, reassignments, environments that move.
func (x *c14rCase) walk(focus string, env q06Env, nOps int) {
	r := x.r.Rng
	fx := x.fx
	for i := 0; i < 2+r.Intn(3); i++ {
		switch r.Intn(5) {
		case 0:
			x.genPut()
			x.watch()
		case 1:
			x.opEnq("u", r.Intn(len(fx.senders)), false, int64(r.Intn(7)))
			x.watch()
		default:
			x.enqJob(r.Intn(len(fx.senders)), r.Intn(2) == 0, uint32(r.Intn(3)), int64(r.Intn(7)))
		}
	}
	for i := 0; i < nOps; i++ {
		p := r.Intn(100)
		if focus == "C04" && p >= 67 && p < 94 && r.Intn(2) == 0 {
			p = 15 + r.Intn(52) // shift the mix towards reassignment, estimates and elections
		}
		switch {
		case p < 15:
			if r.Intn(3) == 0 {
				env = x.r.q06GenEnv(fx, 1+r.Intn(fx.n))
			} else {
				env = c14rShift(x.r, fx, env)
			}
			x.newEnv(env)
			x.watch()
		case p < 30:
			age := int64(-1)
			if r.Intn(3) == 0 {
				age = int64(r.Intn(3))
			}
			x.opReassign(age, int64(r.Intn(12)))
		case p < 40:
			x.age(int64(1 + r.Intn(3)))
		case p < 55:
			if ids := x.estimables(); len(ids) > 0 {
				x.genEst(ids[r.Intn(len(ids))], r.Intn(3) != 0)
				x.watch()
			}
		case p < 67:
			x.opEndBlock()
			x.watch()
		case p < 79:
			if ids := x.logicCalls(); len(ids) > 0 {
				id := ids[r.Intn(len(ids))]
				if r.Intn(3) == 0 {
					x.opFlag("err", id, r.Intn(fx.n))
				}
				var who []int
				for _, vi := range r.Perm(fx.n) {
					if r.Intn(6) != 0 {
						who = append(who, vi)
					}
				}
				h := 1
				if r.Intn(8) == 0 {
					h = 2
				}
				x.evidenceOn(id, who, h)
			}
		case p < 89:
			x.opAttest(int64(r.Intn(12)))
		case p < 94:
			x.enqJob(r.Intn(len(fx.senders)), r.Intn(2) == 0, uint32(r.Intn(3)), int64(r.Intn(7)))
		case p < 97:
			x.opFlag([]string{"pub", "err"}[r.Intn(2)], x.anyID(), r.Intn(fx.n))
			x.watch()
		default:
			x.opRelay()
		}
	}
	x.opRelay()
}

func (fx *q06Fix) c14rRun(r *Rec, env q06Env, fn func(x *c14rCase)) {
	fx.hookCase(func(ctx sdk.Context) {
		if err := fx.writeEnv(ctx, env); err != nil {
			fx.t.Fatal(err)
		}
		c := fx.begin(ctx, r)
		c.obs = fx.emitEnv(ctx, r)
		c.syncRegs()
		fn(c14rWrap(c))
	})
}

func c14rAll(fx *q06Fix) []int {
	out := make([]int, fx.n)
	for i := range out {
		out[i] = i
	}
	return out
}

// c14rDirected: the situations named in the clauses, at every index of the relayer pool.
func c14rDirected(t *testing.T, r *Rec, fx *q06Fix) {
	// (1) the relayer picked for a stale message is the one that already holds it, but its account on the target
	// chain is another one by now: the message must carry the account of the current snapshot.  Pools of 1..3.
	for pool := 1; pool <= 3; pool++ {
		pool := pool
		env := q06PlainEnv(fx)
		env.vals, env.total = env.vals[:pool], int64(5*pool)
		fx.c14rRun(r, env, func(x *c14rCase) {
			for ts := int64(0); ts < int64(pool); ts++ {
				x.enqJob(1+int(ts)%3, false, 0, ts)
				x.opEnq("u", 0, false, ts)
				x.watch()
			}
			x.genPut()
			x.age(2)
			env2 := q06PlainEnv(fx)
			env2.vals, env2.total = env2.vals[:pool], int64(5*pool)
			for i := range env2.vals {
				e := fx.n + 1 + i
				env2.vals[i].accts = []q06Acct{{chain: 0, addr: 4 * e, raw: 4 * e}}
			}
			x.newEnv(env2)
			for ts := int64(0); ts < int64(pool); ts++ {
				x.opReassign(1, ts) // every pool index once: each message meets its own holder at one of them
			}
			x.opRelay()
			// and once more after the spelling of the address changed only
			for i := range env2.vals {
				env2.vals[i].accts[0].addr++
			}
			x.newEnv(env2)
			x.opReassign(-1, 0)
			x.opRelay()
			r.Case(fmt.Sprintf("c14r|same_holder_new_account|%d", pool), x.reasg > 0)
			r.Stat("directed.c14r_same_holder_new_account")
		})
	}
	// (2) a logic call that demands an MEV relayer fails on the target chain with retries left: the retry is the same
	// job.  Only one validator carries the trait and it is the most expensive one (last in the ranking).
	for ts := int64(0); ts < 3; ts++ {
		ts := ts
		env := q06PlainEnv(fx)
		env.vals, env.total = env.vals[:3], 15
		env.vals[2].accts[0].mev = true
		env.fees[env.vals[2].id] = "3.75"
		fx.c14rRun(r, env, func(x *c14rCase) {
			x.enqJob(1, true, 0, ts)
			x.enqJob(2, false, 1, ts)
			x.enqJob(3, true, 2, ts) // no retries left
			for round := 0; round < 3; round++ {
				for _, id := range x.logicCalls() {
					x.opFlag("err", id, 0)
					x.evidenceOn(id, c14rAll(fx)[:3], 1)
				}
				x.opAttest(ts + int64(round))
				x.opRelay()
			}
			// a retried job that turns stale is reassigned under the same demand
			x.enqJob(1, true, 0, ts)
			for _, id := range x.logicCalls() {
				x.evidenceOn(id, c14rAll(fx)[:3], 1)
			}
			x.opAttest(ts)
			x.age(1)
			for k := int64(0); k < 3; k++ {
				x.opReassign(0, k)
			}
			r.Case(fmt.Sprintf("c14r|retry_keeps_demand|%d", ts), x.retried > 0)
			r.Stat("directed.c14r_retry_keeps_demand")
		})
	}
	// (3) an estimate is elected, further validators hand in theirs afterwards (accepted and stored), the message turns
	// stale and goes to another relayer, the end blocker runs again: the elected estimate is what it was.
	fx.c14rRun(r, q06PlainEnv(fx), func(x *c14rCase) {
		ids := []uint64{x.opPut("o", 0, fx.valID[0], 4, true), x.opPut("v", 0, fx.valID[1], 8, true), x.opPut("s", 1, fx.valID[0], 4, true)}
		x.opEnq("u", 2, false, 3)
		ids = append(ids, x.ids[len(x.ids)-1])
		x.enqJob(3, false, 0, 4)
		ids = append(ids, x.ids[len(x.ids)-1])
		x.watch()
		for _, id := range ids {
			for vi := 0; vi < 4; vi++ {
				x.opEst(id, vi, 21000+100*uint64(vi))
			}
		}
		x.opEndBlock()
		x.watch()
		for _, id := range ids {
			for vi := 4; vi < fx.n; vi++ {
				x.opEst(id, vi, 90000+uint64(vi)) // after the election: moves the median of what is stored
			}
		}
		x.watch()
		x.age(3)
		for ts := int64(1); ts < 4; ts++ {
			x.opReassign(2, ts)
			x.opEndBlock()
			x.watch()
			x.opRelay()
		}
		elected := 0
		for range x.elected {
			elected++
		}
		r.Case("c14r|reassign_after_election", elected > 0)
		r.Stat("directed.c14r_reassign_after_election")
	})
}

// c14rCases: directed histories, then N/6 random ones.
func c14rCases(t *testing.T, r *Rec, fx *q06Fix, focus string) {
	c14rDirected(t, r, fx)
	n := r.N / 6
	if n < 10 {
		n = 10
	}
	for i := 0; i < n; i++ {
		i := i
		maxSnap := fx.n
		if r.Rng.Intn(2) == 0 {
			maxSnap = 1 + r.Rng.Intn(3) // small pools: a reassignment meets the holder again
		}
		env := r.q06GenEnv(fx, maxSnap)
		if i%4 == 0 {
			env = q06PlainEnv(fx)
			for k := range env.vals {
				env.vals[k].accts[0].mev = r.Rng.Intn(3) == 0
				env.fees[env.vals[k].id] = r.q06Pick(q06Mults)
			}
			env.vals = env.vals[:1+r.Rng.Intn(fx.n)]
			env.total = int64(5 * len(env.vals))
		}
		fx.c14rRun(r, env, func(x *c14rCase) {
			x.walk(focus, env, 12+r.Rng.Intn(14))
			r.Case(fmt.Sprintf("c14r|%s|%d|%d", focus, i, len(x.log)), x.reasg+x.retried > 0)
			r.Stat("case.c14r")
		})
	}
}
