//go:build verif

package harness

import (
	"encoding/hex"
	"fmt"
	"math"
	"math/big"
	"os"
	"path/filepath"
	"reflect"
	"runtime"
	"sort"
	"strconv"
	"strings"
	"testing"

	sdkmath "cosmossdk.io/math"
	sdk "github.com/cosmos/cosmos-sdk/types"
	"github.com/ethereum/go-ethereum/accounts/abi"
	"github.com/ethereum/go-ethereum/common"
	"github.com/ethereum/go-ethereum/crypto"
	"github.com/palomachain/paloma/v2/x/consensus/keeper/consensus"
	"github.com/palomachain/paloma/v2/x/consensus/keeper/filters"
	consensustypes "github.com/palomachain/paloma/v2/x/consensus/types"
	evmkeeper "github.com/palomachain/paloma/v2/x/evm/keeper"
	evmtypes "github.com/palomachain/paloma/v2/x/evm/types"
	skywaytypes "github.com/palomachain/paloma/v2/x/skyway/types"
)

// C05 — signing bytes bind every delivered value; queue ids are unique and increasing.
// Model: lean/PalomaModel/Model/SignBytes.lean (+ Model/Keccak.lean), driver lean/Driver/C05.lean.
//
// Pure layer: random evmtypes.Message values of every action type and random skyway
// OutgoingTxBatch values; the REAL Message.Keccak256WithSignedMessage / GetCheckpoint digest
// is recorded and compared with the digest the Lean model computes from the same Go-level
// field values (strings travel as hex of their bytes).
// Keeper layer (full app): PutMessageInQueue / MsgIDToReplace / DeleteJob on the queues of
// three EVM chains; ids compared with the model's shared counter.

// ---------- protocol formatting ----------

func c05X(b []byte) string { return "x" + hex.EncodeToString(b) }

func c05XList(bs [][]byte) string {
	if len(bs) == 0 {
		return "-"
	}
	s := make([]string, len(bs))
	for i, b := range bs {
		s[i] = c05X(b)
	}
	return strings.Join(s, ",")
}

func c05Fees(f *evmtypes.Fees) string {
	if f == nil {
		return "n"
	}
	return fmt.Sprintf("%d:%d:%d", f.RelayerFee, f.CommunityFee, f.SecurityFee)
}

// c05Msg is a Go-level message plus the two values read from the queue wrapper.
type c05Msg struct {
	kind      string // uv slc up usc ch
	turnstone string
	relayer   string
	id, est   uint64
	// uv
	validators []string
	powers     []uint64
	valsetID   uint64
	// slc / usc
	contract string // HexContractAddress / DeployerAddress
	payload  []byte // Payload / Bytecode
	fees     *evmtypes.Fees
	sender   []byte
	deadline int64
	// ch
	calls []evmtypes.CompassHandover_ForwardCallArgs
	// up only: delivered but not signed
	ctor []byte
}

func (m *c05Msg) clone() *c05Msg {
	c := *m
	c.validators = append([]string(nil), m.validators...)
	c.powers = append([]uint64(nil), m.powers...)
	c.payload = append([]byte(nil), m.payload...)
	c.sender = append([]byte(nil), m.sender...)
	c.ctor = append([]byte(nil), m.ctor...)
	if m.fees != nil {
		f := *m.fees
		c.fees = &f
	}
	c.calls = nil
	for _, a := range m.calls {
		c.calls = append(c.calls, evmtypes.CompassHandover_ForwardCallArgs{HexContractAddress: a.HexContractAddress, Payload: append([]byte(nil), a.Payload...)})
	}
	return &c
}

func (m *c05Msg) line() string {
	head := fmt.Sprintf("sb %s %s %s %d %d", m.kind, c05X([]byte(m.turnstone)), c05X([]byte(m.relayer)), m.id, m.est)
	switch m.kind {
	case "uv":
		vs := make([][]byte, len(m.validators))
		for i, v := range m.validators {
			vs[i] = []byte(v)
		}
		return fmt.Sprintf("%s %s %s %d", head, c05XList(vs), u64List(m.powers), m.valsetID)
	case "slc", "usc":
		return fmt.Sprintf("%s %s %s %s %s %d", head, c05X([]byte(m.contract)), c05X(m.payload), c05Fees(m.fees), c05X(m.sender), m.deadline)
	case "up":
		return fmt.Sprintf("%s %s", head, c05X(m.payload))
	case "ch":
		cs := "-"
		if len(m.calls) > 0 {
			s := make([]string, len(m.calls))
			for i, a := range m.calls {
				s[i] = c05X([]byte(a.HexContractAddress)) + ":" + c05X(a.Payload)
			}
			cs = strings.Join(s, ",")
		}
		return fmt.Sprintf("%s %s %d", head, cs, m.deadline)
	}
	panic("kind")
}

func (m *c05Msg) real() (*evmtypes.Message, *consensustypes.QueuedSignedMessage) {
	msg := &evmtypes.Message{TurnstoneID: m.turnstone, ChainReferenceID: "test-chain", AssigneeRemoteAddress: m.relayer}
	switch m.kind {
	case "uv":
		msg.Action = &evmtypes.Message_UpdateValset{UpdateValset: &evmtypes.UpdateValset{Valset: &evmtypes.Valset{
			Validators: m.validators, Powers: m.powers, ValsetID: m.valsetID,
		}}}
	case "slc":
		msg.Action = &evmtypes.Message_SubmitLogicCall{SubmitLogicCall: &evmtypes.SubmitLogicCall{
			HexContractAddress: m.contract, Payload: m.payload, Deadline: m.deadline, SenderAddress: m.sender, Fees: m.fees,
		}}
	case "up":
		msg.Action = &evmtypes.Message_UploadSmartContract{UploadSmartContract: &evmtypes.UploadSmartContract{
			Bytecode: m.payload, ConstructorInput: m.ctor, Abi: "[]", Id: 1,
		}}
	case "usc":
		msg.Action = &evmtypes.Message_UploadUserSmartContract{UploadUserSmartContract: &evmtypes.UploadUserSmartContract{
			Bytecode: m.payload, DeployerAddress: m.contract, Deadline: m.deadline, SenderAddress: m.sender, Fees: m.fees,
		}}
	case "ch":
		msg.Action = &evmtypes.Message_CompassHandover{CompassHandover: &evmtypes.CompassHandover{
			ForwardCallArgs: m.calls, Deadline: m.deadline,
		}}
	}
	return msg, &consensustypes.QueuedSignedMessage{Id: m.id, GasEstimate: m.est}
}

// sign runs the real Keccak256WithSignedMessage; "panic" when it panics.
func (m *c05Msg) sign() (out string) {
	defer func() {
		if rec := recover(); rec != nil {
			out = "panic"
		}
	}()
	msg, q := m.real()
	h, err := msg.Keccak256WithSignedMessage(q)
	if err != nil {
		return "error"
	}
	return hex.EncodeToString(h)
}

// ---------- generators ----------

func c05Bytes(r *Rec, n int) []byte {
	b := make([]byte, n)
	switch r.Rng.Intn(4) {
	case 0: // zeros
	case 1:
		for i := range b {
			b[i] = 0xff
		}
	default:
		r.Rng.Read(b)
	}
	return b
}

var c05Lens = []int{0, 1, 2, 19, 20, 21, 31, 32, 33, 63, 64, 65, 100}

func c05Len(r *Rec) int { return c05Lens[r.Rng.Intn(len(c05Lens))] }

// c05AddrStr: an address STRING as the Go code receives it; mostly valid, sometimes in one
// of the lossy shapes of common.HexToAddress.
func c05AddrStr(r *Rec) string {
	raw := make([]byte, 20)
	r.Rng.Read(raw)
	if r.Rng.Intn(8) == 0 {
		raw = make([]byte, 20) // zero address
	}
	h := hex.EncodeToString(raw)
	switch r.Rng.Intn(14) {
	case 0:
		r.Stat("addr:noprefix")
		return h
	case 1:
		r.Stat("addr:0X")
		return "0X" + strings.ToUpper(h)
	case 2:
		r.Stat("addr:checksum")
		return common.BytesToAddress(raw).Hex()
	case 3:
		r.Stat("addr:odd")
		return "0x" + h[1:]
	case 4:
		r.Stat("addr:short")
		return "0x" + h[:2*r.Rng.Intn(20)]
	case 5:
		r.Stat("addr:long")
		return "0x" + hex.EncodeToString(c05Bytes(r, 1+r.Rng.Intn(16))) + h
	case 6:
		r.Stat("addr:badchar")
		i := r.Rng.Intn(len(h))
		return "0x" + h[:i] + string([]byte{"gzGx -\x00\xff"[r.Rng.Intn(8)]}) + h[i+1:]
	case 7:
		r.Stat("addr:empty")
		return ""
	case 8:
		r.Stat("addr:junk")
		return string(c05Bytes(r, r.Rng.Intn(50)))
	case 9:
		r.Stat("addr:0x-only")
		return "0x"
	default:
		r.Stat("addr:valid")
		return "0x" + h
	}
}

func c05I64(r *Rec) int64 {
	switch r.Rng.Intn(8) {
	case 0:
		return 0
	case 1:
		return -1
	case 2:
		return math.MinInt64
	case 3:
		return math.MaxInt64
	case 4:
		return -r.Rng.Int63()
	default:
		return 1_700_000_000 + r.Rng.Int63n(1<<30)
	}
}

func c05FeesGen(r *Rec) *evmtypes.Fees {
	switch r.Rng.Intn(6) {
	case 0:
		r.Stat("fees:nil")
		return nil
	case 1:
		r.Stat("fees:default-triple")
		return &evmtypes.Fees{RelayerFee: 100_000, CommunityFee: 100_000, SecurityFee: 100_000}
	case 2:
		r.Stat("fees:zero")
		return &evmtypes.Fees{}
	default:
		return &evmtypes.Fees{RelayerFee: r.U64(), CommunityFee: r.U64(), SecurityFee: r.U64()}
	}
}

func c05Est(r *Rec) uint64 {
	switch r.Rng.Intn(5) {
	case 0:
		return 0
	case 1:
		return 300_000
	case 2:
		return 299_999 + uint64(r.Rng.Intn(3))
	default:
		return r.U64()
	}
}

func c05Sender(r *Rec) []byte {
	switch r.Rng.Intn(10) {
	case 0:
		return nil
	case 1:
		return c05Bytes(r, 32)
	case 2:
		r.Stat("sender:too-long")
		return c05Bytes(r, 33+r.Rng.Intn(4))
	case 3:
		return c05Bytes(r, 1+r.Rng.Intn(31))
	default:
		return c05Bytes(r, 20)
	}
}

func c05GenMsg(r *Rec, kind string) *c05Msg {
	m := &c05Msg{kind: kind, id: r.U64(), est: c05Est(r), relayer: c05AddrStr(r)}
	m.turnstone = string(c05Bytes(r, c05Len(r)))
	if r.Rng.Intn(3) == 0 {
		m.turnstone = "compass-" + strconv.Itoa(r.Rng.Intn(100))
	}
	switch kind {
	case "uv":
		n := r.Rng.Intn(6)
		if r.Rng.Intn(10) == 0 {
			n = 20 + r.Rng.Intn(20)
		}
		for i := 0; i < n; i++ {
			m.validators = append(m.validators, c05AddrStr(r))
		}
		np := n
		if r.Rng.Intn(8) == 0 { // the Go code does not require equal lengths
			np = r.Rng.Intn(6)
			r.Stat("uv:len-mismatch")
		}
		for i := 0; i < np; i++ {
			m.powers = append(m.powers, r.U64())
		}
		m.valsetID = r.U64()
	case "slc", "usc":
		m.contract = c05AddrStr(r)
		m.payload = c05Bytes(r, c05Len(r))
		m.fees = c05FeesGen(r)
		m.sender = c05Sender(r)
		m.deadline = c05I64(r)
	case "up":
		m.payload = c05Bytes(r, c05Len(r))
		m.ctor = c05Bytes(r, 32*r.Rng.Intn(3))
	case "ch":
		n := r.Rng.Intn(4)
		for i := 0; i < n; i++ {
			m.calls = append(m.calls, evmtypes.CompassHandover_ForwardCallArgs{HexContractAddress: c05AddrStr(r), Payload: c05Bytes(r, c05Len(r))})
		}
		m.deadline = c05I64(r)
	}
	return m
}

// ---------- mutations: change ONE delivered value (at the ABI level) ----------

func c05FreshAddr(r *Rec, old string) string {
	for {
		b := make([]byte, 20)
		r.Rng.Read(b)
		s := "0x" + hex.EncodeToString(b)
		// one time in three a spelling that is not the canonical 40 digits: shorter (odd and even lengths), without or with
		// an upper-case prefix, upper-case digits - go-ethereum's HexToAddress reads all of them, and what is delivered to
		// the remote contract is the address it reads
		if r.Rng.Intn(3) == 0 {
			digits := hex.EncodeToString(b)[:1+r.Rng.Intn(40)]
			if r.Rng.Intn(3) == 0 {
				digits = strings.ToUpper(digits)
			}
			s = []string{"0x", "0X", ""}[r.Rng.Intn(3)] + digits
			r.Stat("addr.non_canonical_spelling")
		}
		if common.HexToAddress(s) != common.HexToAddress(old) {
			return s
		}
	}
}

func c05B32(s string) (out [32]byte) { copy(out[:], s); return }

func c05FreshTurnstone(r *Rec, old string) string {
	for {
		var s string
		switch r.Rng.Intn(3) {
		case 0: // flip one of the first 32 bytes
			b := []byte(old)
			for len(b) < 32 {
				b = append(b, 0)
			}
			b[r.Rng.Intn(32)] ^= byte(1 + r.Rng.Intn(255))
			s = string(b)
		case 1:
			s = old + string([]byte{byte(1 + r.Rng.Intn(255))})
		default:
			s = string(c05Bytes(r, 1+r.Rng.Intn(32)))
		}
		if c05B32(s) != c05B32(old) {
			return s
		}
	}
}

func c05FreshU64(r *Rec, old uint64) uint64 {
	for {
		var v uint64
		switch r.Rng.Intn(3) {
		case 0:
			v = old + 1
		case 1:
			v = old ^ (1 << uint(r.Rng.Intn(64)))
		default:
			v = r.U64()
		}
		if v != old {
			return v
		}
	}
}

// effective estimate as handed to the contract by the signing scheme (0 → 300000): the
// mutation must change THIS value, 0 ↔ 300000 is the documented deliberate collision.
func c05EffEst(e uint64) uint64 {
	if e == 0 {
		return 300_000
	}
	return e
}

func c05FreshBytes(r *Rec, old []byte) []byte {
	b := append([]byte(nil), old...)
	switch {
	case len(b) == 0 || r.Rng.Intn(3) == 0:
		return append(b, byte(r.Rng.Intn(256))) // length change (also a trailing zero)
	case r.Rng.Intn(2) == 0:
		return b[:len(b)-1]
	default:
		b[r.Rng.Intn(len(b))] ^= byte(1 + r.Rng.Intn(255))
		return b
	}
}

// c05Fields lists the mutable delivered fields of a message.
func c05Fields(m *c05Msg) []string {
	switch m.kind {
	case "uv":
		f := []string{"turnstone", "relayer", "estimate", "valsetid", "add-validator", "add-power"}
		if len(m.validators) > 0 {
			f = append(f, "validator", "drop-validator")
		}
		if len(m.powers) > 0 {
			f = append(f, "power", "drop-power")
		}
		if len(m.validators) > 1 {
			f = append(f, "swap-validators")
		}
		if len(m.validators) > 1 && len(m.powers) == len(m.validators) {
			f = append(f, "swap-members")
		}
		return f
	case "slc", "usc":
		return []string{"turnstone", "relayer", "id", "contract", "payload", "fee-relayer", "fee-community", "fee-security", "fees-all-zero", "sender", "deadline"}
	case "up":
		return []string{"id", "bytecode"}
	case "ch":
		f := []string{"relayer", "estimate", "deadline", "add-call"}
		if len(m.calls) > 0 {
			f = append(f, "call-target", "call-payload", "drop-call")
		}
		return f
	}
	return nil
}

// c05Mutate applies one field mutation; false when it cannot change the delivered value.
func c05Mutate(r *Rec, m *c05Msg, field string) bool {
	switch field {
	case "turnstone":
		m.turnstone = c05FreshTurnstone(r, m.turnstone)
	case "relayer":
		m.relayer = c05FreshAddr(r, m.relayer)
	case "id":
		m.id = c05FreshU64(r, m.id)
	case "estimate":
		for {
			e := c05FreshU64(r, m.est)
			if c05EffEst(e) != c05EffEst(m.est) {
				m.est = e
				break
			}
		}
	case "valsetid":
		m.valsetID = c05FreshU64(r, m.valsetID)
	case "validator":
		i := r.Rng.Intn(len(m.validators))
		m.validators[i] = c05FreshAddr(r, m.validators[i])
	case "add-validator":
		m.validators = append(m.validators, c05AddrStr(r))
	case "drop-validator":
		m.validators = m.validators[:len(m.validators)-1]
	case "swap-validators":
		i := r.Rng.Intn(len(m.validators) - 1)
		if common.HexToAddress(m.validators[i]) == common.HexToAddress(m.validators[i+1]) {
			return false
		}
		m.validators[i], m.validators[i+1] = m.validators[i+1], m.validators[i]
	case "swap-members":
		// two neighbouring members change places, address AND power: the remote contract is handed the arrays in the order
		// listed and checks them against the checkpoint in that order, so the order of the members is a delivered value
		if len(m.validators) < 2 || len(m.powers) != len(m.validators) {
			return false // an earlier mutation of the same step changed the lists
		}
		i := r.Rng.Intn(len(m.validators) - 1)
		if common.HexToAddress(m.validators[i]) == common.HexToAddress(m.validators[i+1]) && m.powers[i] == m.powers[i+1] {
			return false
		}
		m.validators[i], m.validators[i+1] = m.validators[i+1], m.validators[i]
		m.powers[i], m.powers[i+1] = m.powers[i+1], m.powers[i]
	case "power":
		i := r.Rng.Intn(len(m.powers))
		m.powers[i] = c05FreshU64(r, m.powers[i])
	case "add-power":
		m.powers = append(m.powers, r.U64())
	case "drop-power":
		m.powers = m.powers[:len(m.powers)-1]
	case "contract":
		m.contract = c05FreshAddr(r, m.contract)
	case "payload", "bytecode":
		m.payload = c05FreshBytes(r, m.payload)
	case "fees-all-zero":
		// fees that are PRESENT and all zero are delivered as zeros - not as the defaults an absent fee record stands for
		if m.fees != nil && m.fees.RelayerFee == 0 && m.fees.CommunityFee == 0 && m.fees.SecurityFee == 0 {
			return false
		}
		m.fees = &evmtypes.Fees{}
	case "fee-relayer", "fee-community", "fee-security":
		if m.fees == nil { // explicit default triple first: same delivered values
			m.fees = &evmtypes.Fees{RelayerFee: 100_000, CommunityFee: 100_000, SecurityFee: 100_000}
		}
		switch field {
		case "fee-relayer":
			m.fees.RelayerFee = c05FreshU64(r, m.fees.RelayerFee)
		case "fee-community":
			m.fees.CommunityFee = c05FreshU64(r, m.fees.CommunityFee)
		default:
			m.fees.SecurityFee = c05FreshU64(r, m.fees.SecurityFee)
		}
	case "sender":
		if len(m.sender) > 32 {
			return false
		}
		// change the 32-byte left-padded value: flip a byte of a 32-byte rendering
		b := append(make([]byte, 32-len(m.sender)), m.sender...)
		b[r.Rng.Intn(32)] ^= byte(1 + r.Rng.Intn(255))
		m.sender = b
	case "deadline":
		for {
			d := c05I64(r)
			if d != m.deadline {
				m.deadline = d
				break
			}
		}
	case "add-call":
		m.calls = append(m.calls, evmtypes.CompassHandover_ForwardCallArgs{HexContractAddress: c05AddrStr(r), Payload: c05Bytes(r, c05Len(r))})
	case "drop-call":
		m.calls = m.calls[:len(m.calls)-1]
	case "call-target":
		i := r.Rng.Intn(len(m.calls))
		m.calls[i].HexContractAddress = c05FreshAddr(r, m.calls[i].HexContractAddress)
	case "call-payload":
		i := r.Rng.Intn(len(m.calls))
		m.calls[i].Payload = c05FreshBytes(r, m.calls[i].Payload)
	default:
		panic(field)
	}
	return true
}

// ---------- skyway batches ----------

type c05Batch struct {
	turnstone string
	token     string
	dests     []string
	txTokens  []string
	amounts   []sdkmath.Int
	nonce     uint64
	timeout   uint64
	relayer   []byte
	est       uint64
}

func (b *c05Batch) clone() *c05Batch {
	c := *b
	c.dests = append([]string(nil), b.dests...)
	c.txTokens = append([]string(nil), b.txTokens...)
	c.amounts = append([]sdkmath.Int(nil), b.amounts...)
	c.relayer = append([]byte(nil), b.relayer...)
	return &c
}

func c05StrList(ss []string) string {
	bs := make([][]byte, len(ss))
	for i, s := range ss {
		bs[i] = []byte(s)
	}
	return c05XList(bs)
}

func (b *c05Batch) line() string {
	am := "-"
	if len(b.amounts) > 0 {
		s := make([]string, len(b.amounts))
		for i, a := range b.amounts {
			s[i] = a.String()
		}
		am = strings.Join(s, ",")
	}
	return fmt.Sprintf("sb batch %s %s %s %s %s %d %d %s %d", c05X([]byte(b.turnstone)), c05X([]byte(b.token)),
		c05StrList(b.dests), c05StrList(b.txTokens), am, b.nonce, b.timeout, c05X(b.relayer), b.est)
}

var c05SenderBech = sdk.AccAddress(make([]byte, 20))

func (b *c05Batch) checkpoint() (out string) {
	defer func() {
		if rec := recover(); rec != nil {
			out = "panic"
		}
	}()
	ob := skywaytypes.OutgoingTxBatch{
		BatchNonce: b.nonce, BatchTimeout: b.timeout, TokenContract: b.token, ChainReferenceId: "test-chain",
		AssigneeRemoteAddress: b.relayer, GasEstimate: b.est,
	}
	for i := range b.dests {
		ob.Transactions = append(ob.Transactions, skywaytypes.OutgoingTransferTx{
			Id: uint64(i + 1), Sender: c05SenderBech.String(), DestAddress: b.dests[i],
			Erc20Token:      skywaytypes.ERC20Token{Contract: b.txTokens[i], Amount: b.amounts[i], ChainReferenceId: "test-chain"},
			BridgeTaxAmount: sdkmath.ZeroInt(),
		})
	}
	h, err := ob.GetCheckpoint(b.turnstone)
	if err != nil {
		return "error"
	}
	return hex.EncodeToString(h)
}

// address string accepted by libeth.ValidateEthAddress, in one of its accepted spellings
func c05ValidAddr(r *Rec) string {
	raw := make([]byte, 20)
	r.Rng.Read(raw)
	h := hex.EncodeToString(raw)
	switch r.Rng.Intn(5) {
	case 0:
		return h
	case 1:
		return "0X" + strings.ToUpper(h)
	case 2:
		return common.BytesToAddress(raw).Hex()
	default:
		return "0x" + h
	}
}

func c05Amount(r *Rec) sdkmath.Int {
	switch r.Rng.Intn(8) {
	case 0:
		return sdkmath.ZeroInt()
	case 1:
		return sdkmath.NewIntFromBigInt(pow2(256).Sub(pow2(256), bi(1)))
	case 2:
		return sdkmath.NewIntFromBigInt(pow2(uint(64 + r.Rng.Intn(190))))
	default:
		return sdkmath.NewIntFromUint64(r.U64())
	}
}

func c05GenBatch(r *Rec) *c05Batch {
	b := &c05Batch{nonce: r.U64(), timeout: r.U64(), est: c05Est(r)}
	b.turnstone = string(c05Bytes(r, c05Len(r)))
	b.token = c05ValidAddr(r)
	n := r.Rng.Intn(5)
	if r.Rng.Intn(10) == 0 {
		n = 10 + r.Rng.Intn(90)
	}
	for i := 0; i < n; i++ {
		b.dests = append(b.dests, c05ValidAddr(r))
		b.txTokens = append(b.txTokens, b.token)
		b.amounts = append(b.amounts, c05Amount(r))
	}
	switch r.Rng.Intn(8) {
	case 0:
		b.relayer = nil
	case 1:
		b.relayer = c05Bytes(r, 1+r.Rng.Intn(19))
	case 2:
		b.relayer = c05Bytes(r, 21+r.Rng.Intn(12))
	default:
		b.relayer = c05Bytes(r, 20)
	}
	// malformed stream: rejected by ToInternal
	if r.Rng.Intn(6) == 0 {
		r.Stat("batch:malformed")
		switch k := r.Rng.Intn(4); {
		case k == 0:
			b.token = c05AddrStr(r)
		case k == 1 && n > 0:
			b.dests[r.Rng.Intn(n)] = c05AddrStr(r)
		case k == 2 && n > 0:
			b.txTokens[r.Rng.Intn(n)] = c05AddrStr(r)
		case k == 3 && n > 0:
			b.amounts[r.Rng.Intn(n)] = sdkmath.NewInt(-1 - r.Rng.Int63n(5))
		}
	}
	return b
}

func c05BatchFields(b *c05Batch) []string {
	f := []string{"turnstone", "token", "nonce", "timeout", "relayer", "estimate", "add-tx"}
	if len(b.dests) > 0 {
		f = append(f, "dest", "amount", "drop-tx")
	}
	return f
}

func c05MutateBatch(r *Rec, b *c05Batch, field string) bool {
	switch field {
	case "turnstone":
		b.turnstone = c05FreshTurnstone(r, b.turnstone)
	case "token":
		old := b.token
		b.token = c05FreshAddr(r, old)
		for i := range b.txTokens {
			if b.txTokens[i] == old {
				b.txTokens[i] = b.token
			}
		}
	case "nonce":
		b.nonce = c05FreshU64(r, b.nonce)
	case "timeout":
		b.timeout = c05FreshU64(r, b.timeout)
	case "relayer":
		old := common.BytesToAddress(b.relayer)
		for {
			nb := c05Bytes(r, 20)
			if common.BytesToAddress(nb) != old {
				b.relayer = nb
				break
			}
		}
	case "estimate":
		for {
			e := c05FreshU64(r, b.est)
			if c05EffEst(e) != c05EffEst(b.est) {
				b.est = e
				break
			}
		}
	case "add-tx":
		b.dests = append(b.dests, c05ValidAddr(r))
		b.txTokens = append(b.txTokens, b.token)
		b.amounts = append(b.amounts, c05Amount(r))
	case "drop-tx":
		n := len(b.dests) - 1
		b.dests, b.txTokens, b.amounts = b.dests[:n], b.txTokens[:n], b.amounts[:n]
	case "dest":
		i := r.Rng.Intn(len(b.dests))
		b.dests[i] = c05FreshAddr(r, b.dests[i])
	case "amount":
		i := r.Rng.Intn(len(b.amounts))
		if b.amounts[i].IsNegative() {
			return false
		}
		if b.amounts[i].BigInt().BitLen() >= 256 {
			b.amounts[i] = b.amounts[i].SubRaw(1)
		} else {
			b.amounts[i] = b.amounts[i].AddRaw(1)
		}
	default:
		panic(field)
	}
	return true
}

// ---------- the test ----------

func TestC05(t *testing.T) {
	faSetPrefixes()
	r := NewRec(t, "C05")
	defer r.Close()

	kinds := []string{"uv", "slc", "up", "usc", "ch"}

	// golden cases first: the deliberate collisions of the scheme (equal digests expected
	// from BOTH sides; they are documented in Props/C05.md, the monitor skips them).
	{
		m := c05GenMsg(r, "slc")
		m.sender = c05Bytes(r, 20)
		m.fees = nil
		a := m.sign()
		r.Op(m.line(), a)
		m.fees = &evmtypes.Fees{RelayerFee: 100_000, CommunityFee: 100_000, SecurityFee: 100_000}
		b := m.sign()
		r.Op(m.line(), b)
		if a != b {
			r.Hit("fees_default_collision", "nil fees and the explicit default triple sign differently", m.line())
		}
		u := c05GenMsg(r, "uv")
		u.est = 0
		a = u.sign()
		r.Op(u.line(), a)
		u.est = 300_000
		b = u.sign()
		r.Op(u.line(), b)
		if a != b {
			r.Hit("estimate_default_collision", "estimate 0 and 300000 sign differently", u.line())
		} else {
			// the clause "changing the elected gas estimate changes the signing bytes" is false between 0
			// (nothing elected yet) and 300000, and nothing keeps validators from signing before the
			// election (known finding C05-estimate-default; reported as KNOWN-FINDING)
			r.Hit("elected_estimate_binds", "estimate-default: an update_valset message signs the same bytes with no elected estimate (0) as with an elected estimate of 300000; signatures are accepted before the election (no HasGasEstimate gate on signing), so they authorise gas_estimate=300000, which nobody elected", map[string]string{"message": u.line(), "digest": a})
		}
	}

	for i := 0; i < r.N; i++ {
		if i%6 == 5 {
			// ----- skyway batch -----
			b := c05GenBatch(r)
			base := b.checkpoint()
			r.Op(b.line(), base)
			r.Stat("kind:batch")
			r.Stat("batch-result:" + c05Class(base))
			r.Case("batch/"+base, base != "error")
			if base == "error" || base == "panic" {
				if base == "panic" {
					r.Hit("no_panic", "GetCheckpoint panicked", b.line())
				}
				continue
			}
			fields := c05BatchFields(b)
			nm := 1 + r.Rng.Intn(3)
			for k := 0; k < nm; k++ {
				mb := b.clone()
				var changed []string
				nf := 1
				if r.Rng.Intn(4) == 0 {
					nf = 2 + r.Rng.Intn(2)
				}
				for j := 0; j < nf; j++ {
					f := fields[r.Rng.Intn(len(fields))]
					if len(changed) > 0 && (f == "drop-tx" || f == "add-tx" || f == "dest" || f == "amount") {
						continue // keep multi-field edits independent of each other
					}
					if c05Contains(changed, f) {
						continue
					}
					if c05MutateBatch(r, mb, f) {
						changed = append(changed, f)
					}
				}
				if len(changed) == 0 {
					continue
				}
				got := mb.checkpoint()
				r.Op(mb.line(), got)
				r.Stat("mutate:batch:" + strings.Join(changed, "+"))
				if got == base {
					r.Hit("field_influences_bytes", "batch checkpoint unchanged after changing "+strings.Join(changed, "+"),
						[]string{b.line(), mb.line()})
				}
			}
			continue
		}

		kind := kinds[r.Rng.Intn(len(kinds))]
		m := c05GenMsg(r, kind)
		base := m.sign()
		r.Op(m.line(), base)
		r.Stat("kind:" + kind)
		r.Stat("result:" + c05Class(base))
		r.Case(kind+"/"+base, base != "panic")
		if base == "error" {
			r.Hit("no_error", "Keccak256WithSignedMessage returned an error", m.line())
			continue
		}
		if base == "panic" {
			// only the documented cause may panic: SenderAddress longer than 32 bytes
			if !((kind == "slc" || kind == "usc") && len(m.sender) > 32) {
				r.Hit("no_panic", "Keccak256WithSignedMessage panicked", m.line())
			}
			continue
		}
		fields := c05Fields(m)
		// every field once in a while, otherwise a random few
		var todo []string
		if r.Rng.Intn(4) == 0 {
			todo = fields
		} else {
			for k := 0; k < 1+r.Rng.Intn(3); k++ {
				todo = append(todo, fields[r.Rng.Intn(len(fields))])
			}
		}
		for _, f := range todo {
			mm := m.clone()
			changed := []string{}
			if c05Mutate(r, mm, f) {
				changed = append(changed, f)
			}
			// multi-field change: a second, independent field
			if r.Rng.Intn(4) == 0 {
				g := fields[r.Rng.Intn(len(fields))]
				if !c05Conflict(f, g) && c05Mutate(r, mm, g) {
					changed = append(changed, g)
				}
			}
			if len(changed) == 0 {
				continue
			}
			got := mm.sign()
			r.Op(mm.line(), got)
			r.Stat("mutate:" + kind + ":" + strings.Join(changed, "+"))
			if got == base {
				r.Hit("field_influences_bytes", kind+" signing bytes unchanged after changing "+strings.Join(changed, "+"),
					[]string{m.line(), mm.line()})
			}
		}
		// values that are delivered but are outside the signing scheme of this action
		if kind == "up" {
			mm := m.clone()
			mm.ctor = c05FreshBytes(r, mm.ctor)
			mm.relayer = c05FreshAddr(r, mm.relayer)
			mm.turnstone = c05FreshTurnstone(r, mm.turnstone)
			if mm.sign() == base {
				r.Stat("observed:up-ignores-ctor-relayer-turnstone")
			} else {
				r.Stat("observed:up-binds-more-than-bytecode-and-id")
			}
		}
		if kind == "ch" {
			mm := m.clone()
			mm.turnstone = c05FreshTurnstone(r, mm.turnstone)
			mm.id = c05FreshU64(r, mm.id)
			if mm.sign() == base {
				r.Stat("observed:ch-scheme-has-no-turnstone-no-id")
			}
		}
		if kind == "uv" {
			mm := m.clone()
			mm.id = c05FreshU64(r, mm.id)
			if mm.sign() == base {
				r.Stat("observed:uv-scheme-has-no-id")
			}
		}
	}

	fa := c05QueueIds(t, r)
	// appended AFTER everything else so that the random stream of the cases above is unchanged
	c05RelayFilter(r)
	c05UpForgery(r)
	// keeper layer of the bridge batches on the same three-chain app (c05_deploy_test.go)
	c05Deployments(t, r, fa)
}

// ---------- relay filter: what is offered to relayers carries an elected estimate ----------

// c05RelayFilter drives filters.HasGasEstimate (a conjunct of GetMessagesForRelaying) against the
// model's hasGasEstimate.  It is what discharges the "estimate != 0" proviso of the delivered-
// equals-signed theorems: estimate 0 is SIGNED as 300000 but DELIVERED as 0.
func c05RelayFilter(r *Rec) {
	fixed := []struct {
		req bool
		est uint64
	}{{true, 0}, {true, 1}, {false, 0}, {false, 1}, {true, 300_000}, {true, math.MaxUint64}}
	for i := 0; i < 40; i++ {
		req, est := r.Rng.Intn(2) == 0, c05Est(r)
		if i < len(fixed) {
			req, est = fixed[i].req, fixed[i].est
		}
		q := &consensustypes.QueuedSignedMessage{FlagMask: consensustypes.BuildFlagMask(req), GasEstimate: est}
		got := filters.HasGasEstimate(q)
		ri := 0
		if req {
			ri = 1
		}
		line := fmt.Sprintf("hasest %d %d", ri, est)
		r.Op(line, strconv.FormatBool(got))
		r.Stat(fmt.Sprintf("hasest:req=%v,zero=%v", req, est == 0))
		r.Case(line, true)
		if req && est == 0 && got {
			r.Hit("offered_estimate_elected", "a message that requires gas estimation is offered to relayers without an elected estimate (signed 300000, delivered 0)", line)
		}
	}
}

// ---------- UploadSmartContract is not domain separated (finding, Props/C05.lean) ----------

func c05Selector(sig string) []byte { return crypto.Keccak256([]byte(sig))[:4] }

// c05UpdateValsetPreimage rebuilds, with go-ethereum only, the byte string
// Message_UpdateValset.keccak256 hashes (validated against the real digest by the caller).
func c05UpdateValsetPreimage(m *c05Msg) ([]byte, error) {
	ty := func(s string) abi.Type {
		t, err := abi.NewType(s, "", nil)
		if err != nil {
			panic(err)
		}
		return t
	}
	vals := make([]common.Address, len(m.validators))
	for i, v := range m.validators {
		vals[i] = common.HexToAddress(v)
	}
	pows := make([]*big.Int, len(m.powers))
	for i, p := range m.powers {
		pows[i] = big.NewInt(int64(p))
	}
	cp, err := abi.Arguments{{Type: ty("address[]")}, {Type: ty("uint256[]")}, {Type: ty("uint256")}, {Type: ty("bytes32")}}.Pack(
		vals, pows, big.NewInt(int64(m.valsetID)), c05B32(m.turnstone))
	if err != nil {
		return nil, err
	}
	var h32 [32]byte
	copy(h32[:], crypto.Keccak256(append(c05Selector("checkpoint(address[],uint256[],uint256,bytes32)"), cp...)))
	est := m.est
	if est == 0 {
		est = 300_000
	}
	b, err := abi.Arguments{{Type: ty("bytes32")}, {Type: ty("address")}, {Type: ty("uint256")}}.Pack(
		h32, common.HexToAddress(m.relayer), new(big.Int).SetUint64(est))
	if err != nil {
		return nil, err
	}
	return append(c05Selector("update_valset(bytes32,address,uint256)"), b...), nil
}

// c05UpForgery replays the witness of Props/C05.lean `cross_action_clause_false_for_up` on the
// real implementation: for an UpdateValset message u the UploadSmartContract message whose
// "bytecode" is the first 92 bytes of u's update_valset pre-image (selector, checkpoint, relayer,
// 24 zero bytes) and whose queue id is u's gas estimate has the SAME signing bytes.  Recorded as
// an observation, reported as a finding; not a monitor hit (the forged bytecode needs a
// governance proposal).
func c05UpForgery(r *Rec) {
	for i := 0; i < 6; i++ {
		u := c05GenMsg(r, "uv")
		if i%2 == 0 {
			u.est = 1 + uint64(r.Rng.Int63()) // an elected estimate
		}
		a := u.sign()
		r.Op(u.line(), a)
		pre, err := c05UpdateValsetPreimage(u)
		if err != nil || len(pre) != 100 || hex.EncodeToString(crypto.Keccak256(pre)) != a {
			r.Stat("observed:up-forgery-preimage-not-rebuilt")
			continue
		}
		est := u.est
		if est == 0 {
			est = 300_000
		}
		f := &c05Msg{kind: "up", id: est, payload: append([]byte(nil), pre[:92]...)}
		b := f.sign()
		r.Op(f.line(), b)
		r.Case("forgery/"+f.line(), true)
		if a == b {
			r.Stat("observed:up-preimage-equals-update_valset-preimage")
			// the property's clause "signatures can never authorise a different call" is false here
			// (recorded as known finding C05-upload-no-selector; the check reports it as KNOWN-FINDING)
			r.Hit("cross_action_distinct", "up-preimage-overlap: an UploadSmartContract message whose (governance-supplied) bytecode is the first 92 bytes of an update_valset pre-image and whose id is the elected estimate has the SAME signing bytes as that update_valset message",
				map[string]string{"update_valset": u.line(), "upload_smart_contract": f.line(), "digest": a})
		} else {
			r.Stat("observed:up-forgery-not-reproduced")
		}
	}
}

func c05Class(s string) string {
	if s == "panic" || s == "error" {
		return s
	}
	return "hash"
}

func c05Contains(xs []string, x string) bool {
	for _, y := range xs {
		if x == y {
			return true
		}
	}
	return false
}

// two mutations that could cancel each other or touch the same value
func c05Conflict(f, g string) bool {
	if f == g {
		return true
	}
	grp := func(s string) string {
		switch {
		case strings.Contains(s, "validator"):
			return "v"
		case strings.Contains(s, "power"):
			return "p"
		case strings.Contains(s, "call"):
			return "c"
		case strings.HasPrefix(s, "fee-"), s == "fees-all-zero":
			return "f"
		case s == "swap-members":
			return "v" // moves validators and powers: not together with another change of either list
		}
		return s
	}
	return grp(f) == grp(g)
}

// ---------- queue ids on the full app ----------

// c05RepoFile reads a file of the paloma source tree the harness is linked against (located
// through the debug info of a function of that module, so no path is hard-coded).
func c05RepoFile(t *testing.T, rel string) []byte {
	f, _ := runtime.FuncForPC(reflect.ValueOf(evmkeeper.NewKeeper).Pointer()).FileLine(0)
	// f = <repo>/x/evm/keeper/keeper.go
	root := filepath.Dir(filepath.Dir(filepath.Dir(filepath.Dir(f))))
	b, err := os.ReadFile(filepath.Join(root, rel))
	if err != nil {
		t.Fatalf("cannot read %s from the paloma tree at %s: %v", rel, root, err)
	}
	return b
}

// c05CompassABI is the compass ABI of the repository's own keeper tests.
func c05CompassABI(t *testing.T) string {
	return string(c05RepoFile(t, "x/evm/keeper/testdata/sample-abi.json"))
}

func c05QueueIds(t *testing.T, r *Rec) *FullApp {
	fa := NewFullApp(t, FullAppOpts{NumValidators: 4, NumUsers: 1, Seed: r.Seed})
	chains := []string{"c05-a", "c05-b", "c05-c"}
	abiJSON := c05CompassABI(t)
	for i, c := range chains {
		if b, err := fa.ActivateEVMChain(FAEvmChain{RefID: c, ChainID: uint64(2000 + i), ABI: abiJSON}); err != nil || !b.OK() {
			t.Fatalf("activate %s: %v %v", c, err, b.Err)
		}
	}
	type qdef struct {
		name string
		mk   func() consensus.ConsensusMsg
	}
	var queues []qdef
	for _, c := range chains {
		c := c
		queues = append(queues,
			qdef{consensustypes.Queue(evmtypes.ConsensusTurnstoneMessage, "evm", c), func() consensus.ConsensusMsg {
				return &evmtypes.Message{
					TurnstoneID: "compass-" + c, ChainReferenceID: c,
					Assignee: fa.ValAddr(0).String(), AssigneeRemoteAddress: fa.ValidatorOperator(0).EthAddr.Hex(),
					AssignedAtBlockHeight: sdkmath.NewInt(fa.Height()),
					Action: &evmtypes.Message_SubmitLogicCall{SubmitLogicCall: &evmtypes.SubmitLogicCall{
						HexContractAddress: "0x00000000000000000000000000000000000000aa", Payload: []byte{byte(r.Rng.Intn(256))},
						Deadline: fa.Time().Unix() + 600, SenderAddress: fa.User(0).Addr,
					}},
				}
			}},
			qdef{consensustypes.Queue(evmkeeper.ConsensusGetValidatorBalances, "evm", c), func() consensus.ConsensusMsg {
				return &evmtypes.ValidatorBalancesAttestation{FromBlockTime: fa.Time().UTC()}
			}},
			qdef{consensustypes.Queue(evmkeeper.ConsensusGetReferenceBlock, "evm", c), func() consensus.ConsensusMsg {
				return &evmtypes.ReferenceBlockAttestation{FromBlockTime: fa.Time().UTC()}
			}},
		)
	}

	// c05StoredLine / c05StoredDigest: for a put on a turnstone queue (every third queue) the op line
	// carries the message (`putm`), and the observed output carries GetBytesToSign of the message AS
	// STORED - hashed with the id the put returned.  This ties the id inside the signing bytes to the
	// id counter (joint model jqStep).
	cdc := fa.App().AppCodec()
	storedDigest := func(ctx sdk.Context, qname string, id uint64) string {
		msgs, err := fa.App().ConsensusKeeper.GetMessagesFromQueue(ctx, qname, 0)
		if err != nil {
			return "error"
		}
		for _, m := range msgs {
			if m.GetId() == id {
				b, err := m.GetBytesToSign(cdc)
				if err != nil {
					return "error"
				}
				return hex.EncodeToString(b)
			}
		}
		return "missing"
	}
	msgLine := func(cm consensus.ConsensusMsg) (string, bool) {
		em, ok := cm.(*evmtypes.Message)
		if !ok {
			return "", false
		}
		slc := em.GetSubmitLogicCall()
		if slc == nil {
			return "", false
		}
		return fmt.Sprintf("slc %s %s %s %s %s %s %d", c05X([]byte(em.TurnstoneID)), c05X([]byte(em.AssigneeRemoteAddress)),
			c05X([]byte(slc.HexContractAddress)), c05X(slc.Payload), c05Fees(slc.Fees), c05X(slc.SenderAddress), slc.Deadline), true
	}

	var lastFresh uint64 // monitor: every fresh id of the whole run is larger than all before
	cases := r.N / 3
	if cases < 20 {
		cases = 20
	}
	for ci := 0; ci < cases; ci++ {
		var lines []string
		var base uint64
		type liveT struct {
			q  int
			id uint64
		}
		var live []liveT
		_, err := fa.WithDeliverCtx(func(ctx sdk.Context) error {
			k := fa.App().ConsensusKeeper
			rec := func(line, out string) {
				lines = append(lines, line)
				r.Op(line, out)
			}
			rec("reset", "ok")
			nops := 3 + r.Rng.Intn(12)
			for oi := 0; oi < nops; oi++ {
				qi := r.Rng.Intn(len(queues))
				choice := r.Rng.Intn(10)
				if oi == 0 {
					choice = 0 // the first op fixes the counter base
				}
				switch {
				case choice < 5: // fresh put
					cm := queues[qi].mk()
					id, err := k.PutMessageInQueue(ctx, queues[qi].name, cm, &consensus.PutOptions{RequireSignatures: true, RequireGasEstimation: r.Rng.Intn(2) == 0})
					if oi == 0 {
						if err != nil {
							return fmt.Errorf("first put failed: %w", err)
						}
						base = id - 1
					}
					out := "err"
					if err == nil {
						out = fmt.Sprintf("ok %d", id-base)
						if id <= lastFresh {
							r.Hit("ids_strictly_increase", fmt.Sprintf("fresh id %d after %d", id, lastFresh), lines)
						}
						lastFresh = id
						live = append(live, liveT{qi, id})
					}
					if ml, ok := msgLine(cm); ok {
						if err == nil {
							out += " " + storedDigest(ctx, queues[qi].name, id)
						}
						rec(fmt.Sprintf("putm %d 0 %d %s", qi+1, base, ml), out)
						r.Stat("idop:putm")
					} else {
						rec(fmt.Sprintf("put %d 0", qi+1), out)
					}
					r.Stat("idop:put")
				case choice < 8: // replace: mostly an existing id, in the right or a wrong queue
					var target uint64
					tq := qi
					if len(live) > 0 && r.Rng.Intn(5) != 0 {
						l := live[r.Rng.Intn(len(live))]
						target = l.id
						if r.Rng.Intn(3) != 0 {
							tq = l.q
						}
					} else {
						target = base + 1 + uint64(r.Rng.Intn(20))
					}
					// a message of the type of the TARGET queue
					var nilOpts *consensus.PutOptions = &consensus.PutOptions{MsgIDToReplace: target}
					cm := queues[tq].mk()
					id, err := k.PutMessageInQueue(ctx, queues[tq].name, cm, nilOpts)
					out := "notfound"
					if err == nil {
						out = fmt.Sprintf("ok %d", id-base)
						r.Stat("idop:replace-ok")
					} else {
						r.Stat("idop:replace-notfound")
					}
					if ml, ok := msgLine(cm); ok {
						if err == nil {
							out += " " + storedDigest(ctx, queues[tq].name, id)
							r.Stat("idop:replacem-ok")
						}
						rec(fmt.Sprintf("putm %d %d %d %s", tq+1, target-base, base, ml), out)
					} else {
						rec(fmt.Sprintf("put %d %d", tq+1, target-base), out)
					}
				default: // delete
					var target uint64
					tq := qi
					idx := -1
					if len(live) > 0 && r.Rng.Intn(5) != 0 {
						idx = r.Rng.Intn(len(live))
						target = live[idx].id
						if r.Rng.Intn(4) != 0 {
							tq = live[idx].q
						}
					} else {
						target = base + 1 + uint64(r.Rng.Intn(20))
					}
					err := k.DeleteJob(ctx, queues[tq].name, target)
					out := "notfound"
					if err == nil {
						out = fmt.Sprintf("ok %d", target-base)
						r.Stat("idop:del-ok")
						for j := range live {
							if live[j].id == target && live[j].q == tq {
								live = append(live[:j], live[j+1:]...)
								break
							}
						}
					} else {
						r.Stat("idop:del-notfound")
					}
					rec(fmt.Sprintf("del %d %d", tq+1, target-base), out)
				}
			}
			// monitor: no id is stored in two queues (all queues of all chains, including
			// whatever the chain itself queued earlier)
			seen := map[uint64]string{}
			var all []uint64
			for _, q := range queues {
				msgs, err := k.GetMessagesFromQueue(ctx, q.name, 0)
				if err != nil {
					return err
				}
				for _, m := range msgs {
					if other, dup := seen[m.GetId()]; dup {
						r.Hit("ids_unique_across_queues", fmt.Sprintf("id %d in %s and %s", m.GetId(), other, q.name), lines)
					}
					seen[m.GetId()] = q.name
					all = append(all, m.GetId())
				}
			}
			sort.Slice(all, func(i, j int) bool { return all[i] < all[j] })
			if len(all) > 0 && all[len(all)-1] > lastFresh {
				r.Hit("ids_strictly_increase", "stored id above the last issued id", lines)
			}
			// leave nothing of ours behind
			for _, l := range live {
				if err := k.DeleteJob(ctx, queues[l.q].name, l.id); err != nil {
					return err
				}
			}
			return nil
		})
		if err != nil {
			t.Fatalf("queue id case %d: %v", ci, err)
		}
		r.Case(strings.Join(lines, ";"), len(lines) > 3)
		// let the chain itself use the counter between cases (end blockers, snapshots)
		if ci%7 == 3 {
			if _, _, err := fa.TriggerSnapshot(); err != nil {
				t.Fatal(err)
			}
		}
	}
	return fa
}
