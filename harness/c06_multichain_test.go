//go:build verif

// C06, two more dimensions the generators did not have (both at once are needed to see that the signing
// key of a stored signature is the one registered FOR THE CHAIN OF ITS OWN QUEUE):
//
//   - SEVERAL QUEUES.  Only "test-chain" had a turnstone queue; the sibling chains of the same chain type
//     ("other-chain-1", "other-chain-2") existed as registry entries only.  Here they are active EVM
//     chains with their own turnstone queue (`cput <chain> …`, `cq <chain>`); message ids come from the
//     one counter all queues share.
//   - SEVERAL SIGNATURES PER REQUEST.  Every MsgAddMessagesSignatures carried exactly one signature.
//     `signreq <val> <chain/id/addr/by/ref/wire,…>` is ONE message with a list of signatures: for
//     messages of one queue or of several, valid ones and a bad one at any position, the same message
//     twice, an address / key carried over from the previous entry (what a validator with one key on all
//     chains would send) although the validator holds another key — or none — on that entry's chain.
//
// The monitors state the property on what the harness itself did and saw registered: a stored key must be
// the key the validator had registered for the chain of the message's queue when the request was
// delivered, must verify the stored bytes against the current signing bytes, once per validator and key.
package harness

import (
	"bytes"
	"encoding/hex"
	"fmt"
	"math/big"
	"strconv"
	"strings"
	"testing"

	sdk "github.com/cosmos/cosmos-sdk/types"
	ethcommon "github.com/ethereum/go-ethereum/common"
	ethcrypto "github.com/ethereum/go-ethereum/crypto"
	consensuskeeper "github.com/palomachain/paloma/v2/x/consensus/keeper/consensus"
	consensustypes "github.com/palomachain/paloma/v2/x/consensus/types"
	evmkeeper "github.com/palomachain/paloma/v2/x/evm/keeper"
	evmtypes "github.com/palomachain/paloma/v2/x/evm/types"
)

// c06mChains: chain numbers with a turnstone queue in the cases of this file (0 = q06Chain).
var c06mChains = []int{0, 1, 2}

type c06mEntry struct {
	chain    int
	id       uint64
	addr, by int
	ref      string
	wire     string
}

func (e c06mEntry) String() string {
	return fmt.Sprintf("%d/%d/%d/%d/%s/%s", e.chain, e.id, e.addr, e.by, e.ref, e.wire)
}

// c06mCase: a running case plus what this file knows about the sibling queues.
type c06mCase struct {
	*q06Case
	cids       map[int][]uint64 // chain -> ids enqueued there in this case
	chainOf    map[uint64]int
	sPrevSigs  map[uint64]map[string]bool
	sPrevBytes map[uint64]string
}

func c06mQueueName(chain int) string {
	return consensustypes.Queue(evmtypes.ConsensusTurnstoneMessage, "evm", q06ChainName(chain))
}

func c06mTurnstone(chain int) string { return "compass-" + q06ChainName(chain) }

// c06mActivate makes the sibling chains active EVM chains (keeper level, inside the case's context, which is
// dropped afterwards) running the compass contract the fixture's chain runs, and empties their queues.
// Must run BEFORE fx.begin: whatever the activation enqueues anywhere is removed / precedes the id sync.
func (fx *q06Fix) c06mActivate(ctx sdk.Context) {
	a := fx.fa.App()
	sc, err := a.EvmKeeper.GetLastCompassContract(ctx)
	if err != nil {
		fx.t.Fatalf("last compass contract: %v", err)
	}
	for _, ch := range c06mChains[1:] {
		name := q06ChainName(ch)
		if err := a.EvmKeeper.AddSupportForNewChain(ctx, name, uint64(5000+ch), 100,
			"0x1234567890123456789012345678901234567890123456789012345678901234", big.NewInt(0)); err != nil {
			fx.t.Fatalf("add chain %s: %v", name, err)
		}
		if err := a.EvmKeeper.SetFeeManagerAddress(ctx, name, "0x00000000000000000000000000000000000000FE"); err != nil {
			fx.t.Fatalf("fee manager %s: %v", name, err)
		}
		if err := a.EvmKeeper.ActivateChainReferenceID(ctx, name, sc, fmt.Sprintf("0x00000000000000000000000000000000000000C%d", ch), []byte(c06mTurnstone(ch))); err != nil {
			fx.t.Fatalf("activate %s: %v", name, err)
		}
		ci, err := a.EvmKeeper.GetChainInfo(ctx, name)
		if err != nil || string(ci.SmartContractUniqueID) != c06mTurnstone(ch) {
			fx.t.Fatalf("chain %s not active: %v", name, err)
		}
		ms, err := a.ConsensusKeeper.GetMessagesFromQueue(ctx, c06mQueueName(ch), 0)
		if err != nil {
			fx.t.Fatalf("queue of %s: %v", name, err)
		}
		for _, m := range ms {
			if err := a.ConsensusKeeper.DeleteJob(ctx, c06mQueueName(ch), m.GetId()); err != nil {
				fx.t.Fatal(err)
			}
		}
	}
}

func c06mWrap(c *q06Case) *c06mCase {
	return &c06mCase{q06Case: c, cids: map[int][]uint64{}, chainOf: map[uint64]int{}, sPrevSigs: map[uint64]map[string]bool{}, sPrevBytes: map[uint64]string{}}
}

func (m *c06mCase) msgsOn(chain int) []consensustypes.QueuedSignedMessageI {
	if chain == 0 {
		return m.msgs()
	}
	ms, err := m.fx.fa.App().ConsensusKeeper.GetMessagesFromQueue(m.ctx, c06mQueueName(chain), 0)
	if err != nil {
		m.fx.t.Fatal(err)
	}
	return ms
}

func (m *c06mCase) msgOn(chain int, id uint64) consensustypes.QueuedSignedMessageI {
	for _, x := range m.msgsOn(chain) {
		if x.GetId() == id {
			return x
		}
	}
	return nil
}

func (m *c06mCase) msgAnywhere(id uint64) consensustypes.QueuedSignedMessageI {
	for _, ch := range c06mChains {
		if x := m.msgOn(ch, id); x != nil {
			return x
		}
	}
	return nil
}

// opPutOn: PutMessageInQueue on the turnstone queue of `chain`.
func (m *c06mCase) opPutOn(chain int, kind string, sender, assignee, remote int, req bool) uint64 {
	if chain == 0 {
		id := m.opPut(kind, sender, assignee, remote, req)
		m.cids[0] = append(m.cids[0], id)
		m.chainOf[id] = 0
		return id
	}
	c := m.q06Case
	c.content++
	if kind == "v" || kind == "o" {
		sender = 0
	}
	msg, _ := c.action(kind, c.content, sender, false)
	msg.TurnstoneID, msg.ChainReferenceID = c06mTurnstone(chain), q06ChainName(chain)
	msg.Assignee = c.fx.valAddrOfID(assignee).String()
	msg.AssigneeRemoteAddress = c.fx.addrStr[remote]
	id, err := c.fx.fa.App().ConsensusKeeper.PutMessageInQueue(c.ctx, c06mQueueName(chain), msg, &consensuskeeper.PutOptions{RequireGasEstimation: req, RequireSignatures: true})
	if err != nil {
		c.fx.t.Fatalf("put on chain %d: %v", chain, err)
	}
	m.cids[chain] = append(m.cids[chain], id)
	m.chainOf[id] = chain
	c.op(fmt.Sprintf("cput %d %s %d %d %d %d %s", chain, kind, c.content, sender, assignee, remote, q06B(req)), fmt.Sprintf("%d %s", id, c.show(m.msgOn(chain, id))))
	c.r.Stat("op.cput")
	return id
}

func (m *c06mCase) opQueueOf(chain int) {
	var items []string
	for _, x := range m.msgsOn(chain) {
		items = append(items, m.show(x))
	}
	m.op(fmt.Sprintf("cq %d", chain), q06Join(items, " "))
}

// regKeyOn: the key bytes validator valIdx has registered RIGHT NOW for (chain, address string) — the first
// such account, nil if none.  Read from valset's store by the harness, independently of the code under test.
func (m *c06mCase) regKeyOn(valIdx, chain, addr int) []byte {
	for _, a := range m.regsOf(valIdx) {
		if a.chain == chain && a.addr == addr {
			return m.fx.rawKey[a.raw]
		}
	}
	return nil
}

func (m *c06mCase) accountOn(valIdx, chain int) (q06Acct, bool) {
	for _, a := range m.regsOf(valIdx) {
		if a.chain == chain {
			return a, true
		}
	}
	return q06Acct{}, false
}

func (m *c06mCase) entryBytes(e c06mEntry) []byte {
	var cur []byte
	if x := m.msgOn(e.chain, e.id); x != nil {
		cur = m.bytesOf(x)
	}
	if strings.HasPrefix(e.ref, "x") {
		k, _ := strconv.ParseUint(e.ref[1:], 10, 64)
		if x := m.msgAnywhere(k); x != nil {
			return m.bytesOf(x)
		}
		return m.refBytes(nil, nil, "g")
	}
	return m.refBytes(m.hist[e.id], cur, e.ref)
}

// opSignReq: ONE MsgAddMessagesSignatures of validator valIdx carrying all the entries, through the
// message router (cached context, like a transaction).
func (m *c06mCase) opSignReq(valIdx int, es []c06mEntry) string {
	c := m.q06Case
	v := c.fx.fa.Vals[valIdx]
	var sms []*consensustypes.ConsensusMessageSignature
	var regKeys [][]byte
	var parts []string
	chains := map[int]bool{}
	for _, e := range es {
		bts := m.entryBytes(e)
		var sig []byte
		if e.by >= 1 && e.by <= len(c.fx.ethKeys) {
			h := ethcrypto.Keccak256(append([]byte(evmkeeper.SignaturePrefix), bts...))
			sig, _ = ethcrypto.Sign(h, c.fx.ethKeys[e.by-1])
		} else {
			sig = make([]byte, 65)
			c.r.Rng.Read(sig[:64])
		}
		sms = append(sms, &consensustypes.ConsensusMessageSignature{Id: e.id, QueueTypeName: c06mQueueName(e.chain),
			Signature: q06WireForm(sig, e.wire), SignedByAddress: c.fx.addrStr[e.addr]})
		regKeys = append(regKeys, m.regKeyOn(valIdx, e.chain, e.addr))
		parts = append(parts, e.String())
		chains[e.chain] = true
	}
	err := c.route(&consensustypes.MsgAddMessagesSignatures{Metadata: FAMeta(v.Addr, v.Addr), SignedMessages: sms})
	res := q06SignErr(err)
	if res == "ok" {
		for i, e := range es {
			c.keyAtSign[fmt.Sprintf("%d/%s", e.id, v.ValAddr().String())] = regKeys[i]
		}
	}
	out := []string{res}
	for _, e := range es {
		out = append(out, c.show(m.msgOn(e.chain, e.id)))
	}
	c.op(fmt.Sprintf("signreq %d %s", c.fx.valID[valIdx], q06Join(parts, ",")), strings.Join(out, " "))
	c.r.Stat("signreq." + res)
	c.r.Stat(fmt.Sprintf("signreq.entries_%d.chains_%d.%s", len(es), len(chains), res))
	return res
}

// track: the C06 monitors on the queue of the fixture's chain (q06Case.track) and on the sibling queues.
func (m *c06mCase) track() {
	c := m.q06Case
	c.track()
	cur := map[uint64]map[string]bool{}
	for _, ch := range c06mChains[1:] {
		for _, x := range m.msgsOn(ch) {
			id := x.GetId()
			bts := c.bytesOf(x)
			hx := hex.EncodeToString(bts)
			digest := ethcrypto.Keccak256(append([]byte(evmkeeper.SignaturePrefix), bts...))
			seenVal, seenRaw, seenAcct := map[string]bool{}, map[string]bool{}, map[string]bool{}
			cur[id] = map[string]bool{}
			for _, sd := range x.GetSignData() {
				vid := c.fx.idOfValAddr(sd.ValAddress)
				sk := hex.EncodeToString(sd.Signature) + "/" + sd.ValAddress.String()
				cur[id][sk] = true
				okSig := false
				if len(sd.Signature) == 65 {
					if pk, err := ethcrypto.SigToPub(digest, sd.Signature); err == nil {
						okSig = ethcrypto.PubkeyToAddress(*pk) == ethcommon.BytesToAddress(sd.PublicKey)
					}
				}
				if !okSig {
					c.hit("sig_verifies_current_bytes", fmt.Sprintf("msg %d on chain %s: stored signature of validator %d does not verify against the current signing bytes", id, q06ChainName(ch), vid))
				}
				want, ok := c.keyAtSign[fmt.Sprintf("%d/%s", id, sd.ValAddress.String())]
				if !ok || want == nil || !bytes.Equal(want, sd.PublicKey) {
					c.hit("key_registered_when_signed", fmt.Sprintf("msg %d on chain %s: the key stored with the signature of validator %d (%x, claimed account %s) is not the key the validator had registered for %s when it signed (%x)",
						id, q06ChainName(ch), vid, sd.PublicKey, sd.ExternalAccountAddress, q06ChainName(ch), want))
				}
				if seenVal[sd.ValAddress.String()] {
					c.hit("validator_once_per_item", fmt.Sprintf("msg %d on chain %s: validator %d signed twice", id, q06ChainName(ch), vid))
				}
				seenVal[sd.ValAddress.String()] = true
				rk, ak := hex.EncodeToString(sd.PublicKey), ethcommon.BytesToAddress(sd.PublicKey).Hex()
				if seenRaw[rk] {
					c.hit("key_once_per_item", fmt.Sprintf("msg %d on chain %s: key bytes %s appear twice", id, q06ChainName(ch), rk))
				} else if seenAcct[ak] {
					c.hit("key_once_per_item_account", fmt.Sprintf("msg %d on chain %s: external account %s appears twice", id, q06ChainName(ch), ak))
				}
				seenRaw[rk], seenAcct[ak] = true, true
				if pb, ok := m.sPrevBytes[id]; ok && pb != hx && m.sPrevSigs[id][sk] {
					c.hit("no_carry_over", fmt.Sprintf("msg %d on chain %s: signature of validator %d kept although the signing bytes changed", id, q06ChainName(ch), vid))
				}
			}
			m.sPrevBytes[id] = hx
		}
	}
	m.sPrevSigs = cur
}

// genRegMulti: validator valIdx registers accounts on the three chains: one key everywhere (the common
// set-up), another key on one or both sibling chains, no account on a sibling chain, the sibling key
// under the chain-0 key's address string spelled differently, ...
func (m *c06mCase) genRegMulti(valIdx int) {
	r := m.r.Rng
	fx := m.fx
	own := 4 * (valIdx + 1)
	accts := []q06Acct{{chain: 0, addr: own, raw: own}}
	if a, ok := m.accountOn(valIdx, 0); ok && r.Intn(4) != 0 {
		accts[0] = a
	}
	for _, ch := range c06mChains[1:] {
		e := fx.n + 1 + r.Intn(q06ExtraKeys)
		switch r.Intn(8) {
		case 0: // no account on this chain
		case 1, 2: // the same key as on chain 0
			accts = append(accts, q06Acct{chain: ch, addr: accts[0].addr, raw: accts[0].raw})
		case 3: // the validator's own fixture key (may differ from what it holds on chain 0 by now)
			accts = append(accts, q06Acct{chain: ch, addr: own, raw: own})
		default: // a different key
			accts = append(accts, q06Acct{chain: ch, addr: 4 * e, raw: 4 * e, mev: r.Intn(2) == 0})
		}
	}
	if r.Intn(3) == 0 { // sibling accounts first
		accts = append(accts[1:], accts[0])
	}
	m.opReg(valIdx, accts)
	m.r.Stat("op.reg_multi")
}

// genEntry draws one entry of a request of validator valIdx; prev = the previous entry of the request.
func (m *c06mCase) genEntry(valIdx int, prev *c06mEntry) c06mEntry {
	r := m.r.Rng
	fx := m.fx
	ch := c06mChains[r.Intn(len(c06mChains))]
	for k := 0; k < 3 && len(m.cids[ch]) == 0; k++ {
		ch = c06mChains[r.Intn(len(c06mChains))]
	}
	e := c06mEntry{chain: ch, ref: "c", wire: "c"}
	if n := len(m.cids[ch]); n > 0 {
		e.id = m.cids[ch][r.Intn(n)]
		// mostly a message this validator has not signed yet
		for k := 0; k < 4 && m.signedBy(ch, e.id, valIdx) && r.Intn(6) != 0; k++ {
			e.id = m.cids[ch][r.Intn(n)]
		}
	} else {
		e.id = uint64(900000 + r.Intn(3))
	}
	if a, ok := m.accountOn(valIdx, ch); ok {
		e.addr, e.by = a.addr, a.raw/4
	} else {
		e.addr, e.by = 4*(valIdx+1), valIdx+1
	}
	switch x := r.Intn(70); {
	case x < 10 && prev != nil: // what a validator with one key everywhere would send: the previous entry's account
		e.addr, e.by = prev.addr, prev.by
		m.r.Stat("signreq.entry.carried_account")
	case x < 13 && prev != nil: // the previous entry's address, this chain's key
		e.addr = prev.addr
	case x < 15 && prev != nil: // this chain's address, the previous entry's key
		e.by = prev.by
	case x < 18: // the account the validator holds on another chain
		if a, ok := m.accountOn(valIdx, c06mChains[r.Intn(len(c06mChains))]); ok {
			e.addr, e.by = a.addr, a.raw/4
		}
	case x == 18:
		e.by = 1 + r.Intn(len(fx.ethKeys))
	case x == 19:
		e.by = 0
	case x == 20:
		e.ref = "g"
	case x == 21: // a signature over another message's bytes (of any chain)
		if o := c06mChains[r.Intn(len(c06mChains))]; len(m.cids[o]) > 0 {
			e.ref = fmt.Sprintf("x%d", m.cids[o][r.Intn(len(m.cids[o]))])
		}
	case x == 22: // an id that lives in another chain's queue
		if o := c06mChains[r.Intn(len(c06mChains))]; len(m.cids[o]) > 0 {
			e.id = m.cids[o][r.Intn(len(m.cids[o]))]
		}
	case x == 23:
		e.wire = q06Wires[1+r.Intn(len(q06Wires)-1)]
	case x == 24:
		e.addr = 4*(1+r.Intn(len(fx.ethKeys))) + r.Intn(3)
	case x == 25 && ch == 0:
		if n := len(m.hist[e.id]); n > 1 {
			e.ref = fmt.Sprintf("o%d", r.Intn(n))
		}
	}
	return e
}

func (m *c06mCase) signedBy(chain int, id uint64, valIdx int) bool {
	x := m.msgOn(chain, id)
	if x == nil {
		return false
	}
	for _, sd := range x.GetSignData() {
		if sd.ValAddress.Equals(m.fx.fa.ValAddr(valIdx)) {
			return true
		}
	}
	return false
}

func (m *c06mCase) genRequest() {
	r := m.r.Rng
	valIdx := r.Intn(m.fx.n)
	n := []int{1, 2, 2, 2, 3, 3, 4, 5}[r.Intn(8)]
	var es []c06mEntry
	for i := 0; i < n; i++ {
		var prev *c06mEntry
		if i > 0 {
			prev = &es[i-1]
		}
		e := m.genEntry(valIdx, prev)
		if i > 0 && r.Intn(12) == 0 {
			e = es[r.Intn(i)] // the same entry twice in one request
		}
		es = append(es, e)
	}
	m.opSignReq(valIdx, es)
}

func (m *c06mCase) walk(nOps int) {
	r := m.r.Rng
	fx := m.fx
	for _, vi := range r.Perm(fx.n)[:4+r.Intn(3)] {
		m.genRegMulti(vi)
	}
	kinds := []string{"s", "u", "v", "o"}
	for _, ch := range c06mChains {
		for k := 0; k < 2+r.Intn(2); k++ {
			vi := r.Intn(fx.n)
			m.opPutOn(ch, kinds[r.Intn(4)], r.Intn(len(fx.senders)), fx.valID[vi], 4*(vi+1), r.Intn(3) != 0)
			m.track()
		}
	}
	for i := 0; i < nOps; i++ {
		switch x := r.Intn(100); {
		case x < 58:
			m.genRequest()
		case x < 68:
			m.genRegMulti(r.Intn(fx.n))
		case x < 74:
			vi := r.Intn(fx.n)
			m.opPutOn(c06mChains[r.Intn(len(c06mChains))], kinds[r.Intn(4)], r.Intn(len(fx.senders)), fx.valID[vi], 4*(vi+1), r.Intn(3) != 0)
		case x < 80:
			m.genSign(m.anyID())
		case x < 87:
			m.genEst(m.anyID(), true)
		case x < 93:
			m.opEndBlock()
		case x < 96:
			m.opQueueOf(c06mChains[1+r.Intn(2)])
		default:
			m.genReg()
		}
		m.track()
	}
	for _, ch := range c06mChains[1:] {
		m.opQueueOf(ch)
	}
	m.opRelay()
}

// c06mRun runs fn in a hook case with the sibling chains active.
func (fx *q06Fix) c06mRun(t *testing.T, r *Rec, env q06Env, fn func(m *c06mCase)) {
	fx.hookCase(func(ctx sdk.Context) {
		if err := fx.writeEnv(ctx, env); err != nil {
			t.Fatal(err)
		}
		fx.c06mActivate(ctx)
		c := fx.begin(ctx, r)
		c.obs = fx.emitEnv(ctx, r)
		c.syncRegs()
		fn(c06mWrap(c))
	})
}

// c06mCases: random walks and directed histories over several queues and requests with several signatures.
func c06mCases(t *testing.T, r *Rec, fx *q06Fix) {
	n := r.N / 8
	if n < 24 {
		n = 24
	}
	for i := 0; i < n; i++ {
		i := i
		env := q06PlainEnv(fx)
		if i%3 == 1 {
			env = r.q06GenEnv(fx, fx.n)
		}
		fx.c06mRun(t, r, env, func(m *c06mCase) {
			m.walk(12 + r.Rng.Intn(12))
			r.Case(fmt.Sprintf("C06m|%d|%d", i, len(m.log)), len(m.cids[0])+len(m.cids[1])+len(m.cids[2]) > 0)
			r.Stat("case.c06m_walk")
		})
	}
	// one request, several chains: every entry is checked under the key registered for ITS chain, whatever the
	// entries before it were checked under
	fx.c06mRun(t, r, q06PlainEnv(fx), func(m *c06mCase) {
		e := fx.n + 1
		// validator 0: key 1 on chain 0, extra key e on chain 1, nothing on chain 2
		m.opReg(0, []q06Acct{{chain: 0, addr: 4, raw: 4}, {chain: 1, addr: 4 * e, raw: 4 * e}})
		// validator 1: one key on all chains
		m.opReg(1, []q06Acct{{chain: 0, addr: 8, raw: 8}, {chain: 1, addr: 8, raw: 8}, {chain: 2, addr: 8, raw: 8}})
		// validator 2: extra key on chain 0, own key on chains 1 and 2
		m.opReg(2, []q06Acct{{chain: 1, addr: 12, raw: 12}, {chain: 0, addr: 4 * (e + 1), raw: 4 * (e + 1)}, {chain: 2, addr: 12, raw: 12}})
		ids := map[int][]uint64{}
		for round := 0; round < 2; round++ {
			for _, ch := range c06mChains {
				ids[ch] = append(ids[ch], m.opPutOn(ch, []string{"s", "v", "u", "o"}[(ch+round)%4], 1, fx.valID[ch], 4*(ch+1), round == 0))
				m.track()
			}
		}
		a0, a1, a2 := ids[0][0], ids[1][0], ids[2][0]
		b0, b1, b2 := ids[0][1], ids[1][1], ids[2][1]
		en := func(ch int, id uint64, addr, by int) c06mEntry {
			return c06mEntry{chain: ch, id: id, addr: addr, by: by, ref: "c", wire: "c"}
		}
		// validator 0 claims its chain-0 account for a chain-1 message: alone, first, and BEHIND a good chain-0 entry
		m.opSignReq(0, []c06mEntry{en(1, a1, 4, 1)})
		m.track()
		m.opSignReq(0, []c06mEntry{en(1, a1, 4, 1), en(0, a0, 4, 1)})
		m.track()
		m.opSignReq(0, []c06mEntry{en(0, a0, 4, 1), en(1, a1, 4, 1)})
		m.track()
		m.opSignReq(0, []c06mEntry{en(0, a0, 4, 1), en(0, b0, 4, 1), en(1, a1, 4, 1)})
		m.track()
		// … and for a chain-2 message, where it holds no account at all
		m.opSignReq(0, []c06mEntry{en(0, a0, 4, 1), en(2, a2, 4, 1)})
		m.track()
		// the chain-1 account for a chain-0 message behind a good chain-1 entry
		m.opSignReq(0, []c06mEntry{en(1, a1, 4*e, e), en(0, a0, 4*e, e)})
		m.track()
		// each entry under its own chain's account: stored
		m.opSignReq(0, []c06mEntry{en(0, a0, 4, 1), en(1, a1, 4*e, e)})
		m.track()
		// one key everywhere: three chains in one request, then the second message of every chain
		m.opSignReq(1, []c06mEntry{en(0, a0, 8, 2), en(1, a1, 8, 2), en(2, a2, 8, 2)})
		m.track()
		m.opSignReq(1, []c06mEntry{en(2, b2, 8, 2), en(1, b1, 8, 2), en(0, b0, 8, 2)})
		m.track()
		// validator 2: the chain-1/2 key claimed on chain 0 behind good entries, and the right mix
		m.opSignReq(2, []c06mEntry{en(1, a1, 12, 3), en(2, a2, 12, 3), en(0, a0, 12, 3)})
		m.track()
		m.opSignReq(2, []c06mEntry{en(1, a1, 12, 3), en(0, a0, 4*(e+1), e+1), en(2, a2, 12, 3)})
		m.track()
		// all or nothing: a bad entry at the end discards the good ones before it
		m.opSignReq(2, []c06mEntry{en(0, b0, 4*(e+1), e+1), en(1, b1, 12, 3), {chain: 2, id: b2, addr: 12, by: 3, ref: "g", wire: "c"}})
		m.track()
		m.opSignReq(2, []c06mEntry{en(0, b0, 4*(e+1), e+1), en(0, b0, 4*(e+1), e+1)}) // the same message twice
		m.track()
		m.opSignReq(2, []c06mEntry{en(1, b1, 12, 3), en(1, a1, 12, 3)}) // already signed a1
		m.track()
		m.opSignReq(2, []c06mEntry{en(0, b0, 4*(e+1), e+1), en(1, b1, 12, 3), en(2, b2, 12, 3)})
		m.track()
		// a key rotation between two requests: the later request is checked under the new registration
		m.opReg(0, []q06Acct{{chain: 0, addr: 4 * e, raw: 4 * e}, {chain: 1, addr: 4, raw: 4}})
		m.track()
		m.opSignReq(0, []c06mEntry{en(0, b0, 4, 1), en(1, b1, 4, 1)})
		m.track()
		m.opSignReq(0, []c06mEntry{en(1, b1, 4, 1), en(0, b0, 4, 1)})
		m.track()
		m.opSignReq(0, []c06mEntry{en(1, b1, 4, 1), en(0, b0, 4*e, e)})
		m.track()
		// election on chain 0 discards what chain 0's message collected; the sibling queues keep theirs
		for i := 0; i < fx.n; i++ {
			m.opEst(a0, i, 40000)
		}
		m.opEndBlock()
		m.track()
		m.opSignReq(1, []c06mEntry{{chain: 0, id: a0, addr: 8, by: 2, ref: "o0", wire: "c"}})
		m.opSignReq(1, []c06mEntry{en(0, a0, 8, 2), {chain: 1, id: a1, addr: 8, by: 2, ref: fmt.Sprintf("x%d", a0), wire: "c"}})
		m.opSignReq(1, []c06mEntry{en(0, a0, 8, 2)})
		m.track()
		for _, ch := range c06mChains[1:] {
			m.opQueueOf(ch)
		}
		m.opRelay()
		r.Case("directed|request_over_several_chains", true)
		r.Stat("directed.request_over_several_chains")
	})
}
