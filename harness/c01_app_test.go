//go:build verif

package harness

// C01, first clause, on the fully wired application: "the coins held in the bridge escrow account always equal the sum of
// amount-plus-tax over all pending outbound transfers".  The keeper fixture builds its own bank keeper; only the real
// application decides which accounts the bank refuses to credit.  Every way an ordinary account has of moving coins is
// pointed at the bridge's module account here — bank MsgSend, MsgMultiSend (as the only output and as one of several),
// a send wrapped in authz.MsgExec, a send dispatched by a "contract" through the application's wasm messenger — with
// nothing pending in the bridge: afterwards the escrow must still hold nothing (monitor `escrow_eq_pending`), and the
// other module accounts the application blocks must not have been credited either.

import (
	"fmt"
	"testing"

	sdkmath "cosmossdk.io/math"
	wasmvmtypes "github.com/CosmWasm/wasmvm/v2/types"
	sdk "github.com/cosmos/cosmos-sdk/types"
	authtypes "github.com/cosmos/cosmos-sdk/x/auth/types"
	"github.com/cosmos/cosmos-sdk/x/authz"
	banktypes "github.com/cosmos/cosmos-sdk/x/bank/types"
	skytypes "github.com/palomachain/paloma/v2/x/skyway/types"
)

func TestC01App(t *testing.T) {
	r := NewRec(t, "C01A")
	defer r.Close()
	fa := NewFullApp(t, FullAppOpts{NumValidators: 3, NumUsers: 3, Seed: r.Seed})
	escrow := authtypes.NewModuleAddress(skytypes.ModuleName)
	const denom = "ugrain"
	held := func() sdkmath.Int { return fa.Balance(escrow, denom) }
	start := held()
	var hist []string
	for c := 0; c < r.N; c++ {
		u := fa.User(r.Rng.Intn(3))
		v := fa.User(r.Rng.Intn(3))
		amt := sdk.NewCoins(sdk.NewCoin(denom, sdkmath.NewInt(int64(1+r.Rng.Intn(1000)))))
		kind := []string{"send", "multisend", "multisend-mixed", "exec-send", "contract-send"}[r.Rng.Intn(5)]
		before := held()
		var res FATxResult
		switch kind {
		case "send":
			res = fa.DeliverTx(u, &banktypes.MsgSend{FromAddress: u.Addr.String(), ToAddress: escrow.String(), Amount: amt})
		case "multisend":
			res = fa.DeliverTx(u, &banktypes.MsgMultiSend{Inputs: []banktypes.Input{{Address: u.Addr.String(), Coins: amt}},
				Outputs: []banktypes.Output{{Address: escrow.String(), Coins: amt}}})
		case "multisend-mixed":
			two := sdk.NewCoins(sdk.NewCoin(denom, amt[0].Amount.MulRaw(2)))
			res = fa.DeliverTx(u, &banktypes.MsgMultiSend{Inputs: []banktypes.Input{{Address: u.Addr.String(), Coins: two}},
				Outputs: []banktypes.Output{{Address: v.Addr.String(), Coins: amt}, {Address: escrow.String(), Coins: amt}}})
		case "exec-send":
			ex := authz.NewMsgExec(u.Addr, []sdk.Msg{&banktypes.MsgSend{FromAddress: u.Addr.String(), ToAddress: escrow.String(), Amount: amt}})
			res = fa.DeliverTx(u, &ex)
		case "contract-send":
			// the account stands for a contract's address; the application's own wasm messenger carries the bank message
			var derr error
			_, herr := fa.WithDeliverCtx(func(ctx sdk.Context) error {
				_, _, _, derr = fa.App().VerifWasmMessenger().DispatchMsg(ctx, u.Addr, "", wasmvmtypes.CosmosMsg{Bank: &wasmvmtypes.BankMsg{
					Send: &wasmvmtypes.SendMsg{ToAddress: escrow.String(), Amount: []wasmvmtypes.Coin{{Denom: denom, Amount: amt[0].Amount.String()}}}}})
				return derr
			})
			if herr != nil || derr != nil {
				res.Code, res.Log = 1, fmt.Sprint(herr, derr)
			}
		}
		line := fmt.Sprintf("%s %s from user to the bridge's module account -> code %d", kind, amt, res.Code)
		hist = append(hist, line)
		if len(hist) > 12 {
			hist = hist[len(hist)-12:]
		}
		r.Stat("c01app." + kind + map[bool]string{true: ".refused", false: ".accepted"}[res.Code != 0])
		after := held()
		out := "escrow-unchanged"
		if !after.Equal(before) {
			out = "escrow-changed"
		}
		if !after.Equal(start) {
			r.Hit("escrow_eq_pending", fmt.Sprintf("the bridge escrow holds %s%s with no transfer pending (a %s credited it)", after.Sub(start), denom, kind),
				map[string]interface{}{"history": append([]string{}, hist...)})
		}
		r.Op(fmt.Sprintf("outside %s", kind), out)
		r.Case(kind, res.Code != 0)
	}
}
