//go:build verif

// C06, two dimensions the generators of queue_test.go did not have:
//
//   - WHO DELIVERS a batch confirmation.  A MsgConfirmBatch names an Orchestrator and is carried by a
//     transaction with its own creator / signer; ConfirmBatch never compares the two (the eth signature
//     authenticates the confirmation).  Confirmations are delivered by the orchestrator's account, by
//     another validator's account and by an ordinary account (`bconfc <creator> …`, `bstore`), in the
//     random walks, in directed histories and through real transactions + the real skyway end blocker.
//   - TIME.  Signed messages sit in the queue while blocks pass and nothing is submitted (`blocks <n>`):
//     the consensus module's real EndBlock runs for every height (heights divisible by 10 and 50 and
//     ages beyond 30 blocks included), in hook cases and through real empty blocks.  The property is
//     evaluated at EVERY block boundary (c.track()).
package harness

import (
	"context"
	"encoding/hex"
	"errors"
	"fmt"
	"sort"
	"strings"
	"testing"
	"time"

	sdk "github.com/cosmos/cosmos-sdk/types"
	ethcrypto "github.com/ethereum/go-ethereum/crypto"
	consensustypes "github.com/palomachain/paloma/v2/x/consensus/types"
	evmkeeper "github.com/palomachain/paloma/v2/x/evm/keeper"
	skytypes "github.com/palomachain/paloma/v2/x/skyway/types"
)

// c06xMaxAge bounds the blocks one case lets pass: PruneOldMessages (messages older than 300 blocks)
// is C13's subject, not part of this model.
const c06xMaxAge = 240

// c06xCreatorID: model id of an account that creates transactions: a validator's id, 100+j for user j.
func (fx *q06Fix) c06xCreatorID(a sdk.AccAddress) int {
	for i, v := range fx.fa.Vals {
		if v.Addr.Equals(a) {
			return fx.valID[i]
		}
	}
	for j := 0; j < 3; j++ {
		if fx.fa.User(j).Addr.Equals(a) {
			return 100 + j
		}
	}
	return 999
}

// c06xGenCreator draws the account whose transaction delivers a confirmation of validator valIdx;
// nil = the orchestrator itself (what pigeon does).
func (c *q06Case) c06xGenCreator(valIdx int) *FAAccount {
	switch x := c.r.Rng.Intn(10); {
	case x < 6:
		return nil
	case x < 8:
		return c.fx.fa.Vals[(valIdx+1+c.r.Rng.Intn(c.fx.n-1))%c.fx.n]
	default:
		return c.fx.fa.User(c.r.Rng.Intn(3))
	}
}

// c06xConfirmMsg builds the MsgConfirmBatch of validator valIdx claiming address string `addr`, signed by
// eth key `by` over the bytes `ref` in byte form `wire`, carried by a transaction of `creator`.
func (c *q06Case) c06xConfirmMsg(nonce uint64, valIdx, addr, by int, ref, wire string, creator *FAAccount) *skytypes.MsgConfirmBatch {
	var cur []byte
	if b := c.batch(nonce); b != nil {
		cur, _ = b.GetCheckpoint(c.fx.turnstone)
	}
	bts := c.refBytes(c.bhist[nonce], cur, ref)
	var sig []byte
	if by >= 1 && by <= len(c.fx.ethKeys) {
		sig, _ = skytypes.NewEthereumSignature(bts, c.fx.ethKeys[by-1])
	} else {
		sig = make([]byte, 65)
		c.r.Rng.Read(sig[:64])
	}
	sig = q06WireForm(sig, wire)
	v := c.fx.fa.Vals[valIdx]
	return &skytypes.MsgConfirmBatch{Nonce: nonce, TokenContract: q06Token, EthSigner: c.fx.addrStr[addr], Orchestrator: v.Addr.String(),
		Signature: hex.EncodeToString(sig), Metadata: FAMeta(creator.Addr, creator.Addr)}
}

func c06xConfirmLine(fx *q06Fix, nonce uint64, valIdx, addr, by int, ref, wire string, creator *FAAccount) string {
	if creator.Addr.Equals(fx.fa.Vals[valIdx].Addr) {
		line := fmt.Sprintf("bconf %d %d %d %d %s", nonce, fx.valID[valIdx], addr, by, ref)
		if wire != "c" {
			line += " " + wire
		}
		return line
	}
	return fmt.Sprintf("bconfc %d %d %d %d %d %s %s", fx.c06xCreatorID(creator.Addr), nonce, fx.valID[valIdx], addr, by, ref, wire)
}

// opBatchConfirmC: opBatchConfirmW with the creator of the delivering transaction as a dimension.
func (c *q06Case) opBatchConfirmC(nonce uint64, valIdx, addr, by int, ref, wire string, creator *FAAccount) string {
	if creator == nil {
		creator = c.fx.fa.Vals[valIdx]
	}
	err := c.route(c.c06xConfirmMsg(nonce, valIdx, addr, by, ref, wire, creator))
	res := q06ConfErr(err)
	word := strings.SplitN(res, ":", 2)[0]
	if wire != "c" {
		c.r.Stat("bconf.wire." + wire + "." + word)
	}
	if !creator.Addr.Equals(c.fx.fa.Vals[valIdx].Addr) {
		c.r.Stat("bconf.other_creator." + word)
	}
	c.op(c06xConfirmLine(c.fx, nonce, valIdx, addr, by, ref, wire, creator), res+" "+c.showBatch(nonce))
	c.r.Stat("bconf." + word)
	return res
}

// opBatchStore prints the records of the confirmation store under a batch as orchestrator/creator.
func (c *q06Case) opBatchStore(nonce uint64) {
	confs, err := c.fx.fa.App().SkywayKeeper.GetBatchConfirmByNonceAndTokenContract(c.ctx, nonce, c.fx.token)
	if err != nil {
		c.fx.t.Fatal(err)
	}
	type rec struct{ v, cr int }
	var rs []rec
	for _, x := range confs {
		acc, _ := sdk.AccAddressFromBech32(x.Orchestrator)
		cr, _ := sdk.AccAddressFromBech32(x.Metadata.Creator)
		rs = append(rs, rec{c.fx.idOfValAddr(sdk.ValAddress(acc)), c.fx.c06xCreatorID(cr)})
	}
	sort.Slice(rs, func(i, j int) bool { return rs[i].v < rs[j].v })
	var s []string
	for _, x := range rs {
		s = append(s, fmt.Sprintf("%d/%d", x.v, x.cr))
	}
	c.op(fmt.Sprintf("bstore %d", nonce), q06Join(s, "+"))
	c.r.Stat("op.bstore")
}

func (c *q06Case) queueLine() string {
	var items []string
	for _, m := range c.msgs() {
		items = append(items, c.show(m))
	}
	return q06Join(items, " ")
}

// opBlocks lets n blocks pass in a hook case: for every height the REAL EndBlock of the consensus module
// runs (estimate election, attestation, whatever else the module does at that height), and the property
// is evaluated at every block boundary.
func (c *q06Case) opBlocks(n int) {
	if c.aged+n > c06xMaxAge {
		n = c06xMaxAge - c.aged
	}
	if n <= 0 {
		return
	}
	mod, ok := c.fx.fa.App().ModuleManager.Modules[consensustypes.ModuleName].(interface {
		EndBlock(context.Context) error
	})
	if !ok {
		c.fx.t.Fatalf("the consensus module has no EndBlock")
	}
	line := fmt.Sprintf("blocks %d", n)
	for i := 0; i < n; i++ {
		c.ctx = c.ctx.WithBlockHeight(c.ctx.BlockHeight() + 1).WithBlockTime(c.ctx.BlockTime().Add(1500 * time.Millisecond))
		cctx, commit := c.ctx.CacheContext()
		panicked := false
		func() {
			defer func() {
				if p := recover(); p != nil {
					panicked = true
				}
			}()
			if err := mod.EndBlock(cctx); err != nil {
				c.fx.t.Fatalf("consensus EndBlock: %v", err)
			}
		}()
		if panicked {
			c.op(line, "panic")
			c.r.Stat("blocks.panic")
			return
		}
		commit()
		c.aged++
		if h := c.ctx.BlockHeight(); h%10 == 0 {
			c.r.Stat("blocks.height_div_10")
			for _, m := range c.msgs() {
				if h-m.GetAddedAtBlockHeight() > 30 && len(m.GetSignData()) > 0 && m.GetPublicAccessData() == nil && m.GetErrorData() == nil {
					c.r.Stat("blocks.signed_unrelayed_over_30_at_div_10")
					break
				}
			}
		}
		if i < n-1 {
			// block boundary; the last one is observed by the caller after the op line is written
			c.log = append(c.log, fmt.Sprintf("(block %d of `%s`)", i+1, line))
			c.track()
			c.log = c.log[:len(c.log)-1]
		}
	}
	c.changed = true
	c.op(line, c.queueLine())
	c.r.Stat("op.blocks")
}

// c06xWalk: random walk over signing, estimates, elections, idle blocks and batch confirmations delivered
// by any account.  No evidence is submitted (attestation is C07's subject).
func (c *q06Case) c06xWalk(nOps int) {
	r := c.r.Rng
	fx := c.fx
	for i := 0; i < 2+r.Intn(3); i++ {
		vi := r.Intn(fx.n)
		kind := []string{"s", "u", "v", "o"}[r.Intn(4)]
		if r.Intn(3) == 0 {
			c.opEnq([]string{"s", "u"}[r.Intn(2)], r.Intn(len(fx.senders)), false, int64(r.Intn(7)))
		} else {
			c.opPut(kind, r.Intn(len(fx.senders)), fx.valID[vi], 4*(vi+1), r.Intn(4) != 0)
		}
		c.track()
	}
	c.opBatchPut(4 * (1 + r.Intn(fx.n)))
	c.track()
	ages := []int{1, 1, 2, 9, 10, 11, 19, 31, 35, 41, 45, 60}
	for i := 0; i < nOps; i++ {
		id := c.anyID()
		switch x := r.Intn(100); {
		case x < 22:
			c.genSign(id)
		case x < 32:
			c.genEst(id, r.Intn(2) == 0)
		case x < 38:
			c.opEndBlock()
		case x < 54:
			c.opBlocks(ages[r.Intn(len(ages))])
		case x < 60:
			if r.Intn(3) == 0 {
				c.genRegSibling()
			} else {
				c.genReg()
			}
		case x < 66:
			c.genPut()
		case x < 70:
			c.opFlag([]string{"pub", "err"}[r.Intn(2)], id, r.Intn(fx.n))
		case x < 74:
			c.opBatchPut(4 * (1 + r.Intn(fx.n)))
		case x < 93:
			n := c.nonces[r.Intn(len(c.nonces))]
			valIdx := r.Intn(fx.n)
			addr, _, ok := c.ownAccount(valIdx)
			if !ok {
				addr = 4 * (valIdx + 1)
			}
			by, ref, wire := addr/4, "c", "c"
			switch r.Intn(10) {
			case 0:
				by = 1 + r.Intn(len(fx.ethKeys))
			case 1:
				if k := len(c.bhist[n]); k > 1 {
					ref = fmt.Sprintf("o%d", r.Intn(k))
				}
			case 2:
				wire = q06Wires[1+r.Intn(len(q06Wires)-1)]
			}
			var creator *FAAccount
			if r.Intn(3) != 0 {
				creator = c.c06xGenCreator(valIdx)
			}
			c.opBatchConfirmC(n, valIdx, addr, by, ref, wire, creator)
			if r.Intn(3) == 0 {
				c.opBatchStore(n)
			}
		default:
			n := c.nonces[r.Intn(len(c.nonces))]
			c.opBatchGas(n, []uint64{21000, 300000, 0, 1 << 40}[r.Intn(4)])
			c.opBatchStore(n)
		}
		c.track()
	}
	for _, n := range c.nonces {
		c.opBatchStore(n)
	}
	c.opRelay()
}

// c06xCases: the random walks and the directed histories of this file.
func c06xCases(t *testing.T, r *Rec, fx *q06Fix) {
	n := r.N / 6
	if n < 20 {
		n = 20
	}
	for i := 0; i < n; i++ {
		i := i
		fx.hookCase(func(ctx sdk.Context) {
			env := r.q06GenEnv(fx, fx.n)
			if i%3 == 0 {
				env = q06PlainEnv(fx)
			}
			if err := fx.writeEnv(ctx, env); err != nil {
				t.Fatal(err)
			}
			c := fx.begin(ctx, r)
			c.obs = fx.emitEnv(ctx, r)
			c.syncRegs()
			c.c06xWalk(10 + r.Rng.Intn(12))
			r.Case(fmt.Sprintf("C06x|%d|%d", i, len(c.log)), len(c.ids) > 0)
			r.Stat("case.c06x_walk")
		})
	}
	// a confirmation delivered by an account that is not its orchestrator is a confirmation like any
	// other: once per orchestrator and key, and DISCARDED when the checkpoint is re-issued
	fx.directed(r, "confirm_delivered_by_other_account", func(c *q06Case) {
		for round, g := range []uint64{21000, 300000} {
			n := c.opBatchPut(4 * (2 + round))
			c.track()
			c.opBatchConfirmC(n, 0, 4, 1, "c", "c", fx.fa.User(0))  // an ordinary account delivers validator 0's
			c.opBatchConfirmC(n, 1, 8, 2, "c", "c", fx.fa.Vals[4])  // another validator's account delivers validator 1's
			c.opBatchConfirmC(n, 2, 12, 3, "c", "c", nil)           // validator 2 delivers its own
			c.opBatchConfirmC(n, 4, 20, 5, "c", "c", fx.fa.User(0)) // the same ordinary account for a second validator
			c.track()
			c.opBatchStore(n)
			c.opBatchConfirmC(n, 0, 4, 1, "c", "c", nil)            // duplicate, now by the orchestrator itself
			c.opBatchConfirmC(n, 1, 8, 2, "c", "c", fx.fa.User(1))  // duplicate through yet another account
			c.opBatchConfirmC(n, 3, 16, 1, "c", "c", fx.fa.User(2)) // signed by somebody else's key
			c.opBatchConfirmC(n, 4, 20, 5, "g", "c", fx.fa.Vals[4]) // the deliverer is a validator that already confirmed
			c.track()
			c.opBatchGas(n, g) // the estimate is elected: checkpoint re-issued
			c.track()
			c.opBatchStore(n)
			c.opBatchConfirmC(n, 0, 4, 1, "o0", "c", fx.fa.User(0)) // the pre-election checkpoint
			c.opBatchConfirmC(n, 0, 4, 1, "c", "c", fx.fa.User(0))
			c.opBatchConfirmC(n, 1, 8, 2, "c", "c", nil)
			c.track()
			c.opBatchStore(n)
			c.opBatchGas(n, 50000) // refused: already set
			c.track()
			c.opBatchStore(n)
		}
	})
	// signed messages that nobody relays: the relayer (part of the signing bytes) and every stored
	// signature are the same however many blocks pass; a message reported in time and a message
	// elected on the way likewise keep what the property lets them keep
	fx.directed(r, "unrelayed_message_ages", func(c *q06Case) {
		kinds := []string{"s", "u", "v", "o", "s", "u"}
		var ids []uint64
		for i := 0; i < fx.n; i++ {
			id := c.opPut(kinds[i%len(kinds)], 1+i%3, fx.valID[i], 4*(i+1), i != 3)
			ids = append(ids, id)
			c.opSign(id, i, 4*(i+1), i+1, "c")
			c.opSign(id, (i+1)%fx.n, 4*((i+1)%fx.n+1), (i+1)%fx.n+1, "c")
			c.track()
		}
		c.opFlag("pub", ids[4], 4) // relayed in time
		c.track()
		for _, k := range []int{1, 9, 10, 11, 10} {
			c.opBlocks(k)
			c.track()
		}
		c.opSign(ids[0], 2, 12, 3, "c") // still signable, same bytes
		c.track()
		for i := 0; i < fx.n; i++ {
			c.opEst(ids[1], i, 40000)
		}
		c.opBlocks(1) // elected by the block's end blocker: signatures discarded
		c.track()
		c.opSign(ids[1], 0, 4, 1, "o0")
		c.opSign(ids[1], 0, 4, 1, "c")
		c.track()
		for _, k := range []int{8, 1, 1, 30, 19} {
			c.opBlocks(k)
			c.track()
		}
		c.opRelay()
	})
	c06xBlockAging(t, r, fx)
	c06xBlockBatch(t, r, fx)
}

// c06xTx delivers one signed transaction in its own real block.
func (fx *q06Fix) c06xTx(t *testing.T, c *q06Case, signer *FAAccount, msg sdk.Msg) error {
	fx.blocks++
	res := fx.fa.DeliverTx(signer, msg)
	if res.Panicked || res.BlockErr != "" {
		t.Fatalf("tx block failed: %s %s", res.BlockErr, res.Log)
	}
	c.ctx = fx.fa.CtxCached()
	if res.Code != 0 {
		return errors.New(res.Log)
	}
	return nil
}

// c06xBlockAging: messages assigned to every validator are signed through real transactions and then
// sit in the queue for more than 40 REAL empty blocks (every module's begin / end blocker); the queue
// is compared with the model and the property evaluated at every block boundary.
func c06xBlockAging(t *testing.T, r *Rec, fx *q06Fix) {
	fa := fx.fa
	var c *q06Case
	kinds := []string{"s", "v", "u", "o"}
	fx.commitHook(func(ctx sdk.Context) error {
		c = fx.begin(ctx, r)
		c.obs = fx.emitEnv(ctx, r)
		c.syncRegs()
		for i := 0; i < 4; i++ {
			c.opPut(kinds[i], 1, fx.valID[i], 4*(i+1), true)
			c.track()
		}
		return nil
	})
	boundary := func(line string) {
		c.ctx = fa.CtxCached()
		c.op(line, c.queueLine())
		c.track()
	}
	boundary("endblock")
	sign := func(id uint64, valIdx int) {
		m := c.msg(id)
		if m == nil {
			return
		}
		v := fa.Vals[valIdx]
		h := ethcrypto.Keccak256(append([]byte(evmkeeper.SignaturePrefix), c.bytesOf(m)...))
		sig, _ := ethcrypto.Sign(h, fx.ethKeys[valIdx])
		res := q06SignErr(fx.c06xTx(t, c, v, &consensustypes.MsgAddMessagesSignatures{Metadata: FAMeta(v.Addr, v.Addr), SignedMessages: []*consensustypes.ConsensusMessageSignature{
			{Id: id, QueueTypeName: fx.queue, Signature: sig, SignedByAddress: fx.addrStr[4*(valIdx+1)]}}}))
		if res == "ok" {
			c.keyAtSign[fmt.Sprintf("%d/%s", id, v.ValAddr().String())] = fx.rawKey[4*(valIdx+1)]
		}
		c.op(fmt.Sprintf("q sign %d %d %d %d c", id, fx.valID[valIdx], 4*(valIdx+1), valIdx+1), res)
		r.Stat("block.sign." + res)
		boundary("endblock")
	}
	for k, id := range c.ids {
		sign(id, k)
		sign(id, (k+2)%fx.n)
	}
	blocks := 43 + r.Rng.Intn(8)
	for i := 0; i < blocks; i++ {
		fx.blocks++
		if b := fa.NextBlock(); !b.OK() {
			t.Fatalf("block failed: %v %s", b.Err, b.Panic)
		}
		boundary("blocks 1")
		r.Stat("block.aged")
	}
	sign(c.ids[0], 4) // after the wait: the same bytes are still the ones to sign
	// the estimate of the second message is elected by a real end blocker, after the wait
	for j := 0; j < fx.n; j++ {
		w := fa.Vals[j]
		err := fx.c06xTx(t, c, w, &consensustypes.MsgAddMessageGasEstimates{Metadata: FAMeta(w.Addr, w.Addr), Estimates: []*consensustypes.MsgAddMessageGasEstimates_GasEstimate{
			{MsgId: c.ids[1], QueueTypeName: fx.queue, Value: 30000, EstimatedByAddress: w.EthAddr.Hex()}}})
		res := "ok"
		if err != nil {
			res = "rejected"
		}
		c.op(fmt.Sprintf("q est %d %d %d", c.ids[1], fx.valID[j], 30000), res)
		boundary("endblock")
	}
	sign(c.ids[1], 5)
	c.opRelay()
	r.Case("directed|block_aging", true)
	r.Stat("directed.block_aging")
}

// c06xBlockBatch: a bridge batch is confirmed through real transactions — one of them created and paid
// for by an ordinary account on behalf of a validator, one by another validator — before the estimate is
// elected; every validator then estimates through real transactions and the REAL skyway end blocker
// elects the estimate and re-issues the checkpoint.
func c06xBlockBatch(t *testing.T, r *Rec, fx *q06Fix) {
	fa := fx.fa
	var c *q06Case
	var nonce uint64
	fx.commitHook(func(ctx sdk.Context) error {
		c = fx.begin(ctx, r)
		c.obs = fx.emitEnv(ctx, r)
		c.syncRegs()
		nonce = c.opBatchPut(4 * 2)
		c.track()
		return nil
	})
	c.ctx = fa.CtxCached()
	confirm := func(valIdx int, creator *FAAccount, ref string) {
		msg := c.c06xConfirmMsg(nonce, valIdx, 4*(valIdx+1), valIdx+1, ref, "c", creator)
		res := q06ConfErr(fx.c06xTx(t, c, creator, msg))
		c.op("q "+c06xConfirmLine(fx, nonce, valIdx, 4*(valIdx+1), valIdx+1, ref, "c", creator), strings.SplitN(res, ":", 2)[0])
		r.Stat("block.bconf." + strings.SplitN(res, ":", 2)[0])
		c.opBatchStore(nonce)
		c.track()
	}
	confirm(0, fa.User(0), "c")
	confirm(1, fa.Vals[1], "c")
	confirm(2, fa.Vals[3], "c")
	confirm(0, fa.Vals[0], "c") // duplicate
	for j := 0; j < fx.n; j++ {
		w := fa.Vals[j]
		if err := fx.c06xTx(t, c, w, &skytypes.MsgEstimateBatchGas{Nonce: nonce, TokenContract: q06Token, EthSigner: w.EthAddr.Hex(),
			Estimate: uint64(21000 + j%2), Metadata: FAMeta(w.Addr, w.Addr)}); err != nil {
			t.Fatalf("EstimateBatchGas: %v", err)
		}
		r.Stat("block.bestimate")
		b := c.batch(nonce)
		if b == nil {
			t.Fatalf("batch %d vanished", nonce)
		}
		if b.GasEstimate != 0 {
			// the end blocker of this block elected: the model is told the elected number
			c.op(fmt.Sprintf("bgas %d %d", nonce, b.GasEstimate), "ok "+c.showBatch(nonce))
			c.opBatchStore(nonce)
			c.track()
			r.Stat("block.batch_elected")
			break
		}
		c.track()
	}
	if b := c.batch(nonce); b == nil || b.GasEstimate == 0 {
		t.Fatalf("the skyway end blocker did not elect an estimate")
	}
	confirm(0, fa.User(0), "o0")
	confirm(0, fa.User(1), "c")
	confirm(2, fa.Vals[2], "c")
	r.Case("directed|block_batch", true)
	r.Stat("directed.block_batch")
}
