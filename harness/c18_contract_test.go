//go:build verif

// C18 — messages a CONTRACT dispatches (op `wasm`).
//
// A CosmWasm contract can dispatch any protobuf message as CosmosMsg::Any (Stargate).  No ante handler sees such a
// message: the chain only checks that its declared signers are the contract, and the creator gate of Paloma's wasm
// message router (util/libwasm) is the one ownership check it passes — for the bare message and for the messages
// carried by authz.MsgExec wrappers (authz runs an inner message whose declared signer is the grantee without any
// authorisation).  "A licence is activated … only by the licensed address itself" therefore has to hold on this
// route too, and — the router being ONE long-lived object of the application — whatever the same router let through
// before.
//
// The application's own messenger (`App().VerifWasmMessenger()`: Paloma's router around wasmd's handler for protobuf
// messages, composed as app.New wires it) is obtained ONCE per application and every dispatch of every case on that
// application goes through this one value, as on a node.  An account stands for the contract's address.  Each
// dispatch runs on a cached store that is written back only on success (wasmd DispatchSubmessages does the same).
//
// Line protocol: `wasm <t> <contract> <depth> <grantee> <msg> …` — the contract dispatches ONE Any message at block
// time t: depth 0 = the single <msg> bare; depth k > 0 = k nested MsgExec{grantee} wrappers around the list of
// messages.  <msg> is the token of c18_tx_test.go.  The model (`wasm` in Model/LightNode.lean) has no router state.
package harness

import (
	"fmt"
	"math/big"
	"strings"

	wasmvmtypes "github.com/CosmWasm/wasmvm/v2/types"
	sdk "github.com/cosmos/cosmos-sdk/types"
	"github.com/cosmos/cosmos-sdk/x/authz"
)

// carries: the operation delivers a LIST of messages (a transaction or a contract's dispatch)
func (op c18Op) carries() bool { return op.kind == "tx" || op.kind == "wasm" }

// execWasm: contract op.signer dispatches op.msgs (under op.wrap MsgExec wrappers with grantee op.grantee) through
// the application's one messenger.
func (c *c18Case) execWasm(op c18Op) (string, string) {
	toks := []string{"wasm", fmt.Sprint(op.t), fmt.Sprint(op.signer), fmt.Sprint(op.wrap), fmt.Sprint(op.grantee)}
	var msgs []sdk.Msg
	for _, m := range op.msgs {
		m.wrap = 0
		tok, msg := c.msgOf(m)
		toks = append(toks, tok)
		msgs = append(msgs, msg)
	}
	line := strings.Join(toks, " ")
	c.e.r.Stat(fmt.Sprintf("wasm.depth.%d", min(op.wrap, 7)))
	c.e.r.Stat(fmt.Sprintf("wasm.msgs.%d", len(op.msgs)))
	var outer sdk.Msg
	switch {
	case op.wrap == 0 && len(msgs) == 1:
		outer = msgs[0]
	case op.wrap == 0:
		c.e.t.Fatalf("a bare dispatch carries exactly one message: %s", line)
	default:
		ex := authz.NewMsgExec(c.accts[op.grantee].Addr, msgs)
		outer = &ex
		for k := 1; k < op.wrap; k++ {
			ex := authz.NewMsgExec(c.accts[op.grantee].Addr, []sdk.Msg{outer})
			outer = &ex
		}
	}
	bz, err := c.e.fa.App().AppCodec().Marshal(outer.(interface {
		Reset()
		String() string
		ProtoMessage()
	}))
	if err != nil {
		c.e.t.Fatalf("marshal %s: %v", line, err)
	}
	anyMsg := wasmvmtypes.CosmosMsg{Any: &wasmvmtypes.AnyMsg{TypeURL: sdk.MsgTypeURL(outer), Value: bz}}
	contract := c.accts[op.signer].Addr
	res := c.hook(op.t, func(ctx sdk.Context) error {
		_, _, _, derr := c.e.wasm.DispatchMsg(ctx, contract, "", anyMsg)
		return derr
	})
	if res == "panic" {
		res = "rejected" // (the router recovers panics of the handlers; a panicking hook is a refused dispatch)
	}
	return line, res
}

// wasmMonitors evaluates "activated … only by the licensed address itself" on an ACCEPTED dispatch: the actor is the
// contract (nobody signed anything).  Every registration the dispatch carried took effect (all or nothing), so the
// licensed address of each of them must be the contract itself — or, as for signed transactions, an address that had
// fee-granted the contract before.  The clauses on amounts, accounts and the vesting schedule are those of a
// transaction (txMonitors).
func (c *c18Case) wasmMonitors(op c18Op, line string, prev, cur *c18Obs) {
	c.e.r.Stat("wasm.accepted")
	if op.wrap > 0 {
		c.e.r.Stat("wasm.accepted.wrapped")
	}
	C := op.signer
	for _, m := range op.msgs {
		if m.kind != "activate" {
			continue
		}
		c.e.r.Stat("wasm.accepted.activation")
		if a := m.creator; a != C && !prev.grants[[2]int{a, C}] {
			c.hit("activate_once", fmt.Sprintf("`%s`: the licence of %d was activated by a message that contract %d dispatched (under %d MsgExec wrappers); %d is neither the licensee nor its fee-grant delegate",
				line, a, C, op.wrap, C))
		}
	}
	c.txMonitors(op, line, prev, cur)
}

// wasmContracts: the addresses that may stand for a contract (a contract's address has an account)
func (c *c18Case) wasmContracts() []int {
	l := c.withKind('b')
	if c.rnd(4) == 0 {
		l = append(l, c.withKind('v')...)
	}
	return l
}

var c18WasmDepths = []int{0, 0, 0, 1, 1, 1, 1, 2, 2, 3, 6, 7}

// genWasm: one dispatch of a contract.  Classes: the contract's own messages (bare, wrapped, several in one MsgExec);
// ONE message in somebody else's name — creator = a licensee / payer, declared signer = the contract (what wasmd and
// authz let through) or the victim itself (authz finds no authorisation) — bare, wrapped, at any position of the
// list; a MsgExec whose grantee is not the contract; wrappers up to and beyond the router's nesting limit.
func (c *c18Case) genWasm() (c18Op, bool) {
	cs := c.wasmContracts()
	if len(cs) == 0 {
		return c18Op{}, false
	}
	C := c.pick(cs)
	op := c18Op{kind: "wasm", t: c.nextT(), signer: C, grantee: C, wrap: c18WasmDepths[c.rnd(len(c18WasmDepths))]}
	n := 1
	if op.wrap > 0 {
		n = 1 + c.rnd(3)
		if c.rnd(20) == 0 {
			n = 0
		}
	}
	for i := 0; i < n; i++ {
		op.msgs = append(op.msgs, c.inOrderMsg(C, op.msgs))
	}
	mode := "own"
	switch x := c.rnd(100); {
	case n == 0:
		mode = "empty"
	case x < 40:
		mode = "foreign_signer_contract"
		p := c.rnd(n)
		op.msgs[p] = c.foreignMsg(C, op.msgs[:p])
	case x < 50:
		mode = "foreign_signer_victim"
		p := c.rnd(n)
		m := c.foreignMsg(C, op.msgs[:p])
		m.signer = m.creator
		op.msgs[p] = m
	case x < 57 && op.wrap > 0:
		mode = "other_grantee"
		op.grantee = c.anyAddr()
	case x < 64:
		mode = "arbitrary"
		op.msgs[c.rnd(n)] = c.anyMsg()
	}
	for i := range op.msgs {
		op.msgs[i].t = 0
	}
	c.e.r.Stat("wasm.gen." + mode)
	return op, true
}

// directed: "activated … only by the licensed address itself" against a contract, with HISTORY in the router.  A
// licence for x is pending; contract y is any other account holder that x has not fee-granted.  y tries to register
// x's licence — bare, inside one or more MsgExec wrappers, at the end of a list of its own messages, with x as the
// declared signer — before AND after honest dispatches (of y itself and of another contract, bare and wrapped, with
// and without metadata) went through the same router.  None may activate the licence.  In the end x activates it —
// by a signed transaction, or standing for a contract that dispatches its own registration.
func (c *c18Case) directedWasmOwnership() {
	payer := 0
	for a := 0; a < 3; a++ {
		if c.spendable(a, 0).Cmp(c.spendable(payer, 0)) > 0 {
			payer = a
		}
	}
	var x int
	if lic := c.licensed(); len(lic) > 0 && c.rnd(2) == 0 {
		x = c.pick(lic)
	} else {
		fresh := c.withKind('n')
		if len(fresh) == 0 || c.spendable(payer, 0).Cmp(big.NewInt(10_000)) < 0 {
			return
		}
		x = c.pick(fresh)
		if c.do(c18Op{kind: "create", t: c.nextT(), signer: payer, creator: payer, client: x, amt: big.NewInt(int64(1000 + c.rnd(5000))), denom: 0, months: c.months()}) != "ok" {
			return
		}
	}
	up := c.licUpper(x)
	var ys []int
	for _, h := range c.withKind('b') {
		if h != x && !c.prev.grants[[2]int{x, h}] {
			ys = append(ys, h)
		}
	}
	if len(ys) == 0 {
		return
	}
	y := c.pick(ys)
	z := c.pick(ys) // another (or the same) contract for the honest traffic
	pending := func() bool { _, p := c.prev.lics[c18Key{x, up}]; return p }
	forged := func(signer int) c18Op { return c18Op{kind: "activate", signer: signer, creator: x, upCreator: up} }
	own := func(who, n int) []c18Op {
		var l []c18Op
		for i := 0; i < n; i++ {
			l = append(l, c.inOrderMsg(who, l))
		}
		return l
	}
	try := func(what string, who, depth int, msgs []c18Op) string {
		c.e.r.Stat("directed.wasm_ownership." + what)
		res := c.do(c18Op{kind: "wasm", t: c.nextT(), signer: who, grantee: who, wrap: depth, msgs: msgs})
		if res == "ok" {
			c.e.r.Stat("directed.wasm_ownership." + what + ".accepted")
		}
		return res
	}
	attack := func(tag string) {
		for _, v := range c.e.r.Rng.Perm(5)[:3] {
			if !pending() {
				return
			}
			switch v {
			case 0:
				try("forged_bare"+tag, y, 0, []c18Op{forged(y)})
			case 1:
				try("forged_wrapped"+tag, y, 1+c.rnd(2), []c18Op{forged(y)})
			case 2:
				try("forged_wrapped_after_own"+tag, y, 1, append(own(y, 1+c.rnd(2)), forged(y)))
			case 3:
				try("forged_wrapped_signer_licensee"+tag, y, 1, []c18Op{forged(x)})
			case 4:
				l := own(y, 1)
				try("forged_wrapped_before_own"+tag, y, 1+c.rnd(3), append([]c18Op{forged(y)}, l...))
			}
		}
	}
	if c.rnd(2) == 0 {
		attack(".cold")
	}
	// honest traffic through the same router: messages with metadata (legacy), without (bank send), bare and wrapped
	for _, v := range c.e.r.Rng.Perm(4)[:2+c.rnd(3)] {
		switch v {
		case 0:
			try("honest_wrapped", y, 1+c.rnd(2), own(y, 1+c.rnd(2)))
		case 1:
			try("honest_wrapped_other_contract", z, 1, []c18Op{{kind: "legacy", signer: z, creator: z}})
		case 2:
			try("honest_bare", z, 0, []c18Op{{kind: "legacy", signer: z, creator: z}})
		case 3:
			to := x
			if c.rnd(2) == 0 {
				to = c.anyAddr()
			}
			if to != y && c.spendable(y, 0).Sign() > 0 {
				try("honest_wrapped_no_metadata", y, 1, []c18Op{{kind: "send", signer: y, client: to, denom: 0, amt: big.NewInt(1)}})
			} else {
				try("honest_wrapped", y, 1, []c18Op{{kind: "legacy", signer: y, creator: y}})
			}
		}
	}
	attack(".warm")
	if !pending() || up {
		return
	}
	switch c.rnd(3) {
	case 0:
		c.do(c18Op{kind: "activate", t: c.nextT(), signer: x, creator: x})
	case 1:
		try("licensee_itself_bare", x, 0, []c18Op{forged(x)})
	default:
		try("licensee_itself_wrapped", x, 1+c.rnd(2), []c18Op{{kind: "legacy", signer: x, creator: x}, forged(x)})
	}
}
