//go:build verif

package harness

import (
	"bytes"
	"encoding/hex"
	"encoding/json"
	"fmt"
	"math/big"
	"sort"
	"strings"
	"testing"

	"cosmossdk.io/log"
	sdkmath "cosmossdk.io/math"
	"cosmossdk.io/store/prefix"
	storetypes "cosmossdk.io/store/types"
	wasmkeeper "github.com/CosmWasm/wasmd/x/wasm/keeper"
	wasmvmtypes "github.com/CosmWasm/wasmvm/v2/types"
	sdk "github.com/cosmos/cosmos-sdk/types"
	ethcommon "github.com/ethereum/go-ethereum/common"
	"github.com/palomachain/paloma/v2/util/libwasm"
	evmtypes "github.com/palomachain/paloma/v2/x/evm/types"
	schedbindings "github.com/palomachain/paloma/v2/x/scheduler/bindings"
	schedbindingstypes "github.com/palomachain/paloma/v2/x/scheduler/bindings/types"
	schedkeeper "github.com/palomachain/paloma/v2/x/scheduler/keeper"
	schedtypes "github.com/palomachain/paloma/v2/x/scheduler/types"
	treasurytypes "github.com/palomachain/paloma/v2/x/treasury/types"
	valsettypes "github.com/palomachain/paloma/v2/x/valset/types"
)

// C17 — scheduler jobs are immutable; one contract call per successful execution request.
// Model: lean/PalomaModel/Model/Scheduler.lean, driver: lean/Driver/C17.lean.
//
// Fixture: the full app with three registered EVM chains (store order): "eth-main" (active, the only
// registered chain on which MEV jobs are allowed), "idle-chain" (support added, never activated) and
// "test-chain" (active).  Jobs may also target chains nobody registered.
//
// Entry points driven:
//   msg     signed MsgCreateJob / MsgExecuteJob through ante + message router, one tx per block
//   wasm    libwasm router -> scheduler bindings custom messenger (scheduler_msg.create_job / execute_job)
//   legacy  libwasm router -> legacy `{job_id,payload}` fallback messenger
//   keeper  SchedulerKeeper.ExecuteJob with arbitrary sender / contract arguments
// The last three run on a branched context that is committed only on success (what wasmd does for a
// contract's message), either inside a block of their own ("b", followed by the end blockers) or directly
// on the working state between blocks ("g").

var c17Chains = []string{"eth-main", "idle-chain", "test-chain"}

const c17AppEvery = 48 // cases per app instance

type c17Msg struct {
	id     uint64
	isCall bool
	canon  string
	call   *evmtypes.SubmitLogicCall
	env    *evmtypes.Message
}

type c17Job struct {
	id       string
	owner    []byte
	chain    string
	addr     string
	abi      []byte
	payload  []byte
	mod, mev bool
}

type c17Env struct {
	t      *testing.T
	r      *Rec
	fa     *FullApp
	router wasmkeeper.Messenger
	mev    map[string]bool
	flip   map[string]bool
	relay  map[string]bool
	hist   []string
	// what the implementation's job store held after the previous op (raw proto bytes by id)
	jobsRaw map[string][]byte
	// what the harness asked for when a creation succeeded
	jobsReq map[string]*c17Job
	okExec  int
	rej     int
	// queues as observed after the previous op (nothing runs between two ops)
	lastQ map[string][]c17Msg
	// lean: large N, fewer ops get a block of their own
	lean bool
}

func c17Hex(b []byte) string {
	if len(b) == 0 {
		return "-"
	}
	return hex.EncodeToString(b)
}

func c17Opt(b []byte) string {
	if b == nil {
		return "nil"
	}
	return c17Hex(b)
}

func c17Bool(b bool) string {
	if b {
		return "1"
	}
	return "0"
}

func c17Str(s string) string {
	if s == "" {
		return "-"
	}
	return s
}

func c17Queue(ref string) string {
	return fmt.Sprintf("evm/%s/%s", ref, evmtypes.ConsensusTurnstoneMessage)
}

func (e *c17Env) newApp() {
	fa := NewFullApp(e.t, FullAppOpts{NumValidators: 4, NumUsers: 3, Seed: 1})
	if b := fa.KeepAliveAll(); !b.OK() {
		e.t.Fatalf("keepalive: %v %s", b.Err, b.Panic)
	}
	if b, err := fa.ActivateEVMChain(FAEvmChain{RefID: "test-chain", ChainID: 1337}); err != nil || !b.OK() {
		e.t.Fatalf("activate test-chain: %v %v", err, b.Err)
	}
	for _, c := range []FAEvmChain{{RefID: "eth-main", ChainID: 1}, {RefID: "idle-chain", ChainID: 5, Inactive: true}} {
		if b, err := c17AddChain(fa, c); err != nil || !b.OK() {
			e.t.Fatalf("add chain %s: %v %v", c.RefID, err, b.Err)
		}
	}
	// every user lets the next one sign for it (a fee grant is the chain's delegation): a request signed by the delegate
	// is still the CREATOR's request
	for i := 0; i < 3; i++ {
		if g := fa.GrantFee(fa.User(i), fa.User((i+1)%3)); !g.OK() {
			e.t.Fatalf("grant: %s %s", g.Log, g.BlockErr)
		}
	}
	sk := &fa.App().SchedulerKeeper
	e.fa = fa
	e.router = libwasm.NewRouterMessageDecorator(log.NewNopLogger(), schedbindings.NewLegacyMessenger(sk),
		schedbindings.NewMessenger(sk, schedkeeper.NewMsgServerImpl(sk)), nil, nil)(nil)
	e.mev = map[string]bool{}
	e.flip = map[string]bool{}
	e.relay = map[string]bool{}
	e.lastQ = nil
}

// c17AddChain registers a further chain that runs the compass contract already on record
// (ActivateEVMChain's SetAsCompassContract would try to re-deploy to the first chain).
func c17AddChain(fa *FullApp, c FAEvmChain) (FABlockResult, error) {
	return fa.WithDeliverCtx(func(ctx sdk.Context) error {
		a := fa.App()
		if err := a.EvmKeeper.AddSupportForNewChain(ctx, c.RefID, c.ChainID, 100, "0x1234567890123456789012345678901234567890123456789012345678901234", big.NewInt(0)); err != nil {
			return err
		}
		if err := a.EvmKeeper.SetFeeManagerAddress(ctx, c.RefID, "0x00000000000000000000000000000000000000FE"); err != nil {
			return err
		}
		if err := fa.registerValidatorsOnChain(ctx, c.RefID, ""); err != nil {
			return err
		}
		if !c.Inactive {
			sc, err := a.EvmKeeper.GetLastCompassContract(ctx)
			if err != nil {
				return err
			}
			if err := a.EvmKeeper.ActivateChainReferenceID(ctx, c.RefID, sc, "0x00000000000000000000000000000000000000C1", []byte("compass-"+c.RefID)); err != nil {
				return err
			}
		}
		a.MetrixKeeper.UpdateUptime(ctx)
		_, err := a.ValsetKeeper.TriggerSnapshotBuild(ctx)
		return err
	})
}

// ---------- observation ----------

func (e *c17Env) queues(ctx sdk.Context) map[string][]c17Msg {
	out := map[string][]c17Msg{}
	for _, ref := range c17Chains {
		msgs, err := e.fa.App().ConsensusKeeper.GetMessagesFromQueue(ctx, c17Queue(ref), 0)
		if err != nil {
			e.t.Fatalf("queue %s: %v", ref, err)
		}
		for _, m := range msgs {
			cm, err := m.ConsensusMsg(e.fa.App().AppCodec())
			if err != nil {
				e.t.Fatalf("unpack: %v", err)
			}
			mm, ok := cm.(*evmtypes.Message)
			if !ok {
				e.t.Fatalf("queue %s holds %T", ref, cm)
			}
			x := c17Msg{id: m.GetId(), env: mm}
			switch a := mm.Action.(type) {
			case *evmtypes.Message_UpdateValset:
				x.canon = fmt.Sprintf("v%d", a.UpdateValset.Valset.ValsetID)
			case *evmtypes.Message_SubmitLogicCall:
				c := a.SubmitLogicCall
				x.isCall, x.call = true, c
				x.canon = fmt.Sprintf("c/%s/%s/%s/%s/%s/%s", c17Hex([]byte(c.HexContractAddress)), c17Hex(c.Abi), c17Hex(c.Payload),
					c17Hex(c.SenderAddress), c17Hex(c.ContractAddress), c17Bool(c.ExecutionRequirements.EnforceMEVRelay))
			default:
				e.t.Fatalf("queue %s holds action %T", ref, a)
			}
			out[ref] = append(out[ref], x)
		}
	}
	return out
}

// baseQ is the queue content a message starts from: what the previous op left.
func (e *c17Env) baseQ(ctx sdk.Context) map[string][]c17Msg {
	if e.lastQ != nil {
		return e.lastQ
	}
	return e.queues(ctx)
}

// c17Diff is Driver.C17.diffQ: messages disappear from inside and appear at the end.
func c17Diff(a, b []c17Msg) []string {
	var out []string
	i, j := 0, 0
	for i < len(a) {
		if j < len(b) && a[i].canon == b[j].canon {
			i++
			j++
			continue
		}
		out = append(out, "-"+a[i].canon)
		i++
	}
	for ; j < len(b); j++ {
		out = append(out, "+"+b[j].canon)
	}
	return out
}

func c17Delta(a, b map[string][]c17Msg) string {
	var parts []string
	for _, ref := range c17Chains {
		if d := c17Diff(a[ref], b[ref]); len(d) > 0 {
			parts = append(parts, ref+":"+strings.Join(d, ";"))
		}
	}
	if len(parts) == 0 {
		return "-"
	}
	return strings.Join(parts, ",")
}

func (e *c17Env) jobStore(ctx sdk.Context) storetypes.KVStore {
	return prefix.NewStore(e.fa.App().SchedulerKeeper.Store(ctx), schedtypes.KeyPrefix("jobs"))
}

func (e *c17Env) readJobs(ctx sdk.Context) map[string][]byte {
	out := map[string][]byte{}
	it := e.jobStore(ctx).Iterator(nil, nil)
	defer it.Close()
	for ; it.Valid(); it.Next() {
		out[string(it.Key())] = append([]byte(nil), it.Value()...)
	}
	return out
}

// decode a stored job the way evm.ExecuteJob does
func (e *c17Env) decodeJob(raw []byte) (*schedtypes.Job, string, []byte, []byte) {
	var j schedtypes.Job
	if err := e.fa.App().AppCodec().Unmarshal(raw, &j); err != nil {
		e.t.Fatalf("stored job does not unmarshal: %v", err)
	}
	var def evmtypes.JobDefinition
	var pl evmtypes.JobPayload
	if err := json.Unmarshal(j.Definition, &def); err != nil {
		e.t.Fatalf("stored definition does not parse: %v", err)
	}
	if err := json.Unmarshal(j.Payload, &pl); err != nil {
		e.t.Fatalf("stored payload does not parse: %v", err)
	}
	return &j, def.GetAddress(), ethcommon.FromHex(def.GetABI()), ethcommon.FromHex(pl.HexPayload)
}

func (e *c17Env) dumpJobs() string {
	jobs := e.readJobs(e.fa.CtxCached())
	ids := make([]string, 0, len(jobs))
	for id := range jobs {
		ids = append(ids, id)
	}
	sort.Strings(ids)
	var parts []string
	for _, id := range ids {
		j, addr, abi, pl := e.decodeJob(jobs[id])
		parts = append(parts, fmt.Sprintf("%s/%s/%s/%s/%s/%s/%s/%s", c17Hex([]byte(j.ID)), c17Hex(j.Owner), j.Routing.ChainReferenceID,
			c17Hex([]byte(addr)), c17Hex(abi), c17Hex(pl), c17Bool(j.IsPayloadModifiable), c17Bool(j.EnforceMEVRelay)))
	}
	if len(parts) == 0 {
		return "-"
	}
	return strings.Join(parts, ",")
}

func (e *c17Env) dumpQueues() string {
	q := e.queues(e.fa.CtxCached())
	var parts []string
	for _, ref := range c17Chains {
		var ms []string
		for _, m := range q[ref] {
			ms = append(ms, m.canon)
		}
		s := "-"
		if len(ms) > 0 {
			s = strings.Join(ms, ";")
		}
		parts = append(parts, ref+":"+s)
	}
	return strings.Join(parts, ",")
}

// ---------- running things ----------

// god runs fn on a branch of the working state between blocks; the branch is merged only on success.
func (e *c17Env) god(fn func(ctx sdk.Context) error) error {
	ctx, write := e.fa.Ctx().CacheContext()
	var err error
	if p := faRecover(func() { err = fn(ctx) }); p != "" {
		err = fmt.Errorf("panic: %s", p)
	}
	if err == nil {
		write()
	}
	return err
}

// atomic runs fn as one message: on a branch, in a block of its own (mode b) or between blocks (mode g).
func (e *c17Env) atomic(mode string, fn func(ctx sdk.Context) error) error {
	if mode == "g" {
		return e.god(fn)
	}
	b, err := e.fa.WithDeliverCtx(fn)
	if !b.OK() {
		e.t.Fatalf("block failed: %v %s", b.Err, b.Panic)
	}
	return err
}

func (e *c17Env) hit(monitor, what string) {
	e.r.Hit(monitor, what, append([]string(nil), e.hist...))
}

type c17Expect struct {
	create *c17Job // request of a create op
	execID string
	exec   bool
	sup    c17Sup
	sender []byte
	contr  []byte
}

// c17Sup is the supplied payload of an execution request as the harness built it
type c17Sup struct {
	kind string // nil | empty | bad | h
	b    []byte
}

func (s c17Sup) tok() string {
	if s.kind == "h" {
		if len(s.b) == 0 {
			return "h-"
		}
		return "h" + hex.EncodeToString(s.b)
	}
	return s.kind
}

func c17Pad32(b []byte) []byte {
	if len(b) > 32 {
		// the implementation must refuse such a caller; if it does not, the monitor comparing against
		// this (unpadded, hence never matching) value reports it instead of the harness crashing
		return append([]byte("caller-longer-than-32-bytes:"), b...)
	}
	out := make([]byte, 32)
	copy(out[32-len(b):], b)
	return out
}

// op runs one state-changing operation, records it, and evaluates the property monitors on what the
// implementation did.  run returns (accepted, delta seen inside the message before commit/rollback or "*").
func (e *c17Env) op(line string, exp c17Expect, run func() (bool, string)) bool {
	before := e.lastQ
	if before == nil {
		before = e.queues(e.fa.CtxCached())
	}
	ok, raw := run()
	after := e.queues(e.fa.CtxCached())
	e.lastQ = after
	jobs := e.readJobs(e.fa.CtxCached())
	e.hist = append(e.hist, line)
	res := "rejected"
	if ok {
		res = "ok"
	}
	e.r.Op(line, fmt.Sprintf("%s %d %s %s", res, len(jobs), c17Delta(before, after), raw))

	// ---- jobs never change; ids are unique ----
	for id, old := range e.jobsRaw {
		cur, present := jobs[id]
		if !present {
			e.hit("job_fields_immutable", fmt.Sprintf("job %q disappeared", id))
		} else if !bytes.Equal(old, cur) {
			e.hit("job_fields_immutable", fmt.Sprintf("job %q changed: %x -> %x", id, old, cur))
		}
	}
	var fresh []string
	for id := range jobs {
		if _, known := e.jobsRaw[id]; !known {
			fresh = append(fresh, id)
		}
	}
	sort.Strings(fresh)
	switch {
	case exp.create != nil && ok:
		if _, existed := e.jobsRaw[exp.create.id]; existed {
			e.hit("id_unique", fmt.Sprintf("creation with existing id %q accepted", exp.create.id))
		}
		if len(fresh) != 1 || fresh[0] != exp.create.id {
			e.hit("create_stores_request", fmt.Sprintf("accepted creation of %q added jobs %q", exp.create.id, fresh))
		} else {
			j, addr, abi, pl := e.decodeJob(jobs[exp.create.id])
			q := exp.create
			if j.ID != q.id || !bytes.Equal(j.Owner, q.owner) || j.Routing.ChainReferenceID != q.chain || j.Routing.ChainType != "evm" ||
				addr != q.addr || !bytes.Equal(abi, q.abi) || !bytes.Equal(pl, q.payload) || j.IsPayloadModifiable != q.mod || j.EnforceMEVRelay != q.mev {
				e.hit("create_stores_request", fmt.Sprintf("stored job %q differs from the request: %v", q.id, j))
			}
			e.jobsReq[q.id] = q
		}
	default:
		if len(fresh) > 0 {
			e.hit("job_created_unasked", fmt.Sprintf("jobs %q appeared", fresh))
		}
	}
	e.jobsRaw = jobs

	// ---- contract calls: by message id, independently of the canonical delta ----
	type located struct {
		ref string
		m   c17Msg
	}
	var newCalls, goneCalls, newOther []located
	for _, ref := range c17Chains {
		old := map[uint64]c17Msg{}
		for _, m := range before[ref] {
			old[m.id] = m
		}
		cur := map[uint64]bool{}
		for _, m := range after[ref] {
			cur[m.id] = true
			if _, was := old[m.id]; !was {
				if m.isCall {
					newCalls = append(newCalls, located{ref, m})
				} else {
					newOther = append(newOther, located{ref, m})
				}
			} else if old[m.id].canon != m.canon {
				e.hit("queued_message_changed", fmt.Sprintf("%s #%d: %s -> %s", ref, m.id, old[m.id].canon, m.canon))
			}
		}
		for _, m := range before[ref] {
			if !cur[m.id] && m.isCall {
				goneCalls = append(goneCalls, located{ref, m})
			}
		}
	}
	if len(goneCalls) > 0 {
		e.hit("call_removed", fmt.Sprintf("%d contract call(s) vanished from the queue, first %s #%d", len(goneCalls), goneCalls[0].ref, goneCalls[0].m.id))
	}
	switch {
	case exp.exec && ok:
		e.okExec++
		job := e.jobsReq[exp.execID]
		if job == nil {
			e.hit("success_enqueues_exactly_one_call", fmt.Sprintf("execution of unknown job %q succeeded", exp.execID))
			break
		}
		if len(newCalls) != 1 {
			e.hit("success_enqueues_exactly_one_call", fmt.Sprintf("successful execution of %q enqueued %d contract calls", job.id, len(newCalls)))
			break
		}
		nc := newCalls[0]
		c := nc.m.call
		chosen := job.payload
		usesSupplied := job.mod && exp.sup.kind == "h"
		if usesSupplied {
			chosen = exp.sup.b
		}
		if !job.mod && (exp.sup.kind == "h" || exp.sup.kind == "bad") {
			e.hit("caller_payload_iff_modifiable", fmt.Sprintf("fixed job %q executed although a payload was supplied", job.id))
		}
		callerBytes := exp.sender
		if callerBytes == nil {
			callerBytes = exp.contr
		}
		want := append(append([]byte{}, chosen...), c17Pad32(callerBytes)...)
		if nc.ref != job.chain || nc.m.env.ChainReferenceID != job.chain {
			e.hit("success_enqueues_exactly_one_call", fmt.Sprintf("job %q targets %s, call enqueued on %s (message says %s)", job.id, job.chain, nc.ref, nc.m.env.ChainReferenceID))
		}
		if c.HexContractAddress != job.addr || !bytes.Equal(c.Abi, job.abi) {
			e.hit("success_enqueues_exactly_one_call", fmt.Sprintf("job %q: call goes to %q abi %x, job says %q abi %x", job.id, c.HexContractAddress, c.Abi, job.addr, job.abi))
		}
		if !bytes.Equal(c.Payload, want) {
			if len(c.Payload) >= 32 && bytes.Equal(c.Payload[len(c.Payload)-32:], c17Pad32(callerBytes)) {
				e.hit("caller_payload_iff_modifiable", fmt.Sprintf("job %q (modifiable=%v, supplied=%s): payload prefix %x, want %x", job.id, job.mod, exp.sup.tok(), c.Payload[:len(c.Payload)-32], chosen))
			} else {
				e.hit("inject_suffix", fmt.Sprintf("job %q: payload %x does not end in the padded caller %x", job.id, c.Payload, callerBytes))
			}
		}
		if !bytes.Equal(c.SenderAddress, exp.sender) || !bytes.Equal(c.ContractAddress, exp.contr) {
			e.hit("success_enqueues_exactly_one_call", fmt.Sprintf("job %q: sender %x contract %x, requested by %x / %x", job.id, c.SenderAddress, c.ContractAddress, exp.sender, exp.contr))
		}
		if c.ExecutionRequirements.EnforceMEVRelay != job.mev {
			e.hit("success_enqueues_exactly_one_call", fmt.Sprintf("job %q: MEV flag %v, job says %v", job.id, c.ExecutionRequirements.EnforceMEVRelay, job.mev))
		}
		if nc.m.env.Assignee == "" || nc.m.env.AssigneeRemoteAddress == "" {
			e.hit("success_enqueues_exactly_one_call", fmt.Sprintf("job %q: call has no assignee", job.id))
		}
		// a request delivered as a transaction runs inside a block, and that block's own evm end blocker adds just-in-time
		// valset updates for EVERY chain with a pending call and an outdated valset: those are the block's, not the
		// request's (the model predicts the whole queue delta of the block line by line); at keeper level nothing but the
		// request runs, and anything on another chain is the request's doing
		inBlock := strings.HasPrefix(line, "exec b ")
		own := 0
		for _, o := range newOther {
			if o.ref == job.chain {
				own++
			} else if !inBlock {
				e.hit("accompanying_valset_other_chain", fmt.Sprintf("execution on %s put %s on %s", job.chain, o.m.canon, o.ref))
			}
		}
		if own > 1 {
			e.hit("accompanying_valset_other_chain", fmt.Sprintf("execution was accompanied by %d other messages on its chain", own))
		}
	case exp.exec && !ok:
		e.rej++
		if len(newCalls) > 0 {
			e.hit("failure_enqueues_no_call", fmt.Sprintf("failed execution of %q left %d contract call(s), first on %s: %s", exp.execID, len(newCalls), newCalls[0].ref, newCalls[0].m.canon))
		}
	default:
		if !ok {
			e.rej++
		}
		if len(newCalls) > 0 {
			e.hit("call_without_request", fmt.Sprintf("%d contract call(s) appeared without an execution request, first on %s: %s", len(newCalls), newCalls[0].ref, newCalls[0].m.canon))
		}
	}
	return ok
}

// ---------- JSON documents ----------

func (r *Rec) c17Bytes() []byte {
	var n int
	switch r.Rng.Intn(10) {
	case 0:
		n = 0
	case 1:
		n = 1
	case 2, 3:
		n = 4
	case 4:
		n = []int{31, 32, 33}[r.Rng.Intn(3)]
	case 5:
		n = 36
	case 6:
		n = 68
	default:
		n = r.Rng.Intn(100)
	}
	b := make([]byte, n)
	r.Rng.Read(b)
	// call data that is itself TEXT: only ASCII hex digits (with or without a 0x in front), only decimal digits, printable
	// ASCII, a JSON document - the payload is bytes, whatever they spell, and is forwarded as those bytes
	if n >= 4 && r.Rng.Intn(6) == 0 {
		alpha := []string{"0123456789abcdef", "0123456789ABCDEF", "0123456789", "0123456789abcdefABCDEF", " !\"#$%&'()*+,-./:;<=>?@[]^_{|}~xyzXYZ"}[r.Rng.Intn(5)]
		for i := range b {
			b[i] = alpha[r.Rng.Intn(len(alpha))]
		}
		switch r.Rng.Intn(5) {
		case 0:
			b[0], b[1] = '0', 'x'
		case 1:
			b[0], b[1] = '0', 'X'
		case 2:
			copy(b, []byte(`{"hexPayload":"`))
		}
		r.Stat("payload.spells_text")
		return b
	}
	if n > 0 && r.Rng.Intn(4) == 0 {
		b[0] = byte(r.Rng.Intn(16)) // leading nibble zero: odd-length hex style applies
	}
	if n > 0 && r.Rng.Intn(6) == 0 {
		b[n-1] = 0
	}
	return b
}

func c17OddHex(b []byte) (string, bool) {
	h := hex.EncodeToString(b)
	if len(b) > 0 && b[0] < 16 {
		return h[1:], true
	}
	return h, false
}

// c17PayloadDoc renders a payload document that decodes to b (by json.Unmarshal into JobPayload + common.FromHex).
func (r *Rec) c17PayloadDoc(b []byte) string {
	h := hex.EncodeToString(b)
	for {
		switch r.Rng.Intn(12) {
		case 0:
			return `{"hexPayload":"0x` + h + `"}`
		case 1:
			return `{"hexPayload":"` + strings.ToUpper(h) + `"}`
		case 2:
			return `{"x":[1,{"hexPayload":"ff"}],"hexPayload":"` + h + `"}`
		case 3:
			return `{"HEXpayload":"` + h + `"}`
		case 4:
			if o, ok := c17OddHex(b); ok {
				return `{"hexPayload":"` + o + `"}`
			}
		case 5:
			return `{"hexPayload":"` + h + `zz00"}`
		case 6:
			if len(b) == 0 {
				return []string{`{}`, `null`, `{"hexPayload":""}`, `{"hexPayload":"0x"}`, `{"hexPayload":null}`}[r.Rng.Intn(5)]
			}
		case 7:
			return " {\n\t\"hexPayload\" : \"" + h + "\" } "
		case 8:
			return `{"hexPayload":"ff","hexPayload":"` + h + `"}` // last key wins
		default:
			return `{"hexPayload":"` + h + `"}`
		}
	}
}

// documents json.Unmarshal rejects for both JobDefinition and JobPayload, for the payload only, for the definition only
var (
	c17BadDocs    = []string{`{`, `[]`, `"00"`, `{"hexPayload":"00"`, `nul`, `0x00`, ` `, `{}x`, `7`}
	c17BadPayload = []string{`{"hexPayload":5}`, `{"hexPayload":["00"]}`, `{"hexpayload":{}}`}
	c17BadDef     = []string{`{"abi":7}`, `{"address":{}}`, `{"address":"0x00","ABI":[]}`}
)

func (r *Rec) c17BadDoc(def bool) string {
	extra := c17BadPayload
	if def {
		extra = c17BadDef
	}
	if i := r.Rng.Intn(len(c17BadDocs) + len(extra)); i < len(c17BadDocs) {
		return c17BadDocs[i]
	} else {
		return extra[i-len(c17BadDocs)]
	}
}

var c17Addrs = []string{
	"0x00000000000000000000000000000000000000aa", "0xAbCdEf0123456789abcdef0123456789ABCDEF01", "", "not-an-address",
	"0x1", "00000000000000000000000000000000000000bb",
}

func (r *Rec) c17DefDoc(addr string, abi []byte) string {
	a, _ := json.Marshal(addr)
	h := hex.EncodeToString(abi)
	switch r.Rng.Intn(8) {
	case 0:
		return `{"abi":"0x` + h + `","address":` + string(a) + `}`
	case 1:
		return `{"address":` + string(a) + `,"ABI":"` + h + `","extra":true}`
	case 2:
		if len(abi) == 0 {
			return `{"address":` + string(a) + `}`
		}
	case 3:
		if addr == "" {
			return `{"ABI":"` + h + `"}`
		}
	case 4:
		if o, ok := c17OddHex(abi); ok {
			return `{"ABI":"` + o + `","address":` + string(a) + `}`
		}
	}
	return `{"abi":"` + h + `","address":` + string(a) + `}`
}

// ---------- environment operations ----------

func (e *c17Env) setRelay(ctx sdk.Context, ref string, on bool) error {
	a := e.fa.App()
	all, err := a.TreasuryKeeper.GetRelayerFees(ctx)
	if err != nil {
		return err
	}
	for _, v := range e.fa.Vals {
		rfs := &treasurytypes.RelayerFeeSetting{ValAddress: v.ValAddr().String()}
		for _, s := range all {
			if s.ValAddress == rfs.ValAddress {
				for _, f := range s.Fees {
					if f.ChainReferenceId != ref {
						rfs.Fees = append(rfs.Fees, f)
					}
				}
			}
		}
		if on {
			rfs.Fees = append(rfs.Fees, treasurytypes.RelayerFeeSetting_FeeSetting{
				Multiplicator: sdkmath.LegacyMustNewDecFromStr("1.1"), ChainReferenceId: ref,
			})
		}
		if err := a.TreasuryKeeper.SetRelayerFee(ctx, v.ValAddr(), rfs); err != nil {
			return err
		}
	}
	return nil
}

func (e *c17Env) bump(ctx sdk.Context, ref string, mev bool) error {
	a := e.fa.App()
	cur, err := a.ValsetKeeper.GetCurrentSnapshot(ctx)
	if err != nil || cur == nil {
		return fmt.Errorf("no current snapshot: %v", err)
	}
	var traits []string
	if mev {
		traits = append(traits, valsettypes.PIGEON_TRAIT_MEV)
	}
	if !e.flip[ref] {
		traits = append(traits, "c17")
	}
	for _, v := range e.fa.Vals {
		infos, err := a.ValsetKeeper.GetValidatorChainInfos(ctx, v.ValAddr())
		if err != nil {
			return err
		}
		for _, in := range infos {
			if in.ChainReferenceID == ref {
				in.Traits = traits
			}
		}
		if err := a.ValsetKeeper.AddExternalChainInfo(ctx, v.ValAddr(), infos); err != nil {
			return err
		}
	}
	snap, err := a.ValsetKeeper.TriggerSnapshotBuild(ctx)
	if err != nil {
		return err
	}
	if snap == nil || snap.Id != cur.Id+1 {
		return fmt.Errorf("snapshot build after trait change: got %v after %d", snap.GetId(), cur.Id)
	}
	return nil
}

func (e *c17Env) snapshotID(ctx sdk.Context) uint64 {
	s, err := e.fa.App().ValsetKeeper.GetCurrentSnapshot(ctx)
	if err != nil || s == nil {
		e.t.Fatalf("no snapshot: %v", err)
	}
	return s.Id
}

// reset empties the job store and the queues, switches all relayers on, and reports the environment.
func (e *c17Env) reset() {
	err := e.god(func(ctx sdk.Context) error {
		js := e.jobStore(ctx)
		var keys [][]byte
		it := js.Iterator(nil, nil)
		for ; it.Valid(); it.Next() {
			keys = append(keys, append([]byte(nil), it.Key()...))
		}
		it.Close()
		for _, k := range keys {
			js.Delete(k)
		}
		for ref, ms := range e.queues(ctx) {
			for _, m := range ms {
				if err := e.fa.App().ConsensusKeeper.DeleteJob(ctx, c17Queue(ref), m.id); err != nil {
					return err
				}
			}
		}
		for _, ref := range c17Chains {
			if err := e.setRelay(ctx, ref, true); err != nil {
				return err
			}
			e.relay[ref] = true
		}
		return nil
	})
	if err != nil {
		e.t.Fatalf("reset: %v", err)
	}
	ctx := e.fa.CtxCached()
	var specs []string
	for _, ref := range c17Chains {
		oc := "-"
		if s, err := e.fa.App().ValsetKeeper.GetLatestSnapshotOnChain(ctx, ref); err == nil && s != nil {
			oc = fmt.Sprint(s.Id)
		}
		specs = append(specs, fmt.Sprintf("%s:%s:1:%s:%s", ref, c17Bool(ref != "idle-chain"), c17Bool(e.mev[ref]), oc))
	}
	line := fmt.Sprintf("reset %d %s", e.snapshotID(ctx), strings.Join(specs, ","))
	e.hist = []string{line}
	e.jobsRaw = map[string][]byte{}
	e.jobsReq = map[string]*c17Job{}
	e.okExec, e.rej = 0, 0
	e.lastQ = nil
	e.r.Op(line, "ok")
}

// ---------- generators ----------

var c17GoodIDs = []string{"j1", "job-a", "x.y_z", "a", "0", "aaaaaaaaaaaaaaaaaaaaaaaaaaaaaaaa", "palom", "pigeo-n", "z9._-"}
var c17BadIDs = []string{"", "Upper", "paloma-job", "mypigeon", "xpalomax", "aaaaaaaaaaaaaaaaaaaaaaaaaaaaaaaaa", "sp ace", "jöb", "a/b", "j1\n", "J1"}

func c17Contract(i int) []byte {
	mk := func(n int, seed byte) []byte {
		b := make([]byte, n)
		for k := range b {
			b[k] = seed + byte(k)
		}
		return b
	}
	switch i {
	case 0:
		return mk(32, 0xc0)
	case 1:
		return mk(32, 0x10)
	case 2:
		return mk(20, 0x70)
	case 3:
		return mk(33, 0x30)
	case 4:
		return mk(1, 0xee)
	default:
		return mk(64, 0x01)
	}
}

func (e *c17Env) pickContract() []byte {
	x := e.r.Rng.Intn(12)
	switch {
	case x < 5:
		return c17Contract(0)
	case x < 7:
		return c17Contract(1)
	case x == 7:
		// a 32-byte contract address whose tail is user 0's account address
		return c17Pad32(e.fa.User(0).Addr)
	default:
		return c17Contract(x - 6)
	}
}

func (e *c17Env) wasmDispatch(mode string, addr []byte, custom []byte, rawOut *string) error {
	return e.atomic(mode, func(ctx sdk.Context) error {
		b0 := e.baseQ(ctx)
		_, _, _, err := e.router.DispatchMsg(ctx, sdk.AccAddress(addr), "", wasmvmtypes.CosmosMsg{Custom: json.RawMessage(custom)})
		if rawOut != nil {
			*rawOut = c17Delta(b0, e.queues(ctx))
		}
		return err
	})
}

func (e *c17Env) genCreate(ids []string) {
	r := e.r
	id := ids[r.Rng.Intn(len(ids))]
	if r.Rng.Intn(8) == 0 {
		id = c17BadIDs[r.Rng.Intn(len(c17BadIDs))]
	}
	chainType := "evm"
	if r.Rng.Intn(12) == 0 {
		chainType = []string{"", "EVM", "solana", "evm2"}[r.Rng.Intn(4)]
	}
	chain := []string{"test-chain", "test-chain", "test-chain", "test-chain", "test-chain", "eth-main", "eth-main", "eth-main", "idle-chain", "idle-chain", "nochain", "bnb-main", "", "Test-chain"}[r.Rng.Intn(14)]
	mev := r.Rng.Intn(4) == 0
	if mev && r.Rng.Intn(3) != 0 {
		chain = []string{"eth-main", "eth-main", "bnb-main", "matic-main"}[r.Rng.Intn(4)]
	}
	mod := r.Rng.Intn(2) == 0
	addr := c17Addrs[r.Rng.Intn(len(c17Addrs))]
	abi := r.c17Bytes()
	pl := r.c17Bytes()
	defDoc, defTok := r.c17DefDoc(addr, abi), c17Hex([]byte(addr))+":"+c17Hex(abi)
	if r.Rng.Intn(14) == 0 {
		defDoc, defTok = r.c17BadDoc(true), "bad"
		if r.Rng.Intn(3) == 0 {
			defDoc = ""
		}
	}
	plDoc, plTok := r.c17PayloadDoc(pl), "h"+c17Hex(pl)
	if r.Rng.Intn(14) == 0 {
		plDoc, plTok = r.c17BadDoc(false), "bad"
		if r.Rng.Intn(3) == 0 {
			plDoc = ""
		}
	}
	viaWasm := r.Rng.Intn(3) == 0 || (e.lean && r.Rng.Intn(3) != 0)
	var owner []byte
	mode := "b"
	var run func() (bool, string)
	if viaWasm {
		owner = e.pickContract()
		if r.Rng.Intn(4) != 0 || e.lean {
			mode = "g"
		}
		custom, _ := json.Marshal(libwasm.CustomMessage{Scheduler: &schedbindingstypes.Message{CreateJob: &schedbindingstypes.CreateJob{Job: &schedbindingstypes.Job{
			JobId: id, ChainType: chainType, ChainReferenceId: chain, Definition: defDoc, Payload: plDoc, PayloadModifiable: mod, IsMEV: mev,
		}}}})
		run = func() (bool, string) { return e.wasmDispatch(mode, owner, custom, nil) == nil, "*" }
		r.Stat("create.wasm")
	} else {
		u := e.fa.User(r.Rng.Intn(3))
		owner = u.Addr
		job := &schedtypes.Job{
			ID: id, Routing: schedtypes.Routing{ChainType: chainType, ChainReferenceID: chain},
			Definition: []byte(defDoc), Payload: []byte(plDoc), IsPayloadModifiable: mod, EnforceMEVRelay: mev,
		}
		if r.Rng.Intn(4) == 0 { // a creator-chosen owner is ignored
			job.Owner = e.fa.User(r.Rng.Intn(3)).Addr
		}
		run = func() (bool, string) {
			return e.fa.DeliverTx(u, &schedtypes.MsgCreateJob{Metadata: FAMeta(u.Addr, u.Addr), Job: job}).OK(), "*"
		}
		r.Stat("create.msg")
	}
	line := fmt.Sprintf("create %s %s %s %s %s %s %s %s %s", mode, c17Hex(owner), c17Hex([]byte(id)), c17Str(chainType), c17Str(chain), defTok, plTok, c17Bool(mod), c17Bool(mev))
	req := &c17Job{id: id, owner: owner, chain: chain, addr: addr, abi: abi, payload: pl, mod: mod, mev: mev}
	_, existed := e.jobsRaw[id]
	if e.op(line, c17Expect{create: req}, run) {
		r.Stat("create.ok")
	} else if existed {
		r.Stat("create.rejected.duplicate")
	} else {
		r.Stat("create.rejected.other")
	}
}

func (e *c17Env) genExec(ids []string) {
	r := e.r
	id := ids[r.Rng.Intn(len(ids))]
	if len(e.jobsReq) > 0 && r.Rng.Intn(6) != 0 {
		known := make([]string, 0, len(e.jobsReq))
		for k := range e.jobsReq {
			known = append(known, k)
		}
		sort.Strings(known)
		id = known[r.Rng.Intn(len(known))]
		// contracts can only run modifiable jobs: prefer one now and then
		if r.Rng.Intn(2) == 0 {
			for _, k := range known {
				if e.jobsReq[k].mod {
					id = k
					break
				}
			}
		}
	}
	switch r.Rng.Intn(16) {
	case 0:
		id = c17BadIDs[r.Rng.Intn(len(c17BadIDs))]
	case 1:
		id = "never-created"
	}
	job := e.jobsReq[id]
	var sup c17Sup
	var in []byte
	mkSup := func(allowNil, allowEmpty, allowBad bool) {
		for {
			switch x := r.Rng.Intn(10); {
			case x < 3 && allowNil:
				sup, in = c17Sup{kind: "nil"}, nil
				return
			case x == 3 && allowEmpty:
				sup, in = c17Sup{kind: "empty"}, []byte{}
				return
			case x == 4 && allowBad:
				sup, in = c17Sup{kind: "bad"}, []byte(r.c17BadDoc(false))
				return
			case x >= 5:
				b := r.c17Bytes()
				if job != nil && r.Rng.Intn(8) == 0 {
					b = job.payload // supplying the stored payload is still "supplying"
				}
				sup, in = c17Sup{kind: "h", b: b}, []byte(r.c17PayloadDoc(b))
				return
			}
		}
	}
	// bias towards what can succeed
	wantOK := job != nil && r.Rng.Intn(4) != 0
	var line string
	var exp c17Expect
	var run func() (bool, string)
	entry := []string{"msg", "msg", "msg", "wasm", "wasm", "wasm", "legacy", "keeper", "keeper", "keeper"}[r.Rng.Intn(10)]
	if e.lean && entry == "msg" && r.Rng.Intn(3) != 0 {
		entry = "keeper"
	}
	if wantOK && !job.mod && (entry == "wasm" || entry == "legacy") && r.Rng.Intn(3) != 0 {
		entry = []string{"msg", "keeper"}[r.Rng.Intn(2)]
	}
	mode := "g"
	if entry == "msg" || (r.Rng.Intn(4) == 0 && !(e.lean && r.Rng.Intn(4) != 0)) {
		mode = "b"
	}
	switch entry {
	case "msg":
		mkSup(true, false, true)
		if wantOK && !job.mod {
			sup, in = c17Sup{kind: "nil"}, nil
		}
		ui := r.Rng.Intn(3)
		u := e.fa.User(ui)
		signer := u
		if r.Rng.Intn(3) == 0 {
			signer = e.fa.User((ui + 1) % 3) // the creator's delegate signs; the request is the creator's
			r.Stat("exec.msg.signed_by_delegate")
		}
		exp = c17Expect{exec: true, execID: id, sup: sup, sender: u.Addr}
		run = func() (bool, string) {
			return e.fa.DeliverTx(signer, &schedtypes.MsgExecuteJob{Metadata: FAMeta(u.Addr, signer.Addr), JobID: id, Payload: in}).OK(), "*"
		}
	case "wasm", "legacy":
		b := r.c17Bytes()
		if wantOK && len(b) == 0 && entry == "wasm" {
			b = []byte{0x01}
		}
		sup = c17Sup{kind: "h", b: b}
		addr := e.pickContract()
		if wantOK && len(addr) > 32 {
			addr = c17Contract(0)
		}
		var custom []byte
		if entry == "wasm" {
			custom, _ = json.Marshal(libwasm.CustomMessage{Scheduler: &schedbindingstypes.Message{ExecuteJob: &schedbindingstypes.ExecuteJob{JobID: id, Sender: "ignored", Payload: b}}})
		} else {
			custom, _ = json.Marshal(struct {
				JobID   string `json:"job_id"`
				Payload []byte `json:"payload"`
			}{id, b})
		}
		exp = c17Expect{exec: true, execID: id, sup: sup, sender: addr, contr: addr}
		run = func() (bool, string) {
			raw := "-"
			err := e.wasmDispatch(mode, addr, custom, &raw)
			if (id == "" || (len(b) == 0 && entry == "wasm")) && err != nil {
				raw = "-"
			}
			return err == nil, raw
		}
	default: // keeper
		mkSup(true, true, true)
		if wantOK && !job.mod && sup.kind != "empty" {
			sup, in = c17Sup{kind: "nil"}, nil
		}
		var sender, contr []byte
		switch r.Rng.Intn(8) {
		case 0:
			contr = e.pickContract()
		case 1:
			// neither
		case 2:
			sender, contr = e.fa.User(0).Addr, e.pickContract()
		case 3:
			sender, contr = []byte{}, e.pickContract() // non-nil empty sender wins over the contract
		case 4:
			sender = e.pickContract()
		default:
			sender = e.fa.User(r.Rng.Intn(3)).Addr
		}
		exp = c17Expect{exec: true, execID: id, sup: sup, sender: sender, contr: contr}
		var sa, ca sdk.AccAddress
		if sender != nil {
			sa = sdk.AccAddress(sender)
		}
		if contr != nil {
			ca = sdk.AccAddress(contr)
		}
		run = func() (bool, string) {
			raw := "-"
			err := e.atomic(mode, func(ctx sdk.Context) error {
				b0 := e.baseQ(ctx)
				_, err := e.fa.App().SchedulerKeeper.ExecuteJob(ctx, id, in, sa, ca)
				raw = c17Delta(b0, e.queues(ctx))
				return err
			})
			return err == nil, raw
		}
	}
	line = fmt.Sprintf("exec %s %s %s %s %s %s", mode, entry, c17Opt(exp.sender), c17Opt(exp.contr), c17Hex([]byte(id)), sup.tok())
	ok := e.op(line, exp, run)
	r.Stat("exec." + entry)
	switch {
	case ok && job != nil && job.mod && sup.kind == "h":
		r.Stat("exec.ok.supplied_payload")
	case ok:
		r.Stat("exec.ok.stored_payload")
	case job == nil:
		r.Stat("exec.rejected.no_job")
	case !job.mod && (sup.kind == "h" || sup.kind == "bad"):
		r.Stat("exec.rejected.fixed_job_payload")
	case sup.kind == "bad" || sup.kind == "empty":
		r.Stat("exec.rejected.bad_payload")
	case job.chain == "nochain" || job.chain == "bnb-main" || job.chain == "matic-main":
		r.Stat("exec.rejected.unknown_chain")
	case !e.relay[job.chain] || (job.mev && !e.mev[job.chain]):
		r.Stat("exec.rejected.relayer_selection")
	default:
		r.Stat("exec.rejected.other")
	}
}

// doEnv applies one environment change: kind = relay | bump | publish.
func (e *c17Env) doEnv(kind, mode, ref string, flag bool) {
	var line string
	var fn func(ctx sdk.Context) error
	switch kind {
	case "relay":
		line = fmt.Sprintf("relay %s %s %s", mode, ref, c17Bool(flag))
		fn = func(ctx sdk.Context) error { return e.setRelay(ctx, ref, flag) }
		defer func() { e.relay[ref] = flag }()
	case "bump":
		line = fmt.Sprintf("bump %s %s %s", mode, ref, c17Bool(flag))
		fn = func(ctx sdk.Context) error { return e.bump(ctx, ref, flag) }
		defer func() { e.mev[ref], e.flip[ref] = flag, !e.flip[ref] }()
	default:
		line = fmt.Sprintf("publish %s %s", mode, ref)
		fn = func(ctx sdk.Context) error {
			return e.fa.App().ValsetKeeper.SetSnapshotOnChain(ctx, e.snapshotID(ctx), ref)
		}
	}
	e.r.Stat("env." + kind)
	e.op(line, c17Expect{}, func() (bool, string) {
		if err := e.atomic(mode, fn); err != nil {
			e.t.Fatalf("%s: %v", line, err)
		}
		return true, "*"
	})
}

func (e *c17Env) genEnv() {
	r := e.r
	ref := c17Chains[r.Rng.Intn(3)]
	mode := "g"
	if r.Rng.Intn(5) == 0 && !e.lean {
		mode = "b"
	}
	switch r.Rng.Intn(7) {
	case 0, 1, 2:
		on := !e.relay[ref]
		if !on && r.Rng.Intn(2) == 0 { // prefer repairing an outage over causing one
			for _, c := range c17Chains {
				if !e.relay[c] {
					ref, on = c, true
				}
			}
		}
		e.doEnv("relay", mode, ref, on)
	case 3, 4:
		if r.Rng.Intn(2) == 0 {
			ref = "eth-main"
		}
		e.doEnv("bump", mode, ref, r.Rng.Intn(2) == 0)
	default:
		e.doEnv("publish", mode, ref, false)
	}
}

// ---------- directed histories ----------

func (e *c17Env) simpleJob(id, chain string, mod, mev bool, pl []byte) bool {
	u := e.fa.User(0)
	addr, abi := c17Addrs[0], []byte{0xab, 0xcd}
	job := &schedtypes.Job{
		ID: id, Routing: schedtypes.Routing{ChainType: "evm", ChainReferenceID: chain},
		Definition: []byte(e.r.c17DefDoc(addr, abi)), Payload: []byte(e.r.c17PayloadDoc(pl)), IsPayloadModifiable: mod, EnforceMEVRelay: mev,
	}
	line := fmt.Sprintf("create b %s %s evm %s %s h%s %s %s", c17Hex(u.Addr), c17Hex([]byte(id)), chain, c17Hex([]byte(addr))+":"+c17Hex(abi), c17Hex(pl), c17Bool(mod), c17Bool(mev))
	e.r.Stat("create.msg")
	return e.op(line, c17Expect{create: &c17Job{id: id, owner: u.Addr, chain: chain, addr: addr, abi: abi, payload: pl, mod: mod, mev: mev}}, func() (bool, string) {
		return e.fa.DeliverTx(u, &schedtypes.MsgCreateJob{Metadata: FAMeta(u.Addr, u.Addr), Job: job}).OK(), "*"
	})
}

func (e *c17Env) execMsg(user int, id string, sup c17Sup) bool {
	u := e.fa.User(user)
	var in []byte
	switch sup.kind {
	case "h":
		in = []byte(e.r.c17PayloadDoc(sup.b))
	case "bad":
		in = []byte(e.r.c17BadDoc(false))
	}
	line := fmt.Sprintf("exec b msg %s nil %s %s", c17Hex(u.Addr), c17Hex([]byte(id)), sup.tok())
	e.r.Stat("exec.msg")
	return e.op(line, c17Expect{exec: true, execID: id, sup: sup, sender: u.Addr}, func() (bool, string) {
		return e.fa.DeliverTx(u, &schedtypes.MsgExecuteJob{Metadata: FAMeta(u.Addr, u.Addr), JobID: id, Payload: in}).OK(), "*"
	})
}

func (e *c17Env) execKeeper(mode, id string, sup c17Sup, sender, contr []byte) bool {
	var in []byte
	switch sup.kind {
	case "h":
		in = []byte(e.r.c17PayloadDoc(sup.b))
	case "bad":
		in = []byte(e.r.c17BadDoc(false))
	case "empty":
		in = []byte{}
	}
	var sa, ca sdk.AccAddress
	if sender != nil {
		sa = sdk.AccAddress(sender)
	}
	if contr != nil {
		ca = sdk.AccAddress(contr)
	}
	line := fmt.Sprintf("exec %s keeper %s %s %s %s", mode, c17Opt(sender), c17Opt(contr), c17Hex([]byte(id)), sup.tok())
	e.r.Stat("exec.keeper")
	return e.op(line, c17Expect{exec: true, execID: id, sup: sup, sender: sender, contr: contr}, func() (bool, string) {
		raw := "-"
		err := e.atomic(mode, func(ctx sdk.Context) error {
			b0 := e.baseQ(ctx)
			_, err := e.fa.App().SchedulerKeeper.ExecuteJob(ctx, id, in, sa, ca)
			raw = c17Delta(b0, e.queues(ctx))
			return err
		})
		return err == nil, raw
	})
}

// scenario runs one of a few hand-made histories that the random generator rarely produces.
func (e *c17Env) scenario(k int) {
	r := e.r
	nilSup := c17Sup{kind: "nil"}
	c0 := c17Contract(0)
	switch k % 6 {
	case 0:
		// the end blocker's valset loop stops at the first chain whose update fails: eth-main (first in
		// store order) has a pending call, a stale published valset and no relayer; test-chain behind it
		// is stale as well and is not served until eth-main recovers
		e.doEnv("publish", "g", "eth-main", false)
		e.doEnv("publish", "g", "test-chain", false)
		e.simpleJob("ea", "eth-main", true, false, []byte{1})
		e.simpleJob("ta", "test-chain", false, false, []byte{2})
		e.execMsg(0, "ea", nilSup)
		e.execMsg(1, "ta", nilSup)
		e.doEnv("bump", "g", "test-chain", false)
		e.doEnv("relay", "g", "eth-main", false)
		e.endBlock()
		e.execMsg(2, "ta", nilSup) // PreJobExecution serves test-chain directly
		e.doEnv("relay", "g", "eth-main", true)
		e.endBlock()
	case 1:
		// a request failing at relayer selection after the hook already queued a valset update:
		// the MEV job's chain has relayers but none with the MEV trait
		e.doEnv("bump", "g", "eth-main", false)
		e.doEnv("publish", "g", "eth-main", false)
		e.simpleJob("mv", "eth-main", true, true, r.c17Bytes())
		e.doEnv("bump", "g", "test-chain", false) // eth-main now stale
		e.execKeeper("g", "mv", c17Sup{kind: "h", b: r.c17Bytes()}, c0, c0)
		e.execKeeper("b", "mv", nilSup, e.fa.User(1).Addr, nil)
		e.execMsg(1, "mv", nilSup)
		e.doEnv("bump", "g", "eth-main", true) // MEV relayers appear
		e.execMsg(1, "mv", nilSup)
		e.execKeeper("g", "mv", c17Sup{kind: "h", b: r.c17Bytes()}, c0, c0)
	case 2:
		// duplicates: the same id re-created by another owner / other chain / other flags, then executed
		pl := r.c17Bytes()
		e.simpleJob("dup", "test-chain", false, false, pl)
		e.simpleJob("dup", "eth-main", true, true, r.c17Bytes())
		custom, _ := json.Marshal(libwasm.CustomMessage{Scheduler: &schedbindingstypes.Message{CreateJob: &schedbindingstypes.CreateJob{Job: &schedbindingstypes.Job{
			JobId: "dup", ChainType: "evm", ChainReferenceId: "test-chain", Definition: `{"abi":"","address":"0xdead"}`, Payload: `{"hexPayload":"ff"}`, PayloadModifiable: true,
		}}}})
		e.r.Stat("create.wasm")
		e.op(fmt.Sprintf("create g %s %s evm test-chain %s:- hff 1 0", c17Hex(c0), c17Hex([]byte("dup")), c17Hex([]byte("0xdead"))),
			c17Expect{create: &c17Job{id: "dup", owner: c0, chain: "test-chain", addr: "0xdead", payload: []byte{0xff}, mod: true}},
			func() (bool, string) { return e.wasmDispatch("g", c0, custom, nil) == nil, "*" })
		e.execMsg(0, "dup", nilSup)
		e.execMsg(0, "dup", nilSup)
		e.execMsg(1, "dup", c17Sup{kind: "h", b: pl}) // fixed job: even the stored payload may not be supplied
		e.execKeeper("g", "dup", c17Sup{kind: "empty"}, e.fa.User(2).Addr, nil)
		e.execKeeper("g", "dup", c17Sup{kind: "bad"}, e.fa.User(2).Addr, nil)
	case 3:
		// caller encodings: account, 32-byte contract, contract equal to a padded account, 33 bytes, none
		e.simpleJob("cal", "test-chain", true, false, []byte{0xaa})
		u0 := e.fa.User(0).Addr
		sup := c17Sup{kind: "h", b: []byte{0x01, 0x02}}
		e.execKeeper("g", "cal", sup, u0, nil)
		e.execKeeper("g", "cal", sup, c17Pad32(u0), c17Pad32(u0))
		e.execKeeper("g", "cal", sup, nil, c0)
		e.execKeeper("g", "cal", sup, []byte{}, c0)
		e.execKeeper("g", "cal", sup, nil, nil)
		e.execKeeper("g", "cal", sup, c17Contract(3), nil)
		e.execKeeper("g", "cal", sup, nil, c17Contract(3))
		e.execKeeper("g", "cal", sup, c17Contract(1)[:31], c17Contract(3))
	case 4:
		// unknown and inactive target chains; the chain appears in no way later
		e.simpleJob("nc", "nochain", true, false, []byte{1})
		e.simpleJob("ic", "idle-chain", true, false, []byte{2})
		e.execMsg(0, "nc", nilSup)
		e.execMsg(0, "ic", nilSup)
		e.doEnv("publish", "g", "idle-chain", false)
		e.doEnv("bump", "g", "idle-chain", true)
		e.execMsg(0, "ic", c17Sup{kind: "h", b: nil})
		e.endBlock()
		e.doEnv("relay", "b", "idle-chain", false)
		e.execMsg(0, "ic", nilSup)
	default:
		// never-published chain: the valset published at snapshot time is replaced at the next one
		e.simpleJob("np", "test-chain", true, false, []byte{3})
		e.execMsg(0, "np", nilSup)
		e.doEnv("bump", "g", "test-chain", false)
		e.execMsg(0, "np", nilSup)
		e.doEnv("relay", "g", "test-chain", false)
		e.doEnv("bump", "b", "eth-main", true)
		e.execMsg(0, "np", nilSup)
		e.doEnv("relay", "g", "test-chain", true)
		e.endBlock()
		e.execMsg(0, "np", c17Sup{kind: "h", b: r.c17Bytes()})
	}
}

func (e *c17Env) endBlock() {
	e.op("endblock", c17Expect{}, func() (bool, string) {
		if b := e.fa.NextBlock(); !b.OK() {
			e.t.Fatalf("block: %v %s", b.Err, b.Panic)
		}
		return true, "*"
	})
	e.r.Stat("env.endblock")
}

func (e *c17Env) dumps() {
	e.r.Op("jobs", e.dumpJobs())
	e.r.Op("queues", e.dumpQueues())
}

func TestC17(t *testing.T) {
	r := NewRec(t, "C17")
	defer r.Close()
	e := &c17Env{t: t, r: r}

	maxOps := 14
	if r.N > 600 {
		maxOps, e.lean = 9, true
	}
	if r.N > 1500 {
		maxOps = 6
	}
	for i := 0; i < r.N; i++ {
		if i%c17AppEvery == 0 {
			e.newApp()
		}
		e.reset()
		if every := map[bool]int{false: 5, true: 20}[e.lean]; i%every == every-1 {
			e.scenario(i / every)
			e.dumps()
			r.Stat("cases.directed")
			r.Case(strings.Join(e.hist, ";"), e.okExec >= 1 && e.rej >= 1)
			continue
		}
		// job-id pool of the case: few ids, so duplicates and re-executions are the rule
		ids := []string{c17GoodIDs[r.Rng.Intn(len(c17GoodIDs))], c17GoodIDs[r.Rng.Intn(len(c17GoodIDs))]}
		if r.Rng.Intn(2) == 0 {
			ids = append(ids, c17GoodIDs[r.Rng.Intn(len(c17GoodIDs))])
		}
		// a case starts either from a chain whose valset is current, stale, or never published
		if r.Rng.Intn(3) == 0 {
			e.genEnv()
		}
		nOps := 4 + r.Rng.Intn(maxOps-3)
		for k := 0; k < nOps; k++ {
			switch x := r.Rng.Intn(20); {
			case x < 3 || (k < 2 && x < 16):
				e.genCreate(ids)
			case x < 14:
				e.genExec(ids)
			case x < 18:
				e.genEnv()
			case x < 19:
				e.endBlock()
			default:
				e.dumps()
			}
		}
		if r.Rng.Intn(3) == 0 {
			e.endBlock()
		}
		e.dumps()
		r.Case(strings.Join(e.hist, ";"), e.okExec >= 1 && e.rej >= 1)
	}
}
