//go:build verif

package harness

// C09, the bridge module's end blocker under collaborators that fail the hard way.  The property is stated at the block
// boundary: `AppModule.EndBlock` of x/skyway (what the module manager calls) must come back whatever happens inside —
// a batch build at a height divisible by 50, the attestation tally with its handlers, the time-out sweep.  The real
// module's `EndBlock` is run on the keeper fixture with transfers waiting, open batches near their time-out and fully
// voted claims pending, while the n-th call of one collaborator class (chain-info look-up, relayer pick, remote
// address look-up, bank lock / send / pool / mint / burn) PANICS through the `verif` hook.  A panic that leaves
// `EndBlock` is a block that cannot be finalised: monitor `block_never_aborts`.

import (
	"fmt"
	"testing"
	"time"

	sdkmath "cosmossdk.io/math"
	sdk "github.com/cosmos/cosmos-sdk/types"
	"github.com/palomachain/paloma/v2/x/skyway"
	skytypes "github.com/palomachain/paloma/v2/x/skyway/types"
)

func TestC09Sky(t *testing.T) {
	r := NewRec(t, "C09S")
	defer r.Close()
	targets := []string{"evm.chaininfo", "evm.pick", "evm.ethaddr", "bank.send", "bank.lock", "bank.pool", "bank.mint", "bank.burn"}
	for c := 0; c < r.N; c++ {
		e := newSkyEnv(t, 2)
		e.addToken("utok1", "0x1000000000000000000000000000000000000001")
		e.fund(1, 1, sdkmath.NewInt(100000))
		e.fund(2, 1, sdkmath.NewInt(100000))
		mod := skyway.NewAppModule(nil, e.k, nil, nil, e.cc)
		var hist []string
		send := func(u int, amt int64) {
			res := e.runMsg(func(ctx sdk.Context) error {
				_, err := e.ms.SendToRemote(ctx, &skytypes.MsgSendToRemote{EthDest: "0x00000000000000000000000000000000000000aa",
					Amount: sdk.Coin{Denom: "utok1", Amount: sdkmath.NewInt(amt)}, ChainReferenceId: skyChain, Metadata: e.meta(e.users[u-1])})
				return err
			})
			hist = append(hist, fmt.Sprintf("send user %d %d -> %s", u, amt, res))
		}
		// one end block with a fault; the height decides what the end blocker does
		block := func(height int64, dt time.Duration, target string, nth int, panics bool) {
			e.setBlock(height, e.now.Add(dt))
			e.fault.Reset(target, nth)
			e.fault.Panic = panics
			line := fmt.Sprintf("endblock height %d (+%s) with the call %d of %s %s", height, dt, nth, target, map[bool]string{true: "panicking", false: "failing"}[panics])
			hist = append(hist, line)
			escaped := ""
			func() {
				defer func() {
					if p := recover(); p != nil {
						escaped = fmt.Sprint(p)
					}
				}()
				if err := mod.EndBlock(e.ctx); err != nil {
					escaped = "error returned: " + err.Error()
				}
			}()
			fired := e.fault.Fired
			e.fault.Reset("", 0)
			e.fault.Panic = false
			if fired {
				r.Stat("sky.fault_fired." + target)
			}
			out := "returned"
			if escaped != "" {
				out = "aborted"
				r.Hit("block_never_aborts", "the bridge module's EndBlock did not come back: "+escaped,
					map[string]interface{}{"history": append([]string{}, hist...)})
			}
			r.Op(fmt.Sprintf("endblock %d", height), out)
		}
		n := 2 + r.Rng.Intn(4)
		for i := 0; i < n; i++ {
			send(1+r.Rng.Intn(2), int64(1+r.Rng.Intn(500)))
		}
		// heights: the next multiple of 50 (batch build), an ordinary one, one past the batch time-out
		base := (e.height/50 + 1) * 50
		steps := []struct {
			h  int64
			dt time.Duration
		}{{base, 2 * time.Second}, {base + 1, 2 * time.Second}, {base + 50, 11 * time.Minute}, {base + 100, 2 * time.Second}}
		for _, st := range steps {
			target, nth, panics := "", 0, false
			if r.Rng.Intn(4) != 0 {
				target, nth, panics = targets[r.Rng.Intn(len(targets))], 1+r.Rng.Intn(3), r.Rng.Intn(4) != 0
			}
			if st.h != base && r.Rng.Intn(2) == 0 {
				send(1+r.Rng.Intn(2), int64(1+r.Rng.Intn(500)))
			}
			block(st.h, st.dt, target, nth, panics)
		}
	}
}
