//go:build verif

package harness

import (
	"fmt"
	"math/big"
	"strings"

	sdk "github.com/cosmos/cosmos-sdk/types"
	"github.com/ethereum/go-ethereum/common"
	evmtypes "github.com/palomachain/paloma/v2/x/evm/types"
)

// C07 - governance over the SET of supported chains.
//
// "The same remote transaction is never accepted for a second message" - whatever happens between the
// two submissions.  The used-transaction set is a store of the evm module, keyed by the transaction
// hash alone; no chain owns it.  Histories therefore contain what governance does to the set of
// supported chains: a second chain (c07Other) is supported while a message of the first chain is
// attested, is added (AddSupportForNewChain, the function AddChainProposal runs, then activated with
// the latest compass) or removed (RemoveSupportForChain, the function RemoveChainProposal runs)
// between the acceptance of a transaction and its re-submission for a second message with identical
// content, or both.  The re-submission runs through the same attest path as every other case: the
// monitors tx_single_use / effects_at_most_once and the model comparison decide it; in addition the
// op `used` compares isTxProcessed of the transactions accepted so far with the model's
// used-transaction set after every governance operation (Model/Attest.lean `Gov`, Props/C07.lean §13).
//
// Removing the chain under test ITSELF (model: `gov rmself`, theorems
// chain_governance_keeps_used_transactions / used_tx_never_accepted_again_with_chain_governance) is not
// driven here: consensus.RemoveQueueCompletely collects the keys of the queue with
// `for ; iterator.Valid(); iterator.Valid()` - the iterator is never advanced - so removing a chain one
// of whose queues holds a message does not return.  For the same reason the other chain is only removed
// while all its queues are empty (otherQueuesEmpty).

const c07Other = "c07b"

// c07GovModes: what happens to the other chain around the first attestation (B = before it, W = in
// the window between it and the re-submission of its transaction).
//
//	rm      B: supported            W: removed
//	add     B: not supported        W: added
//	add-rm  B: not supported        W: added, then removed
//	rm-add  B: supported            W: removed, then added again
var c07GovModes = []string{"rm", "add", "add-rm", "rm-add"}

// addOther: governance adds support for a second chain and it becomes active on the latest compass.
func (e *c07Env) addOther(ctx sdk.Context) error {
	a := e.fa.App()
	before := e.observe(ctx)
	if err := a.EvmKeeper.AddSupportForNewChain(ctx, c07Other, 4343, 100, "0x1234567890123456789012345678901234567890123456789012345678901234", big.NewInt(0)); err != nil {
		return fmt.Errorf("add %s: %w", c07Other, err)
	}
	if err := a.EvmKeeper.SetFeeManagerAddress(ctx, c07Other, "0x00000000000000000000000000000000000000FE"); err != nil {
		return err
	}
	last, err := a.EvmKeeper.GetLastCompassContract(ctx)
	if err != nil {
		return err
	}
	if err := a.EvmKeeper.ActivateChainReferenceID(ctx, c07Other, last, "0x00000000000000000000000000000000000000C1", []byte("compass-"+c07Other)); err != nil {
		return err
	}
	// AddSupportForNewChain tries to deploy the latest compass to every chain: what it scheduled on the
	// chain under test is dropped again (as saveCompass does), so that the cases that follow start as
	// they did before
	seen := map[uint64]bool{}
	for _, x := range before.queue {
		seen[x] = true
	}
	after := e.observe(ctx)
	for _, x := range after.queue {
		if st := e.load(ctx, x); !seen[x] && st != nil && st.msg.GetUploadSmartContract() != nil {
			if err := a.ConsensusKeeper.DeleteJob(ctx, e.queue, x); err != nil {
				return err
			}
		}
	}
	for cid := range after.deps {
		if before.deps[cid] == "" {
			a.EvmKeeper.DeleteSmartContractDeploymentByContractID(ctx, cid, c07Chain)
		}
	}
	e.otherUp = true
	e.r.Stat("gov:addother")
	e.op("gov addother", "ok")
	return nil
}

// otherQueuesEmpty: no consensus queue of the other chain holds a message (see the note on
// RemoveQueueCompletely above).
func (e *c07Env) otherQueuesEmpty(ctx sdk.Context) bool {
	a := e.fa.App()
	opts, err := a.EvmKeeper.SupportedQueues(ctx)
	if err != nil {
		e.t.Fatalf("SupportedQueues: %v", err)
	}
	for _, o := range opts {
		if !strings.HasSuffix(o.QueueTypeName, c07Other) && !strings.Contains(o.QueueTypeName, c07Other+"/") && !strings.Contains(o.QueueTypeName, "/"+c07Other) {
			continue
		}
		msgs, err := a.ConsensusKeeper.GetMessagesFromQueue(ctx, o.QueueTypeName, 0)
		if err != nil || len(msgs) > 0 {
			return false
		}
	}
	return true
}

// rmOther: governance removes the other chain.
func (e *c07Env) rmOther(ctx sdk.Context) error {
	if !e.otherQueuesEmpty(ctx) {
		e.r.Stat("gov:rmother-skipped:a-queue-of-the-other-chain-holds-messages")
		return nil
	}
	if err := e.fa.App().EvmKeeper.RemoveSupportForChain(ctx, &evmtypes.RemoveChainProposal{ChainReferenceID: c07Other}); err != nil {
		return fmt.Errorf("remove %s: %w", c07Other, err)
	}
	if _, err := e.fa.App().EvmKeeper.GetChainInfo(ctx, c07Chain); err != nil {
		e.t.Fatalf("harness: removing %s removed %s: %v", c07Other, c07Chain, err)
	}
	e.otherUp = false
	e.r.Stat("gov:rmother")
	e.op("gov rmother", "ok")
	return nil
}

// usedLine compares the used-transaction flags of the transactions accepted so far in this env (the
// latest ones, and tx when it is not among them) with the model's set.
func (e *c07Env) usedLine(ctx sdk.Context, tx *c07Tx) {
	hs := e.acceptedTx
	if len(hs) > 6 {
		hs = hs[len(hs)-6:]
	}
	hs = append([]common.Hash(nil), hs...)
	if tx != nil {
		found := false
		for _, h := range hs {
			found = found || h == tx.tx.Hash()
		}
		if !found {
			hs = append(hs, tx.tx.Hash())
		}
	}
	if len(hs) == 0 {
		return
	}
	names, flags := make([]string, len(hs)), make([]string, len(hs))
	for i, h := range hs {
		names[i] = new(big.Int).SetBytes(h.Bytes()).String()
		flags[i] = c07B(e.isProcessed(ctx, h))
	}
	e.op("used "+strings.Join(names, ","), strings.Join(flags, ","))
}

// govBefore brings the other chain into the state the mode wants BEFORE the first attestation.
func (e *c07Env) govBefore(ctx sdk.Context, mode string) error {
	if mode == "" {
		return nil
	}
	e.r.Stat("gov-mode:" + mode)
	want := mode == "rm" || mode == "rm-add"
	if want && !e.otherUp {
		return e.addOther(ctx)
	}
	if !want && e.otherUp {
		return e.rmOther(ctx)
	}
	return nil
}

// govBetween: the governance operations of the window between the first attestation (of tx) and the
// re-submission.
func (e *c07Env) govBetween(ctx sdk.Context, mode string, tx *c07Tx) error {
	if mode == "" {
		return nil
	}
	e.usedLine(ctx, tx)
	var steps []func(sdk.Context) error
	switch mode {
	case "rm":
		steps = []func(sdk.Context) error{e.rmOther}
	case "add":
		steps = []func(sdk.Context) error{e.addOther}
	case "add-rm":
		steps = []func(sdk.Context) error{e.addOther, e.rmOther}
	case "rm-add":
		steps = []func(sdk.Context) error{e.rmOther, e.addOther}
	default:
		e.t.Fatalf("harness: governance mode %q", mode)
	}
	for _, st := range steps {
		if err := st(ctx); err != nil {
			return err
		}
		e.usedLine(ctx, tx)
	}
	return nil
}

// govAfter: the case ends with one supported chain, as it began (the end blocker between the cases
// never meets the other chain).
func (e *c07Env) govAfter(ctx sdk.Context) error {
	if e.otherUp {
		if err := e.rmOther(ctx); err != nil {
			return err
		}
		if e.otherUp {
			e.t.Fatalf("harness: the other chain could not be removed at the end of the case")
		}
		e.usedLine(ctx, nil)
	}
	return nil
}
