//go:build verif

package harness

import (
	"fmt"
	"sort"
	"strings"

	"cosmossdk.io/x/feegrant"
	wasmvmtypes "github.com/CosmWasm/wasmvm/v2/types"
	codectypes "github.com/cosmos/cosmos-sdk/codec/types"
	sdk "github.com/cosmos/cosmos-sdk/types"
	"github.com/cosmos/cosmos-sdk/x/authz"
)

// Directed histories `xdh`: acting for somebody else through a WRAPPER that carries SEVERAL
// messages, and through a gate that is asked MANY times.
//
// The per-message scenarios x / w / wx of TestC03 wrap exactly one message, and every contract
// dispatch stands alone.  Two whole classes of input are driven here:
//
//   - an authz.MsgExec (grantee = the actor) holding 1..4 paloma messages, each declaring the actor
//     as signer (authz then runs it on the grantee's word alone), with a message created in the name
//     of ANOTHER principal first / in the middle / last among the actor's own (or a granter's)
//     messages, each message possibly wrapped again, the whole list possibly wrapped again (around
//     and beyond the depth to which the gates unfold wrappers);
//   - SEQUENCES of such dispatches through the SAME router value (the chain builds its wasm message
//     router once, at start; c03Dir.router) resp. of transactions: honest ones - of the same outer
//     type - before a forged one, forged before honest, forged twice.
//
// route w: the actor stands for a contract that dispatches the message as CosmosMsg::Any (no ante
// handler; the creator gate of the wasm message router is the only check); route t: the actor signs
// a transaction carrying it (ante decorator; a fee grant G -> actor is in force for some histories:
// G's messages are then the actor's to send, B's never are).
//
// The property, evaluated on the implementation after every dispatch (monitors of TestC03):
// a dispatch bringing along a message whose creator is neither the actor nor (route t) a granter
// of the actor is not accepted (unauthorised-accepted), does not pass the ante chain (route t:
// ante-bypassed), and nothing attributed to that creator changes (cross-principal-write).  The Lean
// driver evaluates the gate model (`wasmDispatchTopBounded` / `anteOkTopBounded`) on the same tree.

type c03Messenger interface {
	DispatchMsg(ctx sdk.Context, contractAddr sdk.AccAddress, contractIBCPortID string, msg wasmvmtypes.CosmosMsg) ([]sdk.Event, [][]byte, [][]*codectypes.Any, error)
}

// router returns the wasm message handler of the running application: ONE value per application
// instance, as on a node (built again only when the application is restarted).
func (d *c03Dir) router() c03Messenger {
	app := d.w.FA.App()
	if d.rtApp != interface{}(app) || d.rt == nil {
		d.rtApp = app
		d.rt = app.VerifWasmMessenger()
	}
	return d.rt
}

// c03DispatchAny lets account `contract` dispatch msg as CosmosMsg::Any through the shared router.
// gatePassed: the router's creator gate let the message through (whatever wasmd / authz / the
// handlers answered afterwards); layers = MsgExec layers around the most deeply wrapped message.
func (d *c03Dir) c03DispatchAny(contract *FAAccount, msg sdk.Msg, layers int) (res FATxResult, gatePassed bool) {
	fa := d.w.FA
	if fa.Broken {
		fa.Restart()
	}
	pm, isProto := msg.(interface {
		Reset()
		String() string
		ProtoMessage()
	})
	if !isProto {
		return FATxResult{Code: 1, Log: "not a proto message"}, false
	}
	bz, err := fa.App().AppCodec().Marshal(pm)
	if err != nil {
		return FATxResult{Code: 1, Log: "marshal: " + err.Error()}, false
	}
	rt := d.router()
	var derr error
	var b FABlockResult
	var herr error
	if p := faRecover(func() {
		b, herr = fa.WithDeliverCtx(func(ctx sdk.Context) error {
			_, _, _, derr = rt.DispatchMsg(ctx, contract.Addr, "", wasmvmtypes.CosmosMsg{Any: &wasmvmtypes.AnyMsg{TypeURL: sdk.MsgTypeURL(msg), Value: bz}})
			return derr
		})
	}); p != "" {
		res = FATxResult{Panicked: true, Code: 1, Log: "panic: " + p}
		if fa.Broken {
			fa.Restart()
		}
		return res, false
	}
	res = FATxResult{Height: b.Height}
	gatePassed = true
	if herr != nil || derr != nil {
		res.Code, res.Log = 1, fmt.Sprint(herr, derr)
		gatePassed = !strings.Contains(res.Log, "cannot dispatch a message created by") && !strings.Contains(res.Log, "nested too deeply") && layers <= 6
	}
	if fa.Broken {
		fa.Restart()
	}
	return res, gatePassed
}

type c03Leaf struct {
	typ     string
	creator c03Principal
	extra   int
	msg     sdk.Msg
}

// dispatchHistory: one `xdh` line.
func (d *c03Dir) dispatchHistory() {
	w, fa, rng, r := d.w, d.w.FA, d.rng, d.r
	route := "w"
	if rng.Intn(5) < 2 {
		route = "t"
	}
	pool := d.users
	needVal := rng.Intn(10) < 3
	if needVal {
		pool = d.vals
	}
	var types []ZooMsg
	for _, m := range ZooAll() {
		if m.NeedsAuthority || m.AuthoritySigned || m.NeedsValidator != needVal {
			continue
		}
		types = append(types, m)
	}
	if len(types) == 0 || len(pool) < 3 {
		return
	}
	perm := rng.Perm(len(pool))
	A, B, G := pool[perm[0]], pool[perm[1]], pool[perm[2]]
	granted := route == "t" && rng.Intn(2) == 0
	if granted {
		if g := fa.GrantFee(G.acc, A.acc); !g.OK() {
			d.t.Fatalf("grant: %s %s", g.Log, g.BlockErr)
		}
		d.grants[[2]int{G.pid, A.pid}] = true
	}
	grantTok := func() string {
		var g []string
		for k := range d.grants {
			g = append(g, fmt.Sprintf("%d:%d", k[0], k[1]))
		}
		sort.Strings(g)
		if len(g) == 0 {
			return "-"
		}
		return strings.Join(g, ",")
	}
	authorised := func(c c03Principal) bool {
		return c.pid == A.pid || route == "t" && d.grants[[2]int{c.pid, A.pid}]
	}
	pattern := []string{"HF", "HF", "HHF", "F", "FHF", "HFH", "FF", "HH"}[rng.Intn(8)]
	var toks, outs []string
	line := func() string {
		return fmt.Sprintf("xdh %s %d %s %s", route, A.pid, grantTok(), strings.Join(toks, " "))
	}
	nontrivial := false
	seenHonestExec := false
	for _, kindOf := range pattern {
		forged := kindOf == 'F'
		// ---- shape
		n := 1 + rng.Intn(3)
		if forged {
			n = 1 + rng.Intn(4)
		}
		outer := []int{1, 1, 1, 2, 2, 5, 6, 7}[rng.Intn(8)]
		if route == "w" && n == 1 && rng.Intn(6) == 0 {
			outer = 0 // the bare message
		}
		creators := make([]c03Principal, n)
		for i := range creators {
			creators[i] = A
			if granted && rng.Intn(4) == 0 {
				creators[i] = G
			}
		}
		pos := ""
		if forged {
			f := rng.Intn(n)
			if x := rng.Intn(10); x < 3 {
				f = 0
			} else if x < 5 {
				f = n - 1
			}
			creators[f] = B
			if !granted && rng.Intn(5) == 0 {
				creators[f] = G // a second stranger
			}
			switch {
			case n == 1:
				pos = "only"
			case f == 0:
				pos = "first"
			case f == n-1:
				pos = "last"
			default:
				pos = "middle"
			}
			if n > 2 && rng.Intn(5) == 0 {
				creators[(f+1+rng.Intn(n-1))%n] = B // two foreign messages
			}
		}
		// ---- the messages
		var leaves []c03Leaf
		for i := 0; i < n; i++ {
			var lf c03Leaf
			for try := 0; try < 6 && lf.msg == nil; try++ {
				m := types[rng.Intn(len(types))]
				if i > 0 && rng.Intn(3) == 0 {
					m, _ = ZooByName(leaves[i-1].typ) // same type twice
				}
				var msg sdk.Msg
				if p := faRecover(func() { msg = m.Build(w, creators[i].acc, rng, false) }); p != "" || msg == nil {
					continue
				}
				if !ZooSetMeta(msg, creators[i].acc.Addr.String(), A.acc.Addr.String()) {
					continue
				}
				lf = c03Leaf{typ: m.Name, creator: creators[i], msg: msg}
			}
			if lf.msg == nil {
				r.Stat("xdh:no-message-built")
				break
			}
			if outer > 0 {
				lf.extra = []int{0, 0, 0, 0, 0, 0, 1, 2}[rng.Intn(8)]
			}
			leaves = append(leaves, lf)
		}
		if len(leaves) != n {
			continue
		}
		if fa.Broken {
			fa.Restart()
		}
		wrap := func(inner sdk.Msg, k int) sdk.Msg {
			for i := 0; i < k; i++ {
				ex := authz.NewMsgExec(A.acc.Addr, []sdk.Msg{inner})
				inner = &ex
			}
			return inner
		}
		layers := 0
		var items []sdk.Msg
		var ltoks []string
		for _, lf := range leaves {
			items = append(items, wrap(lf.msg, lf.extra))
			ltoks = append(ltoks, fmt.Sprintf("%s;%d;%d", lf.typ, lf.creator.pid, lf.extra))
			if outer+lf.extra > layers {
				layers = outer + lf.extra
			}
		}
		top := items[0]
		if outer > 0 {
			ex := authz.NewMsgExec(A.acc.Addr, items)
			top = wrap(&ex, outer-1)
		}
		// ---- whose state is watched: the first creator the actor may not act for; else a bystander
		victim := B
		unauthorised := false
		for _, lf := range leaves {
			if !authorised(lf.creator) {
				victim, unauthorised = lf.creator, true
				break
			}
		}
		if !unauthorised && victim.pid == A.pid {
			victim = G
		}
		before := c03Attributed(w, fa.CtxCached(), victim)
		noise := c03Attributed(w, c03EmptyBlock(w), victim)
		cfBefore := d.confirmSnapshot()
		var res FATxResult
		var gate bool
		if route == "w" {
			res, gate = d.c03DispatchAny(A.acc, top, layers)
		} else {
			res = w.DeliverRawMeta(A.acc, top)
			gate = res.OK() || len(res.Events) > 0
		}
		after := c03Attributed(w, fa.CtxCached(), victim)
		ok := res.OK()
		h := "rej"
		if ok {
			h = "ok"
		} else if route == "t" && (res.BlockErr != "" && !res.Panicked || c03ResourceRefused(res)) {
			h = "pre"
		}
		chgLvl, diff := c03Change(before, after, noise)
		toks = append(toks, fmt.Sprintf("%d/%s/%d/%d/%s", outer, h, victim.pid, chgLvl, strings.Join(ltoks, "+")))
		// ---- the property on the implementation
		victimAuthorised := false
		for _, lf := range leaves {
			if lf.creator.pid == victim.pid && authorised(lf.creator) {
				victimAuthorised = true
			}
		}
		verdict := "fine"
		if chgLvl > 0 && (!ok || !victimAuthorised) {
			verdict = "violation"
			r.Hit("cross-principal-write", fmt.Sprintf("dispatch (route %s) by principal %d of a MsgExec list with creators %v: state attributed to principal %d changed: %v (code=%d log=%.200s)",
				route, A.pid, c03LeafCreators(leaves), victim.pid, diff, res.Code, res.Log), line())
		}
		if unauthorised && ok {
			r.Hit("unauthorised-accepted", fmt.Sprintf("dispatch (route %s) by principal %d bringing along a message created in the name of principal %d (creators in order %v, %d outer MsgExec layers; fee grants %s) was accepted",
				route, A.pid, victim.pid, c03LeafCreators(leaves), outer, grantTok()), line())
			r.Stat("xdh:forged-accepted")
		}
		if unauthorised && gate && route == "t" {
			r.Hit("ante-bypassed", fmt.Sprintf("transaction signed by principal %d alone whose MsgExec brings along a message created in the name of principal %d (creators in order %v) passed the ante chain (accepted=%v)",
				A.pid, victim.pid, c03LeafCreators(leaves), ok), line())
		}
		outs = append(outs, fmt.Sprintf("gate=%s:res=%s:%s", map[bool]string{true: "pass", false: "rej"}[gate], map[bool]string{true: "ok", false: "rej"}[ok], verdict))
		d.checkConfirms(cfBefore, line())
		// ---- distribution
		r.Stat("xdh:dispatch")
		r.Stat("xdh:route-" + route)
		r.Stat(fmt.Sprintf("xdh:messages.%d", n))
		if forged {
			r.Stat("xdh:foreign-" + pos)
			if seenHonestExec && outer > 0 {
				r.Stat("xdh:forged-after-honest-exec-same-router")
			}
			if !unauthorised {
				r.Stat("xdh:forged-but-granted")
			}
		} else if outer > 0 && gate {
			seenHonestExec = true
		}
		if ok {
			r.Stat("xdh:accepted")
			nontrivial = true
		}
		if gate {
			r.Stat("xdh:gate-pass")
		} else {
			r.Stat("xdh:gate-rej")
			nontrivial = true
		}
		if layers > 6 {
			r.Stat("xdh:beyond-depth-bound")
		}
		if chgLvl > 0 {
			r.Stat("victim-state-changed")
		}
	}
	if granted {
		rv := feegrant.NewMsgRevokeAllowance(G.acc.Addr, A.acc.Addr)
		if g := fa.DeliverTx(G.acc, &rv); !g.OK() {
			d.t.Fatalf("revoke: %s %s", g.Log, g.BlockErr)
		}
	}
	if len(toks) > 0 {
		r.Op(line(), strings.Join(outs, ","))
		r.Stat("sc:dispatch-history")
		r.Case(line(), nontrivial)
	}
	if granted {
		delete(d.grants, [2]int{G.pid, A.pid})
	}
}

func c03LeafCreators(ls []c03Leaf) []int {
	out := make([]int, len(ls))
	for i, l := range ls {
		out[i] = l.creator.pid
	}
	return out
}
