//go:build verif

package harness

import (
	"fmt"
	"math/big"
	"strings"
	"testing"
	"time"

	sdkmath "cosmossdk.io/math"
	sdk "github.com/cosmos/cosmos-sdk/types"
	stakingkeeper "github.com/cosmos/cosmos-sdk/x/staking/keeper"
	stakingtypes "github.com/cosmos/cosmos-sdk/x/staking/types"
	evmtypes "github.com/palomachain/paloma/v2/x/evm/types"
	treasurytypes "github.com/palomachain/paloma/v2/x/treasury/types"
	valsettypes "github.com/palomachain/paloma/v2/x/valset/types"
)

// C10 — validator-set snapshots and the validator set sent to a remote chain.
// Model: lean/PalomaModel/Model/Valset.lean, driver lean/Driver/C10.lean.
//
// Two layers, both on the real app (NewFullApp):
//   - pure layer: arbitrary snapshots are written with ValsetKeeper.SaveModifiedSnapshot on a
//     throw-away cache context and transformed through the public gRPC query
//     EvmKeeper.GetValsetByID (= transformSnapshotToCompass); the quorum test
//     (isEnoughToReachConsensus) is observed through EvmKeeper.PublishValsetToChain.  No repo
//     hook is needed; c10_export_test.go additionally calls the unexported functions directly
//     (x/evm/keeper/verif_export.go, build tag verif).
//   - keeper layer: histories of staking changes, external-account registrations, chain
//     support / activation / removal, TriggerSnapshotBuild, SetSnapshotOnChain,
//     just-in-time valset updates and 31-day time jumps; after EVERY op every snapshot id is
//     read back with FindSnapshotByID, the current snapshot and all consensus queues.
//     c10_jit_test.go: the just-in-time update through its three entry points (scheduler, skyway
//     event, end blocker), directed and macro histories in which the current snapshot is only partly
//     on an active chain, and the monitor on every message an update adds to a queue.
//     c10_long_test.go: long histories (hundreds to more than a thousand stored snapshots, old
//     snapshots live on chains, time jumps of months and a year) - ops `brief`, `snap`, `live`.

var (
	c10Two32     = new(big.Int).Lsh(big.NewInt(1), 32)
	c10Threshold = uint64(2_863_311_530) // evm keeper's thresholdForConsensus
)

// set by c10_export_test.go (direct calls of the unexported functions)
var (
	c10DirectTransform func(snap *valsettypes.Snapshot, chainRef string) evmtypes.Valset
	c10DirectEnough    func(v evmtypes.Valset) bool
	c10DirectThreshold uint64
)

// c10Hit records a monitor hit.  `key` is a stable classification (known findings are matched
// on it); per (monitor, key) only the first few hits are stored with their replay input, all
// are counted in the stats.
var c10HitCount = map[string]int{}

func c10Hit(r *Rec, monitor, key, detail string, input interface{}) {
	k := monitor + "." + key
	r.Stat("hit." + k)
	c10HitCount[k]++
	if c10HitCount[k] <= 4 {
		r.Hit(monitor, key+": "+detail, input)
	} else {
		r.Stats["monitor_hits"]++
	}
}

type c10Acct struct {
	ctype, chain int
	addr         int64
	traits       []int
}

type c10Val struct {
	id    int
	share *big.Int
	accts []c10Acct
}

var c10ChainTypes = []string{"evm", "EVM", "cosmos"}

func c10Ref(c int) string         { return fmt.Sprintf("c%d", c) }
func c10AddrStr(a int64) string   { return fmt.Sprintf("0x%040x", a) }
func c10AddrBytes(a int64) []byte { return big.NewInt(a).FillBytes(make([]byte, 20)) }

func c10ParseAddr(s string) string {
	x, ok := new(big.Int).SetString(strings.TrimPrefix(s, "0x"), 16)
	if !ok {
		return "?" + s
	}
	return x.String()
}

func c10ParseRef(s string) string   { return strings.TrimPrefix(s, "c") }
func c10ParseTrait(s string) string { return strings.TrimPrefix(s, "t") }

func c10ParseType(s string) string {
	for i, t := range c10ChainTypes {
		if t == s {
			return fmt.Sprint(i)
		}
	}
	return "?" + s
}

func c10Join(empty, sep string, l []string) string {
	if len(l) == 0 {
		return empty
	}
	return strings.Join(l, sep)
}

func (a c10Acct) String() string {
	tr := make([]string, len(a.traits))
	for i, t := range a.traits {
		tr[i] = fmt.Sprint(t)
	}
	return fmt.Sprintf("%d.%d.%d.%s", a.ctype, a.chain, a.addr, c10Join("_", "+", tr))
}

func c10AcctList(as []c10Acct) string {
	s := make([]string, len(as))
	for i, a := range as {
		s[i] = a.String()
	}
	return c10Join("-", ",", s)
}

func (a c10Acct) info() *valsettypes.ExternalChainInfo {
	e := &valsettypes.ExternalChainInfo{
		ChainType: c10ChainTypes[a.ctype], ChainReferenceID: c10Ref(a.chain),
		Address: c10AddrStr(a.addr), Pubkey: c10AddrBytes(a.addr),
	}
	for _, t := range a.traits {
		e.Traits = append(e.Traits, fmt.Sprintf("t%d", t))
	}
	return e
}

func c10Infos(as []c10Acct) []*valsettypes.ExternalChainInfo {
	out := make([]*valsettypes.ExternalChainInfo, len(as))
	for i, a := range as {
		out[i] = a.info()
	}
	return out
}

func c10ShowInfo(e *valsettypes.ExternalChainInfo) string {
	tr := make([]string, len(e.Traits))
	for i, t := range e.Traits {
		tr[i] = c10ParseTrait(t)
	}
	return fmt.Sprintf("%s.%s.%s.%s", c10ParseType(e.ChainType), c10ParseRef(e.ChainReferenceID), c10ParseAddr(e.Address), c10Join("_", "+", tr))
}

func c10ShowValset(v *evmtypes.Valset) string {
	ms := make([]string, len(v.Validators))
	for i := range v.Validators {
		p := "?"
		if i < len(v.Powers) {
			p = fmt.Sprint(v.Powers[i])
		}
		ms[i] = c10ParseAddr(v.Validators[i]) + ":" + p
	}
	return fmt.Sprintf("%d|%s", v.ValsetID, c10Join("-", ",", ms))
}

func c10PowerSum(v *evmtypes.Valset) *big.Int {
	s := new(big.Int)
	for _, p := range v.Powers {
		s.Add(s, new(big.Int).SetUint64(p))
	}
	return s
}

func c10Floor(share, total *big.Int) *big.Int {
	if total.Sign() == 0 {
		return new(big.Int)
	}
	return new(big.Int).Quo(new(big.Int).Mul(share, c10Two32), total)
}

// c10FloorKey classifies a power that is not the floor.
func c10FloorKey(floor *big.Int, got uint64) string {
	d := new(big.Int).Sub(new(big.Int).SetUint64(got), floor)
	switch {
	case d.Cmp(big.NewInt(1)) == 0:
		return "round-up"
	case got == 1<<63:
		return "nan"
	}
	return "other"
}

func c10IsEvm(t string) bool { return strings.ToLower(t) == "evm" }

// c10CheckValset evaluates the clauses of the property about the valset for one chain directly
// on (snapshot, observed valset): every snapshot validator with an (EVM) account on the chain is
// listed EXACTLY ONCE, under one of its accounts there (a validator with two accounts must not be
// listed or counted twice), nobody else is listed, power = floor(share*2^32/total), entries are
// ordered by descending power, powers sum to at most 2^32.
func c10CheckValset(r *Rec, snap *valsettypes.Snapshot, ref string, v *evmtypes.Valset, replay interface{}) {
	if len(v.Validators) != len(v.Powers) {
		c10Hit(r, "restricted_to_chain", "shape", fmt.Sprintf("valset %d for %s: %d addresses, %d powers", v.ValsetID, ref, len(v.Validators), len(v.Powers)), replay)
		return
	}
	total := snap.TotalShares.BigInt()
	// remote address -> snapshot validators holding it on this chain (normally one; two
	// validators can share an address when they register it under "evm" and "EVM": the
	// collision test compares chain types case-sensitively)
	owners := map[string][]int{}
	naccts := make([]int, len(snap.Validators))
	listed := make([]int, len(snap.Validators))
	for i, val := range snap.Validators {
		seen := map[string]bool{}
		for _, e := range val.ExternalChainInfos {
			if c10IsEvm(e.ChainType) && e.ChainReferenceID == ref {
				naccts[i]++
				if !seen[e.Address] {
					seen[e.Address] = true
					owners[e.Address] = append(owners[e.Address], i)
				}
			}
		}
		if naccts[i] > 1 {
			r.Stat("valset.validator-with-two-accounts")
		}
	}
	for j, a := range v.Validators {
		os := owners[a]
		if len(os) == 0 {
			c10Hit(r, "restricted_to_chain", "foreign-address", fmt.Sprintf("valset %d for %s lists %s which is no account of a snapshot validator on that chain", v.ValsetID, ref, a), replay)
			continue
		}
		if len(os) > 1 {
			r.Stat("valset.shared-address")
		}
		// attribute the entry to a holder not yet listed, preferring one whose floor is this power
		got := new(big.Int).SetUint64(v.Powers[j])
		i := -1
		for _, o := range os {
			if listed[o] == 0 && c10Floor(snap.Validators[o].ShareCount.BigInt(), total).Cmp(got) == 0 {
				i = o
				break
			}
		}
		if i < 0 {
			for _, o := range os {
				if listed[o] == 0 {
					i = o
					break
				}
			}
		}
		if i < 0 {
			i = os[0]
		}
		listed[i]++
		want := c10Floor(snap.Validators[i].ShareCount.BigInt(), total)
		if want.Cmp(got) != 0 {
			c10Hit(r, "powers_floor", c10FloorKey(want, v.Powers[j]), fmt.Sprintf("share·2^32/total floors to %s but power is %d (valset %d, chain %s, total %s)", want, v.Powers[j], v.ValsetID, ref, total), replay)
		}
	}
	twice := false
	for i, val := range snap.Validators {
		// the property's wording: "restricted to validators with an account there" - with the notion of
		// account of the snapshot clause (any chain type). A validator whose only account on this chain
		// is not EVM-typed is in the snapshot (its stake is in the divisor) but not in the valset:
		// known finding C10-account-type, reported as KNOWN-FINDING.
		if naccts[i] == 0 {
			for _, e := range val.ExternalChainInfos {
				if e.ChainReferenceID == ref {
					c10Hit(r, "restricted_any_account", "account-type", fmt.Sprintf("account-type: validator #%d has an account of chain type %q on %s, is counted in snapshot %d (total %s) but is not in valset %d sent there", i, e.ChainType, ref, snap.Id, total, v.ValsetID), replay)
					break
				}
			}
		}
		switch {
		case naccts[i] > 0 && listed[i] == 0:
			c10Hit(r, "restricted_to_chain", "missing", fmt.Sprintf("valset %d for %s misses validator #%d which has an account there", v.ValsetID, ref, i), replay)
		case listed[i] > 1:
			twice = true
			c10Hit(r, "restricted_to_chain", "two-accounts", fmt.Sprintf("validator #%d with %d accounts on %s is listed %d times in valset %d", i, naccts[i], ref, listed[i], v.ValsetID), replay)
		}
	}
	for i := 1; i < len(v.Powers); i++ {
		if v.Powers[i-1] < v.Powers[i] {
			c10Hit(r, "valset_order", "order", fmt.Sprintf("valset %d for %s is not ordered by descending power", v.ValsetID, ref), replay)
			break
		}
	}
	if sum := c10PowerSum(v); sum.Cmp(c10Two32) > 0 {
		key := "sum"
		if twice {
			key = "two-accounts"
		}
		c10Hit(r, "powers_sum_le", key, fmt.Sprintf("powers of valset %d for %s sum to %s > 2^32", v.ValsetID, ref, sum), replay)
	}
}

// c10CheckQuorum: a valset that is SENT must carry at least two thirds of 2^32.
func c10CheckQuorum(r *Rec, ref string, v *evmtypes.Valset, replay interface{}) {
	sum := c10PowerSum(v)
	if new(big.Int).Mul(sum, big.NewInt(3)).Cmp(new(big.Int).Lsh(big.NewInt(1), 33)) < 0 {
		c10Hit(r, "sent_only_with_quorum", "sum="+sum.String(), fmt.Sprintf("valset %d was sent to %s although 3·sum < 2·2^32", v.ValsetID, ref), replay)
	}
}

// ---------------------------------------------------------------------------
// queue access
// ---------------------------------------------------------------------------

func c10Queue(ref string) string { return "evm/" + ref + "/" + evmtypes.ConsensusTurnstoneMessage }

// c10QueuedValsets returns the UpdateValset messages of the chain's turnstone queue (nil when
// the queue does not exist).
func c10QueuedValsets(fa *FullApp, ctx sdk.Context, ref string) []*evmtypes.Valset {
	msgs, err := fa.App().ConsensusKeeper.GetMessagesFromQueue(ctx, c10Queue(ref), 0)
	if err != nil {
		return nil
	}
	var out []*evmtypes.Valset
	for _, m := range msgs {
		cm, err := m.ConsensusMsg(fa.App().AppCodec())
		if err != nil {
			continue
		}
		if mm, ok := cm.(*evmtypes.Message); ok {
			if uv, ok := mm.GetAction().(*evmtypes.Message_UpdateValset); ok && uv.UpdateValset != nil && uv.UpdateValset.Valset != nil {
				out = append(out, uv.UpdateValset.Valset)
			}
		}
	}
	return out
}

// ---------------------------------------------------------------------------
// pure layer
// ---------------------------------------------------------------------------

type c10Pure struct {
	t  *testing.T
	r  *Rec
	fa *FullApp
}

func c10ValList(vs []c10Val) string {
	s := make([]string, len(vs))
	for i, v := range vs {
		s[i] = fmt.Sprintf("%d/%s/%s", v.id, v.share, c10AcctList(v.accts))
	}
	return c10Join("-", ";", s)
}

func c10Snapshot(id uint64, vs []c10Val) *valsettypes.Snapshot {
	snap := &valsettypes.Snapshot{Id: id, Height: 1, TotalShares: sdkmath.ZeroInt(), CreatedAt: time.Unix(1_700_000_000, 0).UTC()}
	tot := new(big.Int)
	for _, v := range vs {
		addr := make([]byte, 20)
		addr[18], addr[19] = byte(v.id>>8), byte(v.id)
		snap.Validators = append(snap.Validators, valsettypes.Validator{
			Address: sdk.ValAddress(addr), ShareCount: sdkmath.NewIntFromBigInt(v.share),
			State: valsettypes.ValidatorState_ACTIVE, ExternalChainInfos: c10Infos(v.accts),
		})
		tot.Add(tot, v.share)
	}
	snap.TotalShares = sdkmath.NewIntFromBigInt(tot)
	return snap
}

// transform runs the real transformSnapshotToCompass through the gRPC query.
func (p *c10Pure) transform(snap *valsettypes.Snapshot, ref string) (vs *evmtypes.Valset, panicked string) {
	ctx := p.fa.CtxCached()
	if err := p.fa.App().ValsetKeeper.SaveModifiedSnapshot(ctx, snap); err != nil {
		p.t.Fatal(err)
	}
	panicked = faRecover(func() {
		resp, err := p.fa.App().EvmKeeper.GetValsetByID(ctx, &evmtypes.QueryGetValsetByIDRequest{ValsetID: snap.Id, ChainReferenceID: ref})
		if err != nil {
			p.t.Fatal(err)
		}
		vs = resp.Valset
	})
	if panicked != "" {
		panicked = strings.SplitN(panicked, "\n", 2)[0]
	}
	return
}

// enough observes isEnoughToReachConsensus: PublishValsetToChain on the active fixture chain
// enqueues the message iff the valset passes the quorum test.
func (p *c10Pure) enough(v evmtypes.Valset) bool {
	ctx := p.fa.CtxCached()
	ci, err := p.fa.App().EvmKeeper.GetChainInfo(ctx, "c1")
	if err != nil {
		p.t.Fatal(err)
	}
	if err := p.fa.App().EvmKeeper.PublishValsetToChain(ctx, v, ci); err != nil {
		p.t.Fatalf("fixture: PublishValsetToChain: %v", err)
	}
	for _, q := range c10QueuedValsets(p.fa, ctx, "c1") {
		if q.ValsetID == v.ValsetID {
			return true
		}
	}
	return false
}

func (p *c10Pure) showPure(v *evmtypes.Valset) string {
	en := 0
	if p.enough(*v) {
		en = 1
	}
	if c10DirectEnough != nil && c10DirectEnough(*v) != (en == 1) {
		c10Hit(p.r, "export_agrees", "direct", "isEnoughToReachConsensus called directly disagrees with PublishValsetToChain", c10ShowValset(v))
	}
	return fmt.Sprintf("sum=%s enough=%d vs=%s", c10PowerSum(v), en, c10ShowValset(v))
}

func (p *c10Pure) opTx(chain int, vs []c10Val) {
	r := p.r
	line := fmt.Sprintf("tx %d %s", chain, c10ValList(vs))
	snap := c10Snapshot(7, vs)
	v, panicked := p.transform(snap, c10Ref(chain))
	if panicked != "" {
		r.Stat("pure.tx.panic")
		c10Hit(r, "powers_floor", "panic", "transformSnapshotToCompass panics: "+panicked, line)
		r.Op(line, "panic")
		return
	}
	if c10DirectTransform != nil {
		if d := c10DirectTransform(snap, c10Ref(chain)); c10ShowValset(&d) != c10ShowValset(v) {
			c10Hit(r, "export_agrees", "direct", "transformSnapshotToCompass called directly disagrees with GetValsetByID", line)
		}
	}
	c10CheckValset(r, snap, c10Ref(chain), v, line)
	out := p.showPure(v)
	if strings.Contains(out, "enough=1") {
		r.Stat("pure.tx.enough")
	} else {
		r.Stat("pure.tx.notenough")
	}
	r.Op(line, out)
}

func (p *c10Pure) opEn(powers []uint64) {
	line := "en " + u64List(powers)
	v := &evmtypes.Valset{ValsetID: 7, Powers: powers}
	for range powers {
		v.Validators = append(v.Validators, c10AddrStr(0))
	}
	out := p.showPure(v)
	// the property on the implementation: enough  <=>  3·Σ >= 2·2^32 (Σ as a true sum)
	sum := c10PowerSum(v)
	want := new(big.Int).Mul(sum, big.NewInt(3)).Cmp(new(big.Int).Lsh(big.NewInt(1), 33)) >= 0
	got := strings.Contains(out, "enough=1")
	if got && !want {
		c10Hit(p.r, "sent_only_with_quorum", "sum="+sum.String(), "passes the quorum test although 3·sum < 2·2^32", line)
	}
	p.r.Stat(fmt.Sprintf("pure.en.%v", got))
	p.r.Op(line, out)
}

// c10FloatCex are (share, rest) pairs, both >= 1e6, whose float64 normalisation
// 2^32*(float64(share)/float64(share+rest)) truncates to floor(share*2^32/total)+1.
var c10FloatCex = [][2]int64{
	{3187511, 1006798}, {2139871, 2054440}, {2378945, 1815388}, {2845684, 1348651}, {2338477, 1855872}, {3044603, 1149754},
}

func (r *Rec) c10Share() *big.Int {
	switch r.Rng.Intn(12) {
	case 0:
		return bi(1)
	case 1:
		return bi(1_000_000)
	case 2:
		return new(big.Int).Add(pow2(53), bi(int64(r.Rng.Intn(3)-1)))
	case 3:
		return pow2(62)
	case 4:
		return new(big.Int).Add(pow2(63), bi(int64(r.Rng.Intn(3)-1)))
	case 5:
		return pow2(uint(64 + r.Rng.Intn(180)))
	case 6:
		return bi(0)
	case 7:
		return bi(int64(1 + r.Rng.Intn(5)))
	case 8:
		return bi(1 + r.Rng.Int63n(1<<24))
	case 9:
		return bi(1 + r.Rng.Int63n(1<<40))
	default:
		return bi(1 + r.Rng.Int63n(1<<62))
	}
}

func (r *Rec) c10Accts(nchains int, dupProb int) []c10Acct {
	var out []c10Acct
	for c := 1; c <= nchains; c++ {
		switch x := r.Rng.Intn(10); {
		case x < 6:
			out = append(out, c10Acct{ctype: 0, chain: c, addr: 1 + r.Rng.Int63n(1<<40)})
		case x < 7:
			out = append(out, c10Acct{ctype: 1, chain: c, addr: 1 + r.Rng.Int63n(1<<40)})
		case x < 8:
			out = append(out, c10Acct{ctype: 2, chain: c, addr: 1 + r.Rng.Int63n(1<<40)})
		}
		if dupProb > 0 && r.Rng.Intn(dupProb) == 0 {
			out = append(out, c10Acct{ctype: r.Rng.Intn(2), chain: c, addr: 1 + r.Rng.Int63n(1<<40)})
		}
	}
	return out
}

func c10OneAcct(chain int, addr int64) []c10Acct {
	return []c10Acct{{ctype: 0, chain: chain, addr: addr}}
}

func runC10Pure(t *testing.T, r *Rec) {
	fa := NewFullApp(t, FullAppOpts{NumValidators: 3, Seed: r.Seed})
	if b, err := fa.ActivateEVMChain(FAEvmChain{RefID: "c1"}); err != nil || !b.OK() {
		t.Fatalf("activate: %v %v", err, b.Err)
	}
	p := &c10Pure{t: t, r: r, fa: fa}

	// ---- directed cases ----
	// the float64 counterexample of the pinned tree and its relatives
	p.opTx(1, []c10Val{{1, bi(8372225), c10OneAcct(1, 11)}, {2, bi(16384), c10OneAcct(1, 12)}})
	for i, c := range c10FloatCex {
		p.opTx(1, []c10Val{{1, bi(c[0]), c10OneAcct(1, 11)}, {2, bi(c[1]), c10OneAcct(1, 12)}})
		p.opTx(1, []c10Val{{1, bi(c[1]), c10OneAcct(1, 11)}, {2, bi(c[0]), c10OneAcct(1, 12)}, {3, bi(0), c10OneAcct(1, int64(13+i))}})
	}
	// totals around 2^63 (Int64() panics from 2^63 on)
	for _, d := range []int64{-2, -1, 0, 1} {
		half := pow2(62)
		p.opTx(1, []c10Val{{1, half, c10OneAcct(1, 11)}, {2, new(big.Int).Add(half, bi(d)), c10OneAcct(1, 12)}})
	}
	p.opTx(1, []c10Val{{1, pow2(63), c10OneAcct(1, 11)}})
	p.opTx(1, []c10Val{{1, pow2(250), c10OneAcct(1, 11)}, {2, pow2(249), c10OneAcct(1, 12)}, {3, pow2(249), nil}})
	// exactly two thirds: 2:1 with the small validator not on the chain -> sum = floor(2/3·2^32)
	p.opTx(1, []c10Val{{1, bi(2_000_000), c10OneAcct(1, 11)}, {2, bi(1_000_000), c10OneAcct(2, 12)}})
	p.opTx(1, []c10Val{{1, bi(2_000_001), c10OneAcct(1, 11)}, {2, bi(1_000_000), c10OneAcct(2, 12)}})
	p.opTx(1, []c10Val{{1, bi(1_999_999), c10OneAcct(1, 11)}, {2, bi(1_000_000), c10OneAcct(2, 12)}})
	// empty / all-zero snapshots, total·k ≡ 1 (mod 2^32)
	p.opTx(1, nil)
	p.opTx(1, []c10Val{{1, bi(0), c10OneAcct(1, 11)}, {2, bi(0), c10OneAcct(1, 12)}})
	for _, tot := range []int64{4294967297, 12884901889, 3 * 715827883, 6442450943} {
		k := new(big.Int).ModInverse(big.NewInt(tot), c10Two32) // tot·k ≡ 1 mod 2^32
		if k == nil {
			continue
		}
		sh := new(big.Int).Mod(k, big.NewInt(tot))
		p.opTx(1, []c10Val{{1, sh, c10OneAcct(1, 11)}, {2, new(big.Int).Sub(big.NewInt(tot), sh), c10OneAcct(1, 12)}})
	}
	// two accounts of one validator on the same chain
	p.opTx(1, []c10Val{{1, bi(5), []c10Acct{{0, 1, 11, nil}, {1, 1, 12, nil}}}, {2, bi(5), c10OneAcct(1, 13)}})
	// the quorum constant
	for _, s := range []uint64{0, 1, c10Threshold - 1, c10Threshold, c10Threshold + 1, 1 << 32, 1<<32 + 1, 1<<64 - 1} {
		p.opEn([]uint64{s})
	}
	p.opEn(nil)
	p.opEn([]uint64{c10Threshold - 1, 1})
	p.opEn([]uint64{1431655765, 1431655765})
	p.opEn([]uint64{1431655765, 1431655766})
	p.opEn([]uint64{1 << 63, 1 << 63})               // uint64 sum wraps to 0
	p.opEn([]uint64{1 << 63, 1 << 63, c10Threshold}) // wraps to the threshold
	p.opEn([]uint64{1<<64 - 1, c10Threshold + 1})

	// ---- random cases ----
	for cs := 0; cs < r.N; cs++ {
		n := 1 + r.Rng.Intn(6)
		switch r.Rng.Intn(12) {
		case 0:
			n = 0
		case 1:
			n = 19 + r.Rng.Intn(6) // around sort.SliceStable's insertion-sort block size (20)
		case 2:
			n = 30 + r.Rng.Intn(40)
		}
		var vs []c10Val
		eq := r.c10Share()
		mode := r.Rng.Intn(5)
		for i := 0; i < n; i++ {
			sh := r.c10Share()
			switch mode {
			case 0:
				sh = eq // all equal
			case 1:
				if r.Rng.Intn(2) == 0 {
					sh = eq // many ties
				}
			case 2:
				sh = bi(1 + int64(r.Rng.Intn(4))) // tiny, many ties
			}
			vs = append(vs, c10Val{id: i + 1, share: sh, accts: r.c10Accts(2, 25)})
		}
		if mode == 3 && n >= 2 { // a float counterexample inside a larger set
			c := c10FloatCex[r.Rng.Intn(len(c10FloatCex))]
			for i := range vs {
				vs[i].share = bi(0)
			}
			vs[0].share, vs[n-1].share = bi(c[0]), bi(c[1])
		}
		chain := 1 + r.Rng.Intn(2)
		p.opTx(chain, vs)
		r.Case(fmt.Sprintf("pure/%d/%d/%d", cs, n, mode), n > 0)
		if cs%4 == 0 {
			k := 1 + r.Rng.Intn(4)
			ps := make([]uint64, k)
			rem := c10Threshold + uint64(r.Rng.Intn(5)) - 2
			for i := 0; i < k-1; i++ {
				ps[i] = uint64(r.Rng.Int63n(int64(rem/uint64(k) + 1)))
				rem -= ps[i]
			}
			ps[k-1] = rem
			if r.Rng.Intn(6) == 0 {
				ps[0] = r.U64()
			}
			p.opEn(ps)
		}
	}
}

// ---------------------------------------------------------------------------
// keeper layer
// ---------------------------------------------------------------------------

type c10Keeper struct {
	t   *testing.T
	r   *Rec
	fa  *FullApp
	ops []string // all lines of this case (replay)

	lastStake string
	idOf      map[string]int // operator address -> model id
	scSaved   *evmtypes.SmartContract
	// monitor state
	seen   map[uint64]c10Seen // id -> what FindSnapshotByID last returned for it
	gone   map[uint64]bool    // ids already reported as disappeared
	nSnaps uint64             // highest id ever found stored
	brief  bool               // compact state lines (long histories, c10_long_test.go)
	liveOn map[int]uint64     // chain -> highest id for which SetSnapshotOnChain succeeded
	// the store summary of the last complete read (brief mode) and "no op of this block has read the store yet"
	sumN, sumLo uint64
	sumCount    int
	blockStart  bool
	nonTriv     bool
	pendingL    []string
	pendingO    []string
	// best-effort line of the op in flight (used when the op panics) and the dead flag: after
	// a panic the case ends (model and implementation have diverged for good)
	panicLine string
	dead      bool
	// otherTypes/20 more of the registered accounts carry a non-EVM chain type (0 in most cases)
	otherTypes int
}

func (k *c10Keeper) replay() interface{} {
	return map[string]interface{}{"ops": append(append([]string(nil), k.ops...), k.pendingL...)}
}

func (k *c10Keeper) emit(line, out string) {
	k.pendingL = append(k.pendingL, line)
	k.pendingO = append(k.pendingO, out)
}

func (k *c10Keeper) flush() {
	for i := range k.pendingL {
		k.ops = append(k.ops, k.pendingL[i])
		k.r.Op(k.pendingL[i], k.pendingO[i])
	}
	k.pendingL, k.pendingO = nil, nil
}

func (k *c10Keeper) drop() { k.pendingL, k.pendingO = nil, nil }

type c10SVal struct {
	id     int
	status string
	jailed bool
	tokens sdkmath.Int
	addr   sdk.ValAddress
}

func (k *c10Keeper) staking(ctx sdk.Context) []c10SVal {
	var out []c10SVal
	err := k.fa.App().StakingKeeper.IterateValidators(ctx, func(_ int64, v stakingtypes.ValidatorI) bool {
		st := "n"
		switch v.GetStatus() {
		case stakingtypes.Bonded:
			st = "b"
		case stakingtypes.Unbonding:
			st = "u"
		}
		bz, err := sdk.ValAddressFromBech32(v.GetOperator())
		if err != nil {
			k.t.Fatal(err)
		}
		out = append(out, c10SVal{id: k.idOf[v.GetOperator()], status: st, jailed: v.IsJailed(), tokens: v.GetTokens(), addr: bz})
		return false
	})
	if err != nil {
		k.t.Fatal(err)
	}
	return out
}

// syncStaking emits a `stake` line when the staking state differs from what the model last saw.
func (k *c10Keeper) syncStaking(ctx sdk.Context) {
	var s []string
	for _, v := range k.staking(ctx) {
		j := 0
		if v.jailed {
			j = 1
		}
		s = append(s, fmt.Sprintf("%d/%s/%d/%s", v.id, v.status, j, v.tokens))
		k.r.Stat(fmt.Sprintf("staking.%s.jailed=%d", v.status, j))
	}
	line := "stake " + c10Join("-", ";", s)
	if line != k.lastStake {
		k.lastStake = line
		k.emit(line, "ok")
	}
}

func c10ShowSnapshot(k *c10Keeper, sn *valsettypes.Snapshot) (immut, chains string) {
	vs := make([]string, len(sn.Validators))
	for i, v := range sn.Validators {
		as := make([]string, len(v.ExternalChainInfos))
		for j, e := range v.ExternalChainInfos {
			as[j] = c10ShowInfo(e)
		}
		vs[i] = fmt.Sprintf("%d/%s/%s", k.idOf[v.Address.String()], v.ShareCount, c10Join("-", ",", as))
	}
	cs := make([]string, len(sn.Chains))
	for i, c := range sn.Chains {
		cs[i] = c10ParseRef(c)
	}
	return fmt.Sprintf("%d|%s|%d|%%s|%s", sn.Id, sn.TotalShares, sn.CreatedAt.Unix(), c10Join("-", ";", vs)), c10Join("_", "+", cs)
}

var c10AllChains = []int{1, 2, 3}

// c10Seen is what the history monitors remember of a stored snapshot: the wire bytes of the record
// without its chain list (everything that must never change), the chain list, and the printed form.
type c10Seen struct {
	wire, chains, text string
}

func c10Wire(sn *valsettypes.Snapshot) string {
	cp := *sn
	cp.Chains = nil
	bz, err := cp.Marshal()
	if err != nil {
		return "marshal: " + err.Error()
	}
	return string(bz)
}

func c10ChainsString(sn *valsettypes.Snapshot) string {
	cs := make([]string, len(sn.Chains))
	for i, c := range sn.Chains {
		cs[i] = c10ParseRef(c)
	}
	return c10Join("_", "+", cs)
}

// state reads back EVERY snapshot id ever issued (1 … highest id seen, and a little beyond), the
// current snapshot and all queues, runs the history monitors and returns the canonical state
// string.  An id that was found once must be found for ever ("a stored snapshot never changes"):
// the scan does not stop at the first missing id.
//
// Long histories (k.brief, c10_long_test.go) read every id after every op that stored a snapshot,
// recorded one as live, ran a just-in-time update or is the first of its block; after the other
// ops (registrations, builds that stored nothing, queries) they read the oldest ids, the ids
// recorded as live on a chain, the newest ids and a random sample, and the `n=… lo=…` summary of
// the line is the one of the last complete read (the next complete read is at most a few ops away).
func (k *c10Keeper) state(ctx sdk.Context, op string) string {
	vk := k.fa.App().ValsetKeeper
	var snaps []string
	n, count, lo := uint64(0), 0, uint64(0)
	limit := k.nSnaps + 2
	curID := uint64(0)
	if c, err := vk.GetCurrentSnapshot(ctx); err == nil && c != nil {
		curID = c.Id
		if c.Id+2 > limit {
			limit = c.Id + 2
		}
	}
	visit := func(id uint64) {
		sn, err := vk.FindSnapshotByID(ctx, id)
		if err != nil {
			if _, was := k.seen[id]; was && !k.gone[id] {
				k.gone[id] = true
				c10Hit(k.r, "stored_immutable", "disappeared", fmt.Sprintf("snapshot %d was stored and is not found any more after `%s` (highest stored id %d)", id, op, k.nSnaps), k.replay())
			}
			return
		}
		if id+2 > limit {
			limit = id + 2
		}
		if _, was := k.seen[id]; !was && id > 1 {
			if _, prev := k.seen[id-1]; !prev {
				c10Hit(k.r, "ids_strictly_increase", "gap", fmt.Sprintf("gap in snapshot ids: %d exists but %d was never stored", id, id-1), k.replay())
			}
		}
		if id > n {
			n = id
		}
		count++
		if lo == 0 || id < lo {
			lo = id
		}
		if sn.Id != id {
			c10Hit(k.r, "ids_strictly_increase", "id-mismatch", fmt.Sprintf("snapshot stored under id %d carries id %d after `%s`", id, sn.Id, op), k.replay())
		}
		now := c10Seen{wire: c10Wire(sn), chains: c10ChainsString(sn)}
		old, was := k.seen[id]
		if !k.brief {
			if was && old.wire == now.wire && old.text != "" {
				now.text = old.text
			} else {
				now.text, _ = c10ShowSnapshot(k, sn)
			}
			snaps = append(snaps, fmt.Sprintf(now.text, now.chains))
		}
		if was {
			if old.wire != now.wire {
				immut, _ := c10ShowSnapshot(k, sn)
				c10Hit(k.r, "stored_immutable", "changed", fmt.Sprintf("snapshot %d changed after `%s`: %s -> %s", id, op, old.text, immut), k.replay())
			}
			if !(now.chains == old.chains || old.chains == "_" || strings.HasPrefix(now.chains, old.chains+"+")) {
				c10Hit(k.r, "stored_immutable", "chains", fmt.Sprintf("chains of snapshot %d were not only extended after `%s`: %s -> %s", id, op, old.chains, now.chains), k.replay())
			}
		}
		k.seen[id] = now
	}
	complete := !k.brief || k.blockStart || k.sumN == 0 || curID != k.nSnaps ||
		strings.HasPrefix(op, "onchain") || strings.HasPrefix(op, "jit")
	k.blockStart = false
	if complete {
		k.r.Stat("state.complete-read")
		for id := uint64(1); id <= limit; id++ {
			visit(id)
		}
		k.sumN, k.sumCount, k.sumLo = n, count, lo
	} else {
		k.r.Stat("state.sampled-read")
		ids := []uint64{1, 2, 3, k.nSnaps, k.nSnaps + 1, k.nSnaps + 2}
		for _, ch := range c10AllChains {
			ids = append(ids, k.liveOn[ch])
		}
		for i := 0; i < 12 && k.nSnaps > 0; i++ {
			ids = append(ids, 1+uint64(k.r.Rng.Int63n(int64(k.nSnaps))))
		}
		did := map[uint64]bool{0: true}
		for _, id := range ids {
			if !did[id] {
				did[id] = true
				visit(id)
			}
		}
		n, count, lo = k.sumN, k.sumCount, k.sumLo
	}
	if n > k.nSnaps+1 {
		c10Hit(k.r, "ids_strictly_increase", "jump", fmt.Sprintf("more than one snapshot appeared in `%s`: %d -> %d", op, k.nSnaps, n), k.replay())
	}
	if n > k.nSnaps {
		k.nSnaps = n
	}
	cur := "-"
	c, err := vk.GetCurrentSnapshot(ctx)
	if err != nil {
		k.t.Fatal(err)
	}
	if c != nil {
		cur = fmt.Sprint(c.Id)
		if c.Id != k.nSnaps || k.seen[c.Id].wire != c10Wire(c) || k.seen[c.Id].chains != c10ChainsString(c) {
			c10Hit(k.r, "current_is_max", "not-highest", fmt.Sprintf("current snapshot is %d, highest stored id is %d after `%s`", c.Id, k.nSnaps, op), k.replay())
		}
	} else if k.nSnaps != 0 {
		c10Hit(k.r, "current_is_max", "none", fmt.Sprintf("no current snapshot although %d were stored", k.nSnaps), k.replay())
	}
	var qs []string
	for _, ch := range c10AllChains {
		ref := c10Ref(ch)
		vals := c10QueuedValsets(k.fa, ctx, ref)
		if len(vals) > 1 {
			c10Hit(k.r, "queue_single", "multiple", fmt.Sprintf("%d UpdateValset messages queued for %s", len(vals), ref), k.replay())
		}
		for _, v := range vals {
			qs = append(qs, fmt.Sprintf("%d=%s", ch, c10ShowValset(v)))
			k.nonTriv = true
			// monitors on what is (still) scheduled to be sent
			c10CheckQuorum(k.r, ref, v, k.replay())
			if sn, err := vk.FindSnapshotByID(ctx, v.ValsetID); err != nil {
				c10Hit(k.r, "restricted_to_chain", "no-snapshot", fmt.Sprintf("queued valset %d for %s has no snapshot", v.ValsetID, ref), k.replay())
			} else {
				c10CheckValset(k.r, sn, ref, v, k.replay())
			}
		}
	}
	if k.brief {
		return fmt.Sprintf("last=%d cur=%s n=%d lo=%d q=%s", n, cur, count, lo, c10Join("-", "#", qs))
	}
	return fmt.Sprintf("last=%d cur=%s snaps=%s q=%s", n, cur, c10Join("-", "#", snaps), c10Join("-", "#", qs))
}

// expectedMembers evaluates the membership clause on the live keepers: bonded, unjailed,
// an account on every active chain; share = bonded tokens.
func (k *c10Keeper) expectedMembers(ctx sdk.Context) (string, *big.Int) {
	active := k.fa.App().EvmKeeper.GetActiveChainNames(ctx)
	var out []string
	tot := new(big.Int)
	for _, v := range k.staking(ctx) {
		if v.status != "b" || v.jailed {
			continue
		}
		infos, err := k.fa.App().ValsetKeeper.GetValidatorChainInfos(ctx, v.addr)
		if err != nil {
			k.t.Fatal(err)
		}
		ok := true
		for _, ch := range active {
			has := false
			for _, e := range infos {
				if e.ChainReferenceID == ch {
					has = true
				}
			}
			ok = ok && has
		}
		if !ok {
			continue
		}
		as := make([]string, len(infos))
		for j, e := range infos {
			as[j] = c10ShowInfo(e)
		}
		out = append(out, fmt.Sprintf("%d/%s/%s", v.id, v.tokens, c10Join("-", ",", as)))
		tot.Add(tot, v.tokens.BigInt())
	}
	return c10Join("-", ";", out), tot
}

func (k *c10Keeper) picks(ctx sdk.Context) []string {
	var out []string
	for _, ch := range c10AllChains {
		if _, _, err := k.fa.App().EvmKeeper.PickValidatorForMessage(ctx, c10Ref(ch), nil); err == nil {
			out = append(out, fmt.Sprint(ch))
		}
	}
	return out
}

// inOp runs one model-visible op on its own cache context: a panic reverts the op (as a
// panicking message handler would) and is reported as `panic`.
func (k *c10Keeper) inOp(ctx sdk.Context, name string, fn func(c sdk.Context) (line, res string)) {
	cctx, write := ctx.CacheContext()
	var line, res string
	p := faRecover(func() { line, res = fn(cctx) })
	if p != "" {
		first := strings.SplitN(p, "\n", 2)[0]
		k.r.Stat("op." + name + ".panic")
		c10Hit(k.r, "no_panic", "panic", fmt.Sprintf("`%s` panics: %s", name, first), k.replay())
		// fn did not get to return its line: use what it announced before the risky call
		line = k.panicLine
		k.dead = true
		k.emit(line, "panic "+k.state(ctx, line))
		return
	}
	write()
	k.r.Stat("op." + name + "." + strings.SplitN(res, " ", 2)[0])
	k.emit(line, res+" "+k.state(ctx, line))
}

func c10ErrRes(err error) string {
	if err != nil {
		return "rejected"
	}
	return "ok"
}

func c10ValsString(k *c10Keeper, sn *valsettypes.Snapshot) string {
	vs := make([]string, len(sn.Validators))
	for i, v := range sn.Validators {
		as := make([]string, len(v.ExternalChainInfos))
		for j, e := range v.ExternalChainInfos {
			as[j] = c10ShowInfo(e)
		}
		vs[i] = fmt.Sprintf("%d/%s/%s", k.idOf[v.Address.String()], v.ShareCount, c10Join("-", ",", as))
	}
	return c10Join("-", ";", vs)
}

func (k *c10Keeper) opReg(ctx sdk.Context, vi int, accts []c10Acct) {
	k.syncStaking(ctx)
	k.inOp(ctx, "reg", func(c sdk.Context) (string, string) {
		line := fmt.Sprintf("reg %d %s", vi+1, c10AcctList(accts))
		k.panicLine = line
		return line, c10ErrRes(k.fa.App().ValsetKeeper.AddExternalChainInfo(c, k.fa.ValAddr(vi), c10Infos(accts)))
	})
}

// regTx registers through a REAL transaction (MsgAddExternalChainInfoForValidator signed by the
// validator operator) in its own block; same protocol line as opReg.
func (k *c10Keeper) regTx(vi int, accts []c10Acct) {
	k.syncStaking(k.fa.CtxCached())
	v := k.fa.ValidatorOperator(vi)
	res := k.fa.DeliverTx(v, &valsettypes.MsgAddExternalChainInfoForValidator{ChainInfos: c10Infos(accts), Metadata: FAMeta(v.Addr, v.Addr)})
	if res.BlockErr != "" {
		k.t.Fatalf("regtx block failed: %s", res.BlockErr)
	}
	out := "ok"
	if !res.OK() {
		out = "rejected"
	}
	line := fmt.Sprintf("reg %d %s", vi+1, c10AcctList(accts))
	k.r.Stat("op.regtx." + out)
	k.emit(line, out+" "+k.state(k.fa.CtxCached(), line))
	k.flush()
}

func (k *c10Keeper) opSupport(ctx sdk.Context, ch int) {
	k.inOp(ctx, "sup", func(c sdk.Context) (string, string) {
		line := fmt.Sprintf("sup %d", ch)
		k.panicLine = line
		err := k.fa.App().EvmKeeper.AddSupportForNewChain(c, c10Ref(ch), uint64(1000+ch), 100,
			"0x1234567890123456789012345678901234567890123456789012345678901234", big.NewInt(0))
		return line, c10ErrRes(err)
	})
}

func (k *c10Keeper) opActivate(ctx sdk.Context, ch int) {
	k.inOp(ctx, "act", func(c sdk.Context) (string, string) {
		line := fmt.Sprintf("act %d", ch)
		k.panicLine = line
		err := k.fa.App().EvmKeeper.ActivateChainReferenceID(c, c10Ref(ch), k.scSaved,
			"0x00000000000000000000000000000000000000C0", []byte("compass-"+c10Ref(ch)))
		return line, c10ErrRes(err)
	})
}

func (k *c10Keeper) opRemove(ctx sdk.Context, ch int) {
	k.inOp(ctx, "rem", func(c sdk.Context) (string, string) {
		line := fmt.Sprintf("rem %d", ch)
		k.panicLine = line
		return line, c10ErrRes(k.fa.App().EvmKeeper.RemoveSupportForChain(c, &evmtypes.RemoveChainProposal{ChainReferenceID: c10Ref(ch)}))
	})
}

func (k *c10Keeper) opBuild(ctx sdk.Context) {
	k.syncStaking(ctx)
	k.inOp(ctx, "build", func(c sdk.Context) (string, string) {
		now := c.BlockTime().Unix()
		k.panicLine = fmt.Sprintf("build %d -", now)
		want, wantTot := k.expectedMembers(c)
		snap, err := k.fa.App().ValsetKeeper.TriggerSnapshotBuild(c)
		if err != nil {
			k.t.Fatalf("TriggerSnapshotBuild: %v", err)
		}
		line := fmt.Sprintf("build %d %s", now, c10Join("-", ",", k.picks(c)))
		if snap == nil {
			return line, "none"
		}
		// ---- snapshot_exact, evaluated on the live keepers ----
		if got := c10ValsString(k, snap); got != want {
			c10Hit(k.r, "snapshot_exact", "members", fmt.Sprintf("members: snapshot %d lists %s, the bonded unjailed validators with an account on every active chain are %s", snap.Id, got, want), k.replay())
		}
		sum := new(big.Int)
		for _, v := range snap.Validators {
			sum.Add(sum, v.ShareCount.BigInt())
		}
		if snap.TotalShares.BigInt().Cmp(sum) != 0 || sum.Cmp(wantTot) != 0 {
			c10Hit(k.r, "snapshot_exact", "total", fmt.Sprintf("total: snapshot %d has total %s, shares sum to %s, bonded stake is %s", snap.Id, snap.TotalShares, sum, wantTot), k.replay())
		}
		if len(snap.Chains) != 0 {
			c10Hit(k.r, "snapshot_exact", "live", fmt.Sprintf("fresh snapshot %d is already live on %v", snap.Id, snap.Chains), k.replay())
		}
		if snap.Id != k.nSnaps+1 {
			c10Hit(k.r, "ids_strictly_increase", "new-id", fmt.Sprintf("new snapshot got id %d, highest stored id was %d", snap.Id, k.nSnaps), k.replay())
		}
		if len(snap.Validators) > 0 {
			k.nonTriv = true
		}
		return line, fmt.Sprintf("built %d", snap.Id)
	})
}

func (k *c10Keeper) opOnChain(ctx sdk.Context, id uint64, ch int) {
	k.inOp(ctx, "onchain", func(c sdk.Context) (string, string) {
		line := fmt.Sprintf("onchain %d %d", id, ch)
		k.panicLine = line
		err := k.fa.App().ValsetKeeper.SetSnapshotOnChain(c, id, c10Ref(ch))
		if err == nil && id > k.liveOn[ch] {
			k.liveOn[ch] = id
		}
		return line, c10ErrRes(err)
	})
}

func (k *c10Keeper) opJit(ctx sdk.Context, ch int) { k.opJitVia(ctx, ch, c10JitJob) }

// opValset queries the valset of a stored snapshot for a chain (sent or not) and checks it.
func (k *c10Keeper) opValset(ctx sdk.Context, id uint64, ch int) {
	line := fmt.Sprintf("valset %d %d", id, ch)
	var out string
	p := faRecover(func() {
		resp, err := k.fa.App().EvmKeeper.GetValsetByID(ctx, &evmtypes.QueryGetValsetByIDRequest{ValsetID: id, ChainReferenceID: c10Ref(ch)})
		if err != nil {
			out = "rejected"
			return
		}
		sn, err := k.fa.App().ValsetKeeper.FindSnapshotByID(ctx, resp.Valset.ValsetID)
		if err != nil {
			k.t.Fatal(err)
		}
		c10CheckValset(k.r, sn, c10Ref(ch), resp.Valset, k.replay())
		out = fmt.Sprintf("sum=%s vs=%s", c10PowerSum(resp.Valset), c10ShowValset(resp.Valset))
	})
	if p != "" {
		c10Hit(k.r, "no_panic", "panic", "`valset` panics: "+strings.SplitN(p, "\n", 2)[0], k.replay())
		out = "panic"
	}
	k.r.Stat("op.valset." + strings.SplitN(out, "=", 2)[0])
	k.emit(line, out)
}

// ---- environment ops (staking): not part of the model, they only change what `stake` reports ----

func (k *c10Keeper) env(ctx sdk.Context, name string, fn func(c sdk.Context) error) {
	cctx, write := ctx.CacheContext()
	var err error
	if p := faRecover(func() { err = fn(cctx) }); p != "" || err != nil {
		k.r.Stat("env." + name + ".failed")
		return
	}
	write()
	k.r.Stat("env." + name)
}

func (k *c10Keeper) envDelegate(ctx sdk.Context, vi int, amt int64) {
	k.env(ctx, "delegate", func(c sdk.Context) error {
		_, err := stakingkeeper.NewMsgServerImpl(k.fa.App().StakingKeeper).Delegate(c, &stakingtypes.MsgDelegate{
			DelegatorAddress: k.fa.User(0).Addr.String(), ValidatorAddress: k.fa.ValAddr(vi).String(),
			Amount: sdk.NewInt64Coin(FABondDenom, amt),
		})
		return err
	})
}

func (k *c10Keeper) envUndelegate(ctx sdk.Context, vi int, frac int64) {
	k.env(ctx, "undelegate", func(c sdk.Context) error {
		v, err := k.fa.App().StakingKeeper.GetValidator(c, k.fa.ValAddr(vi))
		if err != nil {
			return err
		}
		del, err := k.fa.App().StakingKeeper.GetDelegation(c, k.fa.Vals[vi].Addr, k.fa.ValAddr(vi))
		if err != nil {
			return err
		}
		amt := v.TokensFromShares(del.Shares).TruncateInt().QuoRaw(frac)
		if !amt.IsPositive() {
			return fmt.Errorf("nothing to undelegate")
		}
		_, err = stakingkeeper.NewMsgServerImpl(k.fa.App().StakingKeeper).Undelegate(c, &stakingtypes.MsgUndelegate{
			DelegatorAddress: k.fa.Vals[vi].Addr.String(), ValidatorAddress: k.fa.ValAddr(vi).String(),
			Amount: sdk.NewCoin(FABondDenom, amt),
		})
		return err
	})
}

func (k *c10Keeper) envUndelegateAmt(ctx sdk.Context, vi int, amt int64) {
	k.env(ctx, "undelegate", func(c sdk.Context) error {
		_, err := stakingkeeper.NewMsgServerImpl(k.fa.App().StakingKeeper).Undelegate(c, &stakingtypes.MsgUndelegate{
			DelegatorAddress: k.fa.Vals[vi].Addr.String(), ValidatorAddress: k.fa.ValAddr(vi).String(),
			Amount: sdk.NewInt64Coin(FABondDenom, amt),
		})
		return err
	})
}

func (k *c10Keeper) envJail(ctx sdk.Context, vi int, jail bool) {
	name := "unjail"
	if jail {
		name = "jail"
	}
	k.env(ctx, name, func(c sdk.Context) error {
		v, err := k.fa.App().StakingKeeper.GetValidator(c, k.fa.ValAddr(vi))
		if err != nil {
			return err
		}
		if v.Jailed == jail {
			return fmt.Errorf("already")
		}
		if jail {
			// keep at least one bonded, unjailed validator
			n := 0
			for _, sv := range k.staking(c) {
				if sv.status == "b" && !sv.jailed {
					n++
				}
			}
			if n <= 1 {
				return fmt.Errorf("last validator")
			}
			return k.fa.App().StakingKeeper.Jail(c, k.fa.Vals[vi].ConsAddr())
		}
		return k.fa.App().StakingKeeper.Unjail(c, k.fa.Vals[vi].ConsAddr())
	})
}

// ---- cases ----

type c10Step func(ctx sdk.Context)

// block runs the steps inside ONE block (WithDeliverCtx) and then writes the recorded lines.
func (k *c10Keeper) block(steps ...c10Step) {
	b, err := k.fa.WithDeliverCtx(func(ctx sdk.Context) error {
		k.blockStart = true
		k.fa.App().MetrixKeeper.UpdateUptime(ctx)
		for _, s := range steps {
			if k.dead {
				break
			}
			s(ctx)
		}
		return nil
	})
	if err != nil || !b.OK() {
		k.t.Fatalf("block failed: %v / %v %s (ops so far: %v)", err, b.Err, b.Panic, k.ops)
	}
	k.flush()
}

func newC10Keeper(t *testing.T, r *Rec, seed int64, stakes []sdkmath.Int) *c10Keeper {
	fa := NewFullApp(t, FullAppOpts{NumValidators: len(stakes), NumUsers: 1, Seed: seed, ValidatorStake: stakes})
	k := &c10Keeper{t: t, r: r, fa: fa, idOf: map[string]int{}, seen: map[uint64]c10Seen{}, gone: map[uint64]bool{}, liveOn: map[int]uint64{}}
	for i := range fa.Vals {
		k.idOf[fa.ValAddr(i).String()] = i + 1
	}
	// the initial state is what block 1 produced: staking from genesis and the snapshot that
	// valset's EndBlocker builds at height 1 (no chains yet)
	k.emit("reset", "ok")
	ctx := fa.CtxCached()
	k.syncStaking(ctx)
	line := fmt.Sprintf("build %d -", fa.History[1].Time.Unix())
	k.emit(line, "built 1 "+k.state(ctx, line))
	k.flush()
	// relayer fees for every validator on every chain and one smart contract to activate chains with
	_, err := fa.WithDeliverCtx(func(ctx sdk.Context) error {
		for i := range fa.Vals {
			rfs := &treasurytypes.RelayerFeeSetting{ValAddress: fa.ValAddr(i).String()}
			for _, ch := range c10AllChains {
				rfs.Fees = append(rfs.Fees, treasurytypes.RelayerFeeSetting_FeeSetting{
					Multiplicator: sdkmath.LegacyMustNewDecFromStr("1.1"), ChainReferenceId: c10Ref(ch),
				})
			}
			if err := fa.App().TreasuryKeeper.SetRelayerFee(ctx, fa.ValAddr(i), rfs); err != nil {
				return err
			}
		}
		sc, err := fa.App().EvmKeeper.SaveNewSmartContract(ctx, "[]", []byte{0x01})
		k.scSaved = sc
		return err
	})
	if err != nil {
		t.Fatal(err)
	}
	return k
}

func c10Ints(xs ...int64) []sdkmath.Int {
	out := make([]sdkmath.Int, len(xs))
	for i, x := range xs {
		out[i] = sdkmath.NewInt(x)
	}
	return out
}

func (k *c10Keeper) finish(key string) {
	k.r.Case(key+"|"+strings.Join(k.ops, "|"), k.nonTriv)
}

// directed histories: the exact-threshold valset, a float64 counterexample with real stakes,
// a total stake of 2^63, and a validator with two accounts on one chain.
func runC10Directed(t *testing.T, r *Rec) {
	evm := func(ch int, a int64) c10Acct { return c10Acct{ctype: 0, chain: ch, addr: a} }
	{ // 2:1 with the small validator holding a non-EVM account: the valset for c1 carries floor(2/3·2^32)
		k := newC10Keeper(t, r, 1, c10Ints(2_000_000, 1_000_000, 1_000_000))
		k.block(func(c sdk.Context) { k.opSupport(c, 1) }, func(c sdk.Context) { k.opActivate(c, 1) })
		k.block(func(c sdk.Context) { k.opReg(c, 0, []c10Acct{evm(1, 101)}) },
			func(c sdk.Context) { k.opReg(c, 1, []c10Acct{{ctype: 2, chain: 1, addr: 102}}) })
		k.block(func(c sdk.Context) { k.opBuild(c) })
		k.block(func(c sdk.Context) { k.opValset(c, 0, 1) }, func(c sdk.Context) { k.opOnChain(c, 2, 1) })
		k.finish("directed/threshold")
	}
	{ // float64 normalisation rounds up
		k := newC10Keeper(t, r, 2, c10Ints(c10FloatCex[0][0], c10FloatCex[0][1], 1_000_000))
		k.block(func(c sdk.Context) { k.opSupport(c, 1) }, func(c sdk.Context) { k.opActivate(c, 1) })
		k.block(func(c sdk.Context) { k.opReg(c, 0, []c10Acct{evm(1, 101)}) }, func(c sdk.Context) { k.opReg(c, 1, []c10Acct{evm(1, 102)}) })
		k.block(func(c sdk.Context) { k.opBuild(c) })
		k.block(func(c sdk.Context) { k.opValset(c, 2, 1) })
		k.finish("directed/float")
	}
	{ // total stake 2^63
		half := sdkmath.NewIntFromBigInt(pow2(62))
		k := newC10Keeper(t, r, 3, []sdkmath.Int{half, half, sdkmath.NewInt(1_000_000)})
		k.block(func(c sdk.Context) { k.opSupport(c, 1) }, func(c sdk.Context) { k.opActivate(c, 1) })
		k.block(func(c sdk.Context) { k.opReg(c, 0, []c10Acct{evm(1, 101)}) }, func(c sdk.Context) { k.opReg(c, 1, []c10Acct{evm(1, 102)}) })
		k.block(func(c sdk.Context) { k.opBuild(c) })
		if !k.dead {
			k.block(func(c sdk.Context) { k.opValset(c, 2, 1) })
		}
		k.finish("directed/int64")
	}
	{ // isNewSnapshotWorthy boundaries: trait order / trait contents / exactly 1 % / just under 1 %
		k := newC10Keeper(t, r, 5, c10Ints(30_000_000, 70_000_000))
		acct := func(a int64, tr ...int) []c10Acct { return []c10Acct{{ctype: 0, chain: 1, addr: a, traits: tr}} }
		build := func(c sdk.Context) { k.opBuild(c) }
		k.block(func(c sdk.Context) { k.opSupport(c, 1) }, func(c sdk.Context) { k.opActivate(c, 1) })
		k.block(func(c sdk.Context) { k.opReg(c, 0, acct(101, 1)) }, func(c sdk.Context) { k.opReg(c, 1, acct(102, 1, 2)) }, build)
		k.block(build)
		k.block(func(c sdk.Context) { k.opReg(c, 1, acct(102, 2, 1)) }, build)
		k.block(func(c sdk.Context) { k.opReg(c, 0, acct(101, 2)) }, build)
		k.block(func(c sdk.Context) { k.envDelegate(c, 0, 1_000_000) }, func(c sdk.Context) { k.envUndelegateAmt(c, 1, 1_000_000) }, build)
		k.block(func(c sdk.Context) { k.envDelegate(c, 0, 999_999) }, func(c sdk.Context) { k.envUndelegateAmt(c, 1, 999_999) }, build)
		k.block(func(c sdk.Context) { k.envDelegate(c, 0, 2) }, func(c sdk.Context) { k.envUndelegateAmt(c, 1, 2) }, build)
		k.finish("directed/worthy")
	}
	{ // two accounts of one validator on the same chain
		k := newC10Keeper(t, r, 4, c10Ints(1_000_000_000_000, 1_000_000_000_000, 1_000_000_000_000))
		k.block(func(c sdk.Context) { k.opSupport(c, 1) }, func(c sdk.Context) { k.opActivate(c, 1) })
		k.regTx(0, []c10Acct{evm(1, 101), {ctype: 1, chain: 1, addr: 111}})
		k.regTx(1, []c10Acct{evm(1, 102)})
		k.block(func(c sdk.Context) { k.opBuild(c) })
		k.finish("directed/two-accounts")
	}
}

func (k *c10Keeper) randomAccts(vi int) []c10Acct {
	r := k.r
	var out []c10Acct
	for _, ch := range c10AllChains {
		x := r.Rng.Intn(100)
		if x < 25 {
			continue
		}
		a := c10Acct{chain: ch, addr: int64(100*ch + vi + 1)}
		switch {
		case x < 33: // somebody else's address: collision if that validator registered it
			a.addr = int64(100*ch + r.Rng.Intn(len(k.fa.Vals)) + 1)
		case x < 40:
			a.addr = int64(100*ch + 50 + r.Rng.Intn(3)) // alternative address
		}
		switch y := r.Rng.Intn(20); {
		case y == 0:
			a.ctype = 1
		case y == 1 || y < 1+k.otherTypes:
			a.ctype = 2
		}
		for tr := 1; tr <= 2; tr++ {
			if r.Rng.Intn(4) == 0 {
				a.traits = append(a.traits, tr)
			}
		}
		out = append(out, a)
		if r.Rng.Intn(60) == 0 { // a second account on the same chain
			out = append(out, c10Acct{ctype: r.Rng.Intn(2), chain: ch, addr: int64(100*ch + 60 + vi)})
		}
	}
	if r.Rng.Intn(50) == 0 { // more than the allowed 100 accounts
		for i := 0; i < 101; i++ {
			out = append(out, c10Acct{ctype: 2, chain: 3, addr: int64(5000 + i)})
		}
	}
	return out
}

func runC10KeeperCase(t *testing.T, r *Rec, cs int) {
	nv := 3 + r.Rng.Intn(3)
	var stakes []sdkmath.Int
	profile := r.Rng.Intn(6)
	for i := 0; i < nv; i++ {
		var s *big.Int
		switch profile {
		case 0:
			s = bi(1_000_000_000_000)
		case 1:
			s = bi(int64(1+r.Rng.Intn(3)) * 1_000_000)
		case 2:
			c := c10FloatCex[r.Rng.Intn(len(c10FloatCex))]
			s = bi(c[i%2])
		case 3:
			s = []*big.Int{pow2(62), new(big.Int).Add(pow2(53), bi(1)), new(big.Int).Sub(pow2(53), bi(1)), pow2(61)}[r.Rng.Intn(4)]
		default:
			s = bi(1_000_000 + r.Rng.Int63n(1<<uint(21+r.Rng.Intn(20))))
		}
		stakes = append(stakes, sdkmath.NewIntFromBigInt(s))
	}
	k := newC10Keeper(t, r, int64(1+cs%5), stakes)
	r.Stat(fmt.Sprintf("keeper.profile.%d", profile))
	if r.Rng.Intn(5) == 0 { // many accounts of a non-EVM chain type: in the snapshot, not in the valset
		k.otherTypes = 6
		r.Stat("keeper.other-types")
	}
	randChain := func() int { return c10AllChains[r.Rng.Intn(len(c10AllChains))] }
	for k.fa.Height() < 46 && !k.dead {
		if r.Rng.Intn(12) == 0 {
			vi := r.Rng.Intn(nv)
			k.regTx(vi, k.randomAccts(vi))
			continue
		}
		if r.Rng.Intn(9) == 0 { // steer into "current snapshot only partly on an active chain" (c10_jit_test.go)
			k.block(k.jitMacro(nv)...)
			continue
		}
		var steps []c10Step
		for n := 1 + r.Rng.Intn(3); n > 0; n-- {
			x := r.Rng.Intn(100)
			vi := r.Rng.Intn(nv)
			switch {
			case x < 22:
				accts := k.randomAccts(vi)
				steps = append(steps, func(c sdk.Context) { k.opReg(c, vi, accts) })
			case x < 44:
				steps = append(steps, func(c sdk.Context) { k.opBuild(c) })
			case x < 51:
				ch := randChain()
				steps = append(steps, func(c sdk.Context) { k.opSupport(c, ch) })
			case x < 60:
				ch := randChain()
				steps = append(steps, func(c sdk.Context) { k.opActivate(c, ch) })
			case x < 62:
				ch := randChain()
				steps = append(steps, func(c sdk.Context) { k.opRemove(c, ch) })
			case x < 72:
				ch := randChain()
				off := r.Rng.Intn(4)
				steps = append(steps, func(c sdk.Context) {
					id := k.nSnaps + 1 // not stored
					if uint64(off) <= k.nSnaps {
						id = k.nSnaps - uint64(off) // 0 is never stored either
					}
					k.opOnChain(c, id, ch)
				})
			case x < 80:
				ch := randChain()
				via := r.Rng.Intn(c10JitPaths)
				steps = append(steps, func(c sdk.Context) { k.opJitVia(c, ch, via) })
			case x < 86:
				ch := randChain()
				off := r.Rng.Intn(4)
				steps = append(steps, func(c sdk.Context) {
					id := uint64(0)
					if uint64(off) < k.nSnaps {
						id = k.nSnaps - uint64(off)
					}
					k.opValset(c, id, ch)
				})
			case x < 90:
				amt := int64(1+r.Rng.Intn(1000)) * 1_000_000
				if r.Rng.Intn(3) == 0 {
					amt = 1 + r.Rng.Int63n(1<<33)
				}
				steps = append(steps, func(c sdk.Context) { k.envDelegate(c, vi, amt) })
			case x < 93:
				frac := int64(1 + r.Rng.Intn(4))
				steps = append(steps, func(c sdk.Context) { k.envUndelegate(c, vi, frac) })
			case x < 97:
				steps = append(steps, func(c sdk.Context) { k.envJail(c, vi, true) })
			case x < 99:
				steps = append(steps, func(c sdk.Context) { k.envJail(c, vi, false) })
			default:
				k.fa.NextTime = k.fa.Time().Add(31 * 24 * time.Hour)
				r.Stat("env.timejump")
			}
		}
		k.block(steps...)
	}
	k.finish(fmt.Sprintf("keeper/%d", cs))
}

func TestC10(t *testing.T) {
	r := NewRec(t, "C10")
	defer r.Close()
	c10HitCount = map[string]int{}
	if c10DirectThreshold != 0 && c10DirectThreshold != c10Threshold {
		t.Fatalf("thresholdForConsensus is %d, the harness assumes %d", c10DirectThreshold, c10Threshold)
	}
	runC10Directed(t, r)
	runC10JitDirected(t, r)
	runC10Long(t, r)
	runC10Pure(t, r)
	nk := r.N / 6 // a keeper case builds a fresh app and runs ~45 blocks (≈0.15 s)
	if nk < 8 {
		nk = 8
	}
	if nk > 120 {
		nk = 120
	}
	for cs := 0; cs < nk; cs++ {
		runC10KeeperCase(t, r, cs)
	}
}
