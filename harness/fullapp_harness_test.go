//go:build verif

// Full-app, in-process, deterministic test harness for paloma (the real app.New
// wiring: ante chain, msg routers, begin/end blockers, IAVL commit).  The
// harness plays the role of CometBFT: it builds genesis, calls InitChain, and
// then drives FinalizeBlock+Commit with a synthetic header (fixed time step) and
// a synthetic LastCommit in which every validator of the previous height signs
// (unless marked absent).
//
// Build with:  go test -c -tags verif -ldflags '-X github.com/cosmos/cosmos-sdk/version.Version=v2.4.0'
// (the paloma keeper panics on an empty version string).
//
// All identifiers are prefixed FullApp / FA / fa to stay clear of the other files
// in this package.
package harness

import (
	"context"
	"crypto/ecdsa"
	"crypto/sha256"
	"encoding/hex"
	"encoding/json"
	"fmt"
	"reflect"
	"runtime/debug"
	"sort"
	"testing"
	"time"
	"unsafe"

	"cosmossdk.io/log"
	sdkmath "cosmossdk.io/math"
	"cosmossdk.io/store/rootmulti"
	storetypes "cosmossdk.io/store/types"
	"cosmossdk.io/x/feegrant"
	abci "github.com/cometbft/cometbft/abci/types"
	cryptoenc "github.com/cometbft/cometbft/crypto/encoding"
	cmtproto "github.com/cometbft/cometbft/proto/tendermint/types"
	cmttypes "github.com/cometbft/cometbft/types"
	dbm "github.com/cosmos/cosmos-db"
	"github.com/cosmos/cosmos-sdk/baseapp"
	codectypes "github.com/cosmos/cosmos-sdk/codec/types"
	"github.com/cosmos/cosmos-sdk/crypto/keys/ed25519"
	"github.com/cosmos/cosmos-sdk/crypto/keys/secp256k1"
	cryptotypes "github.com/cosmos/cosmos-sdk/crypto/types"
	simtestutil "github.com/cosmos/cosmos-sdk/testutil/sims"
	sdk "github.com/cosmos/cosmos-sdk/types"
	"github.com/cosmos/cosmos-sdk/types/bech32"
	txsigning "github.com/cosmos/cosmos-sdk/types/tx/signing"
	authsign "github.com/cosmos/cosmos-sdk/x/auth/signing"
	authtypes "github.com/cosmos/cosmos-sdk/x/auth/types"
	banktypes "github.com/cosmos/cosmos-sdk/x/bank/types"
	slashingtypes "github.com/cosmos/cosmos-sdk/x/slashing/types"
	stakingtypes "github.com/cosmos/cosmos-sdk/x/staking/types"
	ethcommon "github.com/ethereum/go-ethereum/common"
	ethcrypto "github.com/ethereum/go-ethereum/crypto"
	palomaapp "github.com/palomachain/paloma/v2/app"
	chainparams "github.com/palomachain/paloma/v2/app/params"
	"github.com/palomachain/paloma/v2/util/eventbus"
	valsettypes "github.com/palomachain/paloma/v2/x/valset/types"
)

// ---------------------------------------------------------------------------
// options, accounts, results
// ---------------------------------------------------------------------------

// FABondDenom is the staking denom of the app ("ugrain").
const FABondDenom = palomaapp.BondDenom

// FAPigeonVersion is what KeepAliveAll reports (must be >= valset's minimum, v1.11.3).
const FAPigeonVersion = "v2.4.0"

// FullAppOpts configures NewFullApp.  The zero value is usable: 4 validators
// with 1e12 ugrain bonded each, no users, chain id "verif-1", seed 1, genesis
// time 2024-01-01T00:00:00Z, 2 s per block.
type FullAppOpts struct {
	Seed    int64
	ChainID string

	NumValidators int
	// ValidatorStake[i] is the self-bonded amount of validator i (ugrain);
	// missing entries use DefaultStake (1e12).  Must be >= 1e6 (power >= 1) or
	// staking will unbond the validator in block 1.
	ValidatorStake []sdkmath.Int
	DefaultStake   sdkmath.Int
	// Liquid balance of every validator operator account (default 1e12 ugrain).
	ValidatorBalance sdk.Coins

	NumUsers int
	// UserBalances[i] overrides UserBalance (default 1e12 ugrain) for user i.
	UserBalance  sdk.Coins
	UserBalances []sdk.Coins

	// Explicit 20-byte operator addresses are NOT feasible (an address is a hash
	// of the public key and validators need a real key to sign txs).  Instead the
	// harness searches keys: the i-th validator/user key is the first key of the
	// deterministic candidate sequence for which the filter returns true.
	ValAddrFilter  func(i int, addr []byte) bool
	UserAddrFilter func(i int, addr []byte) bool

	GenesisTime time.Time
	BlockStep   time.Duration
	// MaxBlockGas is the consensus param Block.MaxGas (default -1 = unlimited).
	MaxBlockGas int64
	// DefaultGas is the gas limit put on txs that do not set one (default 10_000_000).
	DefaultGas uint64

	// MutateGenesis may edit the module genesis map before InitChain.
	MutateGenesis func(a *palomaapp.App, gs map[string]json.RawMessage)
	Logger        log.Logger
}

// FAAccount is a key the harness controls.  Validator operators additionally
// carry their consensus key and an Ethereum key (used by the EVM helpers).
type FAAccount struct {
	Name string
	Priv cryptotypes.PrivKey // secp256k1
	Addr sdk.AccAddress

	ValIdx   int // -1 for users
	ConsPriv cryptotypes.PrivKey
	EthPriv  *ecdsa.PrivateKey
	EthAddr  ethcommon.Address
}

func (a *FAAccount) String() string          { return a.Addr.String() }
func (a *FAAccount) ValAddr() sdk.ValAddress { return sdk.ValAddress(a.Addr) }
func (a *FAAccount) ConsAddr() sdk.ConsAddress {
	return sdk.ConsAddress(a.ConsPriv.PubKey().Address())
}

// FATx describes one transaction.  Signers are used verbatim for the signer
// infos / signatures; nothing in the messages is rewritten (so a tx can be
// signed by A while its paloma Metadata says creator=B, signers=[B]).
type FATx struct {
	Msgs    []sdk.Msg
	Signers []*FAAccount

	Gas           uint64    // 0 => FullAppOpts.DefaultGas
	Fee           sdk.Coins // never charged: paloma's TxFeeSkipper returns zero fee
	FeePayer      sdk.AccAddress
	FeeGranter    sdk.AccAddress
	Memo          string
	TimeoutHeight uint64
	// Optional per-signer overrides (same length as Signers) of the account
	// number / sequence the harness would otherwise read from committed state.
	AccNums   []uint64
	Sequences []uint64
}

type FATxResult struct {
	Height    int64
	Code      uint32
	Codespace string
	Log       string
	Events    []abci.Event
	GasWanted int64
	GasUsed   int64
	Data      []byte
	// Panicked: the tx handler panicked (baseapp recovered it: undefined/111222)
	// or the whole block panicked/failed (see BlockErr).
	Panicked bool
	BlockErr string
}

func (r FATxResult) OK() bool { return r.Code == 0 && !r.Panicked && r.BlockErr == "" }

// FABlockResult is the outcome of one FinalizeBlock+Commit.
type FABlockResult struct {
	Height  int64
	Time    time.Time
	Resp    *abci.ResponseFinalizeBlock
	Txs     []FATxResult
	AppHash []byte
	// Err is non-nil when FinalizeBlock/Commit returned an error or panicked (Panic
	// holds value + stack).  The block is then NOT committed and the FullApp is
	// marked Broken; call Restart() to drop the dirty finalize state and go on.
	Err   error
	Panic string
	// HookErrs are errors (or recovered panics) of WithDeliverCtx/WithEndBlockCtx
	// closures that ran in this block; a failing closure's writes are discarded.
	HookErrs []error
}

func (b FABlockResult) OK() bool { return b.Err == nil && b.Panic == "" }

type faValidator struct {
	addr  []byte
	power int64
}

// FullApp is one running chain.
type FullApp struct {
	T    *testing.T
	Opts FullAppOpts

	// BlockStep may be changed at any time; NextTime, when non-zero, overrides
	// the time of the next block only.
	BlockStep time.Duration
	NextTime  time.Time
	settling  bool // inside the settle blocks runBlock inserts before a long time jump
	// Absent[i] makes validator i not sign (BLOCK_ID_FLAG_ABSENT) from now on.
	Absent map[int]bool
	// NextMisbehavior is passed to (and cleared by) the next block.
	NextMisbehavior []abci.Misbehavior

	Vals  []*FAAccount
	Users []*FAAccount

	// History[h] = info for committed height h (index 0 unused).
	History []FABlockInfo
	Broken  bool

	db     dbm.DB
	app    *palomaapp.App
	height int64
	time   time.Time
	// validator sets as CometBFT would see them: prev signed block `height`,
	// cur = set at height+1, next = set at height+2.
	vsPrev, vsCur, vsNext []faValidator

	preHooks, endHooks []func(sdk.Context) error
	hookErrs           []error
	restarts           int

	// this app's subscribers of paloma's process-global eventbus (see bindGlobals)
	busActivated eventbus.EventHandler[eventbus.EVMActivatedChainEvent]
	busBatch     eventbus.EventHandler[eventbus.SkywayBatchBuiltEvent]
}

type FABlockInfo struct {
	Height      int64
	Time        time.Time
	AppHash     []byte
	ResultsHash []byte
	NumTxs      int
}

// ---------------------------------------------------------------------------
// deterministic keys
// ---------------------------------------------------------------------------

func faSecret(seed int64, kind string, idx, try int) []byte {
	h := sha256.Sum256([]byte(fmt.Sprintf("fullapp/%d/%s/%d/%d", seed, kind, idx, try)))
	return h[:]
}

// FAFindKey returns the first key of the deterministic sequence (seed, kind, idx,
// 0..) whose 20-byte address satisfies pred (nil pred = first key).
func FAFindKey(seed int64, kind string, idx int, pred func(addr []byte) bool) cryptotypes.PrivKey {
	for try := 0; try < 1<<22; try++ {
		k := secp256k1.GenPrivKeyFromSecret(faSecret(seed, kind, idx, try))
		if pred == nil || pred(k.PubKey().Address()) {
			return k
		}
	}
	panic("FAFindKey: no key satisfies the predicate")
}

func faEthKey(seed int64, idx int) *ecdsa.PrivateKey {
	for try := 0; ; try++ {
		if k, err := ethcrypto.ToECDSA(faSecret(seed, "eth", idx, try)); err == nil {
			return k
		}
	}
}

func faSetPrefixes() {
	cfg := sdk.GetConfig()
	if cfg.GetBech32AccountAddrPrefix() == chainparams.AccountAddressPrefix &&
		cfg.GetBech32ConsensusAddrPrefix() == chainparams.ConsNodeAddressPrefix {
		return
	}
	cfg.SetBech32PrefixForAccount(chainparams.AccountAddressPrefix, chainparams.AccountPubKeyPrefix)
	cfg.SetBech32PrefixForValidator(chainparams.ValidatorAddressPrefix, chainparams.ValidatorPubKeyPrefix)
	cfg.SetBech32PrefixForConsensusNode(chainparams.ConsNodeAddressPrefix, chainparams.ConsNodePubKeyPrefix)
}

// ---------------------------------------------------------------------------
// construction
// ---------------------------------------------------------------------------

func faCoins(amt int64) sdk.Coins { return sdk.NewCoins(sdk.NewInt64Coin(FABondDenom, amt)) }

// NewFullApp builds the app, genesis (validators bonded, accounts funded), runs
// InitChain and commits block 1, so Ctx() already sees genesis state.
func NewFullApp(t *testing.T, opts FullAppOpts) *FullApp {
	t.Helper()
	faSetPrefixes()
	if opts.Seed == 0 {
		opts.Seed = 1
	}
	if opts.ChainID == "" {
		opts.ChainID = "verif-1"
	}
	if opts.NumValidators == 0 {
		opts.NumValidators = 4
	}
	if opts.DefaultStake.IsNil() {
		opts.DefaultStake = sdkmath.NewInt(1_000_000_000_000)
	}
	if opts.ValidatorBalance == nil {
		opts.ValidatorBalance = faCoins(1_000_000_000_000)
	}
	if opts.UserBalance == nil {
		opts.UserBalance = faCoins(1_000_000_000_000)
	}
	if opts.GenesisTime.IsZero() {
		opts.GenesisTime = time.Date(2024, 1, 1, 0, 0, 0, 0, time.UTC)
	}
	if opts.BlockStep == 0 {
		opts.BlockStep = 2 * time.Second
	}
	if opts.MaxBlockGas == 0 {
		opts.MaxBlockGas = -1
	}
	if opts.DefaultGas == 0 {
		opts.DefaultGas = 10_000_000
	}
	if opts.Logger == nil {
		opts.Logger = log.NewNopLogger()
	}
	fa := &FullApp{
		T: t, Opts: opts, BlockStep: opts.BlockStep, Absent: map[int]bool{},
		db: dbm.NewMemDB(), time: opts.GenesisTime, History: []FABlockInfo{{}},
	}
	for i := 0; i < opts.NumValidators; i++ {
		i := i
		var pred func([]byte) bool
		if opts.ValAddrFilter != nil {
			pred = func(a []byte) bool { return opts.ValAddrFilter(i, a) }
		}
		k := FAFindKey(opts.Seed, "val", i, pred)
		eth := faEthKey(opts.Seed, i)
		fa.Vals = append(fa.Vals, &FAAccount{
			Name: fmt.Sprintf("val%d", i), Priv: k, Addr: sdk.AccAddress(k.PubKey().Address()), ValIdx: i,
			ConsPriv: ed25519.GenPrivKeyFromSecret(faSecret(opts.Seed, "cons", i, 0)),
			EthPriv:  eth, EthAddr: ethcrypto.PubkeyToAddress(eth.PublicKey),
		})
	}
	for i := 0; i < opts.NumUsers; i++ {
		i := i
		var pred func([]byte) bool
		if opts.UserAddrFilter != nil {
			pred = func(a []byte) bool { return opts.UserAddrFilter(i, a) }
		}
		k := FAFindKey(opts.Seed, "user", i, pred)
		fa.Users = append(fa.Users, &FAAccount{Name: fmt.Sprintf("user%d", i), Priv: k, Addr: sdk.AccAddress(k.PubKey().Address()), ValIdx: -1})
	}

	fa.app = fa.newApp()
	gs := fa.genesis()
	if opts.MutateGenesis != nil {
		opts.MutateGenesis(fa.app, gs)
	}
	bz, err := json.Marshal(gs)
	if err != nil {
		t.Fatal(err)
	}
	cp := simtestutil.DefaultConsensusParams
	cpCopy := *cp
	blk := *cp.Block
	blk.MaxGas = opts.MaxBlockGas
	blk.MaxBytes = 22020096
	cpCopy.Block = &blk
	var res *abci.ResponseInitChain
	if p := faRecover(func() {
		res, err = fa.app.InitChain(&abci.RequestInitChain{
			Time: opts.GenesisTime, ChainId: opts.ChainID, ConsensusParams: &cpCopy,
			AppStateBytes: bz, InitialHeight: 1,
		})
	}); p != "" {
		t.Fatalf("InitChain panicked: %s", p)
	}
	if err != nil {
		t.Fatalf("InitChain: %v", err)
	}
	fa.vsCur = faApplyUpdates(nil, res.Validators)
	fa.vsNext = fa.vsCur
	if b := fa.NextBlock(); !b.OK() {
		t.Fatalf("block 1 failed: %v %s", b.Err, b.Panic)
	}
	return fa
}

// newApp constructs app.New over fa.db with a fresh home directory (wasmvm takes
// an exclusive lock on <home>/data/wasm, so twin apps and restarted apps cannot
// share a home; no wasm code is stored by the harness so nothing is lost) and
// installs the PreBlock/EndBlock wrappers used by WithDeliverCtx/WithEndBlockCtx.
func (fa *FullApp) newApp() *palomaapp.App {
	home := fa.T.TempDir()
	a := palomaapp.New(fa.Opts.Logger, fa.db, nil, false,
		simtestutil.NewAppOptionsWithFlagHome(home), baseapp.SetChainID(fa.Opts.ChainID))
	fa.busActivated = faBusHandler(eventbus.EVMActivatedChain(), "skyway-keeper")
	fa.busBatch = faBusHandler(eventbus.SkywayBatchBuilt(), "skyway-keeper")
	a.SetPreBlocker(func(ctx sdk.Context, req *abci.RequestFinalizeBlock) (*sdk.ResponsePreBlock, error) {
		rsp, err := a.PreBlocker(ctx, req)
		if err != nil {
			return rsp, err
		}
		fa.runHooks(ctx, &fa.preHooks)
		return rsp, nil
	})
	a.SetEndBlocker(func(ctx sdk.Context) (sdk.EndBlock, error) {
		eb, err := a.EndBlocker(ctx)
		if err != nil {
			return eb, err
		}
		fa.runHooks(ctx, &fa.endHooks)
		return eb, nil
	})
	if err := a.LoadLatestVersion(); err != nil {
		fa.T.Fatalf("LoadLatestVersion: %v", err)
	}
	return a
}

// paloma's util/eventbus is a PROCESS-GLOBAL registry keyed by the constant id
// "skyway-keeper": every evm/skyway keeper constructor overwrites the previous
// subscription, so with two apps in one process (twin execution, Restart, or any
// other keeper fixture) app A's events would be handled by the keepers of the
// most recently constructed app B (and panic on B's store keys).  The harness
// captures the two closures right after app.New (reading the unexported map by
// reflection) and re-installs them before every block and every Ctx().
func faBusHandler[E any](ev *eventbus.Event[E], id string) eventbus.EventHandler[E] {
	f := reflect.ValueOf(ev).Elem().FieldByName("subscribers")
	m := reflect.NewAt(f.Type(), unsafe.Pointer(f.UnsafeAddr())).Elem().Interface().(map[string]eventbus.EventHandler[E])
	return m[id]
}

func (fa *FullApp) bindGlobals() {
	eventbus.EVMActivatedChain().Subscribe("skyway-keeper", fa.busActivated)
	eventbus.SkywayBatchBuilt().Subscribe("skyway-keeper", fa.busBatch)
}

func (fa *FullApp) runHooks(ctx sdk.Context, hooks *[]func(sdk.Context) error) {
	hs := *hooks
	*hooks = nil
	for _, h := range hs {
		cctx, write := ctx.CacheContext()
		var err error
		if p := faRecover(func() { err = h(cctx) }); p != "" {
			err = fmt.Errorf("hook panicked: %s", p)
		}
		if err != nil {
			fa.hookErrs = append(fa.hookErrs, err)
			continue
		}
		write()
	}
}

func faRecover(f func()) (panicMsg string) {
	defer func() {
		if r := recover(); r != nil {
			panicMsg = fmt.Sprintf("%v\n%s", r, debug.Stack())
		}
	}()
	f()
	return ""
}

func (fa *FullApp) stake(i int) sdkmath.Int {
	if i < len(fa.Opts.ValidatorStake) && !fa.Opts.ValidatorStake[i].IsNil() {
		return fa.Opts.ValidatorStake[i]
	}
	return fa.Opts.DefaultStake
}

func (fa *FullApp) genesis() map[string]json.RawMessage {
	a, cdc := fa.app, fa.app.AppCodec()
	gs := a.DefaultGenesis()

	var accs []authtypes.GenesisAccount
	var bals []banktypes.Balance
	supply := sdk.NewCoins()
	add := func(acc *FAAccount, c sdk.Coins) {
		accs = append(accs, authtypes.NewBaseAccount(acc.Addr, nil, 0, 0))
		if !c.IsZero() {
			bals = append(bals, banktypes.Balance{Address: acc.Addr.String(), Coins: c})
			supply = supply.Add(c...)
		}
	}
	var vals []stakingtypes.Validator
	var dels []stakingtypes.Delegation
	var infos []slashingtypes.SigningInfo
	bonded := sdkmath.ZeroInt()
	for i, v := range fa.Vals {
		add(v, fa.Opts.ValidatorBalance)
		pkAny, err := codectypes.NewAnyWithValue(v.ConsPriv.PubKey())
		if err != nil {
			fa.T.Fatal(err)
		}
		st := fa.stake(i)
		bonded = bonded.Add(st)
		vals = append(vals, stakingtypes.Validator{
			OperatorAddress: v.ValAddr().String(), ConsensusPubkey: pkAny, Status: stakingtypes.Bonded,
			Tokens: st, DelegatorShares: sdkmath.LegacyNewDecFromInt(st),
			Description:   stakingtypes.Description{Moniker: v.Name},
			UnbondingTime: time.Unix(0, 0).UTC(),
			Commission: stakingtypes.NewCommission(sdkmath.LegacyNewDecWithPrec(5, 2),
				sdkmath.LegacyNewDecWithPrec(20, 2), sdkmath.LegacyNewDecWithPrec(1, 2)),
			MinSelfDelegation: sdkmath.OneInt(),
		})
		dels = append(dels, stakingtypes.NewDelegation(v.Addr.String(), v.ValAddr().String(), sdkmath.LegacyNewDecFromInt(st)))
		cons, err := bech32.ConvertAndEncode(chainparams.ConsNodeAddressPrefix, v.ConsAddr())
		if err != nil {
			fa.T.Fatal(err)
		}
		infos = append(infos, slashingtypes.SigningInfo{Address: cons, ValidatorSigningInfo: slashingtypes.ValidatorSigningInfo{
			Address: cons, JailedUntil: time.Unix(0, 0).UTC(),
		}})
	}
	for i, u := range fa.Users {
		c := fa.Opts.UserBalance
		if i < len(fa.Opts.UserBalances) && fa.Opts.UserBalances[i] != nil {
			c = fa.Opts.UserBalances[i]
		}
		add(u, c)
	}
	bondedCoins := sdk.NewCoins(sdk.NewCoin(FABondDenom, bonded))
	bals = append(bals, banktypes.Balance{Address: authtypes.NewModuleAddress(stakingtypes.BondedPoolName).String(), Coins: bondedCoins})
	supply = supply.Add(bondedCoins...)

	gs[authtypes.ModuleName] = cdc.MustMarshalJSON(authtypes.NewGenesisState(authtypes.DefaultParams(), accs))

	var bank banktypes.GenesisState
	cdc.MustUnmarshalJSON(gs[banktypes.ModuleName], &bank)
	bank.Balances, bank.Supply = bals, supply
	gs[banktypes.ModuleName] = cdc.MustMarshalJSON(&bank)

	var staking stakingtypes.GenesisState
	cdc.MustUnmarshalJSON(gs[stakingtypes.ModuleName], &staking)
	staking.Validators, staking.Delegations = vals, dels
	gs[stakingtypes.ModuleName] = cdc.MustMarshalJSON(&staking)

	var slashing slashingtypes.GenesisState
	cdc.MustUnmarshalJSON(gs[slashingtypes.ModuleName], &slashing)
	slashing.SigningInfos = infos
	gs[slashingtypes.ModuleName] = cdc.MustMarshalJSON(&slashing)
	return gs
}

// ---------------------------------------------------------------------------
// blocks
// ---------------------------------------------------------------------------

func faApplyUpdates(cur []faValidator, ups []abci.ValidatorUpdate) []faValidator {
	m := map[string]faValidator{}
	for _, v := range cur {
		m[string(v.addr)] = v
	}
	for _, u := range ups {
		pk, err := cryptoenc.PubKeyFromProto(u.PubKey)
		if err != nil {
			panic(err)
		}
		addr := pk.Address().Bytes()
		if u.Power == 0 {
			delete(m, string(addr))
			continue
		}
		m[string(addr)] = faValidator{addr: addr, power: u.Power}
	}
	out := make([]faValidator, 0, len(m))
	for _, v := range m {
		out = append(out, v)
	}
	sort.Slice(out, func(i, j int) bool {
		if out[i].power != out[j].power {
			return out[i].power > out[j].power
		}
		return string(out[i].addr) < string(out[j].addr)
	})
	return out
}

func (fa *FullApp) valIdxByCons(addr []byte) int {
	for i, v := range fa.Vals {
		if string(v.ConsAddr()) == string(addr) {
			return i
		}
	}
	return -1
}

// Height / Time of the last committed block.
func (fa *FullApp) Height() int64   { return fa.height }
func (fa *FullApp) Time() time.Time { return fa.time }

func (fa *FullApp) header(h int64, t time.Time) cmtproto.Header {
	hdr := cmtproto.Header{ChainID: fa.Opts.ChainID, Height: h, Time: t}
	if len(fa.vsCur) > 0 {
		hdr.ProposerAddress = fa.vsCur[int(h)%len(fa.vsCur)].addr
	}
	if h > 0 && int(h) < len(fa.History) {
		hdr.AppHash = fa.History[h].AppHash
	}
	return hdr
}

// runBlock executes one block with the given raw txs.  It never panics.
func (fa *FullApp) runBlock(txs [][]byte) FABlockResult {
	// CometBFT's LastCommit at height H holds the validators of H-1, and staking keeps a validator
	// record for the whole unbonding time after it left that set.  A synthetic time jump longer than
	// the unbonding time directly after a set change would let staking delete a validator that still
	// signs the next LastCommit (SDK distribution then fails the block) - a history no real chain can
	// have.  Let pending set changes take effect (two ordinary blocks) before such a jump.
	if !fa.NextTime.IsZero() && fa.NextTime.Sub(fa.time) > 7*24*time.Hour && !fa.settling && !fa.Broken &&
		!(faSameVals(fa.vsPrev, fa.vsCur) && faSameVals(fa.vsCur, fa.vsNext)) {
		nt, pre, end, mis := fa.NextTime, fa.preHooks, fa.endHooks, fa.NextMisbehavior
		fa.NextTime, fa.preHooks, fa.endHooks, fa.NextMisbehavior = time.Time{}, nil, nil, nil
		fa.settling = true
		for i := 0; i < 2 && !fa.Broken; i++ {
			fa.runBlock(nil)
		}
		fa.settling = false
		fa.NextTime, fa.preHooks, fa.endHooks, fa.NextMisbehavior = nt, pre, end, mis
	}
	h := fa.height + 1
	t := fa.time.Add(fa.BlockStep)
	if !fa.NextTime.IsZero() {
		t = fa.NextTime
	}
	out := FABlockResult{Height: h, Time: t}
	fa.bindGlobals()
	if fa.Broken {
		out.Err = fmt.Errorf("FullApp is broken by an earlier failed block; call Restart()")
		return out
	}
	var votes []abci.VoteInfo
	for _, v := range fa.vsPrev {
		flag := cmtproto.BlockIDFlagCommit
		if i := fa.valIdxByCons(v.addr); i >= 0 && fa.Absent[i] {
			flag = cmtproto.BlockIDFlagAbsent
		}
		votes = append(votes, abci.VoteInfo{Validator: abci.Validator{Address: v.addr, Power: v.power}, BlockIdFlag: flag})
	}
	hdr := fa.header(h, t)
	req := &abci.RequestFinalizeBlock{
		Height: h, Time: t, Txs: txs, ProposerAddress: hdr.ProposerAddress,
		DecidedLastCommit: abci.CommitInfo{Votes: votes}, Misbehavior: fa.NextMisbehavior,
		Hash: faBlockHash(fa.Opts.ChainID, h), NextValidatorsHash: faBlockHash("nextvals", h),
	}
	fa.NextMisbehavior = nil
	fa.hookErrs = nil
	var resp *abci.ResponseFinalizeBlock
	var err error
	out.Panic = faRecover(func() { resp, err = fa.app.FinalizeBlock(req) })
	out.HookErrs = fa.hookErrs
	fa.preHooks, fa.endHooks = nil, nil
	if out.Panic == "" && err == nil {
		out.Panic = faRecover(func() { _, err = fa.app.Commit() })
	}
	if out.Panic != "" || err != nil {
		out.Err = err
		if err == nil {
			out.Err = fmt.Errorf("panic in FinalizeBlock/Commit at height %d", h)
		}
		fa.Broken = true
		for range txs {
			out.Txs = append(out.Txs, FATxResult{Height: h, Panicked: true, BlockErr: out.Err.Error() + " " + out.Panic})
		}
		return out
	}
	out.Resp, out.AppHash = resp, resp.AppHash
	for _, r := range resp.TxResults {
		out.Txs = append(out.Txs, FATxResult{
			Height: h, Code: r.Code, Codespace: r.Codespace, Log: r.Log, Events: r.Events,
			GasWanted: r.GasWanted, GasUsed: r.GasUsed, Data: r.Data,
			Panicked: r.Codespace == "undefined" && r.Code == 111222,
		})
	}
	fa.height, fa.time, fa.NextTime = h, t, time.Time{}
	fa.vsPrev, fa.vsCur, fa.vsNext = fa.vsCur, fa.vsNext, faApplyUpdates(fa.vsNext, resp.ValidatorUpdates)
	fa.History = append(fa.History, FABlockInfo{
		Height: h, Time: t, AppHash: resp.AppHash, NumTxs: len(txs),
		ResultsHash: cmttypes.NewResults(resp.TxResults).Hash(),
	})
	return out
}

func faSameVals(a, b []faValidator) bool {
	if len(a) != len(b) {
		return false
	}
	for i := range a {
		if string(a[i].addr) != string(b[i].addr) || a[i].power != b[i].power {
			return false
		}
	}
	return true
}

func faBlockHash(tag string, h int64) []byte {
	s := sha256.Sum256([]byte(fmt.Sprintf("%s/%d", tag, h)))
	return s[:]
}

// NextBlock commits one empty block.
func (fa *FullApp) NextBlock() FABlockResult { return fa.runBlock(nil) }

// AdvanceBlocks commits n empty blocks; stops at (and returns) the first failing one.
func (fa *FullApp) AdvanceBlocks(n int) FABlockResult {
	var r FABlockResult
	for i := 0; i < n; i++ {
		if r = fa.NextBlock(); !r.OK() {
			return r
		}
	}
	return r
}

// AdvanceTo commits empty blocks until Height() == height.
func (fa *FullApp) AdvanceTo(height int64) FABlockResult {
	return fa.AdvanceBlocks(int(height - fa.height))
}

// WithDeliverCtx runs fn against the FinalizeBlock state of the next block (in a
// PreBlocker wrapper: after the app's own PreBlock, before BeginBlock), then
// finishes and commits that block.  fn runs on a cache context that is written
// only if fn returns nil and does not panic.  The returned error is fn's.
func (fa *FullApp) WithDeliverCtx(fn func(ctx sdk.Context) error) (FABlockResult, error) {
	fa.preHooks = append(fa.preHooks, fn)
	return fa.hookBlock()
}

// WithEndBlockCtx is WithDeliverCtx but fn runs after all module EndBlockers.
func (fa *FullApp) WithEndBlockCtx(fn func(ctx sdk.Context) error) (FABlockResult, error) {
	fa.endHooks = append(fa.endHooks, fn)
	return fa.hookBlock()
}

func (fa *FullApp) hookBlock() (FABlockResult, error) {
	b := fa.NextBlock()
	if !b.OK() {
		return b, fmt.Errorf("block failed: %v %s", b.Err, b.Panic)
	}
	if len(b.HookErrs) > 0 {
		return b, b.HookErrs[0]
	}
	return b, nil
}

// Restart builds a new app.New over the SAME database (as a node restart would)
// and continues from the last committed height.  Uncommitted state is dropped,
// which also clears Broken.
func (fa *FullApp) Restart() {
	fa.app = fa.newApp()
	fa.restarts++
	fa.Broken = false
	if got := fa.app.LastBlockHeight(); got != fa.height {
		fa.T.Fatalf("restart: app is at height %d, harness at %d", got, fa.height)
	}
}

// ---------------------------------------------------------------------------
// contexts and state inspection
// ---------------------------------------------------------------------------

func (fa *FullApp) App() *palomaapp.App { return fa.app }

// Ctx is an UNCACHED context on the root multistore with the header of the last
// committed block.  Use it for reads; writes made through it land in the working
// set and are committed with the next block (deliberate "god mode" only).
func (fa *FullApp) Ctx() sdk.Context {
	fa.bindGlobals()
	ctx := fa.app.BaseApp.NewUncachedContext(false, fa.header(fa.height, fa.time))
	return ctx.WithConsensusParams(fa.app.GetConsensusParams(ctx))
}

// CtxCached is Ctx() on a branched store: writes are discarded.
func (fa *FullApp) CtxCached() sdk.Context {
	ctx, _ := fa.Ctx().CacheContext()
	return ctx
}

func (fa *FullApp) AppHash() []byte         { return fa.History[fa.height].AppHash }
func (fa *FullApp) LastResultsHash() []byte { return fa.History[fa.height].ResultsHash }

func (fa *FullApp) kvKeys() map[string]*storetypes.KVStoreKey {
	out := map[string]*storetypes.KVStoreKey{}
	for name, k := range fa.app.CommitMultiStore().(*rootmulti.Store).StoreKeysByName() {
		if kv, ok := k.(*storetypes.KVStoreKey); ok {
			out[name] = kv
		}
	}
	return out
}

// DumpStore returns all key/value pairs of one persistent KV store in iteration order.
func (fa *FullApp) DumpStore(storeKey string) [][2][]byte {
	k := fa.kvKeys()[storeKey]
	if k == nil {
		return nil
	}
	it := fa.app.CommitMultiStore().GetKVStore(k).Iterator(nil, nil)
	defer it.Close()
	var out [][2][]byte
	for ; it.Valid(); it.Next() {
		out = append(out, [2][]byte{append([]byte(nil), it.Key()...), append([]byte(nil), it.Value()...)})
	}
	return out
}

// StoreDigest maps every persistent KV store name to hex(sha256) over its
// length-prefixed key/value pairs in iteration order.
func (fa *FullApp) StoreDigest() map[string]string {
	out := map[string]string{}
	for name := range fa.kvKeys() {
		h := sha256.New()
		for _, kv := range fa.DumpStore(name) {
			fmt.Fprintf(h, "%d:%d:", len(kv[0]), len(kv[1]))
			h.Write(kv[0])
			h.Write(kv[1])
		}
		out[name] = hex.EncodeToString(h.Sum(nil))
	}
	return out
}

// FADiffDigests lists the store names whose digests differ.
func FADiffDigests(a, b map[string]string) []string {
	var out []string
	for k, v := range a {
		if b[k] != v {
			out = append(out, k)
		}
	}
	for k := range b {
		if _, ok := a[k]; !ok {
			out = append(out, k)
		}
	}
	sort.Strings(out)
	return out
}

func (fa *FullApp) ValidatorOperator(i int) *FAAccount { return fa.Vals[i] }
func (fa *FullApp) User(i int) *FAAccount              { return fa.Users[i] }
func (fa *FullApp) ValAddr(i int) sdk.ValAddress       { return fa.Vals[i].ValAddr() }

func (fa *FullApp) Balance(addr sdk.AccAddress, denom string) sdkmath.Int {
	return fa.app.BankKeeper.GetBalance(fa.CtxCached(), addr, denom).Amount
}

func (fa *FullApp) Supply(denom string) sdkmath.Int {
	return fa.app.BankKeeper.GetSupply(fa.CtxCached(), denom).Amount
}

// ---------------------------------------------------------------------------
// transactions
// ---------------------------------------------------------------------------

// FAMeta builds paloma message metadata.
func FAMeta(creator sdk.AccAddress, signers ...sdk.AccAddress) valsettypes.MsgMetadata {
	m := valsettypes.MsgMetadata{Creator: creator.String()}
	for _, s := range signers {
		m.Signers = append(m.Signers, s.String())
	}
	return m
}

func (fa *FullApp) accNumSeq(addr sdk.AccAddress) (uint64, uint64) {
	acc := fa.app.AccountKeeper.GetAccount(fa.CtxCached(), addr)
	if acc == nil {
		return 0, 0
	}
	return acc.GetAccountNumber(), acc.GetSequence()
}

// BuildTx signs tx with SIGN_MODE_DIRECT and returns the encoded bytes.  pending
// (may be nil) counts txs already built for the same block per signer so that
// sequences increase within a block.
func (fa *FullApp) BuildTx(tx FATx, pending map[string]uint64) ([]byte, error) {
	cfg := fa.app.TxConfig()
	b := cfg.NewTxBuilder()
	if err := b.SetMsgs(tx.Msgs...); err != nil {
		return nil, err
	}
	gas := tx.Gas
	if gas == 0 {
		gas = fa.Opts.DefaultGas
	}
	b.SetGasLimit(gas)
	b.SetFeeAmount(tx.Fee)
	b.SetMemo(tx.Memo)
	b.SetTimeoutHeight(tx.TimeoutHeight)
	if tx.FeePayer != nil {
		b.SetFeePayer(tx.FeePayer)
	}
	if tx.FeeGranter != nil {
		b.SetFeeGranter(tx.FeeGranter)
	}
	n := len(tx.Signers)
	nums, seqs := make([]uint64, n), make([]uint64, n)
	sigs := make([]txsigning.SignatureV2, n)
	for i, s := range tx.Signers {
		nums[i], seqs[i] = fa.accNumSeq(s.Addr)
		if pending != nil {
			seqs[i] += pending[string(s.Addr)]
		}
		if len(tx.AccNums) == n {
			nums[i] = tx.AccNums[i]
		}
		if len(tx.Sequences) == n {
			seqs[i] = tx.Sequences[i]
		}
		sigs[i] = txsigning.SignatureV2{
			PubKey: s.Priv.PubKey(), Sequence: seqs[i],
			Data: &txsigning.SingleSignatureData{SignMode: txsigning.SignMode_SIGN_MODE_DIRECT},
		}
	}
	if err := b.SetSignatures(sigs...); err != nil {
		return nil, err
	}
	for i, s := range tx.Signers {
		sd := authsign.SignerData{
			Address: s.Addr.String(), ChainID: fa.Opts.ChainID,
			AccountNumber: nums[i], Sequence: seqs[i], PubKey: s.Priv.PubKey(),
		}
		bz, err := authsign.GetSignBytesAdapter(context.Background(), cfg.SignModeHandler(),
			txsigning.SignMode_SIGN_MODE_DIRECT, sd, b.GetTx())
		if err != nil {
			return nil, err
		}
		sig, err := s.Priv.Sign(bz)
		if err != nil {
			return nil, err
		}
		sigs[i].Data.(*txsigning.SingleSignatureData).Signature = sig
	}
	if err := b.SetSignatures(sigs...); err != nil {
		return nil, err
	}
	if pending != nil {
		for _, s := range tx.Signers {
			pending[string(s.Addr)]++
		}
	}
	return cfg.TxEncoder()(b.GetTx())
}

// DeliverRaw puts the given encoded txs (in order) into the next block.
func (fa *FullApp) DeliverRaw(txs ...[]byte) FABlockResult { return fa.runBlock(txs) }

// DeliverTxs signs and delivers several txs in ONE block.
func (fa *FullApp) DeliverTxs(txs ...FATx) FABlockResult {
	pending := map[string]uint64{}
	var raw [][]byte
	for i, tx := range txs {
		var bz []byte
		var err error
		if p := faRecover(func() { bz, err = fa.BuildTx(tx, pending) }); p != "" {
			err = fmt.Errorf("panic: %s", p)
		}
		if err != nil {
			return FABlockResult{Height: fa.height + 1, Err: fmt.Errorf("building tx %d: %w", i, err)}
		}
		raw = append(raw, bz)
	}
	return fa.runBlock(raw)
}

// DeliverTxAs delivers one tx, signed by exactly `signers`, as the only tx of
// the next block.  Message metadata is NOT touched.
func (fa *FullApp) DeliverTxAs(signers []*FAAccount, msgs ...sdk.Msg) FATxResult {
	return fa.DeliverOne(FATx{Msgs: msgs, Signers: signers})
}

// DeliverTx delivers one tx signed by signer.
func (fa *FullApp) DeliverTx(signer *FAAccount, msgs ...sdk.Msg) FATxResult {
	return fa.DeliverOne(FATx{Msgs: msgs, Signers: []*FAAccount{signer}})
}

// DeliverOne delivers one fully specified tx in its own block.
func (fa *FullApp) DeliverOne(tx FATx) FATxResult {
	b := fa.DeliverTxs(tx)
	if len(b.Txs) == 1 {
		return b.Txs[0]
	}
	return FATxResult{Height: b.Height, Panicked: b.Panic != "", BlockErr: fmt.Sprintf("%v %s", b.Err, b.Panic)}
}

// GrantFee delivers a real feegrant MsgGrantAllowance (unlimited BasicAllowance).
func (fa *FullApp) GrantFee(granter, grantee *FAAccount) FATxResult {
	msg, err := feegrant.NewMsgGrantAllowance(&feegrant.BasicAllowance{}, granter.Addr, grantee.Addr)
	if err != nil {
		return FATxResult{BlockErr: err.Error()}
	}
	return fa.DeliverTx(granter, msg)
}

// KeepAliveAll delivers one MsgKeepAlive per validator in one block (valid for
// 2000 blocks).  Without it valset's EndBlocker jails validators as "pigeon
// inactive" at the first height > 50 that is a multiple of 10.
func (fa *FullApp) KeepAliveAll() FABlockResult {
	var txs []FATx
	for _, v := range fa.Vals {
		txs = append(txs, FATx{Signers: []*FAAccount{v}, Msgs: []sdk.Msg{
			&valsettypes.MsgKeepAlive{PigeonVersion: FAPigeonVersion, Metadata: FAMeta(v.Addr, v.Addr)},
		}})
	}
	return fa.DeliverTxs(txs...)
}
