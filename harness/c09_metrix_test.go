//go:build verif

package harness

// C09, the relay-metrics module's end blocker ("… at every block height class (multiples of 10 …)").  x/metrix learns
// about relayed messages through its listener `OnConsensusMessageAttested` (called by the consensus and evm keepers when
// a message is attested) and, at every height divisible by 10, `AppModule.EndBlock` purges the records that have left
// the scoring window (1000 message ids below the highest id attested so far), re-scores every relayer and refreshes
// the uptime figures.  The module installs no recover: a panic in there is a block that cannot be finalised.
//
// The generator drives the REAL listener with chosen message ids - so a chain that has attested a few thousand (or
// 2^64-1) messages costs a handful of calls - and then the REAL `AppModule.EndBlock` at heights inside and outside the
// class.  Classes of validator history, relative to the window [top-1000, top]: none at all; wholly inside; wholly
// OLDER than the window (a relayer that was jailed / left / was never picked again); straddling it; exactly at its
// edge (threshold-1, threshold, threshold+1); ids out of order (attestation order is not id order; several queues share
// the id space); longer than the record cap (roll-over); a nonce cache below / at / just above the window size;
// validators that are not in the staking set any more; events with impossible block heights (ignored).  Message ids
// start at 1 (a nonce cache holding id 0 reads back as "nothing attested yet").
// Every listener call and every end block is also sent to the Lean model (`Metrix.record`, `Metrix.endBlock`,
// theorems metrix_end_block_never_panics, purge_one_spec, fully_outdated_history_is_emptied), whose outcome for the end
// blocker is never the panic.  Monitor block_never_aborts: `EndBlock` of the module did not come back.
// The same classes are then run once each through whole blocks of the full application (FinalizeBlock + Commit).

import (
	"fmt"
	"math/rand"
	"sort"
	"strings"
	"testing"

	sdkmath "cosmossdk.io/math"
	sdk "github.com/cosmos/cosmos-sdk/types"
	"github.com/palomachain/paloma/v2/x/metrix"
	metrixtypes "github.com/palomachain/paloma/v2/x/metrix/types"
)

const c09MetrixWindow = 1000

type c09MetrixEvent struct {
	val               int
	id                uint64
	assigned, handled int64
	ok                bool
}

// c09MetrixIDs: the message ids of one validator's relay history, for a chain whose highest attested id is top.
func c09MetrixIDs(rng *rand.Rand, class string, top uint64) []uint64 {
	thr := uint64(1)
	if top > c09MetrixWindow {
		thr = top - c09MetrixWindow
	}
	below := func() uint64 { // an id older than the window (or just small, when there is no window yet)
		if thr <= 1 {
			return uint64(1 + rng.Intn(3))
		}
		switch rng.Intn(4) {
		case 0:
			return thr - 1
		case 1:
			return uint64(1 + rng.Intn(3))
		}
		return 1 + uint64(rng.Int63n(int64(min(thr-1, 1<<40))))
	}
	inside := func() uint64 {
		switch rng.Intn(5) {
		case 0:
			return thr
		case 1:
			return top
		}
		return thr + uint64(rng.Int63n(int64(min(top-thr, 1<<40))+1))
	}
	var ids []uint64
	n := 1 + rng.Intn(5)
	switch class {
	case "none":
	case "old":
		for i := 0; i < n; i++ {
			ids = append(ids, below())
		}
		sort.Slice(ids, func(i, j int) bool { return ids[i] < ids[j] })
	case "inside":
		for i := 0; i < n; i++ {
			ids = append(ids, inside())
		}
		sort.Slice(ids, func(i, j int) bool { return ids[i] < ids[j] })
	case "straddle":
		for i := 0; i < n; i++ {
			ids = append(ids, below())
		}
		for i := 0; i < 1+rng.Intn(4); i++ {
			ids = append(ids, inside())
		}
		sort.Slice(ids, func(i, j int) bool { return ids[i] < ids[j] })
	case "edge":
		for _, d := range []int64{-2, -1, 0, 1, 2} {
			if x := int64(thr) + d; rng.Intn(3) != 0 && x >= 1 && thr < 1<<62 {
				ids = append(ids, uint64(x))
			}
		}
		if thr >= 1<<62 {
			ids = append(ids, thr-1, thr, thr+1)
		}
	case "unsorted":
		for i := 0; i < n+2; i++ {
			if rng.Intn(2) == 0 {
				ids = append(ids, below())
			} else {
				ids = append(ids, inside())
			}
		}
	case "long-old", "long-inside":
		start := thr
		if class == "long-old" {
			start = 1
			if thr > 400 {
				start = thr - 300
			}
		}
		for i := 0; i < 95+rng.Intn(40); i++ {
			ids = append(ids, start+uint64(i))
		}
	}
	return ids
}

var c09MetrixClasses = []string{"none", "old", "old", "inside", "straddle", "edge", "unsorted", "long-old", "long-inside"}

var c09MetrixTops = []uint64{3, 999, 1000, 1001, 1002, 1003, 1100, 1500, 2001, 50_000, 1 << 32, 1 << 63, 1<<64 - 2, 1<<64 - 1}

func c09U64s(ids []uint64) string {
	if len(ids) == 0 {
		return "-"
	}
	s := make([]string, len(ids))
	for i, x := range ids {
		s[i] = fmt.Sprint(x)
	}
	return strings.Join(s, ",")
}

func c09MetrixScenarios(t *testing.T, r *Rec) {
	rng := rand.New(rand.NewSource(r.Seed*104729 + 9))
	fa := NewFullApp(t, FullAppOpts{NumValidators: 4, NumUsers: 1, Seed: 700 + r.Seed%50})
	if b := fa.KeepAliveAll(); !b.OK() {
		t.Fatalf("c09 metrix: keep alive: %v %s", b.Err, b.Panic)
	}
	k := fa.App().MetrixKeeper
	mod := metrix.NewAppModule(fa.App().AppCodec(), k)
	// the relayers: the four validators and two accounts that are not (any more) in the staking set
	addrs := []sdk.ValAddress{fa.ValAddr(0), fa.ValAddr(1), fa.ValAddr(2), fa.ValAddr(3), sdk.ValAddress("c09-retired-relayer-1"), sdk.ValAddress("c09-retired-relayer-2")}
	idsOf := func(ctx sdk.Context, v int) []uint64 {
		h, err := k.GetValidatorHistory(ctx, addrs[v])
		if err != nil {
			t.Fatalf("c09 metrix: history: %v", err)
		}
		var ids []uint64
		if h != nil {
			for _, rec := range h.Records {
				ids = append(ids, rec.MessageId)
			}
		}
		return ids
	}
	cacheOf := func(ctx sdk.Context) string {
		c, err := k.GetMessageNonceCache(ctx)
		if err != nil {
			t.Fatalf("c09 metrix: nonce cache: %v", err)
		}
		if c == nil {
			return "-"
		}
		return fmt.Sprint(c.MessageId)
	}
	// relay: one call of the listener, compared with the model
	relay := func(ctx sdk.Context, ev c09MetrixEvent, hist *[]string) {
		line := fmt.Sprintf("relay %d %d %d %d %s %s", ctx.BlockHeight(), ev.assigned, ev.handled, ev.id, cacheOf(ctx), c09U64s(idsOf(ctx, ev.val)))
		*hist = append(*hist, fmt.Sprintf("height %d: message %d attested, relayer %d, assigned at %d, handled at %d, success %v", ctx.BlockHeight(), ev.id, ev.val, ev.assigned, ev.handled, ev.ok))
		escaped := ""
		func() {
			defer func() {
				if p := recover(); p != nil {
					escaped = fmt.Sprint(p)
				}
			}()
			k.OnConsensusMessageAttested(ctx, metrixtypes.MessageAttestedEvent{Assignee: addrs[ev.val], MessageID: ev.id, WasRelayedSuccessfully: ev.ok,
				AssignedAtBlockHeight: sdkmath.NewInt(ev.assigned), HandledAtBlockHeight: sdkmath.NewInt(ev.handled)})
		}()
		if escaped != "" {
			// the listener runs inside the attestation loop of the consensus end blocker
			r.Hit("block_never_aborts", "the relay-metrics listener called from the consensus end blocker panicked: "+escaped, map[string]interface{}{"history": append([]string{}, *hist...)})
			r.Op(line, "aborted")
			return
		}
		r.Op(line, cacheOf(ctx)+" "+c09U64s(idsOf(ctx, ev.val)))
	}
	// endBlock: the module's EndBlock at this height; false = it did not come back
	endBlock := func(ctx sdk.Context, vals []int, hist *[]string) bool {
		toks := []string{"endblock", "metrix", fmt.Sprint(ctx.BlockHeight()), cacheOf(ctx)}
		for _, v := range vals {
			toks = append(toks, c09U64s(idsOf(ctx, v)))
		}
		*hist = append(*hist, fmt.Sprintf("height %d: EndBlock of x/metrix (nonce cache %s)", ctx.BlockHeight(), toks[3]))
		escaped := ""
		func() {
			defer func() {
				if p := recover(); p != nil {
					escaped = fmt.Sprint(p)
				}
			}()
			if err := mod.EndBlock(ctx); err != nil {
				escaped = "error returned: " + err.Error()
			}
		}()
		if escaped != "" {
			r.Hit("block_never_aborts", "the relay-metrics module's EndBlock did not come back: "+escaped, map[string]interface{}{"history": append([]string{}, *hist...)})
			r.Op(strings.Join(toks, " "), "aborted")
			return false
		}
		out := []string{"returned"}
		for _, v := range vals {
			out = append(out, c09U64s(idsOf(ctx, v)))
		}
		r.Op(strings.Join(toks, " "), strings.Join(out, " "))
		if ctx.BlockHeight()%10 == 0 {
			r.Stat("metrix.endblock.mod10")
		} else {
			r.Stat("metrix.endblock.other")
		}
		return true
	}
	// the events of one case: per relayer a history of one class, interleaved; the chain's highest id somewhere among them
	events := func(rng *rand.Rand, top uint64, height int64, vals []int, classes []string) []c09MetrixEvent {
		per := make([][]uint64, len(vals))
		total := 0
		for i := range vals {
			per[i] = c09MetrixIDs(rng, classes[i], top)
			total += len(per[i])
		}
		var evs []c09MetrixEvent
		mk := func(v int, id uint64) c09MetrixEvent {
			a := height - 1 - int64(rng.Intn(60))
			ev := c09MetrixEvent{val: v, id: id, assigned: a, handled: a + int64(rng.Intn(int(height-a)+1)), ok: rng.Intn(4) != 0}
			switch rng.Intn(14) {
			case 0:
				ev.handled = ev.assigned - 1 - int64(rng.Intn(3)) // handled before it was assigned: ignored
			case 1:
				ev.handled = height + 1 + int64(rng.Intn(3)) // handled in the future: ignored
			}
			return ev
		}
		for total > 0 {
			i := rng.Intn(len(vals))
			if len(per[i]) == 0 {
				continue
			}
			evs = append(evs, mk(vals[i], per[i][0]))
			per[i] = per[i][1:]
			total--
		}
		return evs
	}
	nCases := 160
	for c := 0; c < nCases; c++ {
		ctx, _ := fa.Ctx().CacheContext()
		height := fa.Height() + 100 + int64(rng.Intn(5000))
		ctx = ctx.WithBlockHeight(height)
		top := c09MetrixTops[rng.Intn(len(c09MetrixTops))]
		if rng.Intn(5) == 0 {
			top = 1001 + uint64(rng.Intn(3000))
		}
		nv := 1 + rng.Intn(4)
		vals := rng.Perm(len(addrs))[:nv]
		classes := make([]string, nv)
		for i := range classes {
			classes[i] = c09MetrixClasses[rng.Intn(len(c09MetrixClasses))]
			r.Stat("metrix.class." + classes[i])
		}
		if top > c09MetrixWindow {
			r.Stat("metrix.top.above_window")
		} else {
			r.Stat("metrix.top.within_window")
		}
		var hist []string
		evs := events(rng, top, height, vals, classes)
		// the relayer that took the id counter to `top` (usually present)
		if rng.Intn(6) != 0 {
			at := len(evs)
			if rng.Intn(3) == 0 {
				at = rng.Intn(len(evs) + 1)
			}
			ev := c09MetrixEvent{val: vals[rng.Intn(nv)], id: top, assigned: height - 5, handled: height - 1, ok: true}
			evs = append(evs[:at], append([]c09MetrixEvent{ev}, evs[at:]...)...)
		}
		for _, ev := range evs {
			relay(ctx, ev, &hist)
		}
		// end blocks: the next multiple of 10, an ordinary height, the multiple after (a purge of a purged history),
		// with another relayed message in between now and then
		alive := true
		next := (height/10 + 1) * 10
		for _, h := range []int64{next - int64(1+rng.Intn(9)), next, next + int64(1+rng.Intn(9)), next + 10} {
			if !alive || h <= height-10 {
				continue
			}
			ctx = ctx.WithBlockHeight(h)
			if rng.Intn(4) == 0 {
				id := top
				if top < 1<<64-1 && rng.Intn(2) == 0 {
					id = top + 1 + uint64(rng.Intn(1500))
					if id < top {
						id = 1<<64 - 1
					}
				}
				relay(ctx, c09MetrixEvent{val: vals[rng.Intn(nv)], id: id, assigned: h - 2, handled: h, ok: true}, &hist)
			}
			alive = endBlock(ctx, vals, &hist)
		}
		r.Case(fmt.Sprint("c09metrix|", top, "|", strings.Join(classes, ","), "|", len(evs)), len(evs) > 0)
	}
	// the same classes through whole blocks of the application: the listener is fed in the deliver state of a block,
	// then the chain runs on over the next two heights divisible by 10
	for _, sc := range []struct {
		name    string
		top     uint64
		classes []string
	}{
		{"a relayer whose whole history is older than the scoring window", 1500, []string{"old", "inside"}},
		{"histories at the edge of the scoring window", 2001, []string{"edge", "straddle", "none"}},
		{"the id counter at its maximum", 1<<64 - 1, []string{"old", "unsorted", "long-old"}},
	} {
		if fa.Broken {
			fa.Restart()
		}
		var hist []string
		vals := rng.Perm(len(addrs))[:len(sc.classes)]
		b, err := fa.WithDeliverCtx(func(ctx sdk.Context) error {
			evs := events(rng, sc.top, ctx.BlockHeight(), vals, sc.classes)
			evs = append(evs, c09MetrixEvent{val: vals[len(vals)-1], id: sc.top, assigned: ctx.BlockHeight() - 1, handled: ctx.BlockHeight(), ok: true})
			for _, ev := range evs {
				relay(ctx, ev, &hist)
			}
			return nil
		})
		target := (fa.Height()/10+2)*10 + 1
		for b.OK() && err == nil && fa.Height() < target {
			r.Op(fmt.Sprintf("block %d 0", b.Height), "ok")
			b = fa.NextBlock()
		}
		if !b.OK() {
			r.Op(fmt.Sprintf("block %d 0", b.Height), "aborted")
			r.Hit("block_never_aborts", fmt.Sprintf("block %d aborted (%s): %v %s", b.Height, sc.name, b.Err, firstLines(b.Panic, 8)),
				map[string]interface{}{"scenario": sc.name, "history": hist, "seed": r.Seed})
			fa.Restart()
		} else if err != nil {
			t.Fatalf("c09 metrix: %s: %v", sc.name, err)
		} else {
			r.Op(fmt.Sprintf("block %d 0", b.Height), "ok")
		}
		r.Stat("scenario.metrix_blocks")
		r.Case("c09metrix-blocks|"+sc.name, true)
	}
}
