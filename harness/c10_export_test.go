//go:build verif

package harness

import (
	evmkeeper "github.com/palomachain/paloma/v2/x/evm/keeper"
)

// Uses x/evm/keeper/verif_export.go (build tag verif).  With this file
// TestC10 additionally calls transformSnapshotToCompass / isEnoughToReachConsensus directly and
// compares them with what the public entry points (GetValsetByID, PublishValsetToChain) showed.
func init() {
	c10DirectTransform = evmkeeper.VerifTransformSnapshotToCompass
	c10DirectEnough = evmkeeper.VerifIsEnoughToReachConsensus
	c10DirectThreshold = evmkeeper.VerifThresholdForConsensus
}
